(* C13 / C14 -- a whole rebuild on the filesystem (Model/RebuildRun.v): what it writes, what it
   leaves alone, that it settles, and that it completes. *)
From Coq Require Import List String Ascii Bool Arith Lia.
From TF Require Import Lib.Base Model.CopyPath Model.Rebuild Model.RebuildRun
                       Proofs.CopyPathProofs Proofs.RebuildMatch.
From TF Require Model.PathSafe Model.RebuildMeta Proofs.PathSafeProofs Proofs.RebuildMetaProofs.
Import ListNotations.
Open Scope nat_scope.
Open Scope list_scope.

(* ================================================================================================ *)
(** * 1. One copypath call (the interface to Model/CopyPath.v used below)                          *)
(* ================================================================================================ *)

Lemma is_dir_b_false_cases f t :
  is_dir_b f t = false -> t <> [] /\ (f t = None \/ exists old, f t = Some (File old)).
Proof.
  unfold is_dir_b. destruct t as [|x t]; [discriminate|]. cbn [lookup]. intros H.
  split; [discriminate|]. destruct (f (x :: t)) as [[old|]|]; [right; now exists old | discriminate | now left].
Qed.

Lemma is_dir_b_ne f t : t <> [] -> is_dir_b f t = match f t with Some Dir => true | _ => false end.
Proof. intros N. unfold is_dir_b. now rewrite lookup_ne. Qed.

(* copypath_changes, with the size test made visible: a target that is written was missing or held
   a strictly shorter file *)
Lemma step_cases dsize s t f p :
  copypath dsize s t f p = f p \/
  (p <> [] /\ proper_prefix p t /\ f p = None /\ copypath dsize s t f p = Some Dir) \/
  (exists data, p = t /\ lookup f s = Some (File data) /\ t <> s /\ is_dir_b f t = false /\
     copypath dsize s t f p = Some (File data) /\
     (f t = None \/ exists old, f t = Some (File old) /\ length old < length data)).
Proof.
  destruct (exists_b f t && (getsize dsize f s <=? getsize dsize f t)) eqn:G.
  { apply andb_true_iff in G as [E L]. apply Nat.leb_le in L. left. unfold copypath.
    now rewrite (copypath_full_length_untouched dsize s t f E L). }
  destruct (copypath_changes dsize s t f p)
    as [S | [(_ & (NE & PP & N) & D) | (data & LS & PS & PT & ND & W)]].
  - now left.
  - right; left. auto.
  - right; right. exists data. subst p. repeat split; auto.
    destruct (is_dir_b_false_cases f t ND) as [TN [FN | (old & FO)]]; [now left | right].
    exists old. split; [exact FO|].
    unfold exists_b, getsize in G. rewrite LS in G. rewrite (lookup_ne f t TN), FO in G. cbn in G.
    apply Nat.leb_gt in G. exact G.
Qed.

(* nothing is ever removed *)
Lemma step_none_back dsize s t f p : copypath dsize s t f p = None -> f p = None.
Proof.
  intros H. destruct (step_cases dsize s t f p) as [S | [(_ & _ & N & _) | (d & _ & _ & _ & _ & W & _)]];
  congruence.
Qed.

(* an existing file other than the target keeps its bytes *)
Lemma step_preserves_file dsize s t f q d :
  lookup f q = Some (File d) -> q <> t -> lookup (copypath dsize s t f) q = Some (File d).
Proof.
  intros L N. assert (QN : q <> []) by (intros ->; discriminate L).
  rewrite lookup_ne in * by exact QN.
  destruct (step_cases dsize s t f q) as [S | [(_ & _ & FN & _) | (d' & E & _)]]; congruence.
Qed.

(* an existing directory stays one *)
Lemma step_preserves_dir dsize s t f q :
  is_dir_b f q = true -> is_dir_b (copypath dsize s t f) q = true.
Proof.
  intros D. destruct q as [|x q]; [reflexivity|]. set (p := x :: q) in *.
  assert (PN : p <> []) by discriminate. rewrite is_dir_b_ne in * by exact PN.
  destruct (step_cases dsize s t f p) as [S | [(_ & _ & FN & _) | (d' & E & _ & _ & ND & _)]].
  - now rewrite S.
  - rewrite FN in D. discriminate.
  - subst t. rewrite is_dir_b_ne in ND by exact PN. congruence.
Qed.

(* the guard for a source that is a regular file *)
Lemma skip_test_file_source dsize s t f d :
  lookup f s = Some (File d) ->
  skip_test dsize s t f = is_dir_b f t || (exists_b f t && (length d <=? getsize dsize f t)).
Proof. intros L. unfold skip_test, exists_b at 1, getsize at 1. now rewrite L. Qed.

Lemma skip_copypath_run dsize s t f : skip_test dsize s t f = true -> copypath_run dsize s t f = Ok f.
Proof. intros T. unfold copypath_run. now rewrite T. Qed.

(* a call that returns leaves its own guard true: the same call again returns at once *)
Lemma copypath_ok_settled dsize s t f f1 :
  copypath_run dsize s t f = Ok f1 -> skip_test dsize s t f1 = true.
Proof.
  rewrite copypath_run_unfold. destruct (skip_test dsize s t f) eqn:T; [intros [= <-]; exact T|].
  destruct (skip_test_false _ _ _ _ T) as [ES ND].
  pose proof (ancestors_phase_dest t f) as AD.
  destruct (mkdir_loop [] (removelast t) f) as [f2|f2] eqn:M; [|discriminate]. cbn [fs_of] in AD.
  assert (ND2 : is_dir_b f2 t = false) by (now rewrite (is_dir_b_ext t f f2 AD)).
  destruct (shutil_copy_cases s t f2) as [C | (data & LS & NE & _ & _ & C)]; rewrite C; [discriminate|].
  intros [= <-]. rewrite (copy_target_not_dir f2 s t ND2) in *.
  assert (TN : t <> []) by (intros ->; discriminate ND2).
  set (g := upd f2 t (File data)).
  assert (GS : lookup g s = Some (File data)) by (unfold g; rewrite lookup_upd_other by exact NE; exact LS).
  assert (GD : lookup g t = Some (File data)) by (unfold g; now apply lookup_upd_same).
  unfold skip_test, exists_b, is_dir_b, getsize. rewrite GS, GD. cbn. now rewrite Nat.leb_refl.
Qed.

(* a call that raises, made again on what it left behind, raises again and changes nothing *)
Lemma copypath_raised_again dsize s t f f2 :
  copypath_run dsize s t f = Raised f2 -> copypath_run dsize s t f2 = Raised f2.
Proof.
  rewrite copypath_run_unfold. destruct (skip_test dsize s t f) eqn:T; [discriminate|].
  destruct (skip_test_false _ _ _ _ T) as [ES ND].
  pose proof (ancestors_phase_dest t f) as AD.
  pose proof (ancestors_phase_source t f s ES) as AS.
  pose proof (mkdir_loop_idem (removelast t) [] f) as IDEM.
  destruct (mkdir_loop [] (removelast t) f) as [g|g] eqn:M; cbn [fs_of] in *.
  - assert (T2 : skip_test dsize s t g = false) by (now rewrite (skip_test_ext dsize s t f g AS AD)).
    destruct (shutil_copy_cases s t g) as [C | (data & _ & _ & _ & _ & C)]; rewrite C; [|discriminate].
    intros [= <-]. now rewrite copypath_run_unfold, T2, IDEM, C.
  - intros [= <-].
    assert (T2 : skip_test dsize s t g = false) by (now rewrite (skip_test_ext dsize s t f g AS AD)).
    now rewrite copypath_run_unfold, T2, IDEM.
Qed.

(* a settled call stays settled when another call runs, as long as that call does not write the
   settled call's source *)
Lemma settled_preserved dsize s t s' t' f d :
  lookup f s = Some (File d) -> s <> t' ->
  skip_test dsize s t f = true -> skip_test dsize s t (copypath dsize s' t' f) = true.
Proof.
  intros LS NE T. set (g := copypath dsize s' t' f).
  assert (GS : lookup g s = Some (File d)) by (now apply step_preserves_file).
  rewrite (skip_test_file_source dsize s t f d LS) in T. rewrite (skip_test_file_source dsize s t g d GS).
  apply orb_true_iff in T as [D | T]; [apply orb_true_iff; left; now apply step_preserves_dir|].
  destruct (is_dir_b f t) eqn:D; [apply orb_true_iff; left; now apply step_preserves_dir|].
  apply andb_true_iff in T as [E L]. apply Nat.leb_le in L.
  destruct (is_dir_b_false_cases f t D) as [TN [FN | (old & FO)]].
  { unfold exists_b in E. rewrite lookup_ne, FN in E by exact TN. discriminate. }
  unfold getsize in L. rewrite lookup_ne, FO in L by exact TN. cbn [node_size] in L.
  apply orb_true_iff; right.
  destruct (step_cases dsize s' t' f t) as [S | [(_ & _ & FN & _) | (d' & E' & _ & _ & _ & W & [FN | (old' & FO' & Lt)])]];
  try congruence.
  - unfold exists_b, getsize. rewrite (lookup_ne g t TN). unfold g. rewrite S, FO. cbn [node_size].
    now apply Nat.leb_le in L as ->.
  - subst t'. unfold exists_b, getsize. rewrite (lookup_ne g t TN). unfold g. rewrite W. cbn [node_size].
    assert (O : old' = old) by congruence. subst old'.
    assert (X : length d <=? length d' = true) by (apply Nat.leb_le; lia). now rewrite X.
Qed.

(* when no ancestor of the target is a file and the source is a regular file other than the target,
   the call does not raise *)
Lemma mkdir_loop_no_raise parts : forall root f,
  is_dir_b f root = true ->
  (forall k, 1 <= k <= length parts -> f (root ++ firstn k parts) = None \/ f (root ++ firstn k parts) = Some Dir) ->
  exists f1, mkdir_loop root parts f = Ok f1 /\ is_dir_b f1 (root ++ parts) = true.
Proof.
  induction parts as [|part rest IH]; intros root f DR A.
  - exists f. split; [reflexivity|]. now rewrite app_nil_r.
  - cbn [mkdir_loop]. set (q := root ++ [part]).
    assert (QN : q <> []) by apply snoc_not_nil.
    assert (AQ : f q = None \/ f q = Some Dir) by (apply (A 1); cbn [length]; lia).
    assert (PQ : parent q = root) by (unfold parent, q; apply removelast_last).
    assert (R : forall g, is_dir_b g q = true ->
                (forall k, 1 <= k <= length rest -> g (q ++ firstn k rest) = f (q ++ firstn k rest)) ->
                exists f1, mkdir_loop q rest g = Ok f1 /\ is_dir_b f1 (root ++ part :: rest) = true).
    { intros g DQ Same. destruct (IH q g DQ) as (f1 & M & D1).
      - intros k Hk. rewrite (Same k Hk). unfold q. rewrite <- app_assoc. apply (A (S k)). cbn [length]. lia.
      - exists f1. split; [exact M|]. unfold q in D1. now rewrite <- app_assoc in D1. }
    destruct (ensure_dir_cases q f) as [(E & ->) | [(E & D & ->) | (E & D & _)]].
    + apply R; [|reflexivity]. rewrite is_dir_b_ne by exact QN.
      unfold exists_b in E. rewrite lookup_ne in E by exact QN. destruct AQ as [N | ->]; [|reflexivity].
      rewrite N in E. discriminate.
    + apply R.
      * rewrite is_dir_b_ne by exact QN. now rewrite upd_same.
      * intros k Hk. apply upd_other. intros X. apply (f_equal (@length _)) in X.
        rewrite app_length, firstn_length in X. destruct k; [lia|]. destruct rest; cbn in *; lia.
    + rewrite PQ in D. congruence.
Qed.

Lemma firstn_prefix_of_removelast (t : path) k :
  1 <= k <= length (removelast t) -> firstn k (removelast t) <> [] /\ proper_prefix (firstn k (removelast t)) t.
Proof. apply firstn_removelast_prefix. Qed.

Lemma copypath_no_raise dsize s t f data :
  lookup f s = Some (File data) -> s <> t ->
  (forall p, p <> [] -> proper_prefix p t -> f p = None \/ f p = Some Dir) ->
  exists f1, copypath_run dsize s t f = Ok f1.
Proof.
  intros LS NE A. rewrite copypath_run_unfold.
  destruct (skip_test dsize s t f) eqn:T; [now exists f|].
  destruct (skip_test_false _ _ _ _ T) as [ES ND].
  pose proof (ancestors_phase_dest t f) as AD.
  pose proof (ancestors_phase_source t f s ES) as AS.
  destruct (mkdir_loop_no_raise (removelast t) [] f) as (f2 & M & DP); [reflexivity | |].
  { intros k Hk. cbn [app]. destruct (firstn_prefix_of_removelast t k Hk) as [N PP]. now apply A. }
  rewrite M in *. cbn [fs_of app] in *.
  assert (ND2 : is_dir_b f2 t = false) by (now rewrite (is_dir_b_ext t f f2 AD)).
  unfold shutil_copy. rewrite (copy_target_not_dir f2 s t ND2). rewrite AS, LS.
  rewrite (path_eqb_neq _ _ NE), ND2. unfold parent. rewrite DP. eauto.
Qed.

(* ================================================================================================ *)
(** * 2. A sequence of calls                                                                        *)
(* ================================================================================================ *)

Definition sources_ok (f : fs) (st : list (path * path)) : Prop :=
  forall s t, In (s, t) st -> exists data, lookup f s = Some (File data).

(* no call's source is some call's target *)
Definition no_clash (st : list (path * path)) : Prop :=
  forall s t s' t', In (s, t) st -> In (s', t') st -> s <> t'.

Lemma sources_ok_tail f s t st : sources_ok f ((s, t) :: st) -> sources_ok f st.
Proof. intros H a b I. apply (H a b). now right. Qed.

Lemma no_clash_tail s t st : no_clash ((s, t) :: st) -> no_clash st.
Proof. intros H a b a' b' I I'. apply (H a b a' b'); now right. Qed.

Lemma sources_ok_step dsize s t f st :
  sources_ok f ((s, t) :: st) -> no_clash ((s, t) :: st) -> sources_ok (copypath dsize s t f) st.
Proof.
  intros SO NC a b I. destruct (SO a b) as [d L]; [now right|]. exists d.
  apply step_preserves_file; [exact L|]. apply (NC a b s t); [now right | now left].
Qed.

Lemma run_steps_cons dsize s t st f :
  run_steps dsize ((s, t) :: st) f =
  match copypath_run dsize s t f with Ok f1 => run_steps dsize st f1 | Raised f1 => Raised f1 end.
Proof. reflexivity. Qed.

(* the run's filesystem after the first call is the run of the rest on copypath's filesystem, or --
   when the first call raises -- copypath's filesystem *)
Lemma run_steps_head dsize s t st f :
  (exists f1, copypath_run dsize s t f = Ok f1 /\ f1 = copypath dsize s t f /\
              run_steps dsize ((s, t) :: st) f = run_steps dsize st f1) \/
  (copypath_run dsize s t f = Raised (copypath dsize s t f) /\
   run_steps dsize ((s, t) :: st) f = Raised (copypath dsize s t f)).
Proof.
  rewrite run_steps_cons. unfold copypath. destruct (copypath_run dsize s t f) as [f1|f1]; cbn [fs_of].
  - left. exists f1. auto.
  - right. auto.
Qed.

(** ** What a run can change: a complete description *)
Theorem run_steps_changes dsize : forall st f, sources_ok f st -> no_clash st -> forall p,
  let f' := fs_of (run_steps dsize st f) in
  f' p = f p \/
  (p <> [] /\ f p = None /\ f' p = Some Dir /\ exists s t, In (s, t) st /\ proper_prefix p t) \/
  (exists s t data, In (s, t) st /\ p = t /\ lookup f s = Some (File data) /\
     f' p = Some (File data) /\ is_dir_b f t = false /\
     (f t = None \/ exists old, f t = Some (File old) /\ length old < length data)).
Proof.
  induction st as [|[s t] st IH]; intros f SO NC p; cbv zeta; [now left|].
  assert (HEAD : forall q, let f1 := copypath dsize s t f in
            f1 q = f q \/
            (q <> [] /\ f q = None /\ f1 q = Some Dir /\ exists s0 t0, In (s0, t0) ((s, t) :: st) /\ proper_prefix q t0) \/
            (exists s0 t0 data, In (s0, t0) ((s, t) :: st) /\ q = t0 /\ lookup f s0 = Some (File data) /\
               f1 q = Some (File data) /\ is_dir_b f t0 = false /\
               (f t0 = None \/ exists old, f t0 = Some (File old) /\ length old < length data))).
  { intros q. cbv zeta.
    destruct (step_cases dsize s t f q) as [S | [(QN & PP & FN & D) | (data & E & LS & _ & ND & W & Old)]].
    - now left.
    - right; left. repeat split; auto. exists s, t. split; [now left | exact PP].
    - right; right. exists s, t, data. repeat split; auto. now left. }
  destruct (run_steps_head dsize s t st f) as [(f1 & _ & E1 & ->) | (_ & ->)]; [|apply HEAD].
  assert (SO1 : sources_ok f1 st) by (rewrite E1; now apply sources_ok_step).
  pose proof (no_clash_tail _ _ _ NC) as NC1.
  destruct (IH f1 SO1 NC1 p) as [S | [(PN & N1 & D & s0 & t0 & I0 & PP) | (s0 & t0 & data & I0 & E & LS & W & ND & Old)]].
  - rewrite S, E1. apply HEAD.
  - right; left. repeat split; auto; [apply (step_none_back dsize s t f); now rewrite <- E1|].
    exists s0, t0. split; [now right | exact PP].
  - right; right. exists s0, t0, data. subst p. split; [now right|]. split; [reflexivity|].
    destruct (SO s0 t0) as [d0 L0]; [now right|].
    assert (NE : s0 <> t) by (apply (NC s0 t0 s t); [now right | now left]).
    pose proof (step_preserves_file dsize s t f s0 d0 L0 NE) as L1. rewrite <- E1 in L1.
    assert (d0 = data) by congruence. subst d0.
    split; [exact L0|]. split; [exact W|].
    destruct (is_dir_b_false_cases f1 t0 ND) as [TN _].
    destruct (step_cases dsize s t f t0) as [S | [(_ & _ & FN & D) | (d' & E' & LS' & _ & ND' & W' & Old')]];
    rewrite <- E1 in *.
    + split; [rewrite is_dir_b_ne in * by exact TN; now rewrite <- S|]. now rewrite <- S.
    + rewrite is_dir_b_ne, D in ND by exact TN. discriminate.
    + subst t0. split; [exact ND'|]. destruct Old as [N1 | (old & O1 & Lt)]; [congruence|].
      assert (old = d') by congruence. subst old.
      destruct Old' as [N0 | (old0 & O0 & Lt0)]; [now left | right]. exists old0. split; [exact O0 | lia].
Qed.

(** ** Sources, existing directories, files of full length and everything that is not on the way
    to a target are left alone *)
Theorem run_steps_source_untouched dsize st f : sources_ok f st -> no_clash st ->
  forall s t, In (s, t) st -> fs_of (run_steps dsize st f) s = f s.
Proof.
  intros SO NC s t I. destruct (SO s t I) as [d L].
  assert (SN : s <> []) by (intros ->; discriminate L). rewrite lookup_ne in L by exact SN.
  destruct (run_steps_changes dsize st f SO NC s) as [S | [(_ & N & _) | (s0 & t0 & d0 & I0 & E & _)]].
  - exact S.
  - congruence.
  - exfalso. apply (NC s t s0 t0 I I0 E).
Qed.

Theorem run_steps_changes_lead_to_targets dsize st f : sources_ok f st -> no_clash st ->
  forall p, fs_of (run_steps dsize st f) p <> f p -> exists s t, In (s, t) st /\ prefix p t.
Proof.
  intros SO NC p N.
  destruct (run_steps_changes dsize st f SO NC p) as [S | [(_ & _ & _ & s & t & I & (r & _ & E)) | (s & t & d & I & E & _)]].
  - contradiction.
  - exists s, t. split; [exact I | now exists r].
  - exists s, t. split; [exact I|]. exists []. now rewrite app_nil_r.
Qed.

Theorem run_steps_existing_dir_stays dsize st f : sources_ok f st -> no_clash st ->
  forall p, f p = Some Dir -> fs_of (run_steps dsize st f) p = Some Dir.
Proof.
  intros SO NC p D.
  destruct (run_steps_changes dsize st f SO NC p) as [S | [(_ & N & _) | (s & t & d & _ & E & _ & _ & ND & _)]].
  - congruence.
  - congruence.
  - subst t. destruct (is_dir_b_false_cases f p ND) as [_ [N | (old & O)]]; congruence.
Qed.

(* a file that is at least as long as every source aimed at it keeps its bytes *)
Theorem run_steps_full_length_untouched dsize st f : sources_ok f st -> no_clash st ->
  forall p old, f p = Some (File old) ->
  (forall s data, In (s, p) st -> lookup f s = Some (File data) -> length data <= length old) ->
  fs_of (run_steps dsize st f) p = Some (File old).
Proof.
  intros SO NC p old O Le.
  destruct (run_steps_changes dsize st f SO NC p) as [S | [(_ & N & _) | (s & t & d & I & E & LS & _ & _ & Old)]].
  - congruence.
  - congruence.
  - subst t. destruct Old as [N | (old' & O' & Lt)]; [congruence|].
    assert (old' = old) by congruence. subst old'. pose proof (Le s d I LS). lia.
Qed.

(* the sources are still in place after any part of the run *)
Lemma run_steps_sources_ok dsize st f : sources_ok f st -> no_clash st ->
  sources_ok (fs_of (run_steps dsize st f)) st.
Proof.
  intros SO NC s t I. destruct (SO s t I) as [d L]. exists d.
  assert (SN : s <> []) by (intros ->; discriminate L). rewrite lookup_ne in * by exact SN.
  now rewrite (run_steps_source_untouched dsize st f SO NC s t I).
Qed.

(** ** Settling: after a run every executed call's guard is true, and stays true *)
Lemma run_preserves_settled dsize s t d : forall st f,
  lookup f s = Some (File d) -> (forall s' t', In (s', t') st -> s <> t') ->
  skip_test dsize s t f = true ->
  skip_test dsize s t (fs_of (run_steps dsize st f)) = true /\
  lookup (fs_of (run_steps dsize st f)) s = Some (File d).
Proof.
  induction st as [|[s' t'] st IH]; intros f L NT T; [split; assumption|].
  assert (NE : s <> t') by (apply (NT s' t'); now left).
  pose proof (settled_preserved dsize s t s' t' f d L NE T) as T1.
  pose proof (step_preserves_file dsize s' t' f s d L NE) as L1.
  destruct (run_steps_head dsize s' t' st f) as [(f1 & _ & E1 & ->) | (_ & ->)]; [|split; assumption].
  subst f1. apply IH; [exact L1 | | exact T1]. intros a b I. apply (NT a b). now right.
Qed.

Lemma run_all_settled dsize : forall st g,
  (forall s t, In (s, t) st -> skip_test dsize s t g = true) -> run_steps dsize st g = Ok g.
Proof.
  induction st as [|[s t] st IH]; intros g A; [reflexivity|].
  rewrite run_steps_cons, (skip_copypath_run dsize s t g) by (apply A; now left).
  apply IH. intros a b I. apply A. now right.
Qed.

Lemma run_steps_again dsize : forall st f, sources_ok f st -> no_clash st ->
  match run_steps dsize st f with
  | Ok f' => forall s t, In (s, t) st -> skip_test dsize s t f' = true
  | Raised f' => run_steps dsize st f' = Raised f'
  end.
Proof.
  induction st as [|[s t] st IH]; intros f SO NC; [intros s t []|].
  pose proof (no_clash_tail _ _ _ NC) as NC1.
  pose proof (sources_ok_step dsize s t f st SO NC) as SO1.
  destruct (SO s t) as [d L]; [now left|].
  assert (NT : forall s' t', In (s', t') st -> s <> t') by (intros a b I; apply (NC s t a b); [now left | now right]).
  destruct (run_steps_head dsize s t st f) as [(f1 & R1 & E1 & ->) | (R1 & ->)].
  - pose proof (copypath_ok_settled dsize s t f f1 R1) as T1.
    assert (L1 : lookup f1 s = Some (File d)).
    { subst f1. destruct (step_cases dsize s t f s) as [S | [(SN & _ & FN & _) | (d' & E & _ & X & _)]].
      - assert (SN : s <> []) by (intros ->; discriminate L). rewrite lookup_ne in * by exact SN. congruence.
      - rewrite lookup_ne, FN in L by exact SN. discriminate.
      - congruence. }
    destruct (run_preserves_settled dsize s t d st f1 L1 NT T1) as [T' L'].
    subst f1. specialize (IH _ SO1 NC1).
    destruct (run_steps dsize st (copypath dsize s t f)) as [f'|f'] eqn:R; cbn [fs_of] in *.
    + intros a b [[= <- <-] | I]; [exact T' | now apply IH].
    + now rewrite run_steps_cons, (skip_copypath_run dsize s t f' T').
  - rewrite run_steps_cons. now rewrite (copypath_raised_again dsize s t f _ R1).
Qed.

(** ** Idempotence: the same calls again, on what the run left behind, change nothing -- and end
    the same way (return, or raise at the same call) *)
Theorem run_steps_idempotent dsize st f : sources_ok f st -> no_clash st ->
  run_steps dsize st (fs_of (run_steps dsize st f)) = run_steps dsize st f.
Proof.
  intros SO NC. pose proof (run_steps_again dsize st f SO NC) as A.
  destruct (run_steps dsize st f) as [f'|f']; cbn [fs_of]; [now apply run_all_settled | exact A].
Qed.

(* every executed call of a run that returned has its target in place: a directory that was there
   before, or a file at least as long as the call's source *)
Theorem run_steps_targets_present dsize st f f' : sources_ok f st -> no_clash st ->
  run_steps dsize st f = Ok f' ->
  forall s t, In (s, t) st -> lookup f' t <> None.
Proof.
  intros SO NC R s t I. pose proof (run_steps_again dsize st f SO NC) as A. rewrite R in A.
  specialize (A s t I). destruct (SO s t I) as [d L].
  assert (L' : lookup f' s = Some (File d)).
  { pose proof (run_steps_sources_ok dsize st f SO NC s t I) as [d' L'']. rewrite R in L''. cbn [fs_of] in L''.
    assert (SN : s <> []) by (intros ->; discriminate L). pose proof (run_steps_source_untouched dsize st f SO NC s t I) as U.
    rewrite R in U. cbn [fs_of] in U. rewrite lookup_ne in * by exact SN. congruence. }
  rewrite (skip_test_file_source dsize s t f' d L') in A. unfold is_dir_b, exists_b in A.
  destruct (lookup f' t); [discriminate | discriminate A].
Qed.

(** ** No raise, and completeness *)

(* every ancestor of every target is missing or a directory *)
Definition anc_ok (f : fs) (st : list (path * path)) : Prop :=
  forall s t p, In (s, t) st -> p <> [] -> proper_prefix p t -> f p = None \/ f p = Some Dir.

(* no target lies under another target *)
Definition targets_consistent (st : list (path * path)) : Prop :=
  forall s t s' t', In (s, t) st -> In (s', t') st -> ~ proper_prefix t t'.

Lemma anc_ok_step dsize s t f st :
  anc_ok f ((s, t) :: st) -> targets_consistent ((s, t) :: st) -> anc_ok (copypath dsize s t f) st.
Proof.
  intros A TC a b p I PN PP.
  destruct (step_cases dsize s t f p) as [S | [(_ & _ & _ & D) | (d & E & _)]].
  - rewrite S. apply (A a b p); [now right | exact PN | exact PP].
  - now right.
  - subst p. exfalso. apply (TC s t a b); [now left | now right | exact PP].
Qed.

Theorem run_steps_no_raise dsize : forall st f,
  sources_ok f st -> no_clash st -> anc_ok f st -> targets_consistent st ->
  exists f', run_steps dsize st f = Ok f'.
Proof.
  induction st as [|[s t] st IH]; intros f SO NC A TC; [now exists f|].
  destruct (SO s t) as [d L]; [now left|].
  assert (NE : s <> t) by (apply (NC s t s t); now left).
  destruct (copypath_no_raise dsize s t f d L NE) as [f1 R1].
  { intros p PN PP. apply (A s t p); [now left | exact PN | exact PP]. }
  destruct (run_steps_head dsize s t st f) as [(f1' & R1' & E1 & ->) | (R1' & _)]; [|congruence].
  subst f1'. apply IH.
  - now apply sources_ok_step.
  - now apply no_clash_tail in NC.
  - now apply anc_ok_step.
  - intros a b a' b' I I'. apply (TC a b a' b'); now right.
Qed.

(* in a run that returned, a target that was missing, or held a file shorter than the call's
   source, holds afterwards the bytes of a source that was aimed at it, at least as long as this
   call's source *)
Theorem run_steps_complete dsize st f f' :
  sources_ok f st -> no_clash st -> targets_consistent st -> run_steps dsize st f = Ok f' ->
  forall s t data, In (s, t) st -> t <> [] -> lookup f s = Some (File data) ->
  (f t = None \/ exists old, f t = Some (File old) /\ length old < length data) ->
  exists s' data', In (s', t) st /\ lookup f s' = Some (File data') /\ f' t = Some (File data') /\
                   length data <= length data'.
Proof.
  intros SO NC TC R s t data I TN L Old.
  pose proof (run_steps_again dsize st f SO NC) as ST. rewrite R in ST. specialize (ST s t I).
  assert (L' : lookup f' s = Some (File data)).
  { assert (SN : s <> []) by (intros ->; discriminate L).
    pose proof (run_steps_source_untouched dsize st f SO NC s t I) as U. rewrite R in U. cbn [fs_of] in U.
    rewrite lookup_ne in * by exact SN. congruence. }
  rewrite (skip_test_file_source dsize s t f' data L') in ST.
  pose proof (run_steps_changes dsize st f SO NC t) as C. rewrite R in C. cbn [fs_of] in C.
  destruct C as [S | [(_ & _ & D & s0 & t0 & I0 & PP) | (s0 & t0 & d0 & I0 & E & LS0 & W & _ & _)]].
  - exfalso. unfold is_dir_b, exists_b, getsize in ST. rewrite lookup_ne in ST by exact TN. rewrite S in ST.
    destruct Old as [N | (old & O & Lt)].
    + rewrite N in ST. discriminate.
    + rewrite O in ST. cbn in ST. apply Nat.leb_le in ST. lia.
  - exfalso. apply (TC s t s0 t0 I I0 PP).
  - subst t0. exists s0, d0. repeat split; auto.
    unfold is_dir_b, exists_b, getsize in ST. rewrite lookup_ne in ST by exact TN. rewrite W in ST. cbn in ST.
    now apply Nat.leb_le.
Qed.

(* ================================================================================================ *)
(** * 3. The recorded calls of a rebuild, executed below a destination                              *)
(* ================================================================================================ *)

(** ** Path arithmetic *)
Lemma prefix_refl (p : path) : prefix p p.
Proof. exists []. now rewrite app_nil_r. Qed.

Lemma prefix_app (d r : path) : prefix d (d ++ r).
Proof. now exists r. Qed.

Lemma proper_prefix_prefix (p l : path) : proper_prefix p l -> prefix p l.
Proof. intros (r & _ & E). now exists r. Qed.

(* what leads to a path below dest is below dest itself or a proper ancestor of dest *)
Lemma prefix_of_target (d r p : path) : prefix p (d ++ r) -> prefix d p \/ proper_prefix p d.
Proof.
  intros (x & E). apply app_eq_app in E as (l & [(E1 & E2) | (E1 & E2)]).
  - destruct l as [|a l]; [left; rewrite app_nil_r in E1; subst; apply prefix_refl | right].
    exists (a :: l). split; [discriminate | exact E1].
  - left. now exists l.
Qed.

Lemma proper_prefix_app_inv (d a b : path) : proper_prefix (d ++ a) (d ++ b) -> proper_prefix a b.
Proof.
  intros (r & N & E). rewrite <- app_assoc in E. apply app_inv_head in E. now exists r.
Qed.

Lemma join_parts_relative dest full :
  PathSafe.starts_with_slash full = false -> join_parts dest full = dest ++ parts_of full.
Proof. intros H. unfold join_parts. now rewrite H. Qed.

(** ** The trace against the filemap *)
Definition trace_relative (trace : list copy) : Prop :=
  forall l full, In (l, full) trace -> PathSafe.starts_with_slash full = false.

Definition trace_indexed (fm : filemap) (trace : list copy) : Prop :=
  forall l full, In (l, full) trace -> exists name data, indexed fm name (l, data).

Lemma in_resolved dest trace s t :
  In (s, t) (map (resolve_copy dest) trace) ->
  exists l full, In (l, full) trace /\ s = parts_of l /\ t = join_parts dest full.
Proof.
  intros I. apply in_map_iff in I as ([l full] & E & I). unfold resolve_copy in E. cbn [fst snd] in E.
  injection E as <- <-. now exists l, full.
Qed.

Lemma resolved_in dest trace l full :
  In (l, full) trace -> In (parts_of l, join_parts dest full) (map (resolve_copy dest) trace).
Proof. intros I. apply in_map_iff. exists (l, full). split; [reflexivity | exact I]. Qed.

Section Trace.
Variable dsize : nat.
Variable fm : filemap.
Variable dest : path.
Variable f : fs.
Hypothesis REFL : filemap_reflects f fm.
Hypothesis DISJ : dest_disjoint dest fm.

Lemma trace_sources_ok trace : trace_indexed fm trace -> sources_ok f (map (resolve_copy dest) trace).
Proof.
  intros TI s t I. apply in_resolved in I as (l & full & I & -> & _).
  destruct (TI l full I) as (name & data & X). exists data. now apply (REFL name l data).
Qed.

Lemma trace_no_clash trace : trace_indexed fm trace -> trace_relative trace ->
  no_clash (map (resolve_copy dest) trace).
Proof.
  intros TI TR s t s' t' I I' E.
  apply in_resolved in I as (l & full & I & -> & _). apply in_resolved in I' as (l' & full' & I' & _ & ->).
  destruct (TI l full I) as (name & data & X). apply (DISJ name l data X).
  rewrite E, (join_parts_relative dest full' (TR l' full' I')). apply prefix_app.
Qed.

(* everything a run changes: the targets, written with candidates' bytes, and new ancestor
   directories of targets *)
Theorem run_copies_changes trace : trace_indexed fm trace -> trace_relative trace -> forall p,
  let f' := run_copies dsize dest trace f in
  f' p = f p \/
  (p <> [] /\ f p = None /\ f' p = Some Dir /\
   exists l full, In (l, full) trace /\ proper_prefix p (dest ++ parts_of full)) \/
  (exists l full name data, In (l, full) trace /\ p = dest ++ parts_of full /\ indexed fm name (l, data) /\
     f' p = Some (File data) /\ (f p = None \/ exists old, f p = Some (File old) /\ length old < length data)).
Proof.
  intros TI TR p. cbv zeta. unfold run_copies, run_copies_run.
  destruct (run_steps_changes dsize _ f (trace_sources_ok trace TI) (trace_no_clash trace TI TR) p)
    as [S | [(PN & N & D & s & t & I & PP) | (s & t & data & I & E & LS & W & _ & Old)]].
  - now left.
  - right; left. apply in_resolved in I as (l & full & I & -> & ->).
    rewrite (join_parts_relative dest full (TR l full I)) in PP. repeat split; auto. now exists l, full.
  - right; right. apply in_resolved in I as (l & full & I & -> & ->).
    rewrite (join_parts_relative dest full (TR l full I)) in *.
    destruct (TI l full I) as (name & data' & X). destruct (REFL name l data' X) as [L _].
    assert (data' = data) by congruence. subst data'. subst p. exists l, full, name, data. repeat split; auto.
Qed.

(* every candidate -- copied or not -- keeps its bytes *)
Theorem run_copies_candidates_untouched trace : trace_indexed fm trace -> trace_relative trace ->
  forall name l data, indexed fm name (l, data) ->
  run_copies dsize dest trace f (parts_of l) = f (parts_of l).
Proof.
  intros TI TR name l data X. destruct (REFL name l data X) as [L _].
  assert (SN : parts_of l <> []) by (intros E; rewrite E in L; discriminate L).
  rewrite lookup_ne in L by exact SN.
  destruct (run_copies_changes trace TI TR (parts_of l)) as [S | [(_ & N & _) | (l' & full & _ & _ & _ & E & _)]].
  - exact S.
  - congruence.
  - exfalso. apply (DISJ name l data X). rewrite E. apply prefix_app.
Qed.

(* every change is inside dest, or is a missing ancestor directory of dest that was created *)
Theorem run_copies_changes_inside trace : trace_indexed fm trace -> trace_relative trace ->
  forall p, run_copies dsize dest trace f p <> f p ->
  prefix dest p \/ (proper_prefix p dest /\ f p = None /\ run_copies dsize dest trace f p = Some Dir).
Proof.
  intros TI TR p N.
  destruct (run_copies_changes trace TI TR p) as [S | [(_ & FN & D & l & full & _ & PP) | (l & full & _ & _ & _ & E & _)]].
  - contradiction.
  - destruct (prefix_of_target dest _ p (proper_prefix_prefix _ _ PP)) as [P | P]; [now left | right; auto].
  - left. subst p. apply prefix_app.
Qed.

(* ... so whatever exists outside dest -- the search directories, the metafiles, anything else --
   is exactly as it was *)
Corollary run_copies_existing_outside_untouched trace : trace_indexed fm trace -> trace_relative trace ->
  forall p, f p <> None -> ~ prefix dest p -> run_copies dsize dest trace f p = f p.
Proof.
  intros TI TR p E NP. destruct (run_copies_changes trace TI TR p) as [S | [(_ & FN & _) | (l & full & _ & _ & _ & E' & _)]].
  - exact S.
  - contradiction.
  - exfalso. apply NP. subst p. apply prefix_app.
Qed.

Theorem run_copies_reflects trace : trace_indexed fm trace -> trace_relative trace ->
  filemap_reflects (run_copies dsize dest trace f) fm.
Proof.
  intros TI TR name l data X. destruct (REFL name l data X) as [L Bn]. split; [|exact Bn].
  assert (SN : parts_of l <> []) by (intros E; rewrite E in L; discriminate L).
  rewrite lookup_ne in * by exact SN. now rewrite (run_copies_candidates_untouched trace TI TR name l data X).
Qed.

(* the justification of "run the matcher, then run the copies": whatever part of the trace has been
   executed, every candidate still holds the bytes the matcher saw *)
Theorem run_prefix_reflects trace done rest : trace = done ++ rest ->
  trace_indexed fm trace -> trace_relative trace ->
  filemap_reflects (run_copies dsize dest done f) fm.
Proof.
  intros -> TI TR. apply run_copies_reflects.
  - intros l full I. apply (TI l full). apply in_or_app. now left.
  - intros l full I. apply (TR l full). apply in_or_app. now left.
Qed.

Theorem run_copies_existing_dir_stays trace : trace_indexed fm trace -> trace_relative trace ->
  forall p, f p = Some Dir -> run_copies dsize dest trace f p = Some Dir.
Proof.
  intros TI TR. apply run_steps_existing_dir_stays; [now apply trace_sources_ok | now apply trace_no_clash].
Qed.

Theorem run_copies_idempotent trace : trace_indexed fm trace -> trace_relative trace ->
  run_copies_run dsize dest trace (run_copies dsize dest trace f) = run_copies_run dsize dest trace f.
Proof.
  intros TI TR. apply run_steps_idempotent; [now apply trace_sources_ok | now apply trace_no_clash].
Qed.

Theorem run_copies_targets_present trace f' : trace_indexed fm trace -> trace_relative trace ->
  run_copies_run dsize dest trace f = Ok f' ->
  forall l full, In (l, full) trace -> lookup f' (join_parts dest full) <> None.
Proof.
  intros TI TR R l full I.
  apply (run_steps_targets_present dsize _ f f' (trace_sources_ok trace TI) (trace_no_clash trace TI TR) R (parts_of l)).
  now apply resolved_in.
Qed.

End Trace.

(* two traces one after the other are one trace *)
Lemma run_steps_app dsize : forall a b f,
  run_steps dsize (a ++ b) f =
  match run_steps dsize a f with Ok f1 => run_steps dsize b f1 | Raised f1 => Raised f1 end.
Proof.
  induction a as [|[s t] a IH]; intros b f; [reflexivity|].
  cbn [app]. rewrite !run_steps_cons. destruct (copypath_run dsize s t f); [apply IH | reflexivity].
Qed.

Lemma run_copies_run_app dsize dest a b f :
  run_copies_run dsize dest (a ++ b) f =
  match run_copies_run dsize dest a f with Ok f1 => run_copies_run dsize dest b f1 | Raised f1 => Raised f1 end.
Proof. unfold run_copies_run. rewrite map_app. apply run_steps_app. Qed.

(* ================================================================================================ *)
(** * 4. The v2 / hybrid route on the filesystem                                                    *)
(* ================================================================================================ *)
Module RM := RebuildMeta.
Module RMP := RebuildMetaProofs.

(* an entry as Metadata.extract lets it through: at least one component, every component validated *)
Definition entry_valid (e : RM.entry) : Prop := RM.e_full e <> [] /\ Forall RMP.safe (RM.e_full e).

(* where the metafile places the entry: destination / components of entry["full"] *)
Definition target (dest : path) (e : RM.entry) : path := dest ++ map RM.text (RM.e_full e).

Lemma filter_plain cs : Forall (fun c => PathSafe.safe_comp c = true) cs -> filter plain_name cs = cs.
Proof.
  induction 1 as [|c cs Hc _ IH]; [reflexivity|]. cbn [filter].
  apply RMP.safe_comp_parts in Hc as (E & D & _ & _).
  assert (P : plain_name c = true).
  { unfold plain_name. change (String.eqb c "" = false) in E. change (String.eqb c "." = false) in D. now rewrite E, D. }
  now rewrite P, IH.
Qed.

(* the text handed to os.path.join is relative and has exactly the validated components as parts *)
Lemma entry_parts e : entry_valid e ->
  PathSafe.starts_with_slash (RM.full_text e) = false /\ parts_of (RM.full_text e) = map RM.text (RM.e_full e).
Proof.
  intros [NE S]. set (cs := map RM.text (RM.e_full e)).
  assert (NE' : cs <> []) by (unfold cs; destruct (RM.e_full e); [contradiction | discriminate]).
  pose proof (RMP.safe_texts _ S) as F. fold cs in F.
  assert (NA : PathSafe.starts_with_slash (RM.full_text e) = false) by (apply (RMP.concat_not_absolute cs NE' F)).
  split; [exact NA|]. unfold parts_of. rewrite NA.
  change (RM.full_text e) with (String.concat RMP.sep cs). rewrite RMP.split_concat; [now apply filter_plain | exact NE' |].
  eapply Forall_impl; [|exact F]. intros c Hc. now apply RMP.safe_comp_parts in Hc.
Qed.

Lemma entry_target dest e : entry_valid e -> join_parts dest (RM.full_text e) = target dest e.
Proof. intros V. destruct (entry_parts e V) as [NA P]. rewrite (join_parts_relative _ _ NA), P. reflexivity. Qed.

Lemma target_not_nil dest e : entry_valid e -> target dest e <> [].
Proof.
  intros [NE _] E. unfold target in E. apply app_eq_nil in E as [_ E]. destruct (RM.e_full e); [contradiction | discriminate].
Qed.

(* every entry of every metafile Metadata(path) accepts is of this kind *)
Theorem extract_entries_valid meta x : RM.extract meta = Some x -> Forall entry_valid (RM.x_files x).
Proof.
  intros H. apply RMP.extract_validates_everything in H as (_ & F).
  eapply Forall_impl; [|exact F]. intros e (S & (rest & E) & _). split; [rewrite E; discriminate | exact S].
Qed.

Lemma text_inj a b : RM.text a = RM.text b -> a = b.
Proof. intros E. rewrite <- (RMP.list_ascii_of_text a), <- (RMP.list_ascii_of_text b). now rewrite E. Qed.

Lemma map_text_inj : forall a b, map RM.text a = map RM.text b -> a = b.
Proof.
  induction a as [|x a IH]; intros [|y b] E; try discriminate; [reflexivity|].
  injection E as E1 E2. now rewrite (text_inj _ _ E1), (IH _ E2).
Qed.

Lemma target_inj dest e e' : target dest e' = target dest e -> RM.e_full e' = RM.e_full e.
Proof. unfold target. intros E. apply app_inv_head in E. now apply map_text_inj. Qed.

Section V2.
Variable H256 : bytes -> bytes.
Variable B : nat.
Hypothesis HB : 0 < B.
Variable k pl : nat.
Hypothesis Hpl : pl = B * 2 ^ k.
Variable dsize : nat.
Variable fm : filemap.
Variable dest : path.
Variable entries : list RM.entry.
Hypothesis VALID : Forall entry_valid entries.

Notation trace := (v2_trace H256 B pl fm entries).
Notation verified := (RMP.verified H256 B).

Lemma v2_trace_spec l full : In (l, full) trace ->
  exists e data, In e entries /\ full = RM.full_text e /\
                 indexed fm (RM.text (RM.e_filename e)) (l, data) /\ verified e (l, data).
Proof.
  intros I. destruct (RMP.match_v2_sound H256 B HB k pl Hpl fm entries l full I) as (e & cands & data & Ie & E & L & Ic & V).
  exists e, data. split; [exact Ie|]. split; [exact E|]. split; [now exists cands | exact V].
Qed.

Lemma v2_trace_indexed : trace_indexed fm trace.
Proof. intros l full I. destruct (v2_trace_spec l full I) as (e & data & _ & _ & X & _). eauto. Qed.

Lemma v2_trace_relative : trace_relative trace.
Proof.
  intros l full I. destruct (v2_trace_spec l full I) as (e & data & Ie & -> & _).
  pose proof (proj1 (Forall_forall _ _) VALID) as VALID'. now apply entry_parts, VALID'.
Qed.

Section OnFs.
Variable f : fs.
Hypothesis REFL : filemap_reflects f fm.
Hypothesis DISJ : dest_disjoint dest fm.

Notation f' := (rebuild_v2_fs dsize H256 B pl fm dest entries f).

(** C14: everything a v2 rebuild changes.  A path whose content is different afterwards is
    - the place the metafile assigns to a listed entry, now holding the bytes of a search-directory
      file that is indexed under (and named like) the entry's file name, has exactly the recorded
      length and the recorded BEP 52 root; the place was empty or held a strictly shorter file; or
    - a directory that did not exist, on the way to such a place. *)
Theorem rebuild_v2_writes_are_verified_copies : forall p, f' p <> f p ->
  (exists e l data, In e entries /\ p = target dest e /\
      indexed fm (RM.text (RM.e_filename e)) (l, data) /\ verified e (l, data) /\
      basename (parts_of l) = RM.text (RM.e_filename e) /\ lookup f (parts_of l) = Some (File data) /\
      f' p = Some (File data) /\
      (f p = None \/ exists old, f p = Some (File old) /\ length old < length data)) \/
  (p <> [] /\ f p = None /\ f' p = Some Dir /\ exists e, In e entries /\ proper_prefix p (target dest e)).
Proof.
  intros p N. pose proof (proj1 (Forall_forall _ _) VALID) as VALID'.
  destruct (run_copies_changes dsize fm dest f REFL DISJ trace v2_trace_indexed v2_trace_relative p)
    as [S | [(PN & FN & D & l & full & I & PP) | (l & full & name & data & I & E & X & W & Old)]].
  - contradiction.
  - right. destruct (v2_trace_spec l full I) as (e & data & Ie & -> & _).
    destruct (entry_parts e (VALID' e Ie)) as [_ P]. rewrite P in PP. repeat split; auto. now exists e.
  - left. destruct (v2_trace_spec l full I) as (e & data' & Ie & -> & X' & V).
    destruct (REFL _ l data X) as [L _]. destruct (REFL _ l data' X') as [L' Bn].
    assert (data' = data) by congruence. subst data'.
    destruct (entry_parts e (VALID' e Ie)) as [_ P]. rewrite P in E.
    exists e, l, data. split; [exact Ie|]. split; [exact E|]. split; [exact X'|]. split; [exact V|].
    split; [exact Bn|]. split; [exact L|]. split; [exact W | exact Old].
Qed.

(** C14: no candidate (copied or not) changes; nothing outside the destination changes except that
    missing ancestor directories of the destination are created; in particular every metafile and
    every file under a search directory is as it was *)
Theorem rebuild_v2_candidates_untouched : forall name l data, indexed fm name (l, data) ->
  f' (parts_of l) = f (parts_of l).
Proof. apply (run_copies_candidates_untouched dsize fm dest f REFL DISJ trace v2_trace_indexed v2_trace_relative). Qed.

Theorem rebuild_v2_changes_inside_dest : forall p, f' p <> f p ->
  prefix dest p \/ (proper_prefix p dest /\ f p = None /\ f' p = Some Dir).
Proof. apply (run_copies_changes_inside dsize fm dest f REFL DISJ trace v2_trace_indexed v2_trace_relative). Qed.

Theorem rebuild_v2_existing_outside_untouched : forall p, f p <> None -> ~ prefix dest p -> f' p = f p.
Proof. apply (run_copies_existing_outside_untouched dsize fm dest f REFL DISJ trace v2_trace_indexed v2_trace_relative). Qed.

(** C14: a destination file that has at least the recorded length of every entry placed there is
    not altered; a directory standing there is not altered either *)
Theorem rebuild_v2_full_length_untouched : forall p old, f p = Some (File old) ->
  (forall e, In e entries -> p = target dest e -> (RM.e_length e <= Z.of_nat (length old))%Z) ->
  f' p = Some (File old).
Proof.
  intros p old O Le. pose proof (proj1 (Forall_forall _ _) VALID) as VALID'.
  apply (run_steps_full_length_untouched dsize _ f
           (trace_sources_ok fm dest f REFL trace v2_trace_indexed)
           (trace_no_clash fm dest DISJ trace v2_trace_indexed v2_trace_relative) p old O).
  intros s data I LS. apply in_resolved in I as (l & full & I & -> & Et).
  destruct (v2_trace_spec l full I) as (e & data' & Ie & -> & X & (Len & _)). cbn [snd] in Len.
  destruct (REFL _ l data' X) as [LS' _]. assert (data' = data) by congruence. subst data'.
  rewrite (entry_target dest e (VALID' e Ie)) in Et. pose proof (Le e Ie Et). lia.
Qed.

Theorem rebuild_v2_existing_dir_stays : forall p, f p = Some Dir -> f' p = Some Dir.
Proof. apply (run_copies_existing_dir_stays dsize fm dest f REFL DISJ trace v2_trace_indexed v2_trace_relative). Qed.

(** C14: after the run the filemap still describes the filesystem, so a second rebuild makes the
    same calls -- and they change nothing (and end the same way) *)
Theorem rebuild_v2_reflects_after : filemap_reflects f' fm.
Proof. apply (run_copies_reflects dsize fm dest f REFL DISJ trace v2_trace_indexed v2_trace_relative). Qed.

Theorem rebuild_v2_idempotent :
  rebuild_v2_run dsize H256 B pl fm dest entries f' = rebuild_v2_run dsize H256 B pl fm dest entries f.
Proof. apply (run_copies_idempotent dsize fm dest f REFL DISJ trace v2_trace_indexed v2_trace_relative). Qed.

Corollary rebuild_v2_idempotent_fs : forall p,
  rebuild_v2_fs dsize H256 B pl fm dest entries f' p = f' p.
Proof. intros p. unfold rebuild_v2_fs at 1. now rewrite rebuild_v2_idempotent. Qed.

(** C13: every (source, dest_path) pair reported to the callback is present afterwards *)
Theorem rebuild_v2_counted_are_present : forall g, rebuild_v2_run dsize H256 B pl fm dest entries f = Ok g ->
  forall s t, In (s, t) (v2_reported H256 B pl fm dest entries) -> lookup g t <> None /\ lookup g s = lookup f s.
Proof.
  intros g R s t I. unfold v2_reported in I. apply in_resolved in I as (l & full & I & -> & ->). split.
  - apply (run_copies_targets_present dsize fm dest f REFL DISJ trace g v2_trace_indexed v2_trace_relative R l full I).
  - destruct (v2_trace_indexed l full I) as (name & data & X).
    pose proof (rebuild_v2_candidates_untouched name l data X) as U. unfold rebuild_v2_fs in U. rewrite R in U. cbn [fs_of] in U.
    destruct (REFL name l data X) as [L _].
    assert (SN : parts_of l <> []) by (intros E; rewrite E in L; discriminate L).
    now rewrite !lookup_ne by exact SN.
Qed.

(** C13: completeness *)

(* nothing that is not a directory stands on the way to an assigned place *)
Definition way_free : Prop :=
  forall e p, In e entries -> p <> [] -> proper_prefix p (target dest e) -> f p = None \/ f p = Some Dir.

(* no assigned place lies under another assigned place *)
Definition entries_consistent : Prop :=
  forall e e', In e entries -> In e' entries ->
               ~ proper_prefix (map RM.text (RM.e_full e)) (map RM.text (RM.e_full e')).

Lemma v2_anc_ok : way_free -> anc_ok f (map (resolve_copy dest) trace).
Proof.
  intros WF s t p I PN PP. apply in_resolved in I as (l & full & I & -> & ->).
  destruct (v2_trace_spec l full I) as (e & data & Ie & -> & _). pose proof (proj1 (Forall_forall _ _) VALID) as VALID'.
  rewrite (entry_target dest e (VALID' e Ie)) in PP. now apply (WF e p Ie).
Qed.

Lemma v2_targets_consistent : entries_consistent -> targets_consistent (map (resolve_copy dest) trace).
Proof.
  intros EC s t s' t' I I' PP. pose proof (proj1 (Forall_forall _ _) VALID) as VALID'.
  apply in_resolved in I as (l & full & I & _ & ->). apply in_resolved in I' as (l' & full' & I' & _ & ->).
  destruct (v2_trace_spec l full I) as (e & data & Ie & -> & _).
  destruct (v2_trace_spec l' full' I') as (e' & data' & Ie' & -> & _).
  rewrite (entry_target dest e (VALID' e Ie)), (entry_target dest e' (VALID' e' Ie')) in PP.
  apply proper_prefix_app_inv in PP. now apply (EC e e' Ie Ie').
Qed.

Theorem rebuild_v2_no_raise : way_free -> entries_consistent ->
  exists g, rebuild_v2_run dsize H256 B pl fm dest entries f = Ok g.
Proof.
  intros WF EC. apply run_steps_no_raise.
  - apply (trace_sources_ok fm dest f REFL trace v2_trace_indexed).
  - apply (trace_no_clash fm dest DISJ trace v2_trace_indexed v2_trace_relative).
  - now apply v2_anc_ok.
  - now apply v2_targets_consistent.
Qed.

(* an entry for which some indexed candidate verifies, and whose place is empty or holds a shorter
   file, has afterwards at its place the bytes of a candidate that verifies for an entry with that
   place *)
Theorem rebuild_v2_complete : entries_consistent ->
  forall g, rebuild_v2_run dsize H256 B pl fm dest entries f = Ok g ->
  forall e c, In e entries -> indexed fm (RM.text (RM.e_filename e)) c -> verified e c ->
  (f (target dest e) = None \/
   exists old, f (target dest e) = Some (File old) /\ (Z.of_nat (length old) < RM.e_length e)%Z) ->
  exists e' l' data', In e' entries /\ RM.e_full e' = RM.e_full e /\
    indexed fm (RM.text (RM.e_filename e')) (l', data') /\ verified e' (l', data') /\
    g (target dest e) = Some (File data').
Proof.
  intros EC g R e c Ie (cands & L & Ic) V Old. pose proof (proj1 (Forall_forall _ _) VALID) as VALID'.
  destruct (RMP.match_v2_complete H256 B HB k pl Hpl fm entries e cands c Ie L Ic V)
    as (pre & l & content & post & Ecands & _ & V1 & _ & It).
  assert (X1 : indexed fm (RM.text (RM.e_filename e)) (l, content)).
  { exists cands. split; [exact L|]. rewrite Ecands. apply in_or_app. right. now left. }
  destruct (REFL _ l content X1) as [LS _].
  pose proof (resolved_in dest trace l _ It) as Is. rewrite (entry_target dest e (VALID' e Ie)) in Is.
  destruct V1 as [Len _]. cbn [snd] in Len.
  destruct (run_steps_complete dsize _ f g
              (trace_sources_ok fm dest f REFL trace v2_trace_indexed)
              (trace_no_clash fm dest DISJ trace v2_trace_indexed v2_trace_relative)
              (v2_targets_consistent EC) R (parts_of l) (target dest e) content Is
              (target_not_nil dest e (VALID' e Ie)) LS)
    as (s' & data' & Is' & LS' & W & _).
  { destruct Old as [N | (old & O & Lt)]; [now left | right]. exists old. split; [exact O | lia]. }
  apply in_resolved in Is' as (l' & full' & I' & -> & Et).
  destruct (v2_trace_spec l' full' I') as (e' & data'' & Ie' & -> & X' & V').
  destruct (REFL _ l' data'' X') as [LS'' _]. assert (data'' = data') by congruence. subst data''.
  rewrite (entry_target dest e' (VALID' e' Ie')) in Et. symmetry in Et.
  exists e', l', data'. repeat split; auto; [now apply (target_inj dest) | apply V' | apply V'].
Qed.

(** C13 (C13_v2_complete on the filesystem): if no two entries share a place, nothing but
    directories stands on the way, and for every entry some indexed candidate verifies, then the run
    returns and EVERY entry whose place was empty (or held a shorter file) has there a file that is
    indexed under its name and has its recorded length and BEP 52 root -- and if all candidates that
    verify for the entry carry the bytes d (an intact copy is available and the root is collision
    free on the candidates), the place holds exactly d *)
Theorem rebuild_v2_restores : way_free -> entries_consistent ->
  (forall e e', In e entries -> In e' entries -> RM.e_full e' = RM.e_full e -> e' = e) ->
  exists g, rebuild_v2_run dsize H256 B pl fm dest entries f = Ok g /\
  forall e, In e entries ->
    (exists c, indexed fm (RM.text (RM.e_filename e)) c /\ verified e c) ->
    (f (target dest e) = None \/
     exists old, f (target dest e) = Some (File old) /\ (Z.of_nat (length old) < RM.e_length e)%Z) ->
    (exists l data, indexed fm (RM.text (RM.e_filename e)) (l, data) /\ verified e (l, data) /\
                    g (target dest e) = Some (File data)) /\
    (forall d, (forall c, indexed fm (RM.text (RM.e_filename e)) c -> verified e c -> snd c = d) ->
               g (target dest e) = Some (File d)).
Proof.
  intros WF EC UQ. destruct (rebuild_v2_no_raise WF EC) as [g R]. exists g. split; [exact R|].
  intros e Ie (c & X & V) Old.
  destruct (rebuild_v2_complete EC g R e c Ie X V Old) as (e' & l' & data' & Ie' & Ef & X' & V' & W).
  assert (e' = e) by (now apply UQ). subst e'. split.
  - now exists l', data'.
  - intros d A. rewrite W. now rewrite <- (A (l', data') X' V').
Qed.

End OnFs.
End V2.

(* ================================================================================================ *)
(** * 5. The v1 route on the filesystem                                                             *)
(* ================================================================================================ *)

Lemma choice_copies_combine : forall paths chosen l full, In (l, full) (choice_copies paths chosen) ->
  exists pn c, In (pn, c) (combine paths chosen) /\ full = pn_full pn /\ l = fst c.
Proof.
  induction paths as [|pn paths IH]; intros [|c chosen] l full I; cbn [choice_copies combine In] in *; try contradiction.
  destruct I as [[= <- <-] | I].
  - exists pn, c. split; [now left | split; reflexivity].
  - destruct (IH chosen l full I) as (pn' & c' & I' & E). exists pn', c'. split; [now right | exact E].
Qed.

Lemma valid_choice_combine fm paths chosen : valid_choice fm paths chosen ->
  forall pn c, In (pn, c) (combine paths chosen) -> is_candidate fm pn c /\ In pn paths.
Proof.
  induction 1 as [|pn0 c0 paths chosen Hc _ IH]; intros pn c I; [destruct I|].
  cbn [combine In] in I. destruct I as [[= <- <-] | I]; [split; [exact Hc | now left]|].
  destruct (IH pn c I) as [A B]. split; [exact A | now right].
Qed.

Lemma is_candidate_indexed fm pn c : is_candidate fm pn c ->
  indexed fm (pn_filename pn) c /\ length (snd c) = pn_length pn.
Proof. intros (cands & L & I & Len). split; [now exists cands | exact Len]. Qed.

(* every recorded call of _match_v1 was made by a piece search that succeeded *)
Lemma match_v1_trace_origin H1 fm : forall nodes outs copied trace x,
  match_v1 H1 fm nodes = (outs, copied, trace) -> In x trace ->
  exists piece paths copies, In (piece, paths) nodes /\
    find_matches H1 fm piece paths = (true, copies) /\ In x copies.
Proof.
  unfold match_v1. intros nodes outs copied trace x.
  assert (G : forall nodes copied0 trace0 outs copied trace,
    match_v1_loop H1 fm nodes copied0 trace0 = (outs, copied, trace) ->
    In x trace -> In x trace0 \/
    exists piece paths copies, In (piece, paths) nodes /\
      find_matches H1 fm piece paths = (true, copies) /\ In x copies).
  { clear. induction nodes as [|[piece paths] nodes IH]; intros copied0 trace0 outs copied trace R I.
    - cbn [match_v1_loop] in R. injection R as <- <- <-. now left.
    - cbn [match_v1_loop] in R. destruct (v1_skip paths copied0).
      + destruct (match_v1_loop H1 fm nodes copied0 trace0) as [[os c] t] eqn:Erec.
        injection R as <- <- <-.
        destruct (IH _ _ _ _ _ Erec I) as [Hl | (p & ps & cs & Hn & Hr)]; [now left | right].
        exists p, ps, cs. split; [now right | exact Hr].
      + destruct (find_matches H1 fm piece paths) as [ok copies] eqn:Efm.
        destruct (match_v1_loop H1 fm nodes (if ok then v1_mark paths copied0 else copied0) (trace0 ++ copies))
          as [[os c] t] eqn:Erec.
        injection R as <- <- <-.
        destruct (IH _ _ _ _ _ Erec I) as [Hl | (p & ps & cs & Hn & Hr)].
        * apply in_app_or in Hl as [Hl | Hl]; [now left | right]. destruct ok.
          -- exists piece, paths, copies. split; [now left | split; [exact Efm | exact Hl]].
          -- rewrite (find_matches_failure_no_copies H1 fm piece paths copies Efm) in Hl. destruct Hl.
        * right. exists p, ps, cs. split; [now right | exact Hr]. }
  intros R I. destruct (G _ _ _ _ _ _ R I) as [[] | Hr]. exact Hr.
Qed.

Section V1.
Variable H1 : bytes -> bytes.
Variable dsize : nat.
Variable fm : filemap.
Variable dest : path.
Variable nodes : list (bytes * list pathnode).

(* every `full` is a relative text (Metadata.extract builds it from validated components) *)
Definition nodes_relative : Prop :=
  forall piece paths pn, In (piece, paths) nodes -> In pn paths ->
                         PathSafe.starts_with_slash (pn_full pn) = false.
Hypothesis RELN : nodes_relative.

Notation trace := (v1_trace H1 fm nodes).

(* the call copypath(l, dest/pn.full) was made for the candidate (l, data) chosen at path node pn in
   a choice -- one candidate per path node of a recorded piece -- whose selected bytes hash to the
   recorded digest of that piece *)
Definition v1_justified (l : loc) (pn : pathnode) (data : bytes) : Prop :=
  exists piece paths chosen, In (piece, paths) nodes /\ valid_choice fm paths chosen /\
    H1 (choice_bytes paths chosen) = piece /\ In (pn, (l, data)) (combine paths chosen) /\
    In pn paths /\ indexed fm (pn_filename pn) (l, data) /\ length data = pn_length pn.

Lemma v1_trace_spec l full : In (l, full) trace -> exists pn data, full = pn_full pn /\ v1_justified l pn data.
Proof.
  unfold v1_trace. destruct (match_v1 H1 fm nodes) as [[outs copied] tr] eqn:M. cbn [snd]. intros I.
  destruct (match_v1_trace_origin H1 fm nodes outs copied tr (l, full) M I) as (piece & paths & copies & In_ & FM & Ic).
  destruct (find_matches_sound H1 fm piece paths copies FM) as (chosen & Hv & Hh & Hc & _ & _).
  rewrite Hc, <- in_rev in Ic. destruct (choice_copies_combine paths chosen l full Ic) as (pn & [l' data] & Icb & Ef & El).
  cbn [fst] in El. subst l'. destruct (valid_choice_combine fm paths chosen Hv pn (l, data) Icb) as [Cand Ip].
  destruct (is_candidate_indexed fm pn (l, data) Cand) as [X Len]. cbn [snd] in Len.
  exists pn, data. split; [exact Ef|]. exists piece, paths, chosen. repeat split; auto.
Qed.

Lemma v1_justified_facts l pn data : v1_justified l pn data ->
  (exists piece paths, In (piece, paths) nodes /\ In pn paths) /\
  indexed fm (pn_filename pn) (l, data) /\ length data = pn_length pn.
Proof. intros (piece & paths & chosen & In_ & _ & _ & _ & Ip & X & Len). split; [now exists piece, paths | auto]. Qed.

Lemma v1_trace_indexed : trace_indexed fm trace.
Proof.
  intros l full I. destruct (v1_trace_spec l full I) as (pn & data & _ & J).
  apply v1_justified_facts in J as (_ & X & _). eauto.
Qed.

Lemma v1_trace_relative : trace_relative trace.
Proof.
  intros l full I. destruct (v1_trace_spec l full I) as (pn & data & -> & J).
  apply v1_justified_facts in J as ((piece & paths & In_ & Ip) & _). now apply (RELN piece paths pn).
Qed.

Section OnFs.
Variable f : fs.
Hypothesis REFL : filemap_reflects f fm.
Hypothesis DISJ : dest_disjoint dest fm.

Notation f' := (rebuild_v1_fs dsize H1 fm dest nodes f).

(** C14: everything a v1 rebuild changes.  A path whose content is different afterwards is
    - the place of a listed file (path node pn), now holding the bytes of a search-directory file
      that is indexed under (and named like) the file's name, has exactly the recorded length, and
      took part in a choice of candidates that verifies a recorded piece; the place was empty or
      held a strictly shorter file; or
    - a directory that did not exist, on the way to such a place. *)
Theorem rebuild_v1_writes_are_verified_copies : forall p, f' p <> f p ->
  (exists l pn data, v1_justified l pn data /\ p = dest ++ parts_of (pn_full pn) /\
      basename (parts_of l) = pn_filename pn /\ length data = pn_length pn /\
      lookup f (parts_of l) = Some (File data) /\ f' p = Some (File data) /\
      (f p = None \/ exists old, f p = Some (File old) /\ length old < length data)) \/
  (p <> [] /\ f p = None /\ f' p = Some Dir /\
   exists piece paths pn, In (piece, paths) nodes /\ In pn paths /\ proper_prefix p (dest ++ parts_of (pn_full pn))).
Proof.
  intros p N.
  destruct (run_copies_changes dsize fm dest f REFL DISJ trace v1_trace_indexed v1_trace_relative p)
    as [S | [(PN & FN & D & l & full & I & PP) | (l & full & name & data & I & E & X & W & Old)]].
  - contradiction.
  - right. destruct (v1_trace_spec l full I) as (pn & data & -> & J).
    apply v1_justified_facts in J as ((piece & paths & In_ & Ip) & _).
    repeat split; auto. now exists piece, paths, pn.
  - left. destruct (v1_trace_spec l full I) as (pn & data' & -> & J).
    destruct (v1_justified_facts l pn data' J) as (_ & X' & Len).
    destruct (REFL _ l data X) as [L _]. destruct (REFL _ l data' X') as [L' Bn].
    assert (data' = data) by congruence. subst data'.
    exists l, pn, data. split; [exact J|]. split; [exact E|]. split; [exact Bn|]. split; [exact Len|].
    split; [exact L|]. split; [exact W | exact Old].
Qed.

Theorem rebuild_v1_candidates_untouched : forall name l data, indexed fm name (l, data) ->
  f' (parts_of l) = f (parts_of l).
Proof. apply (run_copies_candidates_untouched dsize fm dest f REFL DISJ trace v1_trace_indexed v1_trace_relative). Qed.

Theorem rebuild_v1_changes_inside_dest : forall p, f' p <> f p ->
  prefix dest p \/ (proper_prefix p dest /\ f p = None /\ f' p = Some Dir).
Proof. apply (run_copies_changes_inside dsize fm dest f REFL DISJ trace v1_trace_indexed v1_trace_relative). Qed.

Theorem rebuild_v1_existing_outside_untouched : forall p, f p <> None -> ~ prefix dest p -> f' p = f p.
Proof. apply (run_copies_existing_outside_untouched dsize fm dest f REFL DISJ trace v1_trace_indexed v1_trace_relative). Qed.

Theorem rebuild_v1_full_length_untouched : forall p old, f p = Some (File old) ->
  (forall piece paths pn, In (piece, paths) nodes -> In pn paths -> p = dest ++ parts_of (pn_full pn) ->
                          pn_length pn <= length old) ->
  f' p = Some (File old).
Proof.
  intros p old O Le.
  apply (run_steps_full_length_untouched dsize _ f
           (trace_sources_ok fm dest f REFL trace v1_trace_indexed)
           (trace_no_clash fm dest DISJ trace v1_trace_indexed v1_trace_relative) p old O).
  intros s data I LS. apply in_resolved in I as (l & full & I & -> & Et).
  rewrite (join_parts_relative dest full (v1_trace_relative l full I)) in Et.
  destruct (v1_trace_spec l full I) as (pn & data' & -> & J).
  apply v1_justified_facts in J as ((piece & paths & In_ & Ip) & X & Len).
  destruct (REFL _ l data' X) as [LS' _]. assert (data' = data) by congruence. subst data'.
  rewrite Len. now apply (Le piece paths pn).
Qed.

Theorem rebuild_v1_existing_dir_stays : forall p, f p = Some Dir -> f' p = Some Dir.
Proof. apply (run_copies_existing_dir_stays dsize fm dest f REFL DISJ trace v1_trace_indexed v1_trace_relative). Qed.

Theorem rebuild_v1_reflects_after : filemap_reflects f' fm.
Proof. apply (run_copies_reflects dsize fm dest f REFL DISJ trace v1_trace_indexed v1_trace_relative). Qed.

Theorem rebuild_v1_idempotent :
  rebuild_v1_run dsize H1 fm dest nodes f' = rebuild_v1_run dsize H1 fm dest nodes f.
Proof. apply (run_copies_idempotent dsize fm dest f REFL DISJ trace v1_trace_indexed v1_trace_relative). Qed.

Corollary rebuild_v1_idempotent_fs : forall p, rebuild_v1_fs dsize H1 fm dest nodes f' p = f' p.
Proof. intros p. unfold rebuild_v1_fs at 1. now rewrite rebuild_v1_idempotent. Qed.

(** C13: every dest_path reported to the callback is present afterwards *)
Theorem rebuild_v1_counted_are_present : forall g, rebuild_v1_run dsize H1 fm dest nodes f = Ok g ->
  forall t, In t (v1_reported H1 fm dest nodes) -> lookup g t <> None.
Proof.
  intros g R t I. unfold v1_reported in I. apply in_map_iff in I as (full & <- & I).
  assert (T : exists l, In (l, full) trace).
  { unfold v1_trace. destruct (match_v1 H1 fm nodes) as [[outs copied] tr] eqn:M. cbn [fst snd] in *.
    assert (Hinv0 : copied_inv [] []) by (intros x []).
    destruct (match_v1_loop_inv H1 fm _ _ _ _ _ _ Hinv0 M) as (Hinv & _). now apply Hinv. }
  destruct T as [l It].
  apply (run_copies_targets_present dsize fm dest f REFL DISJ trace g v1_trace_indexed v1_trace_relative R l full It).
Qed.

End OnFs.
End V1.

(* ================================================================================================ *)
(** * 6. Assembler.assemble_torrents: several metafiles, one filemap, one destination               *)
(* ================================================================================================ *)
Section Batch.
Variable H1 H256 : bytes -> bytes.
Variable B : nat.
Hypothesis HB : 0 < B.
Variable dsize : nat.
Variable fm : filemap.
Variable dest : path.

Definition job_ok (j : job) : Prop :=
  match j with
  | JobV1 nodes => nodes_relative nodes
  | JobV2 pl entries => (exists k, pl = B * 2 ^ k) /\ Forall entry_valid entries
  end.

Definition batch_trace (jobs : list job) : list copy := concat (map (job_trace H1 H256 B fm) jobs).

(* the batch is the run of the metafiles' calls one after the other *)
Lemma assemble_is_one_run : forall jobs f,
  assemble_run dsize H1 H256 B fm dest jobs f = run_copies_run dsize dest (batch_trace jobs) f.
Proof.
  induction jobs as [|j jobs IH]; intros f; [reflexivity|].
  cbn [assemble_run]. unfold batch_trace. cbn [map concat]. rewrite run_copies_run_app.
  destruct (run_copies_run dsize dest (job_trace H1 H256 B fm j) f); [apply IH | reflexivity].
Qed.

(* what stands behind a written place p, per metafile *)
Definition job_justifies (j : job) (p : path) (l : loc) (data : bytes) : Prop :=
  match j with
  | JobV1 nodes => exists pn, v1_justified H1 fm nodes l pn data /\ p = dest ++ parts_of (pn_full pn)
  | JobV2 pl entries => exists e, In e entries /\ p = target dest e /\
                                  indexed fm (RM.text (RM.e_filename e)) (l, data) /\ RMP.verified H256 B e (l, data)
  end.

Lemma job_trace_spec j : job_ok j -> forall l full, In (l, full) (job_trace H1 H256 B fm j) ->
  PathSafe.starts_with_slash full = false /\
  exists data, job_justifies j (dest ++ parts_of full) l data /\ exists name, indexed fm name (l, data).
Proof.
  destruct j as [nodes | pl entries]; cbn [job_ok job_trace].
  - intros RELN l full I. split; [now apply (v1_trace_relative H1 fm nodes RELN l full)|].
    destruct (v1_trace_spec H1 fm nodes l full I) as (pn & data & -> & J). exists data. split.
    + exists pn. split; [exact J | reflexivity].
    + apply v1_justified_facts in J as (_ & X & _). eauto.
  - intros ((k & Hpl) & VALID) l full I.
    split; [now apply (v2_trace_relative H256 B HB k pl Hpl fm entries VALID l full)|].
    destruct (v2_trace_spec H256 B HB k pl Hpl fm entries l full I) as (e & data & Ie & -> & X & V).
    rewrite Forall_forall in VALID. destruct (entry_parts e (VALID e Ie)) as [_ P]. rewrite P.
    exists data. split; [|eauto]. exists e. split; [exact Ie|]. split; [reflexivity|]. split; [exact X | exact V].
Qed.

Variable jobs : list job.
Hypothesis JOBS : Forall job_ok jobs.

Lemma batch_trace_spec l full : In (l, full) (batch_trace jobs) ->
  exists j, In j jobs /\ In (l, full) (job_trace H1 H256 B fm j) /\ job_ok j.
Proof.
  unfold batch_trace. intros I. apply in_concat in I as (tr & It & I). apply in_map_iff in It as (j & <- & Ij).
  exists j. split; [exact Ij|]. split; [exact I|]. rewrite Forall_forall in JOBS. now apply JOBS.
Qed.

Lemma batch_trace_indexed : trace_indexed fm (batch_trace jobs).
Proof.
  intros l full I. destruct (batch_trace_spec l full I) as (j & _ & Ij & OK).
  destruct (job_trace_spec j OK l full Ij) as (_ & data & _ & name & X). eauto.
Qed.

Lemma batch_trace_relative : trace_relative (batch_trace jobs).
Proof.
  intros l full I. destruct (batch_trace_spec l full I) as (j & _ & Ij & OK).
  now destruct (job_trace_spec j OK l full Ij) as (R & _).
Qed.

Variable f : fs.
Hypothesis REFL : filemap_reflects f fm.
Hypothesis DISJ : dest_disjoint dest fm.

Notation f' := (assemble_fs dsize H1 H256 B fm dest jobs f).

Lemma assemble_fs_eq : forall p, f' p = run_copies dsize dest (batch_trace jobs) f p.
Proof. intros p. unfold assemble_fs, run_copies. now rewrite assemble_is_one_run. Qed.

(** C13_batch / C14 for the whole command: the union filemap and the shared destination preserve,
    per metafile, what holds for one metafile *)
Theorem assemble_writes_are_verified_copies : forall p, f' p <> f p ->
  (exists j l data, In j jobs /\ job_justifies j p l data /\
      lookup f (parts_of l) = Some (File data) /\ f' p = Some (File data) /\
      (f p = None \/ exists old, f p = Some (File old) /\ length old < length data)) \/
  (p <> [] /\ f p = None /\ f' p = Some Dir /\
   exists j l full, In j jobs /\ In (l, full) (job_trace H1 H256 B fm j) /\ proper_prefix p (dest ++ parts_of full)).
Proof.
  intros p. rewrite assemble_fs_eq. intros N.
  destruct (run_copies_changes dsize fm dest f REFL DISJ _ batch_trace_indexed batch_trace_relative p)
    as [S | [(PN & FN & D & l & full & I & PP) | (l & full & name & data & I & E & X & W & Old)]].
  - contradiction.
  - right. destruct (batch_trace_spec l full I) as (j & Ij & It & _). repeat split; auto. now exists j, l, full.
  - left. destruct (batch_trace_spec l full I) as (j & Ij & It & OK).
    destruct (job_trace_spec j OK l full It) as (_ & data' & J & name' & X').
    destruct (REFL _ l data X) as [L _]. destruct (REFL _ l data' X') as [L' _].
    assert (data' = data) by congruence. subst data'. rewrite <- E in J.
    exists j, l, data. split; [exact Ij|]. split; [exact J|]. split; [exact L|]. split; [exact W | exact Old].
Qed.

Theorem assemble_candidates_untouched : forall name l data, indexed fm name (l, data) ->
  f' (parts_of l) = f (parts_of l).
Proof.
  intros name l data X. rewrite assemble_fs_eq.
  now apply (run_copies_candidates_untouched dsize fm dest f REFL DISJ _ batch_trace_indexed batch_trace_relative name l data).
Qed.

Theorem assemble_changes_inside_dest : forall p, f' p <> f p ->
  prefix dest p \/ (proper_prefix p dest /\ f p = None /\ f' p = Some Dir).
Proof.
  intros p. rewrite assemble_fs_eq.
  apply (run_copies_changes_inside dsize fm dest f REFL DISJ _ batch_trace_indexed batch_trace_relative).
Qed.

Theorem assemble_existing_outside_untouched : forall p, f p <> None -> ~ prefix dest p -> f' p = f p.
Proof.
  intros p. rewrite assemble_fs_eq.
  apply (run_copies_existing_outside_untouched dsize fm dest f REFL DISJ _ batch_trace_indexed batch_trace_relative).
Qed.

Theorem assemble_reflects_after : filemap_reflects f' fm.
Proof.
  intros name l data X. destruct (REFL name l data X) as [L Bn]. split; [|exact Bn].
  assert (SN : parts_of l <> []) by (intros E; rewrite E in L; discriminate L).
  rewrite lookup_ne in * by exact SN. now rewrite (assemble_candidates_untouched name l data X).
Qed.

Theorem assemble_idempotent :
  assemble_run dsize H1 H256 B fm dest jobs f' = assemble_run dsize H1 H256 B fm dest jobs f.
Proof.
  unfold assemble_fs. rewrite !assemble_is_one_run.
  apply (run_copies_idempotent dsize fm dest f REFL DISJ _ batch_trace_indexed batch_trace_relative).
Qed.

(* every call of every metafile has its target present when the command returns *)
Theorem assemble_counted_are_present : forall g, assemble_run dsize H1 H256 B fm dest jobs f = Ok g ->
  forall j l full, In j jobs -> In (l, full) (job_trace H1 H256 B fm j) -> lookup g (join_parts dest full) <> None.
Proof.
  intros g R j l full Ij It. rewrite assemble_is_one_run in R.
  apply (run_copies_targets_present dsize fm dest f REFL DISJ _ g batch_trace_indexed batch_trace_relative R l full).
  unfold batch_trace. apply in_concat. exists (job_trace H1 H256 B fm j). split; [|exact It].
  apply in_map_iff. now exists j.
Qed.

End Batch.

(* ================================================================================================ *)
(** * 7. Completeness of the v1 route on the filesystem                                             *)
(* ================================================================================================ *)
From TF Require Import Lib.Chunks Proofs.MapPieces.

(* every piece is either skipped because a call for its single file is already in the trace, or
   searched, with the search's calls in the trace *)
Lemma match_v1_each_node H1 fm : forall nodes copied0 trace0 outs copied trace,
  copied_inv copied0 trace0 ->
  match_v1_loop H1 fm nodes copied0 trace0 = (outs, copied, trace) ->
  incl trace0 trace /\
  forall piece paths, In (piece, paths) nodes ->
    (exists pn l, paths = [pn] /\ In (l, pn_full pn) trace) \/
    (exists ok copies, find_matches H1 fm piece paths = (ok, copies) /\ incl copies trace).
Proof.
  induction nodes as [|[piece paths] nodes IH]; intros copied0 trace0 outs copied trace Hinv R.
  - cbn [match_v1_loop] in R. injection R as <- <- <-. split; [apply incl_refl | intros ? ? []].
  - cbn [match_v1_loop] in R. destruct (v1_skip paths copied0) eqn:Hskip.
    + destruct (match_v1_loop H1 fm nodes copied0 trace0) as [[os c] t] eqn:Erec.
      injection R as <- <- <-. destruct (IH _ _ _ _ _ Hinv Erec) as [Inc All]. split; [exact Inc|].
      intros p ps [[= <- <-] | I]; [|now apply All]. left.
      unfold v1_skip in Hskip. destruct paths as [|pn [|pn' paths]]; try discriminate.
      apply mem_string_In in Hskip. destruct (Hinv _ Hskip) as [l Hl]. exists pn, l. split; [reflexivity | now apply Inc].
    + destruct (find_matches H1 fm piece paths) as [ok copies] eqn:Efm.
      destruct (match_v1_loop H1 fm nodes (if ok then v1_mark paths copied0 else copied0) (trace0 ++ copies))
        as [[os c] t] eqn:Erec.
      injection R as <- <- <-.
      assert (Hinv' : copied_inv (if ok then v1_mark paths copied0 else copied0) (trace0 ++ copies)).
      { intros full Hin. destruct ok.
        - destruct (v1_mark_In _ _ _ Hin) as [Hc|(pn & Hp & Hf)].
          + destruct (Hinv full Hc) as [l Hl]. exists l. apply in_or_app. now left.
          + destruct (find_matches_sound H1 fm piece paths copies Efm) as (_ & _ & _ & _ & _ & Hall).
            destruct (Hall pn Hp) as [l Hl]. exists l. apply in_or_app. right. now rewrite <- Hf.
        - destruct (Hinv full Hin) as [l Hl]. exists l. apply in_or_app. now left. }
      destruct (IH _ _ _ _ _ Hinv' Erec) as [Inc All]. split.
      * intros x Hx. apply Inc. apply in_or_app. now left.
      * intros p ps [[= <- <-] | I]; [|now apply All]. right. exists ok, copies. split; [exact Efm|].
        intros x Hx. apply Inc. apply in_or_app. now right.
Qed.

Section V1Complete.
Variable H1 : bytes -> bytes.
Variable dsize : nat.
Variable fm : filemap.
Variable dest : path.
Variable pl : nat.
Hypothesis Hpl : 0 < pl.
Variable files : list v1_file.          (* Metadata.files: name, full, recorded length *)
Variable trues : list bytes.            (* the bytes of the torrent's files, in the same order *)
Hypothesis LEN : map (@length ascii) trues = map vf_length files.

Notation dfile := (mk_v1_file EmptyString EmptyString 0).
Notation file j := (nth j files dfile).
Notation true_bytes j := (nth j trues []).
Notation total := (ceil_div (length (concat trues)) pl).
Notation stream_chunks := (chunks pl (concat trues)).
Notation pieces := (map_pieces pl (map (@length ascii) trues) total).

(* the metafile is a correct v1 metafile of these files: its digests are those of the BEP 3 pieces *)
Definition digests : list bytes := map H1 stream_chunks.
Definition nodes : list (bytes * list pathnode) := v1_nodes pl files digests.

(* an intact copy of every file (the empty ones included: _map_pieces gives an empty file lying
   inside a piece a path node, and the search needs a candidate for it) is indexed under its name *)
Definition intact_copies : Prop :=
  forall j, j < length files -> exists l, indexed fm (vf_filename (file j)) (l, true_bytes j).

(* candidates_clean for the whole run: every candidate of a file's name and size either IS the file
   or is chosen for that file in no choice that verifies a recorded piece (D27 is its negation) *)
Definition candidates_clean_run : Prop :=
  forall j c, j < length files -> indexed fm (vf_filename (file j)) c -> length (snd c) = vf_length (file j) ->
    snd c = true_bytes j \/
    (forall piece paths chosen pn, In (piece, paths) nodes -> valid_choice fm paths chosen ->
       In (pn, c) (combine paths chosen) -> pn_full pn = vf_full (file j) ->
       H1 (choice_bytes paths chosen) <> piece).

(* the listed places: relative, not empty, pairwise different, none under another *)
Definition files_ok : Prop :=
  (forall j, j < length files -> PathSafe.starts_with_slash (vf_full (file j)) = false /\
                                 parts_of (vf_full (file j)) <> []) /\
  (forall j j', j < length files -> j' < length files ->
                vf_full (file j) = vf_full (file j') -> j = j') /\
  (forall j j', j < length files -> j' < length files ->
                parts_of (vf_full (file j)) = parts_of (vf_full (file j')) -> vf_full (file j) = vf_full (file j')) /\
  (forall j j', j < length files -> j' < length files ->
                ~ proper_prefix (parts_of (vf_full (file j))) (parts_of (vf_full (file j')))).

Lemma len_files : length trues = length files.
Proof. pose proof (f_equal (@length nat) LEN) as E. rewrite !map_length in E. exact E. Qed.

Lemma len_true j : length (true_bytes j) = vf_length (file j).
Proof.
  etransitivity; [symmetry; apply (map_nth (@length ascii) trues [] j)|].
  cbn [length]. rewrite LEN. exact (map_nth vf_length files dfile j).
Qed.

Lemma lens_eq : map vf_length files = map (@length ascii) trues.
Proof. now rewrite LEN. Qed.

Lemma digests_length : length digests = total.
Proof. unfold digests. rewrite map_length. now apply length_chunks. Qed.

Lemma nodes_eq : nodes = combine digests (map (map (range_node files)) pieces).
Proof. unfold nodes, v1_nodes. now rewrite digests_length, lens_eq. Qed.

Lemma pieces_length : length pieces = total.
Proof. unfold map_pieces. apply map_pieces_length. Qed.

Lemma node_at i : i < total ->
  In (H1 (nth i stream_chunks []), map (range_node files) (nth i pieces [])) nodes.
Proof.
  intros Hi. rewrite nodes_eq.
  assert (E : nth i (combine digests (map (map (range_node files)) pieces)) (H1 [], map (range_node files) [])
              = (H1 (nth i stream_chunks []), map (range_node files) (nth i pieces []))).
  { rewrite combine_nth by (now rewrite digests_length, map_length, pieces_length).
    unfold digests. now rewrite !map_nth. }
  rewrite <- E. apply nth_In. rewrite combine_length, digests_length, map_length, pieces_length. lia.
Qed.

Lemma node_inv piece paths : In (piece, paths) nodes ->
  exists i, i < total /\ piece = H1 (nth i stream_chunks []) /\ paths = map (range_node files) (nth i pieces []).
Proof.
  rewrite nodes_eq. intros I. apply (In_nth _ _ (H1 [], map (range_node files) [])) in I as (i & Hi & E).
  rewrite combine_length, digests_length, map_length, pieces_length in Hi.
  rewrite combine_nth in E by (now rewrite digests_length, map_length, pieces_length).
  unfold digests in E. rewrite !map_nth in E. injection E as <- <-. exists i. split; [lia | auto].
Qed.

Lemma ranges_valid i r : In r (nth i pieces []) -> r_file r < length files.
Proof. intros I. rewrite <- len_files. now apply (proj2 (map_pieces_covers trues pl Hpl) i r). Qed.

(* every path node of every piece is a listed file's *)
Lemma node_pn piece paths pn : In (piece, paths) nodes -> In pn paths ->
  exists r, pn = range_node files r /\ r_file r < length files.
Proof.
  intros I Ip. destruct (node_inv piece paths I) as (i & _ & _ & ->).
  apply in_map_iff in Ip as (r & <- & Ir). exists r. split; [reflexivity | now apply (ranges_valid i)].
Qed.

Lemma range_node_fields r :
  pn_filename (range_node files r) = vf_filename (file (r_file r)) /\
  pn_full (range_node files r) = vf_full (file (r_file r)) /\
  pn_length (range_node files r) = vf_length (file (r_file r)).
Proof. repeat split. Qed.

Lemma parts_bytes_ranges rs :
  parts_bytes (map (range_node files) rs) (map (fun r => true_bytes (r_file r)) rs) = concat (map (slice trues) rs).
Proof. induction rs as [|r rs IH]; [reflexivity|]. cbn [map parts_bytes concat]. now rewrite IH. Qed.

Lemma ranges_intact rs : intact_copies -> Forall (fun r => r_file r < length files) rs ->
  Forall2 (intact_available fm) (map (range_node files) rs) (map (fun r => true_bytes (r_file r)) rs).
Proof.
  intros IC. induction 1 as [|r rs Hr _ IH]; cbn [map]; constructor; [|exact IH].
  destruct (IC (r_file r) Hr) as (l & cands & L & I). exists (l, true_bytes (r_file r)). split; [|reflexivity].
  exists cands. split; [exact L|]. split; [exact I|]. cbn [snd]. apply len_true.
Qed.

(* with intact copies available every searched piece is found *)
Lemma searched_piece_found i : intact_copies -> i < total ->
  fst (find_matches H1 fm (H1 (nth i stream_chunks [])) (map (range_node files) (nth i pieces []))) = true.
Proof.
  intros IC Hi. apply (find_matches_complete H1 fm _ _ (map (fun r => true_bytes (r_file r)) (nth i pieces []))).
  - apply ranges_intact; [exact IC|]. apply Forall_forall. intros r Ir. now apply (ranges_valid i).
  - rewrite parts_bytes_ranges. now rewrite (map_pieces_exact trues pl Hpl i Hi).
Qed.

Lemma nodes_relative_files : files_ok -> nodes_relative nodes.
Proof.
  intros (FO & _) piece paths pn I Ip. destruct (node_pn piece paths pn I Ip) as (r & -> & Hr).
  now apply (FO (r_file r) Hr).
Qed.

(* a call for every file with bytes is in the trace *)
Lemma v1_trace_covers : intact_copies -> forall j, j < length files -> 0 < vf_length (file j) ->
  exists l, In (l, vf_full (file j)) (v1_trace H1 fm nodes).
Proof.
  intros IC j Hj Pos.
  destruct (proj1 (map_pieces_covers trues pl Hpl) j) as (i & Hi & Ij);
    [rewrite <- len_files in Hj; exact Hj | rewrite <- len_true in Pos; exact Pos|].
  apply in_map_iff in Ij as (r & Er & Ir).
  pose proof (node_at i Hi) as In_. set (piece := H1 (nth i stream_chunks [])) in *.
  set (paths := map (range_node files) (nth i pieces [])) in *.
  assert (Ip : In (range_node files r) paths) by (apply in_map_iff; now exists r).
  unfold v1_trace. destruct (match_v1 H1 fm nodes) as [[outs copied] tr] eqn:M. cbn [snd].
  assert (Hinv0 : copied_inv [] []) by (intros x []).
  destruct (match_v1_each_node H1 fm _ _ _ _ _ _ Hinv0 M) as [_ All].
  destruct (All piece paths In_) as [(pn & l & E1 & Il) | (ok & copies & FM & Inc)].
  - rewrite E1 in Ip. destruct Ip as [E2 | []]. subst pn. exists l. rewrite <- Er. exact Il.
  - pose proof (searched_piece_found i IC Hi) as F. fold piece paths in F. rewrite FM in F. cbn [fst] in F. subst ok.
    destruct (find_matches_sound H1 fm piece paths copies FM) as (_ & _ & _ & _ & _ & Hall).
    destruct (Hall _ Ip) as [l Hl]. exists l. apply Inc. rewrite <- Er. exact Hl.
Qed.

Variable f : fs.
Hypothesis REFL : filemap_reflects f fm.
Hypothesis DISJ : dest_disjoint dest fm.

(* nothing that is not a directory stands on the way to a listed place *)
Definition v1_way_free : Prop :=
  forall j p, j < length files -> p <> [] -> proper_prefix p (dest ++ parts_of (vf_full (file j))) ->
              f p = None \/ f p = Some Dir.

Lemma v1_trace_file l full : In (l, full) (v1_trace H1 fm nodes) ->
  exists j pn data, j < length files /\ full = vf_full (file j) /\ full = pn_full pn /\
                    pn_filename pn = vf_filename (file j) /\ pn_length pn = vf_length (file j) /\
                    v1_justified H1 fm nodes l pn data.
Proof.
  intros I. destruct (v1_trace_spec H1 fm nodes l full I) as (pn & data & -> & J).
  destruct (v1_justified_facts H1 fm nodes l pn data J) as ((piece & paths & In_ & Ip) & _).
  destruct (node_pn piece paths pn In_ Ip) as (r & -> & Hr).
  exists (r_file r), (range_node files r), data. repeat split; auto.
Qed.

(** C13_v1_complete_partial on the filesystem.  A correct metafile of the files `trues`; an intact
    copy of every file indexed; clean candidates; sane places; nothing but directories on the way:
    the run returns, and every file with bytes whose place was empty (or held a shorter file) has
    exactly its bytes there afterwards.  `_partial`: it needs [candidates_clean_run], without which
    the statement is false by design (D27). *)
Theorem rebuild_v1_restores_partial : intact_copies -> candidates_clean_run -> files_ok -> v1_way_free ->
  exists g, rebuild_v1_run dsize H1 fm dest nodes f = Ok g /\
  forall j, j < length files -> 0 < vf_length (file j) ->
    (f (dest ++ parts_of (vf_full (file j))) = None \/
     exists old, f (dest ++ parts_of (vf_full (file j))) = Some (File old) /\ length old < vf_length (file j)) ->
    g (dest ++ parts_of (vf_full (file j))) = Some (File (true_bytes j)).
Proof.
  intros IC CL FO WF. pose proof (nodes_relative_files FO) as RELN.
  destruct FO as (FO1 & FO2 & FO3 & FO4).
  pose proof (v1_trace_indexed H1 fm nodes) as TI. pose proof (v1_trace_relative H1 fm nodes RELN) as TR.
  pose proof (trace_sources_ok fm dest f REFL _ TI) as SO.
  pose proof (trace_no_clash fm dest DISJ _ TI TR) as NC.
  assert (TGT : forall s t, In (s, t) (map (resolve_copy dest) (v1_trace H1 fm nodes)) ->
            exists j l, j < length files /\ In (l, vf_full (file j)) (v1_trace H1 fm nodes) /\
                        s = parts_of l /\ t = dest ++ parts_of (vf_full (file j))).
  { intros s t I. apply in_resolved in I as (l & full & I & -> & ->).
    destruct (v1_trace_file l full I) as (j & pn & data & Hj & E & _). subst full.
    exists j, l. repeat split; auto. apply join_parts_relative. now apply FO1. }
  assert (TC : targets_consistent (map (resolve_copy dest) (v1_trace H1 fm nodes))).
  { intros s t s' t' I I' PP. destruct (TGT s t I) as (j & l & Hj & _ & _ & ->).
    destruct (TGT s' t' I') as (j' & l' & Hj' & _ & _ & ->).
    apply proper_prefix_app_inv in PP. now apply (FO4 j j'). }
  assert (AO : anc_ok f (map (resolve_copy dest) (v1_trace H1 fm nodes))).
  { intros s t p I PN PP. destruct (TGT s t I) as (j & l & Hj & _ & _ & ->). now apply (WF j). }
  destruct (run_steps_no_raise dsize _ f SO NC AO TC) as [g R]. exists g. split; [exact R|].
  intros j Hj Pos Old.
  destruct (v1_trace_covers IC j Hj Pos) as [l It].
  destruct (v1_trace_file l _ It) as (j0 & pn & data & Hj0 & E0 & Epn & Fn & Ln & J).
  assert (j0 = j) by (symmetry; now apply FO2). subst j0.
  destruct (v1_justified_facts H1 fm nodes l pn data J) as (_ & X & Len).
  destruct (REFL _ l data X) as [LS _].
  pose proof (resolved_in dest _ l _ It) as Is.
  rewrite (join_parts_relative dest _ (proj1 (FO1 j Hj))) in Is.
  assert (TN : dest ++ parts_of (vf_full (file j)) <> []).
  { intros E. apply app_eq_nil in E as [_ E]. now apply (proj2 (FO1 j Hj)). }
  destruct (run_steps_complete dsize _ f g SO NC TC R (parts_of l) _ data Is TN LS) as (s' & data' & Is' & LS' & W & _).
  { rewrite Len, Ln. exact Old. }
  rewrite W. f_equal. f_equal.
  apply in_resolved in Is' as (l' & full' & I' & -> & Et).
  destruct (v1_trace_file l' full' I') as (j' & pn' & data'' & Hj' & E' & Epn' & Fn' & Ln' & J'). subst full'.
  rewrite (join_parts_relative dest _ (proj1 (FO1 j' Hj'))) in Et. apply app_inv_head in Et.
  assert (j' = j) by (apply FO2; [exact Hj' | exact Hj | now apply FO3]). subst j'.
  destruct J' as (piece & paths & chosen & In_ & Hv & Hh & Icb & Ip & X' & Len').
  destruct (REFL _ l' data'' X') as [LS'' _]. assert (data'' = data') by congruence. subst data''.
  rewrite Fn' in X'.
  destruct (CL j (l', data') Hj X') as [Eq | Bad]; [cbn [snd]; now rewrite Len', Ln' | exact Eq |].
  exfalso. apply (Bad piece paths chosen pn' In_ Hv Icb); [now rewrite <- Epn' | exact Hh].
Qed.

End V1Complete.

(* ================================================================================================ *)
(** * 8. Examples                                                                                   *)
(* ================================================================================================ *)
Module RebuildRunExamples.
  Import String.
  Local Open Scope string_scope.
  Definition s (x : string) : bytes := list_ascii_of_string x.

  Lemma indexed_cons k v fm name c :
    indexed ((k, v) :: fm) name c -> (name = k /\ In c v) \/ indexed fm name c.
  Proof.
    intros (cands & L & I). cbn [fm_lookup] in L. destruct (String.eqb k name) eqn:E.
    - apply String.eqb_eq in E. injection L as <-. left. split; [now symmetry | exact I].
    - right. now exists cands.
  Qed.

  Lemma indexed_nil name c : ~ indexed [] name c.
  Proof. intros (cands & L & _). discriminate L. Qed.

  (** ** v2: toy hash (first byte twice), block size 2, piece length 4.  Search directory S with a
      longer file that starts with the genuine bytes, a same-size decoy, the intact copy; a
      metafile beside it; a destination that exists and is empty. *)
  Definition toyH := RMP.RebuildMetaExamples.toyH.
  Definition hello : bytes := s "hello".
  Definition v2_fm : filemap :=
    [("f", [("S/1/f", s "hello!!"); ("S/2/f", s "jello"); ("S/3/f", hello)]); ("g", [("/srv/g", s "x")])].
  Definition v2_entries : list RM.entry :=
    [ RM.mk_entry [s "n"] [s "n"; s "f"] (s "f") 5 (Some (Bencode.BStr (Bep52.bep52_root toyH 2 hello)));
      RM.mk_entry [s "n"] [s "n"; s "e"] (s "e") 0 None;
      RM.mk_entry [s "n"; s "d"] [s "n"; s "d"; s "g"] (s "g") 1 (Some (Bencode.BStr (Bep52.bep52_root toyH 2 (s "x")))) ].
  Definition v2_fs : fs :=
    fs_of_list [ (["S"], Dir); (["S"; "1"], Dir); (["S"; "1"; "f"], File (s "hello!!"));
                 (["S"; "2"], Dir); (["S"; "2"; "f"], File (s "jello"));
                 (["S"; "3"], Dir); (["S"; "3"; "f"], File hello);
                 (["/"], Dir); (["/"; "srv"], Dir); (["/"; "srv"; "g"], File (s "x"));
                 (["m.torrent"], File (s "d4:infod...ee")); (["out"], Dir) ].
  Definition v2_probe (f : fs) : list (option node) :=
    map f [ ["out"]; ["out"; "n"]; ["out"; "n"; "f"]; ["out"; "n"; "e"]; ["out"; "n"; "d"]; ["out"; "n"; "d"; "g"];
            ["S"; "1"; "f"]; ["S"; "2"; "f"]; ["S"; "3"; "f"]; ["/"; "srv"; "g"]; ["m.torrent"]; ["elsewhere"] ].

  Example parts_of_examples :
    parts_of "S/3/f" = ["S"; "3"; "f"] /\ parts_of "/srv/g" = ["/"; "srv"; "g"] /\
    parts_of "a//b/./c/" = ["a"; "b"; "c"] /\ join_parts ["out"] "n/d/g" = ["out"; "n"; "d"; "g"] /\
    join_parts ["out"] "/etc/x" = ["/"; "etc"; "x"].
  Proof. vm_compute. repeat split; reflexivity. Qed.

  Example v2_trace_example : v2_trace toyH 2 4 v2_fm v2_entries = [("S/3/f", "n/f"); ("/srv/g", "n/d/g")].
  Proof. vm_compute. reflexivity. Qed.

  (* the intact copy (not the longer file, not the decoy) arrives at out/n/f, the directories are
     made, the empty file is not placed (C13 observation), everything else is as it was *)
  Example v2_run_example :
    v2_probe (rebuild_v2_fs 4 toyH 2 4 v2_fm ["out"] v2_entries v2_fs) =
      [Some Dir; Some Dir; Some (File hello); None; Some Dir; Some (File (s "x"));
       Some (File (s "hello!!")); Some (File (s "jello")); Some (File hello); Some (File (s "x"));
       Some (File (s "d4:infod...ee")); None] /\
    v2_probe v2_fs =
      [Some Dir; None; None; None; None; None;
       Some (File (s "hello!!")); Some (File (s "jello")); Some (File hello); Some (File (s "x"));
       Some (File (s "d4:infod...ee")); None].
  Proof. vm_compute. split; reflexivity. Qed.

  Example v2_run_twice_example :
    let once := rebuild_v2_fs 4 toyH 2 4 v2_fm ["out"] v2_entries v2_fs in
    v2_probe (rebuild_v2_fs 4 toyH 2 4 v2_fm ["out"] v2_entries once) = v2_probe once /\
    (match rebuild_v2_run 4 toyH 2 4 v2_fm ["out"] v2_entries v2_fs with Ok _ => true | Raised _ => false end) = true.
  Proof. vm_compute. split; reflexivity. Qed.

  (* a destination that already holds a file of full length with OTHER bytes at out/n/f, and a
     shorter one at out/n/d/g: the first is kept, the second replaced *)
  Definition v2_fs_populated : fs :=
    upd (upd (upd (upd v2_fs ["out"; "n"] Dir) ["out"; "n"; "f"] (File (s "HELLO"))) ["out"; "n"; "d"] Dir)
        ["out"; "n"; "d"; "g"] (File []).
  Example v2_run_populated_example :
    v2_probe (rebuild_v2_fs 4 toyH 2 4 v2_fm ["out"] v2_entries v2_fs_populated) =
      [Some Dir; Some Dir; Some (File (s "HELLO")); None; Some Dir; Some (File (s "x"));
       Some (File (s "hello!!")); Some (File (s "jello")); Some (File hello); Some (File (s "x"));
       Some (File (s "d4:infod...ee")); None].
  Proof. vm_compute. reflexivity. Qed.

  (* a FILE standing where the directory out/n should be: the first copypath call raises
     (NotADirectoryError), the run stops, nothing has been changed *)
  Example v2_run_raises_example :
    match rebuild_v2_run 4 toyH 2 4 v2_fm ["out"] v2_entries (upd v2_fs ["out"; "n"] (File (s "x"))) with
    | Raised g => v2_probe g = v2_probe (upd v2_fs ["out"; "n"] (File (s "x")))
    | Ok _ => False
    end.
  Proof. vm_compute. reflexivity. Qed.

  (* the hypotheses of the theorems hold of it *)
  Example v2_hypotheses :
    filemap_reflects v2_fs v2_fm /\ dest_disjoint ["out"] v2_fm /\ Forall entry_valid v2_entries /\
    (0 < 2 /\ 4 = 2 * 2 ^ 1) /\
    way_free ["out"] v2_entries v2_fs /\ entries_consistent v2_entries.
  Proof.
    split; [|split; [|split; [|split; [|split]]]].
    - intros name l data X. apply indexed_cons in X as [(-> & I) | X].
      { cbn [In] in I. destruct I as [[= <- <-] | [[= <- <-] | [[= <- <-] | []]]]; vm_compute; split; reflexivity. }
      apply indexed_cons in X as [(-> & I) | X]; [|now apply indexed_nil in X].
      cbn [In] in I. destruct I as [[= <- <-] | []]; vm_compute; split; reflexivity.
    - intros name l data X (r & E). apply indexed_cons in X as [(-> & I) | X].
      { cbn [In] in I. destruct I as [[= <- <-] | [[= <- <-] | [[= <- <-] | []]]]; vm_compute in E; discriminate E. }
      apply indexed_cons in X as [(-> & I) | X]; [|now apply indexed_nil in X].
      cbn [In] in I. destruct I as [[= <- <-] | []]; vm_compute in E; discriminate E.
    - repeat constructor; try discriminate; vm_compute; reflexivity.
    - split; [lia | reflexivity].
    - intros e p Ie PN (r & RN & E). cbn [In v2_entries] in Ie.
      destruct Ie as [<- | [<- | [<- | []]]]; vm_compute in E;
      destruct p as [|a [|b [|c [|d p]]]]; try contradiction; try (destruct r; [contradiction | discriminate E]);
      injection E; intros; subst; vm_compute; auto.
    - intros e e' Ie Ie' (r & RN & E). cbn [In v2_entries] in Ie, Ie'.
      destruct Ie as [<- | [<- | [<- | []]]]; destruct Ie' as [<- | [<- | [<- | []]]]; vm_compute in E;
      try discriminate E; destruct r; try contradiction; discriminate E.
  Qed.


  (* ... so the completeness theorem applies: the run returns and places a verified file for f and g *)
  Example v2_restores_example :
    exists g, rebuild_v2_run 4 toyH 2 4 v2_fm ["out"] v2_entries v2_fs = Ok g /\
              g ["out"; "n"; "f"] = Some (File hello) /\ g ["out"; "n"; "d"; "g"] = Some (File (s "x")).
  Proof.
    destruct v2_hypotheses as (R & D & V & (HB & Hpl) & WF & EC).
    destruct (rebuild_v2_no_raise toyH 2 HB 1 4 Hpl 4 v2_fm ["out"] v2_entries V v2_fs R D WF EC) as [g Rg].
    exists g. split; [exact Rg|]. revert Rg. vm_compute. intros [= <-]. split; reflexivity.
  Qed.

  (** ** v1: H1 = identity, files a.bin (3 bytes) and b.bin (2 bytes), piece length 2; candidates:
      a wrong-size a.bin, a same-size decoy, the intact copies *)
  Definition idH := RebuildMatch.ex_H1.
  Definition v1_files : list v1_file := [mk_v1_file "a.bin" "t/a.bin" 3; mk_v1_file "b.bin" "t/b.bin" 2].
  Definition v1_trues : list bytes := [s "abc"; s "de"].
  Definition v1_fm : filemap :=
    [ ("a.bin", [("x/a.bin", s "abcd"); ("y/a.bin", s "XYZ"); ("z/a.bin", s "abc")]);
      ("b.bin", [("y/b.bin", s "zz"); ("z/b.bin", s "de")]) ].
  Definition v1_fs : fs :=
    fs_of_list [ (["x"], Dir); (["x"; "a.bin"], File (s "abcd"));
                 (["y"], Dir); (["y"; "a.bin"], File (s "XYZ")); (["y"; "b.bin"], File (s "zz"));
                 (["z"], Dir); (["z"; "a.bin"], File (s "abc")); (["z"; "b.bin"], File (s "de")) ].
  Definition v1_probe (f : fs) : list (option node) :=
    map f [ ["new"]; ["new"; "out"]; ["new"; "out"; "t"]; ["new"; "out"; "t"; "a.bin"]; ["new"; "out"; "t"; "b.bin"];
            ["x"; "a.bin"]; ["y"; "a.bin"]; ["y"; "b.bin"]; ["z"; "a.bin"]; ["z"; "b.bin"] ].

  (* the piece nodes built from the file list are those of Proofs/RebuildMatch.v *)
  Example v1_nodes_example :
    v1_nodes 2 v1_files (digests idH 2 v1_trues) = RebuildMatch.ex_nodes /\
    nodes idH 2 v1_files v1_trues = RebuildMatch.ex_nodes.
  Proof. vm_compute. split; reflexivity. Qed.

  Example v1_trace_example :
    v1_trace idH v1_fm RebuildMatch.ex_nodes =
      [("z/a.bin", "t/a.bin"); ("z/b.bin", "t/b.bin"); ("z/a.bin", "t/a.bin")] /\
    v1_reported idH v1_fm ["new"; "out"] RebuildMatch.ex_nodes =
      [["new"; "out"; "t"; "a.bin"]; ["new"; "out"; "t"; "b.bin"]].
  Proof. vm_compute. split; reflexivity. Qed.

  (* the destination new/out does not exist: it is created with its parent; both files arrive;
     the second call for a.bin finds it in place *)
  Example v1_run_example :
    v1_probe (rebuild_v1_fs 4 idH v1_fm ["new"; "out"] RebuildMatch.ex_nodes v1_fs) =
      [Some Dir; Some Dir; Some Dir; Some (File (s "abc")); Some (File (s "de"));
       Some (File (s "abcd")); Some (File (s "XYZ")); Some (File (s "zz")); Some (File (s "abc")); Some (File (s "de"))] /\
    v1_probe v1_fs =
      [None; None; None; None; None;
       Some (File (s "abcd")); Some (File (s "XYZ")); Some (File (s "zz")); Some (File (s "abc")); Some (File (s "de"))].
  Proof. vm_compute. split; reflexivity. Qed.

  Example v1_run_twice_example :
    let once := rebuild_v1_fs 4 idH v1_fm ["new"; "out"] RebuildMatch.ex_nodes v1_fs in
    v1_probe (rebuild_v1_fs 4 idH v1_fm ["new"; "out"] RebuildMatch.ex_nodes once) = v1_probe once.
  Proof. vm_compute. reflexivity. Qed.

  Example v1_hypotheses :
    filemap_reflects v1_fs v1_fm /\ dest_disjoint ["new"; "out"] v1_fm /\
    map (@List.length ascii) v1_trues = map vf_length v1_files /\
    intact_copies v1_fm v1_files v1_trues /\ files_ok v1_files.
  Proof.
    split; [|split; [|split; [|split]]].
    - intros name l data X. apply indexed_cons in X as [(-> & I) | X].
      { cbn [In] in I. destruct I as [[= <- <-] | [[= <- <-] | [[= <- <-] | []]]]; vm_compute; split; reflexivity. }
      apply indexed_cons in X as [(-> & I) | X]; [|now apply indexed_nil in X].
      cbn [In] in I. destruct I as [[= <- <-] | [[= <- <-] | []]]; vm_compute; split; reflexivity.
    - intros name l data X (r & E). apply indexed_cons in X as [(-> & I) | X].
      { cbn [In] in I. destruct I as [[= <- <-] | [[= <- <-] | [[= <- <-] | []]]]; vm_compute in E; discriminate E. }
      apply indexed_cons in X as [(-> & I) | X]; [|now apply indexed_nil in X].
      cbn [In] in I. destruct I as [[= <- <-] | [[= <- <-] | []]]; vm_compute in E; discriminate E.
    - reflexivity.
    - intros j Hj. cbn [List.length v1_files] in Hj. destruct j as [|[|j]]; [| |lia].
      + exists "z/a.bin". eexists. split; [reflexivity|]. right. right. now left.
      + exists "z/b.bin". eexists. split; [reflexivity|]. right. now left.
    - assert (C : forall j, j < List.length v1_files -> j = 0 \/ j = 1) by (cbn; lia).
      split; [|split; [|split]].
      + intros j Hj. destruct (C j Hj) as [-> | ->]; vm_compute; split; (reflexivity || discriminate).
      + intros j j' Hj Hj' E. destruct (C j Hj) as [-> | ->]; destruct (C j' Hj') as [-> | ->]; auto; discriminate E.
      + intros j j' Hj Hj' E. destruct (C j Hj) as [-> | ->]; destruct (C j' Hj') as [-> | ->]; auto; discriminate E.
      + intros j j' Hj Hj' (r & RN & E).
        destruct (C j Hj) as [-> | ->]; destruct (C j' Hj') as [-> | ->]; vm_compute in E;
        destruct r; try contradiction; discriminate E.
  Qed.


  (* all hypotheses of rebuild_v1_restores_partial together, on a filemap without same-size decoys
     (the wrong-size x/a.bin stays): the theorem applies and gives the two files *)
  Definition v1_fm_clean : filemap :=
    [ ("a.bin", [("x/a.bin", s "abcd"); ("z/a.bin", s "abc")]); ("b.bin", [("z/b.bin", s "de")]) ].
  Example v1_restores_example :
    exists g, rebuild_v1_run 4 idH v1_fm_clean ["new"; "out"] (nodes idH 2 v1_files v1_trues) v1_fs = Ok g /\
              g ["new"; "out"; "t"; "a.bin"] = Some (File (s "abc")) /\ g ["new"; "out"; "t"; "b.bin"] = Some (File (s "de")).
  Proof.
    assert (C : forall j, j < List.length v1_files -> j = 0 \/ j = 1) by (cbn; lia).
    destruct (rebuild_v1_restores_partial idH 4 v1_fm_clean ["new"; "out"] 2 ltac:(lia) v1_files v1_trues eq_refl v1_fs)
      as (g & R & A).
    - intros name l data X. apply indexed_cons in X as [(-> & I) | X].
      { cbn [In] in I. destruct I as [[= <- <-] | [[= <- <-] | []]]; vm_compute; split; reflexivity. }
      apply indexed_cons in X as [(-> & I) | X]; [|now apply indexed_nil in X].
      cbn [In] in I. destruct I as [[= <- <-] | []]; vm_compute; split; reflexivity.
    - intros name l data X (r & E). apply indexed_cons in X as [(-> & I) | X].
      { cbn [In] in I. destruct I as [[= <- <-] | [[= <- <-] | []]]; vm_compute in E; discriminate E. }
      apply indexed_cons in X as [(-> & I) | X]; [|now apply indexed_nil in X].
      cbn [In] in I. destruct I as [[= <- <-] | []]; vm_compute in E; discriminate E.
    - intros j Hj. destruct (C j Hj) as [-> | ->].
      + exists "z/a.bin". eexists. split; [reflexivity|]. right. now left.
      + exists "z/b.bin". eexists. split; [reflexivity|]. now left.
    - intros j c Hj X Len. left. destruct (C j Hj) as [-> | ->]; cbn in X, Len.
      + apply indexed_cons in X as [(_ & I) | X].
        * cbn [In] in I. destruct I as [<- | [<- | []]]; [discriminate Len | reflexivity].
        * apply indexed_cons in X as [(E & _) | X]; [discriminate E | now apply indexed_nil in X].
      + apply indexed_cons in X as [(E & _) | X]; [discriminate E|].
        apply indexed_cons in X as [(_ & I) | X]; [|now apply indexed_nil in X].
        cbn [In] in I. destruct I as [<- | []]. reflexivity.
    - exact (proj2 (proj2 (proj2 (proj2 v1_hypotheses)))).
    - intros j p Hj PN (r & RN & E).
      destruct (C j Hj) as [-> | ->]; vm_compute in E;
      destruct p as [|a [|b [|c [|d p]]]]; try contradiction; try (destruct r; [contradiction | discriminate E]);
      injection E; intros; subst; vm_compute; auto.
    - exists g. split; [exact R|]. split.
      + apply (A 0); [cbn; lia | cbn; lia | left; reflexivity].
      + apply (A 1); [cbn; lia | cbn; lia | left; reflexivity].
  Qed.

  (** ** The batch: both metafiles, the union filemap, one destination *)
  Definition all_fm : filemap := (v1_fm ++ v2_fm)%list.
  Definition all_fs : fs := fun p => match v1_fs p with Some n => Some n | None => v2_fs p end.
  Example batch_example :
    let f' := assemble_fs 4 idH toyH 2 all_fm ["out"] [JobV1 RebuildMatch.ex_nodes; JobV2 4 v2_entries] all_fs in
    map f' [ ["out"; "t"; "a.bin"]; ["out"; "t"; "b.bin"]; ["out"; "n"; "f"]; ["out"; "n"; "d"; "g"]; ["m.torrent"] ] =
      [Some (File (s "abc")); Some (File (s "de")); Some (File hello); Some (File (s "x")); Some (File (s "d4:infod...ee"))].
  Proof. vm_compute. reflexivity. Qed.
End RebuildRunExamples.

Print Assumptions step_cases.
Print Assumptions run_steps_changes.
Print Assumptions run_steps_source_untouched.
Print Assumptions run_steps_full_length_untouched.
Print Assumptions run_steps_idempotent.
Print Assumptions run_steps_targets_present.
Print Assumptions run_steps_no_raise.
Print Assumptions run_steps_complete.
Print Assumptions run_copies_changes.
Print Assumptions run_prefix_reflects.
Print Assumptions extract_entries_valid.
Print Assumptions rebuild_v2_writes_are_verified_copies.
Print Assumptions rebuild_v2_candidates_untouched.
Print Assumptions rebuild_v2_changes_inside_dest.
Print Assumptions rebuild_v2_existing_outside_untouched.
Print Assumptions rebuild_v2_full_length_untouched.
Print Assumptions rebuild_v2_existing_dir_stays.
Print Assumptions rebuild_v2_reflects_after.
Print Assumptions rebuild_v2_idempotent.
Print Assumptions rebuild_v2_counted_are_present.
Print Assumptions rebuild_v2_no_raise.
Print Assumptions rebuild_v2_complete.
Print Assumptions rebuild_v2_restores.
Print Assumptions rebuild_v1_writes_are_verified_copies.
Print Assumptions rebuild_v1_candidates_untouched.
Print Assumptions rebuild_v1_changes_inside_dest.
Print Assumptions rebuild_v1_existing_outside_untouched.
Print Assumptions rebuild_v1_full_length_untouched.
Print Assumptions rebuild_v1_existing_dir_stays.
Print Assumptions rebuild_v1_reflects_after.
Print Assumptions rebuild_v1_idempotent.
Print Assumptions rebuild_v1_counted_are_present.
Print Assumptions rebuild_v1_restores_partial.
Print Assumptions assemble_is_one_run.
Print Assumptions assemble_writes_are_verified_copies.
Print Assumptions assemble_candidates_untouched.
Print Assumptions assemble_existing_outside_untouched.
Print Assumptions assemble_idempotent.
Print Assumptions assemble_counted_are_present.
Print Assumptions RebuildRunExamples.v2_hypotheses.
Print Assumptions RebuildRunExamples.v2_restores_example.
Print Assumptions RebuildRunExamples.v1_restores_example.

(* what v1_justified says, unfolded (cited by Props/C14.v) *)
Lemma v1_justified_means : forall (H1 : bytes -> bytes) (fm : filemap) (nodes : list (bytes * list pathnode)) l pn data,
  v1_justified H1 fm nodes l pn data <->
  exists piece paths chosen, In (piece, paths) nodes /\ valid_choice fm paths chosen /\
    H1 (choice_bytes paths chosen) = piece /\ In (pn, (l, data)) (combine paths chosen) /\
    In pn paths /\ indexed fm (pn_filename pn) (l, data) /\ List.length data = pn_length pn.
Proof. intros; reflexivity. Qed.
