(* C13 (arithmetic heart): Metadata._map_pieces cuts the stream of the files exactly as the
   BEP 3 piece chunking does.  Model: Model/Rebuild.v.  DESIGN.md C13, Appendix A.6. *)
From TF Require Import Lib.Base Lib.Chunks Model.Rebuild.

(* ------------------------------------------------------------------------------------------ *)
(* list helpers                                                                                *)
(* ------------------------------------------------------------------------------------------ *)

Lemma skipn_skipn_add {A} (a b : nat) (l : list A) : skipn a (skipn b l) = skipn (b + a) l.
Proof.
  revert l. induction b as [|b IH]; intros l; [reflexivity|].
  destruct l as [|x l]; [rewrite !skipn_nil; reflexivity|].
  cbn [Nat.add skipn]. apply IH.
Qed.

Lemma skipn_nth_cons {A} (d : A) (n : nat) (l : list A) :
  n < length l -> skipn n l = nth n l d :: skipn (S n) l.
Proof.
  revert l. induction n as [|n IH]; intros l Hn.
  - destruct l; [cbn [length] in Hn; lia|reflexivity].
  - destruct l as [|x l]; [cbn [length] in Hn; lia|].
    cbn [length] in Hn. rewrite skipn_cons. cbn [nth]. rewrite (IH l) by lia. reflexivity.
Qed.

Lemma concat_skipn_nil {A} (l : list (list A)) (a j : nat) :
  concat (skipn a l) = [] -> a <= j -> nth j l [] = [].
Proof.
  revert a j. induction l as [|x l IH]; intros a j Hc Ha.
  - destruct j; reflexivity.
  - destruct a as [|a].
    + cbn [skipn concat] in Hc. apply app_eq_nil in Hc. destruct Hc as [Hx Hl].
      destruct j as [|j]; [exact Hx|]. cbn [nth]. apply (IH 0); [exact Hl|lia].
    + destruct j as [|j]; [lia|]. cbn [nth]. rewrite skipn_cons in Hc. apply (IH a); [exact Hc|lia].
Qed.

Lemma lens_nth (files : list (list ascii)) (i : nat) :
  nth i (map (@length ascii) files) 0 = length (nth i files []).
Proof. change 0 with (length (@nil ascii)). apply map_nth. Qed.

(* ------------------------------------------------------------------------------------------ *)
(* get_part                                                                                    *)
(* ------------------------------------------------------------------------------------------ *)

Lemma get_part_tail (c : list ascii) (s : nat) : get_part c s None = skipn s c.
Proof. unfold get_part. destruct s; reflexivity. Qed.

Lemma get_part_mid (c : list ascii) (s n : nat) : get_part c s (Some (s + n)) = firstn n (skipn s c).
Proof.
  unfold get_part. replace (s + n <? s) with false by (symmetry; apply Nat.ltb_ge; lia).
  replace (s + n - s) with n by lia. destruct s; reflexivity.
Qed.

Lemma get_part_eq (c : list ascii) (s : nat) (e : option nat) :
  get_part c s e = match e with
                   | Some e' => if e' <? s then skipn s c else firstn (e' - s) (skipn s c)
                   | None => skipn s c
                   end.
Proof. unfold get_part. destruct s; reflexivity. Qed.

Lemma get_part_segment (c : list ascii) (s : nat) (e : option nat) :
  exists pre post, c = pre ++ get_part c s e ++ post.
Proof.
  rewrite get_part_eq. destruct e as [e|].
  - destruct (e <? s).
    + exists (firstn s c), []. rewrite app_nil_r. symmetry. apply firstn_skipn.
    + exists (firstn s c), (skipn (e - s) (skipn s c)). rewrite firstn_skipn. symmetry. apply firstn_skipn.
  - exists (firstn s c), []. rewrite app_nil_r. symmetry. apply firstn_skipn.
Qed.

(* ------------------------------------------------------------------------------------------ *)
(* The loop invariant (A.6)                                                                    *)
(* ------------------------------------------------------------------------------------------ *)

Section MapPieces.
Variable files : list (list ascii).
Variable pl : nat.
Hypothesis Hpl : 0 < pl.
Notation lens := (map (@length ascii) files).

(* the part of the stream that has not yet been assigned to a piece *)
Definition rest (st : mp_state) : list ascii :=
  let '(rem, fi, cur) := st in
  if rem =? 0 then concat (skipn fi files)
  else skipn (length (nth cur files []) - rem) (nth cur files []) ++ concat (skipn (S fi) files).

Definition inv (st : mp_state) : Prop :=
  let '(rem, fi, cur) := st in
  rem <> 0 -> cur = fi /\ fi < length files /\ rem <= length (nth fi files []).

(* every file index below `bound st` has already been mentioned in some range *)
Definition bound (st : mp_state) : nat :=
  let '(rem, fi, _) := st in if rem =? 0 then fi else S fi.

Definition piece_ok (want : nat) (R : list ascii) (b0 : nat) (rs : list range) (st' : mp_state) : Prop :=
  concat (map (slice files) rs) = firstn want R /\
  rest st' = skipn want R /\
  inv st' /\
  Forall (fun r => r_file r < length files) rs /\
  (forall j, b0 <= j < bound st' -> In j (map r_file rs)).

Lemma mp_while_zero fuel rem fi cur : mp_while fuel lens 0 rem fi cur = ([], (rem, fi, cur)).
Proof. destruct fuel; reflexivity. Qed.

Lemma mp_while_spec : forall fuel target fi cur rs st',
  length files - fi < fuel ->
  mp_while fuel lens target 0 fi cur = (rs, st') ->
  piece_ok target (concat (skipn fi files)) fi rs st'.
Proof.
  induction fuel as [|fuel IH]; intros target fi cur rs st' Hfuel Hrun; [lia|].
  cbn [mp_while] in Hrun. rewrite map_length in Hrun.
  destruct (0 <? target) eqn:Ht; [destruct (fi <? _) eqn:Hfi|];
    cbn [andb] in Hrun; cbv iota in Hrun; cycle 1.
  - (* file_index = len(files): nothing left *)
    apply Nat.ltb_ge in Hfi. injection Hrun as <- <-.
    rewrite (skipn_all2 files Hfi). cbn [concat map].
    unfold piece_ok. rewrite firstn_nil, skipn_nil. cbn [rest Nat.eqb inv bound].
    rewrite (skipn_all2 files Hfi). cbn [concat].
    split; [reflexivity|]. split; [reflexivity|]. split; [congruence|].
    split; [constructor|intros j Hj; lia].
  - (* target = 0 *)
    apply Nat.ltb_ge in Ht. assert (target = 0) as -> by lia. injection Hrun as <- <-.
    unfold piece_ok. cbn [concat map firstn skipn rest Nat.eqb inv bound].
    split; [reflexivity|]. split; [reflexivity|]. split; [congruence|].
    split; [constructor|intros j Hj; lia].
  - apply Nat.ltb_lt in Ht. apply Nat.ltb_lt in Hfi.
    rewrite lens_nth in Hrun.
    rewrite (skipn_nth_cons [] fi files Hfi). cbn [concat].
    set (F := nth fi files []) in *. set (R' := concat (skipn (S fi) files)).
    destruct (length F <=? target) eqn:Hsz.
    + (* the whole file goes into this piece *)
      apply Nat.leb_le in Hsz.
      destruct (mp_while fuel lens (target - length F) 0 (S fi) fi) as [rs1 st1] eqn:Erec.
      injection Hrun as <- <-.
      apply IH in Erec; [|lia]. fold R' in Erec.
      destruct Erec as (Hc & Hr & Hi & Hv & Hb).
      unfold piece_ok. cbn [map concat].
      split; [|split; [|split; [|split]]].
      * rewrite Hc. unfold slice. cbn [r_file r_start r_stop fst snd]. fold F.
        rewrite get_part_tail, skipn_O.
        rewrite firstn_app, (firstn_all2 F) by lia. reflexivity.
      * rewrite Hr. rewrite skipn_app, (skipn_all2 F) by lia. reflexivity.
      * exact Hi.
      * constructor; [exact Hfi|exact Hv].
      * intros j Hj. cbn [map r_file fst]. destruct (Nat.eq_dec j fi) as [->|Hne]; [left; reflexivity|].
        right. apply Hb. lia.
    + (* only the first `target` bytes of the file fit *)
      apply Nat.leb_gt in Hsz. rewrite mp_while_zero in Hrun. injection Hrun as <- <-.
      unfold piece_ok. cbn [map concat]. rewrite app_nil_r.
      split; [|split; [|split; [|split]]].
      * unfold slice. cbn [r_file r_start r_stop fst snd]. fold F.
        rewrite get_part_eq. change (target <? 0) with false. cbv iota. rewrite Nat.sub_0_r, skipn_O.
        rewrite firstn_app. replace (target - length F) with 0 by lia.
        rewrite firstn_O, app_nil_r. reflexivity.
      * cbn [rest]. replace (length F - target =? 0) with false by (symmetry; apply Nat.eqb_neq; lia).
        fold F. fold R'. rewrite skipn_app. replace (target - length F) with 0 by lia.
        rewrite skipn_O. f_equal. f_equal. lia.
      * cbn [inv]. intros _. fold F. repeat split; [exact Hfi|lia].
      * constructor; [exact Hfi|constructor].
      * intros j Hj. cbn [bound] in Hj.
        replace (length F - target =? 0) with false in Hj by (symmetry; apply Nat.eqb_neq; lia).
        left. cbn [r_file fst]. lia.
Qed.

Lemma mp_piece_spec st rs st' :
  inv st -> mp_piece pl lens st = (rs, st') -> piece_ok pl (rest st) (bound st) rs st'.
Proof.
  destruct st as [[rem fi] cur]. intros Hinv Hrun.
  cbn [mp_piece] in Hrun. cbn [rest bound].
  destruct (rem =? 0) eqn:Hrem; cbn [negb] in Hrun.
  - apply Nat.eqb_eq in Hrem. subst rem.
    apply mp_while_spec in Hrun; [exact Hrun|rewrite map_length; lia].
  - apply Nat.eqb_neq in Hrem. cbn [inv] in Hinv. destruct (Hinv Hrem) as (-> & Hfi & Hle).
    rewrite lens_nth in Hrun.
    set (F := nth fi files []) in *. set (R' := concat (skipn (S fi) files)).
    set (start := length F - rem) in *.
    assert (HA : length (skipn start F) = rem) by (rewrite skipn_length; unfold start; lia).
    destruct (rem <=? pl) eqn:Hcmp.
    + (* the rest of the current file ends inside (or exactly at the end of) this piece *)
      apply Nat.leb_le in Hcmp.
      destruct (mp_while (S (length lens)) lens (pl - rem) 0 (S fi) fi) as [rs1 st1] eqn:Erec.
      injection Hrun as <- <-.
      apply mp_while_spec in Erec; [|rewrite map_length; lia]. fold R' in Erec.
      destruct Erec as (Hc & Hr & Hi & Hv & Hb).
      unfold piece_ok. cbn [map concat].
      split; [|split; [|split; [|split]]].
      * rewrite Hc. unfold slice. cbn [r_file r_start r_stop fst snd]. fold F.
        rewrite get_part_tail.
        rewrite firstn_app, (firstn_all2 (skipn start F)) by lia. rewrite HA. reflexivity.
      * rewrite Hr. rewrite skipn_app, (skipn_all2 (skipn start F)) by lia. rewrite HA. reflexivity.
      * exact Hi.
      * constructor; [exact Hfi|exact Hv].
      * intros j Hj. cbn [map]. right. apply Hb. lia.
    + (* the current file continues beyond this piece *)
      apply Nat.leb_gt in Hcmp. rewrite Nat.sub_diag, mp_while_zero in Hrun.
      injection Hrun as <- <-.
      unfold piece_ok. cbn [map concat]. rewrite app_nil_r.
      split; [|split; [|split; [|split]]].
      * unfold slice. cbn [r_file r_start r_stop fst snd]. fold F.
        rewrite get_part_mid.
        rewrite firstn_app. replace (pl - length (skipn start F)) with 0 by lia.
        rewrite firstn_O, app_nil_r. reflexivity.
      * cbn [rest]. replace (rem - pl =? 0) with false by (symmetry; apply Nat.eqb_neq; lia).
        fold F. fold R'. rewrite skipn_app. replace (pl - length (skipn start F)) with 0 by lia.
        rewrite skipn_O, skipn_skipn_add. f_equal. f_equal. unfold start. lia.
      * cbn [inv]. intros _. fold F. repeat split; [exact Hfi|lia].
      * constructor; [exact Hfi|constructor].
      * intros j Hj. cbn [bound] in Hj.
        replace (rem - pl =? 0) with false in Hj by (symmetry; apply Nat.eqb_neq; lia). lia.
Qed.

Lemma inv_init : inv (0, 0, 0).
Proof. cbn [inv]. congruence. Qed.

Lemma rest_init : rest (0, 0, 0) = concat files.
Proof. reflexivity. Qed.

Lemma chunks_length_S (R : list ascii) n :
  S n = length (chunks pl R) ->
  chunks pl R = firstn pl R :: chunks pl (skipn pl R) /\ n = length (chunks pl (skipn pl R)).
Proof.
  intros Hn. assert (Hne : R <> []) by (intros ->; rewrite chunks_nil in Hn; discriminate).
  rewrite (chunks_cons pl R Hpl Hne) in Hn |- *. cbn [length] in Hn. split; [reflexivity|lia].
Qed.

(* ------------------------------------------------------------------------------------------ *)
(* exactness                                                                                   *)
(* ------------------------------------------------------------------------------------------ *)

Definition piece_bytes (rs : list range) : list ascii := concat (map (slice files) rs).

Lemma mp_loop_exact : forall n st, inv st -> n = length (chunks pl (rest st)) ->
  map piece_bytes (mp_loop n pl lens st) = chunks pl (rest st).
Proof.
  induction n as [|n IH]; intros st Hinv Hn.
  - cbn [mp_loop map]. symmetry. apply length_zero_iff_nil. symmetry. exact Hn.
  - destruct (chunks_length_S _ _ Hn) as [Hcons Hn'].
    cbn [mp_loop]. destruct (mp_piece pl lens st) as [rs st'] eqn:Ep.
    destruct (mp_piece_spec _ _ _ Hinv Ep) as (Hc & Hr & Hi & _ & _).
    cbn [map]. rewrite Hcons. f_equal; [exact Hc|].
    rewrite <- Hr. apply IH; [exact Hi|]. rewrite Hr. exact Hn'.
Qed.

Theorem map_pieces_exact_list :
  map piece_bytes (map_pieces pl lens (ceil_div (length (concat files)) pl)) = chunks pl (concat files).
Proof.
  unfold map_pieces. rewrite <- rest_init. apply mp_loop_exact; [exact inv_init|].
  symmetry. apply length_chunks. exact Hpl.
Qed.

Theorem map_pieces_exact : forall i, i < ceil_div (length (concat files)) pl ->
  concat (map (slice files) (nth i (map_pieces pl lens (ceil_div (length (concat files)) pl)) []))
  = nth i (chunks pl (concat files)) [].
Proof.
  intros i _. rewrite <- map_pieces_exact_list. symmetry.
  exact (map_nth piece_bytes (map_pieces pl lens (ceil_div (length (concat files)) pl)) [] i).
Qed.

Lemma map_pieces_length n st : length (mp_loop n pl lens st) = n.
Proof.
  revert st. induction n as [|n IH]; intros st; [reflexivity|].
  cbn [mp_loop]. destruct (mp_piece pl lens st) as [rs st']. cbn [length]. rewrite IH. reflexivity.
Qed.

(* ------------------------------------------------------------------------------------------ *)
(* every range names an existing file; every non-empty file is named                           *)
(* ------------------------------------------------------------------------------------------ *)

Lemma mp_loop_valid : forall n st, inv st ->
  Forall (Forall (fun r => r_file r < length files)) (mp_loop n pl lens st).
Proof.
  induction n as [|n IH]; intros st Hinv; [constructor|].
  cbn [mp_loop]. destruct (mp_piece pl lens st) as [rs st'] eqn:Ep.
  destruct (mp_piece_spec _ _ _ Hinv Ep) as (_ & _ & Hi & Hv & _).
  constructor; [exact Hv|apply IH; exact Hi].
Qed.

Lemma rest_nil_bound st j : inv st -> rest st = [] -> bound st <= j -> nth j files [] = [].
Proof.
  destruct st as [[rem fi] cur]. cbn [inv rest bound]. intros Hinv Hrest Hj.
  destruct (rem =? 0) eqn:Hrem.
  - apply (concat_skipn_nil files fi j Hrest Hj).
  - exfalso. apply Nat.eqb_neq in Hrem. destruct (Hinv Hrem) as (-> & Hfi & Hle).
    apply app_eq_nil in Hrest. destruct Hrest as [Hrest _].
    apply (f_equal (@length ascii)) in Hrest. rewrite skipn_length in Hrest. cbn [length] in Hrest. lia.
Qed.

Lemma mp_loop_covers : forall n st, inv st -> n = length (chunks pl (rest st)) ->
  forall j, bound st <= j -> 0 < length (nth j files []) ->
  exists i, i < n /\ In j (map r_file (nth i (mp_loop n pl lens st) [])).
Proof.
  induction n as [|n IH]; intros st Hinv Hn j Hj Hpos.
  - exfalso. symmetry in Hn. apply length_zero_iff_nil in Hn.
    assert (Hrest : rest st = []) by (rewrite <- (concat_chunks pl (rest st) Hpl), Hn; reflexivity).
    rewrite (rest_nil_bound st j Hinv Hrest Hj) in Hpos. cbn [length] in Hpos. lia.
  - destruct (chunks_length_S _ _ Hn) as [_ Hn'].
    cbn [mp_loop]. destruct (mp_piece pl lens st) as [rs st'] eqn:Ep.
    destruct (mp_piece_spec _ _ _ Hinv Ep) as (_ & Hr & Hi & _ & Hb).
    destruct (lt_dec j (bound st')) as [Hlt|Hge].
    + exists 0. split; [lia|]. cbn [nth]. apply Hb. lia.
    + rewrite <- Hr in Hn'. destruct (IH st' Hi Hn' j ltac:(lia) Hpos) as [i [Hi' Hin]].
      exists (S i). split; [lia|]. cbn [nth]. exact Hin.
Qed.

Theorem map_pieces_covers :
  let total := ceil_div (length (concat files)) pl in
  let pieces := map_pieces pl lens total in
  (forall j, j < length files -> 0 < length (nth j files []) ->
     exists i, i < total /\ In j (map r_file (nth i pieces []))) /\
  (forall i r, In r (nth i pieces []) -> r_file r < length files).
Proof.
  cbv zeta. split.
  - intros j _ Hpos. unfold map_pieces. apply mp_loop_covers.
    + exact inv_init.
    + rewrite rest_init. symmetry. apply length_chunks. exact Hpl.
    + cbn [bound Nat.eqb]. lia.
    + exact Hpos.
  - intros i r Hin. unfold map_pieces in Hin.
    pose proof (mp_loop_valid (ceil_div (length (concat files)) pl) (0, 0, 0) inv_init) as Hall.
    rewrite Forall_forall in Hall.
    destruct (lt_dec i (length (mp_loop (ceil_div (length (concat files)) pl) pl lens (0, 0, 0))))
      as [Hlt|Hge].
    + specialize (Hall _ (nth_In _ [] Hlt)). rewrite Forall_forall in Hall. apply Hall. exact Hin.
    + rewrite nth_overflow in Hin by lia. destruct Hin.
Qed.

(* ------------------------------------------------------------------------------------------ *)
(* a piece with a single range lies inside that one file                                       *)
(* ------------------------------------------------------------------------------------------ *)

Theorem map_pieces_single_file_piece : forall i r,
  let total := ceil_div (length (concat files)) pl in
  i < total ->
  nth i (map_pieces pl lens total) [] = [r] ->
  r_file r < length files /\
  nth i (chunks pl (concat files)) [] = slice files r /\
  exists pre post, nth (r_file r) files [] = pre ++ nth i (chunks pl (concat files)) [] ++ post.
Proof.
  cbv zeta. intros i r Hi Hone.
  pose proof (map_pieces_exact i Hi) as Hex. rewrite Hone in Hex. cbn [map concat] in Hex.
  rewrite app_nil_r in Hex.
  split; [|split].
  - destruct map_pieces_covers as [_ Hv]. apply (Hv i r). rewrite Hone. left. reflexivity.
  - symmetry. exact Hex.
  - rewrite <- Hex. unfold slice. apply get_part_segment.
Qed.

End MapPieces.

(* ------------------------------------------------------------------------------------------ *)
(* Examples                                                                                    *)
(* ------------------------------------------------------------------------------------------ *)

Local Open Scope char_scope.

(* lengths [3;0;0;5;1], piece length 2: a file continuing over a boundary, two zero-length files
   in the middle of a piece, a file ending exactly on a boundary, a last one-byte piece.
   The value is what the Python method returns on the same layout (stop = -1 written None). *)
Definition ex_files : list (list ascii) :=
  [["a"; "b"; "c"]; []; []; ["d"; "e"; "f"; "g"; "h"]; ["i"]].

Example map_pieces_example :
  map_pieces 2 (map (@length ascii) ex_files) 5 =
  [ [(0, 0, Some 2)];
    [(0, 2, None); (1, 0, None); (2, 0, None); (3, 0, Some 1)];
    [(3, 1, Some 3)];
    [(3, 3, None)];
    [(4, 0, None)] ].
Proof. vm_compute. reflexivity. Qed.

Example map_pieces_exact_example :
  ceil_div (length (concat ex_files)) 2 = 5 /\
  map (piece_bytes ex_files) (map_pieces 2 (map (@length ascii) ex_files) 5) =
  [["a"; "b"]; ["c"; "d"]; ["e"; "f"]; ["g"; "h"]; ["i"]] /\
  chunks 2 (concat ex_files) = [["a"; "b"]; ["c"; "d"]; ["e"; "f"]; ["g"; "h"]; ["i"]].
Proof. vm_compute. repeat split. Qed.

(* file ending exactly on a boundary followed by a zero-length file, zero-length files first/last *)
Example map_pieces_boundary_example :
  map_pieces 2 [0; 2; 0; 1; 0] 2 = [ [(0, 0, None); (1, 0, None)]; [(2, 0, None); (3, 0, None); (4, 0, None)] ].
Proof. vm_compute. reflexivity. Qed.

Example map_pieces_single_file_piece_example :
  nth 2 (map_pieces 2 (map (@length ascii) ex_files) 5) [] = [(3, 1, Some 3)] /\
  slice ex_files (3, 1, Some 3) = ["e"; "f"].
Proof. vm_compute. split; reflexivity. Qed.

(* ------------------------------------------------------------------------------------------ *)
(* The behaviour before the fix (D24): both comparisons strict                                 *)
(* ------------------------------------------------------------------------------------------ *)

Local Close Scope char_scope.

Fixpoint mp_while_old (fuel : nat) (lens : list nat) (target remainder file_index current : nat)
  : list range * mp_state :=
  match fuel with
  | O => ([], (remainder, file_index, current))
  | S fuel' =>
      if (0 <? target) && (file_index <? length lens) then
        let current := file_index in
        let size := nth file_index lens 0 in
        if size <? target then
          let '(rs, st) := mp_while_old fuel' lens (target - size) remainder (S file_index) current in
          ((current, 0, None) :: rs, st)
        else
          let '(rs, st) := mp_while_old fuel' lens 0 (size - target) file_index current in
          ((current, 0, Some target) :: rs, st)
      else ([], (remainder, file_index, current))
  end.

Definition mp_piece_old (pl : nat) (lens : list nat) (st : mp_state) : list range * mp_state :=
  let '(remainder, file_index, current) := st in
  let target := pl in
  let fuel := S (length lens) in
  if negb (remainder =? 0) then
    let start := nth current lens 0 - remainder in
    if remainder <? target then
      let '(rs, st') := mp_while_old fuel lens (target - remainder) 0 (S file_index) current in
      ((current, start, None) :: rs, st')
    else
      let '(rs, st') :=
        mp_while_old fuel lens (target - target) (remainder - target) file_index current in
      ((current, start, Some (start + target)) :: rs, st')
  else mp_while_old fuel lens target remainder file_index current.

Fixpoint mp_loop_old (n : nat) (pl : nat) (lens : list nat) (st : mp_state) : list (list range) :=
  match n with
  | O => []
  | S n' => let '(rs, st') := mp_piece_old pl lens st in rs :: mp_loop_old n' pl lens st'
  end.

Definition map_pieces_old (pl : nat) (lens : list nat) (total_pieces : nat) : list (list range) :=
  mp_loop_old total_pieces pl lens (0, 0, 0).

(* lens [2; 1], pl = 2: the first file ends exactly on the boundary, file_index is not advanced,
   piece 1 is mapped to the start of file 0 again. *)
Local Open Scope char_scope.
Definition old_files : list (list ascii) := [["a"; "b"]; ["c"]].

Example map_pieces_old_value :
  map_pieces_old 2 [2; 1] 2 = [ [(0, 0, Some 2)]; [(0, 0, Some 2)] ] /\
  map_pieces 2 [2; 1] 2 = [ [(0, 0, None)]; [(1, 0, None)] ].
Proof. vm_compute. split; reflexivity. Qed.

Theorem map_pieces_old_refuted :
  exists (pl : nat) (files : list (list ascii)) (i : nat),
    0 < pl /\ i < ceil_div (length (concat files)) pl /\
    concat (map (slice files)
                (nth i (map_pieces_old pl (map (@length ascii) files)
                                       (ceil_div (length (concat files)) pl)) []))
    <> nth i (chunks pl (concat files)) [].
Proof.
  exists 2, old_files, 1. split; [lia|]. split; [vm_compute; lia|].
  vm_compute. discriminate.
Qed.

Print Assumptions map_pieces_exact_list.
Print Assumptions map_pieces_exact.
Print Assumptions map_pieces_covers.
Print Assumptions map_pieces_single_file_piece.
Print Assumptions map_pieces_old_refuted.
