(* Proofs about Model/Edit.v (claims C07 and the edit part of C06).
   E1 edit_frame_top, E2 edit_frame_info, E3 edit_info_untouched, E4 edit_sets, E5 edit_history,
   E6 edit_canon / edit_top_sorted, E7 edit_preserves_nodup, and the witness edit_D11_refuted. *)
From TF Require Import Lib.Base Lib.Lex Model.Bencode Proofs.BencodeProofs Model.Edit.
From Coq Require Import Sorted Permutation.

(* ========================================================================================== *)
(* 0. Small tools                                                                              *)
(* ========================================================================================== *)

(* decide [bytes_eqb a b] when both sides are closed terms *)
Ltac keq :=
  repeat match goal with
    | |- context [bytes_eqb ?a ?b] =>
        let v := eval vm_compute in (bytes_eqb a b) in
        match v with
        | true => change (bytes_eqb a b) with true
        | false => change (bytes_eqb a b) with false
        end
    end.

Ltac keq_in H :=
  repeat match type of H with
    | context [bytes_eqb ?a ?b] =>
        let v := eval vm_compute in (bytes_eqb a b) in
        match v with
        | true => change (bytes_eqb a b) with true in H
        | false => change (bytes_eqb a b) with false in H
        end
    end.

Lemma mem_false k d : mem k d = false <-> lookup k d = None.
Proof. unfold mem. destruct (lookup k d); split; congruence. Qed.

Lemma mem_true k d : mem k d = true <-> lookup k d <> None.
Proof. unfold mem. destruct (lookup k d); split; congruence. Qed.

(* conditional deletion: what one iteration of filter_empty does to the dictionary it picks *)
Definition rm (k : bytes) (r : fieldreq) (d : dict) : dict :=
  if is_clear r && mem k d then remove k d else d.

Lemma lookup_rm k r d k' :
  lookup k' (rm k r d) = if is_clear r && bytes_eqb k k' then None else lookup k' d.
Proof.
  unfold rm. destruct (is_clear r); cbn [andb]; [|reflexivity].
  destruct (mem k d) eqn:M.
  - destruct (bytes_eqb_spec k k') as [->|N].
    + apply lookup_remove_same.
    + apply lookup_remove_other; exact N.
  - destruct (bytes_eqb_spec k k') as [->|N]; [|reflexivity].
    apply mem_false in M. exact M.
Qed.

Lemma rm_not_clear k r d : is_clear r = false -> rm k r d = d.
Proof. intros H. unfold rm. rewrite H. reflexivity. Qed.

Lemma rm_cases k r d : rm k r d = d \/ rm k r d = remove k d.
Proof. unfold rm. destruct (is_clear r && mem k d); [right|left]; reflexivity. Qed.

Lemma rm_NoDup k r d : NoDup (map fst d) -> NoDup (map fst (rm k r d)).
Proof. intros H. destruct (rm_cases k r d) as [-> | ->]; [exact H|apply remove_NoDup; exact H]. Qed.

Lemma filter_one_top k r m i :
  lookup k i = None -> filter_one k r (m, i) = (rm k r m, i).
Proof.
  intros H. unfold filter_one, rm. cbn [fst snd]. destruct (is_clear r); cbn [andb]; [|reflexivity].
  destruct (mem k m); [reflexivity|]. apply mem_false in H. rewrite H. reflexivity.
Qed.

Lemma filter_one_info k r m i :
  lookup k m = None -> filter_one k r (m, i) = (m, rm k r i).
Proof.
  intros H. unfold filter_one, rm. cbn [fst snd]. destruct (is_clear r); cbn [andb]; [|reflexivity].
  apply mem_false in H. rewrite H. destruct (mem k i); reflexivity.
Qed.

(* filter_empty on the layout this tool writes, in closed form *)
Lemma filter_empty_layout req m i :
  layout_top_ok m -> layout_info_ok i ->
  filter_empty req (m, i) =
  (rm k_announce (rq_announce req) (rm k_httpseeds (rq_httpseeds req) (rm k_url_list (rq_url_list req) m)),
   rm k_comment (rq_comment req) (rm k_private (rq_private req) (rm k_source (rq_source req) i))).
Proof.
  intros (Tc & Ts & Tp) (Ia & Iu & Ih & _). unfold filter_empty.
  rewrite (filter_one_top k_url_list) by exact Iu.
  rewrite (filter_one_top k_httpseeds) by exact Ih.
  rewrite (filter_one_top k_announce) by exact Ia.
  rewrite (filter_one_info k_source) by (rewrite !lookup_rm; keq; rewrite !andb_false_r; exact Ts).
  rewrite (filter_one_info k_private) by (rewrite !lookup_rm; keq; rewrite !andb_false_r; exact Tp).
  rewrite (filter_one_info k_comment) by (rewrite !lookup_rm; keq; rewrite !andb_false_r; exact Tc).
  reflexivity.
Qed.

(* whatever the layout: each component is obtained by deletions only *)
Lemma filter_one_inv (P Q : dict -> Prop) k r st :
  (forall d, P d -> P (remove k d)) -> (forall d, Q d -> Q (remove k d)) ->
  P (fst st) -> Q (snd st) -> P (fst (filter_one k r st)) /\ Q (snd (filter_one k r st)).
Proof.
  intros HP HQ A B. unfold filter_one. destruct (is_clear r); [|split; assumption].
  destruct (mem k (fst st)); cbn [fst snd]; [split; auto|].
  destruct (mem k (snd st)); cbn [fst snd]; split; auto.
Qed.

Lemma filter_empty_inv (P Q : dict -> Prop) req st :
  (forall k d, P d -> P (remove k d)) -> (forall k d, Q d -> Q (remove k d)) ->
  P (fst st) -> Q (snd st) -> P (fst (filter_empty req st)) /\ Q (snd (filter_empty req st)).
Proof.
  intros HP HQ A B. unfold filter_empty.
  pose proof (filter_one_inv P Q k_url_list (rq_url_list req) _ (HP _) (HQ _) A B) as [A1 B1].
  pose proof (filter_one_inv P Q k_httpseeds (rq_httpseeds req) _ (HP _) (HQ _) A1 B1) as [A2 B2].
  pose proof (filter_one_inv P Q k_announce (rq_announce req) _ (HP _) (HQ _) A2 B2) as [A3 B3].
  pose proof (filter_one_inv P Q k_source (rq_source req) _ (HP _) (HQ _) A3 B3) as [A4 B4].
  pose proof (filter_one_inv P Q k_private (rq_private req) _ (HP _) (HQ _) A4 B4) as [A5 B5].
  exact (filter_one_inv P Q k_comment (rq_comment req) _ (HP _) (HQ _) A5 B5).
Qed.

(* ========================================================================================== *)
(* 1. Per-key description of the edit                                                          *)
(* ========================================================================================== *)

(* what one request does to the value found under a key (None = key absent) *)
Definition fld_after (r : fieldreq) (old : option value) : option value :=
  if is_clear r then None else match set_value r with Some v => Some v | None => old end.
Definition priv_after (r : fieldreq) (old : option value) : option value :=
  if is_clear r then None else if is_set r then Some (BInt 1) else old.
Definition words_after (r : fieldreq) (old : option value) : option value :=
  if is_clear r then None
  else match set_words r with Some ws => Some (BList (map BStr ws)) | None => old end.
Definition ann_after (r : fieldreq) (old : option value) : option value :=
  if is_clear r then None
  else match set_words r with Some (x :: _) => Some (BStr x) | _ => old end.
Definition annlist_after (r : fieldreq) (old : option value) : option value :=
  match set_words r with
  | Some (x :: ws) => Some (BList [BList (map BStr (x :: ws))])
  | _ => old
  end.

Definition info_after (req : request) (k : bytes) (old : option value) : option value :=
  if bytes_eqb k_comment k then fld_after (rq_comment req) old
  else if bytes_eqb k_source k then fld_after (rq_source req) old
  else if bytes_eqb k_private k then priv_after (rq_private req) old
  else old.

(* for every top-level key except "info" *)
Definition top_after (req : request) (k : bytes) (old : option value) : option value :=
  if bytes_eqb k_announce k then ann_after (rq_announce req) old
  else if bytes_eqb k_announce_list k then annlist_after (rq_announce req) old
  else if bytes_eqb k_url_list k then words_after (rq_url_list req) old
  else if bytes_eqb k_httpseeds k then words_after (rq_httpseeds req) old
  else old.

(* the request does not raise IndexError *)
Definition req_ok (req : request) : Prop := set_words (rq_announce req) <> Some [].

Lemma lookup_update k v d k' :
  lookup k' (update k v d) = if bytes_eqb k k' then Some v else lookup k' d.
Proof.
  destruct (bytes_eqb_spec k k') as [->|N];
    [apply lookup_update_same|apply lookup_update_other; exact N].
Qed.

Lemma lookup_set_info_field k r d k' :
  lookup k' (set_info_field k r d) =
  if bytes_eqb k k' then match set_value r with Some v => Some v | None => lookup k' d end
  else lookup k' d.
Proof.
  unfold set_info_field. destruct (set_value r); [rewrite lookup_update|];
    destruct (bytes_eqb k k'); reflexivity.
Qed.

Lemma lookup_set_private r d k' :
  lookup k' (set_private r d) =
  if bytes_eqb k_private k' then (if is_set r then Some (BInt 1) else lookup k' d)
  else lookup k' d.
Proof.
  unfold set_private. destruct (is_set r); [rewrite lookup_update|];
    destruct (bytes_eqb k_private k'); reflexivity.
Qed.

Lemma lookup_set_words_field k r d k' :
  lookup k' (set_words_field k r d) =
  if bytes_eqb k k'
  then match set_words r with Some ws => Some (BList (map BStr ws)) | None => lookup k' d end
  else lookup k' d.
Proof.
  unfold set_words_field. destruct (set_words r); [rewrite lookup_update|];
    destruct (bytes_eqb k k'); reflexivity.
Qed.

Lemma lookup_set_announce r d d' k' :
  set_announce r d = Some d' ->
  lookup k' d' =
  if bytes_eqb k_announce_list k' then annlist_after r (lookup k' d)
  else if bytes_eqb k_announce k'
       then match set_words r with Some (x :: _) => Some (BStr x) | _ => lookup k' d end
       else lookup k' d.
Proof.
  unfold set_announce, annlist_after. destruct (set_words r) as [[|x ws]|]; intros E; try discriminate.
  - injection E as <-. rewrite !lookup_update.
    destruct (bytes_eqb k_announce_list k'), (bytes_eqb k_announce k'); reflexivity.
  - injection E as <-. destruct (bytes_eqb k_announce_list k'), (bytes_eqb k_announce k'); reflexivity.
Qed.

Lemma set_announce_ok r d : set_announce r d <> None <-> set_words r <> Some [].
Proof.
  unfold set_announce. destruct (set_words r) as [[|x ws]|]; split; congruence.
Qed.

(* NoDup is kept by every step *)
Lemma set_info_field_NoDup k r d : NoDup (map fst d) -> NoDup (map fst (set_info_field k r d)).
Proof. intros H. unfold set_info_field. destruct (set_value r); [apply update_NoDup|]; exact H. Qed.

Lemma set_private_NoDup r d : NoDup (map fst d) -> NoDup (map fst (set_private r d)).
Proof. intros H. unfold set_private. destruct (is_set r); [apply update_NoDup|]; exact H. Qed.

Lemma set_words_field_NoDup k r d : NoDup (map fst d) -> NoDup (map fst (set_words_field k r d)).
Proof. intros H. unfold set_words_field. destruct (set_words r); [apply update_NoDup|]; exact H. Qed.

Lemma set_announce_NoDup r d d' :
  set_announce r d = Some d' -> NoDup (map fst d) -> NoDup (map fst d').
Proof.
  unfold set_announce. destruct (set_words r) as [[|x ws]|]; intros E H; try discriminate;
    injection E as <-; [repeat apply update_NoDup|]; exact H.
Qed.

Lemma sort_keys_NoDup d : NoDup (map fst d) -> NoDup (map fst (sort_keys d)).
Proof. intros H. eapply perm_keys_NoDup; [apply Permutation_sym, sort_keys_perm|exact H]. Qed.

(* set_value / set_words / is_clear / is_set agree *)
Lemma set_value_clear r v : set_value r = Some v -> is_clear r = false.
Proof. destruct r as [| |[|c s]|l]; cbn; congruence. Qed.
Lemma set_words_clear r ws : set_words r = Some ws -> is_clear r = false.
Proof. destruct r as [| |[|c s]|l]; cbn; congruence. Qed.
Lemma is_set_clear r : is_set r = true -> is_clear r = false.
Proof. destruct r as [| |[|c s]|l]; cbn; congruence. Qed.
Lemma is_keep_after r : is_keep r = true -> is_clear r = false /\ set_value r = None /\ set_words r = None /\ is_set r = false.
Proof. destruct r as [| |[|c s]|l]; cbn; intros; try discriminate; repeat split. Qed.

(* The whole function in closed form on the tool's own layout *)
Lemma edit_torrent_layout req m i :
  lookup k_info m = Some (BDict i) -> layout_top_ok m -> layout_info_ok i ->
  edit_torrent req m =
  let m1 := rm k_announce (rq_announce req)
              (rm k_httpseeds (rq_httpseeds req) (rm k_url_list (rq_url_list req) m)) in
  let i1 := rm k_comment (rq_comment req)
              (rm k_private (rq_private req) (rm k_source (rq_source req) i)) in
  let i2 := set_private (rq_private req)
              (set_info_field k_source (rq_source req)
                 (set_info_field k_comment (rq_comment req) i1)) in
  match set_announce (rq_announce req) m1 with
  | None => None
  | Some m2 =>
      Some (sort_keys
              (update k_info (BDict (if info_edit req then sort_keys i2 else i2))
                 (set_words_field k_httpseeds (rq_httpseeds req)
                    (set_words_field k_url_list (rq_url_list req) m2))))
  end.
Proof.
  intros Hi Lt Li. unfold edit_torrent. rewrite Hi. cbv beta iota zeta.
  set (st := filter_empty req _).
  assert (F : st = _) by (apply (filter_empty_layout req m i Lt Li)).
  clearbody st. subst st. cbn [fst snd]. reflexivity.
Qed.

Lemma edit_success req m i :
  lookup k_info m = Some (BDict i) -> (edit_torrent req m <> None <-> req_ok req).
Proof.
  intros Hi. unfold edit_torrent, req_ok. rewrite Hi. cbv beta iota zeta.
  set (st := filter_empty req _). clearbody st.
  rewrite <- (set_announce_ok (rq_announce req) (fst st)).
  destruct (set_announce (rq_announce req) (fst st)); split; congruence.
Qed.

Theorem edit_spec req m i m' :
  NoDup (map fst m) -> lookup k_info m = Some (BDict i) -> NoDup (map fst i) ->
  layout_ok m -> edit_torrent req m = Some m' ->
  exists i',
    lookup k_info m' = Some (BDict i') /\
    NoDup (map fst m') /\ NoDup (map fst i') /\
    (forall k, k <> k_info -> lookup k m' = top_after req k (lookup k m)) /\
    (forall k, lookup k i' = info_after req k (lookup k i)) /\
    (info_edit req = false -> i' = i) /\
    (info_edit req = true -> StronglySorted key_lt i') /\
    StronglySorted key_lt m'.
Proof.
  intros Nm Hi Ni [Lt Li] E.
  unfold info_of in Li. rewrite Hi in Li.
  rewrite (edit_torrent_layout req m i Hi Lt Li) in E. cbv zeta in E.
  destruct (set_announce _ _) as [m2|] eqn:Ea in E; [|discriminate]. injection E as <-.
  set (i1 := rm k_comment (rq_comment req)
               (rm k_private (rq_private req) (rm k_source (rq_source req) i))) in *.
  set (i2 := set_private (rq_private req)
               (set_info_field k_source (rq_source req)
                  (set_info_field k_comment (rq_comment req) i1))) in *.
  set (i' := if info_edit req then sort_keys i2 else i2).
  set (m3 := set_words_field k_httpseeds (rq_httpseeds req)
               (set_words_field k_url_list (rq_url_list req) m2)).
  assert (Ni2 : NoDup (map fst i2)).
  { unfold i2, i1. apply set_private_NoDup. repeat apply set_info_field_NoDup.
    repeat apply rm_NoDup. exact Ni. }
  assert (Ni' : NoDup (map fst i')).
  { unfold i'. destruct (info_edit req); [apply sort_keys_NoDup|]; exact Ni2. }
  assert (Nm3 : NoDup (map fst m3)).
  { unfold m3. repeat apply set_words_field_NoDup.
    eapply set_announce_NoDup; [exact Ea|]. repeat apply rm_NoDup. exact Nm. }
  assert (Nu : NoDup (map fst (update k_info (BDict i') m3))) by (apply update_NoDup; exact Nm3).
  exists i'. repeat split.
  - rewrite lookup_sort_keys by exact Nu. apply lookup_update_same.
  - apply sort_keys_NoDup; exact Nu.
  - exact Ni'.
  - intros k Hk. rewrite lookup_sort_keys by exact Nu.
    rewrite lookup_update_other by congruence.
    unfold m3. rewrite !lookup_set_words_field.
    rewrite (lookup_set_announce _ _ _ k Ea). rewrite !lookup_rm.
    unfold top_after, words_after, ann_after, annlist_after.
    destruct (bytes_eqb_spec k_announce k) as [<-|N1]; keq.
    { destruct (rq_announce req) as [| |[|c s]|[|x l]]; cbn [is_clear set_words andb];
        rewrite ?andb_false_r; reflexivity. }
    destruct (bytes_eqb_spec k_announce_list k) as [<-|N2]; keq.
    { rewrite !andb_false_r. reflexivity. }
    destruct (bytes_eqb_spec k_url_list k) as [<-|N3]; keq.
    { rewrite !andb_false_r, ?andb_true_r.
      destruct (rq_url_list req) as [| |[|c s]|l]; cbn [is_clear set_words]; reflexivity. }
    destruct (bytes_eqb_spec k_httpseeds k) as [<-|N4]; keq.
    { rewrite !andb_false_r, ?andb_true_r.
      destruct (rq_httpseeds req) as [| |[|c s]|l]; cbn [is_clear set_words]; reflexivity. }
    rewrite !andb_false_r. reflexivity.
  - intros k.
    assert (L2 : lookup k i' = lookup k i2).
    { unfold i'. destruct (info_edit req); [apply lookup_sort_keys; exact Ni2|reflexivity]. }
    rewrite L2. unfold i2, i1. rewrite lookup_set_private, !lookup_set_info_field, !lookup_rm.
    unfold info_after, fld_after, priv_after.
    destruct (bytes_eqb_spec k_comment k) as [<-|N1]; keq.
    { rewrite !andb_false_r, ?andb_true_r.
      destruct (rq_comment req) as [| |[|c s]|l]; cbn [is_clear set_value]; reflexivity. }
    destruct (bytes_eqb_spec k_source k) as [<-|N2]; keq.
    { rewrite !andb_false_r, ?andb_true_r.
      destruct (rq_source req) as [| |[|c s]|l]; cbn [is_clear set_value]; reflexivity. }
    destruct (bytes_eqb_spec k_private k) as [<-|N3]; keq.
    { rewrite !andb_false_r, ?andb_true_r.
      destruct (rq_private req) as [| |[|c s]|l]; cbn [is_clear is_set is_keep negb andb]; reflexivity. }
    rewrite !andb_false_r. reflexivity.
  - intros IE. unfold i'. rewrite IE. unfold info_edit in IE.
    apply orb_false_iff in IE. destruct IE as [IE Kp]. apply orb_false_iff in IE.
    destruct IE as [Kc Ks]. apply negb_false_iff in Kc, Ks, Kp.
    apply is_keep_after in Kc, Ks, Kp.
    destruct Kc as (Cc & Vc & _ & _), Ks as (Cs & Vs & _ & _), Kp as (Cp & _ & _ & Sp).
    unfold i2, i1, set_private, set_info_field. rewrite Sp, Vs, Vc.
    rewrite !rm_not_clear by assumption. reflexivity.
  - intros IE. unfold i'. rewrite IE. apply sort_keys_sorted. exact Ni2.
  - apply sort_keys_sorted. exact Nu.
Qed.

(* ========================================================================================== *)
(* 2. Shape of the result on ANY layout: deletions, then writes of flat values, then sorting   *)
(* ========================================================================================== *)

(* the values edit_torrent writes *)
Definition flat (v : value) : Prop :=
  v = BInt 1 \/ (exists s, v = BStr s) \/ (exists l, v = BList (map BStr l))
  \/ (exists l, v = BList [BList (map BStr l)]).

Lemma Forall_map_BStr (R : value -> Prop) l : (forall s, R (BStr s)) -> Forall R (map BStr l).
Proof. intros H. induction l; cbn [map]; constructor; auto. Qed.

Lemma flat_canon v : flat v -> canon v.
Proof.
  intros [->|[[s ->]|[[l ->]|[l ->]]]]; try constructor.
  - apply Forall_map_BStr. constructor.
  - constructor; [|constructor]. constructor. apply Forall_map_BStr. constructor.
Qed.

Lemma flat_nodup v : flat v -> nodup_keys v.
Proof. intros H. apply canon_nodup_keys, flat_canon, H. Qed.

Lemma set_value_flat r v : set_value r = Some v -> flat v.
Proof.
  destruct r as [| |[|c s]|l]; cbn [set_value]; intros E; try discriminate; injection E as <-.
  - right; left; eexists; reflexivity.
  - right; right; left; eexists; reflexivity.
Qed.

Section Shape.
  Variables P Q : dict -> Prop.
  Hypothesis P_remove : forall k d, P d -> P (remove k d).
  Hypothesis Q_remove : forall k d, Q d -> Q (remove k d).
  Hypothesis P_update : forall k v d, flat v -> P d -> P (update k v d).
  Hypothesis Q_update : forall k v d, flat v -> Q d -> Q (update k v d).

  Lemma set_info_phase_inv req d :
    Q d ->
    Q (set_private (rq_private req)
         (set_info_field k_source (rq_source req) (set_info_field k_comment (rq_comment req) d))).
  Proof.
    intros H. unfold set_private, set_info_field.
    destruct (set_value (rq_comment req)) as [vc|] eqn:Ec;
      destruct (set_value (rq_source req)) as [vs|] eqn:Es;
      destruct (is_set (rq_private req));
      repeat (apply Q_update; [first [eapply set_value_flat; eassumption|left; reflexivity]|]);
      exact H.
  Qed.

  Lemma set_top_phase_inv req d d2 :
    set_announce (rq_announce req) d = Some d2 -> P d ->
    P (set_words_field k_httpseeds (rq_httpseeds req)
         (set_words_field k_url_list (rq_url_list req) d2)).
  Proof.
    intros E H.
    assert (H2 : P d2).
    { unfold set_announce in E. destruct (set_words (rq_announce req)) as [[|x ws]|];
        try discriminate; injection E as <-; [|exact H].
      apply P_update; [right; right; right; exists (x :: ws); reflexivity|].
      apply P_update; [right; left; eexists; reflexivity|exact H]. }
    unfold set_words_field.
    destruct (set_words (rq_url_list req)); destruct (set_words (rq_httpseeds req));
      repeat (apply P_update; [right; right; left; eexists; reflexivity|]); exact H2.
  Qed.
End Shape.

Lemma set_info_phase_keep req d :
  info_edit req = false ->
  set_private (rq_private req)
    (set_info_field k_source (rq_source req) (set_info_field k_comment (rq_comment req) d)) = d.
Proof.
  intros IE. unfold info_edit in IE.
  apply orb_false_iff in IE. destruct IE as [IE Kp]. apply orb_false_iff in IE.
  destruct IE as [Kc Ks]. apply negb_false_iff in Kc, Ks, Kp.
  apply is_keep_after in Kc, Ks, Kp.
  destruct Kc as (_ & Vc & _ & _), Ks as (_ & Vs & _ & _), Kp as (_ & _ & _ & Sp).
  unfold set_private, set_info_field. rewrite Sp, Vs, Vc. reflexivity.
Qed.

(* info just before `if info_edit: info = sorted(info)` *)
Definition info_pre (req : request) (m i : dict) : dict :=
  set_private (rq_private req)
    (set_info_field k_source (rq_source req)
       (set_info_field k_comment (rq_comment req) (snd (filter_empty req (m, i))))).

(* info as stored by `meta["info"] = info` *)
Definition info_fin (req : request) (m i : dict) : dict :=
  if info_edit req then sort_keys (info_pre req m i) else info_pre req m i.

(* [mp]: meta just before `meta["info"] = info` *)
Lemma edit_torrent_shape req (m i : dict) m' :
  lookup k_info m = Some (BDict i) -> edit_torrent req m = Some m' ->
  exists mp : dict,
    m' = sort_keys (update k_info (BDict (info_fin req m i)) mp) /\
    (forall P : dict -> Prop,
        (forall k d, P d -> P (remove k d)) -> (forall k v d, flat v -> P d -> P (update k v d)) ->
        P m -> P mp) /\
    (forall Q : dict -> Prop,
        (forall k d, Q d -> Q (remove k d)) -> (forall k v d, flat v -> Q d -> Q (update k v d)) ->
        Q i -> Q (info_pre req m i)) /\
    (info_edit req = false ->
     forall Q : dict -> Prop, (forall k d, Q d -> Q (remove k d)) -> Q i -> Q (info_pre req m i)).
Proof.
  intros Hi E. unfold edit_torrent in E. rewrite Hi in E. cbv beta iota zeta in E.
  fold (info_pre req m i) in E. fold (info_fin req m i) in E.
  set (st := filter_empty req _) in E.
  destruct (set_announce (rq_announce req) (fst st)) as [m2|] eqn:Ea; [|discriminate].
  injection E as <-.
  eexists. split; [reflexivity|]. split; [|split].
  - intros P Pr Pu Pm. eapply set_top_phase_inv; [exact Pu|exact Ea|].
    apply (filter_empty_inv P (fun _ => True) req (m, i)); auto.
  - intros Q Qr Qu Qi. unfold info_pre. apply set_info_phase_inv; [exact Qu|].
    apply (filter_empty_inv (fun _ => True) Q req (m, i)); auto.
  - intros IE Q Qr Qi. unfold info_pre. rewrite set_info_phase_keep by exact IE.
    apply (filter_empty_inv (fun _ => True) Q req (m, i)); auto.
Qed.

Lemma edit_some_info req m m' :
  edit_torrent req m = Some m' -> exists i, lookup k_info m = Some (BDict i).
Proof.
  unfold edit_torrent. destruct (lookup k_info m) as [[z|s|l|i]|]; try discriminate.
  intros _. exists i. reflexivity.
Qed.

(* closure properties used with the shape lemma *)
Lemma Forall_snd_remove (R : value -> Prop) k d :
  Forall (fun kv => R (snd kv)) d -> Forall (fun kv => R (snd kv)) (remove k d).
Proof.
  induction d as [|[k0 v0] d IH]; cbn [remove]; intros H; [constructor|].
  inversion H as [|x l Hx Hl]; subst.
  destruct (bytes_eqb k0 k); [apply IH; exact Hl|constructor; [exact Hx|apply IH; exact Hl]].
Qed.

Lemma Forall_snd_update (R : value -> Prop) k v d :
  R v -> Forall (fun kv => R (snd kv)) d -> Forall (fun kv => R (snd kv)) (update k v d).
Proof.
  intros Hv. induction d as [|[k0 v0] d IH]; cbn [update]; intros H.
  - constructor; [exact Hv|constructor].
  - inversion H as [|x l Hx Hl]; subst.
    destruct (bytes_eqb k0 k); constructor; auto.
Qed.

Lemma Forall_snd_sort_keys (R : value -> Prop) d :
  Forall (fun kv => R (snd kv)) d -> Forall (fun kv => R (snd kv)) (sort_keys d).
Proof.
  intros H. rewrite Forall_forall in *. intros x Hx. apply H.
  eapply Permutation_in; [apply sort_keys_perm|exact Hx].
Qed.

Lemma In_remove kv k d : In kv (remove k d) -> In kv d.
Proof.
  induction d as [|[k0 v0] d IH]; cbn [remove]; [tauto|].
  destruct (bytes_eqb k0 k); cbn [In]; tauto.
Qed.

Lemma sorted_remove k d : StronglySorted key_lt d -> StronglySorted key_lt (remove k d).
Proof.
  induction 1 as [|a d Hs IH Ha]; cbn [remove]; [constructor|]. destruct a as [k0 v0].
  destruct (bytes_eqb k0 k); [exact IH|]. constructor; [exact IH|].
  rewrite Forall_forall in *. intros x Hx. apply Ha. eapply In_remove; exact Hx.
Qed.

Lemma lookup_Forall_snd (R : value -> Prop) k v d :
  Forall (fun kv => R (snd kv)) d -> lookup k d = Some v -> R v.
Proof.
  intros H L. apply lookup_Some_In in L. rewrite Forall_forall in H. apply (H (k, v) L).
Qed.

(* ========================================================================================== *)
(* 3. Main theorems                                                                            *)
(* ========================================================================================== *)

Definition P_nodup (d : dict) : Prop := NoDup (map fst d).

Lemma P_nodup_remove k d : P_nodup d -> P_nodup (remove k d).
Proof. apply remove_NoDup. Qed.
Lemma P_nodup_update k v d : flat v -> P_nodup d -> P_nodup (update k v d).
Proof. intros _. apply update_NoDup. Qed.

Lemma info_fin_NoDup req (m i : dict) m' :
  lookup k_info m = Some (BDict i) -> edit_torrent req m = Some m' ->
  NoDup (map fst i) -> NoDup (map fst (info_fin req m i)).
Proof.
  intros Hi E Ni. destruct (edit_torrent_shape req m i m' Hi E) as (mp & _ & _ & Hq & _).
  unfold info_fin. destruct (info_edit req); [apply sort_keys_NoDup|];
    apply (Hq P_nodup P_nodup_remove P_nodup_update Ni).
Qed.

(* where the new info is in the result *)
Lemma edit_info_of req (m i : dict) m' :
  NoDup (map fst m) -> lookup k_info m = Some (BDict i) -> edit_torrent req m = Some m' ->
  lookup k_info m' = Some (BDict (info_fin req m i)).
Proof.
  intros Nm Hi E. destruct (edit_torrent_shape req m i m' Hi E) as (mp & -> & Hp & _).
  rewrite lookup_sort_keys.
  - apply lookup_update_same.
  - apply update_NoDup. apply (Hp P_nodup P_nodup_remove P_nodup_update Nm).
Qed.

Lemma filter_one_not_clear k r st : is_clear r = false -> filter_one k r st = st.
Proof. intros H. unfold filter_one. rewrite H. reflexivity. Qed.

Lemma filter_empty_info_keep req (m i : dict) :
  layout_info_ok i -> info_edit req = false -> snd (filter_empty req (m, i)) = i.
Proof.
  intros (Ia & Iu & Ih & _) IE. unfold info_edit in IE.
  apply orb_false_iff in IE. destruct IE as [IE Kp]. apply orb_false_iff in IE.
  destruct IE as [Kc Ks]. apply negb_false_iff in Kc, Ks, Kp.
  apply is_keep_after in Kc, Ks, Kp.
  destruct Kc as (Cc & _), Ks as (Cs & _), Kp as (Cp & _).
  unfold filter_empty.
  rewrite (filter_one_top k_url_list) by exact Iu.
  rewrite (filter_one_top k_httpseeds) by exact Ih.
  rewrite (filter_one_top k_announce) by exact Ia.
  rewrite !filter_one_not_clear by assumption. reflexivity.
Qed.

(* ---- E3: no info field in the request => the info VALUE is syntactically the same ---- *)
Theorem edit_info_untouched req (m i : dict) m' :
  NoDup (map fst m) -> lookup k_info m = Some (BDict i) -> layout_info_ok i ->
  rq_comment req = Keep -> rq_source req = Keep -> rq_private req = Keep ->
  edit_torrent req m = Some m' ->
  lookup k_info m' = Some (BDict i).
Proof.
  intros Nm Hi Li Kc Ks Kp E.
  assert (IE : info_edit req = false) by (unfold info_edit; rewrite Kc, Ks, Kp; reflexivity).
  rewrite (edit_info_of req m i m' Nm Hi E). unfold info_fin, info_pre. rewrite IE.
  rewrite set_info_phase_keep by exact IE. rewrite filter_empty_info_keep by assumption.
  reflexivity.
Qed.

(* hence the same bencoding of info, hence the same info-hash for every hash function *)
Corollary edit_info_hash_unchanged (H : bytes -> bytes) req (m i : dict) m' :
  NoDup (map fst m) -> lookup k_info m = Some (BDict i) -> layout_info_ok i ->
  rq_comment req = Keep -> rq_source req = Keep -> rq_private req = Keep ->
  edit_torrent req m = Some m' ->
  option_map (fun v => H (encode v)) (lookup k_info m')
  = option_map (fun v => H (encode v)) (lookup k_info m).
Proof.
  intros Nm Hi Li Kc Ks Kp E.
  rewrite (edit_info_untouched req m i m' Nm Hi Li Kc Ks Kp E), Hi. reflexivity.
Qed.

(* ---- E1 / E2: frame ---- *)
Lemma top_after_untouched req k old : ~ In k (touched_top req) -> top_after req k old = old.
Proof.
  unfold touched_top, top_after. intros H.
  destruct (bytes_eqb_spec k_announce k) as [<-|N1].
  { destruct (rq_announce req) as [| |s|l]; try reflexivity; exfalso; apply H; left; reflexivity. }
  destruct (bytes_eqb_spec k_announce_list k) as [<-|N2].
  { destruct (rq_announce req) as [| |s|l]; try reflexivity; exfalso; apply H; right; left; reflexivity. }
  destruct (bytes_eqb_spec k_url_list k) as [<-|N3].
  { destruct (rq_url_list req) as [| |s|l]; try reflexivity; exfalso; apply H;
      apply in_or_app; right; left; reflexivity. }
  destruct (bytes_eqb_spec k_httpseeds k) as [<-|N4]; [|reflexivity].
  destruct (rq_httpseeds req) as [| |s|l]; try reflexivity; exfalso; apply H;
    apply in_or_app; right; apply in_or_app; right; left; reflexivity.
Qed.

Lemma info_after_untouched req k old : ~ In k (touched_info req) -> info_after req k old = old.
Proof.
  unfold touched_info, info_after. intros H.
  destruct (bytes_eqb_spec k_comment k) as [<-|N1].
  { destruct (rq_comment req) as [| |s|l]; try reflexivity; exfalso; apply H; left; reflexivity. }
  destruct (bytes_eqb_spec k_source k) as [<-|N2].
  { destruct (rq_source req) as [| |s|l]; try reflexivity; exfalso; apply H;
      apply in_or_app; right; left; reflexivity. }
  destruct (bytes_eqb_spec k_private k) as [<-|N3]; [|reflexivity].
  destruct (rq_private req) as [| |s|l]; try reflexivity; exfalso; apply H;
    apply in_or_app; right; apply in_or_app; right; left; reflexivity.
Qed.

Theorem edit_frame_top req (m i : dict) m' k :
  NoDup (map fst m) -> lookup k_info m = Some (BDict i) -> NoDup (map fst i) -> layout_ok m ->
  edit_torrent req m = Some m' ->
  ~ In k (touched_top req) -> lookup k m' = lookup k m.
Proof.
  intros Nm Hi Ni L E Hk.
  destruct (edit_spec req m i m' Nm Hi Ni L E) as (i' & _ & _ & _ & Ht & _).
  rewrite Ht.
  - apply top_after_untouched; exact Hk.
  - intros ->. apply Hk. unfold touched_top. repeat (apply in_or_app; right). left; reflexivity.
Qed.

Theorem edit_frame_info req (m i : dict) m' k :
  NoDup (map fst m) -> lookup k_info m = Some (BDict i) -> NoDup (map fst i) -> layout_ok m ->
  edit_torrent req m = Some m' ->
  ~ In k (touched_info req) -> lookup k (info_of m') = lookup k (info_of m).
Proof.
  intros Nm Hi Ni L E Hk.
  destruct (edit_spec req m i m' Nm Hi Ni L E) as (i' & Hi' & _ & _ & _ & Hinf & _).
  unfold info_of. rewrite Hi', Hi, Hinf. apply info_after_untouched; exact Hk.
Qed.

(* ---- E4: every Set field has the prescribed value at its home, every Cleared field is gone ---- *)
Theorem edit_sets req (m i : dict) m' :
  NoDup (map fst m) -> lookup k_info m = Some (BDict i) -> NoDup (map fst i) -> layout_ok m ->
  edit_torrent req m = Some m' ->
  (forall v, set_value (rq_comment req) = Some v -> lookup k_comment (info_of m') = Some v) /\
  (is_clear (rq_comment req) = true -> lookup k_comment (info_of m') = None) /\
  (forall v, set_value (rq_source req) = Some v -> lookup k_source (info_of m') = Some v) /\
  (is_clear (rq_source req) = true -> lookup k_source (info_of m') = None) /\
  (is_set (rq_private req) = true -> lookup k_private (info_of m') = Some (BInt 1)) /\
  (is_clear (rq_private req) = true -> lookup k_private (info_of m') = None) /\
  (forall x ws, set_words (rq_announce req) = Some (x :: ws) ->
                lookup k_announce m' = Some (BStr x) /\
                lookup k_announce_list m' = Some (BList [BList (map BStr (x :: ws))])) /\
  (is_clear (rq_announce req) = true -> lookup k_announce m' = None) /\
  (forall ws, set_words (rq_url_list req) = Some ws ->
              lookup k_url_list m' = Some (BList (map BStr ws))) /\
  (is_clear (rq_url_list req) = true -> lookup k_url_list m' = None) /\
  (forall ws, set_words (rq_httpseeds req) = Some ws ->
              lookup k_httpseeds m' = Some (BList (map BStr ws))) /\
  (is_clear (rq_httpseeds req) = true -> lookup k_httpseeds m' = None).
Proof.
  intros Nm Hi Ni L E.
  destruct (edit_spec req m i m' Nm Hi Ni L E) as (i' & Hi' & _ & _ & Ht & Hinf & _).
  unfold info_of. rewrite Hi'. rewrite !Hinf.
  rewrite !Ht by (intros C; vm_compute in C; discriminate).
  unfold info_after, top_after. keq. cbv iota.
  unfold fld_after, priv_after, ann_after, annlist_after, words_after.
  repeat match goal with |- _ /\ _ => split end.
  - intros v Hv. rewrite (set_value_clear _ _ Hv), Hv. reflexivity.
  - intros ->. reflexivity.
  - intros v Hv. rewrite (set_value_clear _ _ Hv), Hv. reflexivity.
  - intros ->. reflexivity.
  - intros Hs. rewrite (is_set_clear _ Hs), Hs. reflexivity.
  - intros ->. reflexivity.
  - intros x ws Hw. rewrite (set_words_clear _ _ Hw), Hw. split; reflexivity.
  - intros ->. reflexivity.
  - intros ws Hw. rewrite (set_words_clear _ _ Hw), Hw. reflexivity.
  - intros ->. reflexivity.
  - intros ws Hw. rewrite (set_words_clear _ _ Hw), Hw. reflexivity.
  - intros ->. reflexivity.
Qed.

(* ---- E7: no duplicate keys are created ---- *)
Theorem edit_preserves_nodup req (m i : dict) m' :
  NoDup (map fst m) -> lookup k_info m = Some (BDict i) -> NoDup (map fst i) ->
  edit_torrent req m = Some m' ->
  NoDup (map fst m') /\ exists i', lookup k_info m' = Some (BDict i') /\ NoDup (map fst i').
Proof.
  intros Nm Hi Ni E. split.
  - destruct (edit_torrent_shape req m i m' Hi E) as (mp & -> & Hp & _).
    apply sort_keys_NoDup, update_NoDup. apply (Hp P_nodup P_nodup_remove P_nodup_update Nm).
  - exists (info_fin req m i). split; [apply edit_info_of; assumption|].
    eapply info_fin_NoDup; eassumption.
Qed.

Definition P_nodup_keys (d : dict) : Prop := nodup_keys (BDict d).

Lemma P_nodup_keys_remove k d : P_nodup_keys d -> P_nodup_keys (remove k d).
Proof.
  unfold P_nodup_keys. intros H. inversion H as [| | |d' Hn Hf]; subst.
  constructor; [apply remove_NoDup; exact Hn|apply Forall_snd_remove; exact Hf].
Qed.

Lemma P_nodup_keys_update_gen k v d : nodup_keys v -> P_nodup_keys d -> P_nodup_keys (update k v d).
Proof.
  unfold P_nodup_keys. intros Hv H. inversion H as [| | |d' Hn Hf]; subst.
  constructor; [apply update_NoDup; exact Hn|apply Forall_snd_update; assumption].
Qed.

Lemma P_nodup_keys_update k v d : flat v -> P_nodup_keys d -> P_nodup_keys (update k v d).
Proof. intros Hv. apply P_nodup_keys_update_gen, flat_nodup, Hv. Qed.

Lemma P_nodup_keys_sort d : P_nodup_keys d -> P_nodup_keys (sort_keys d).
Proof.
  unfold P_nodup_keys. intros H. inversion H as [| | |d' Hn Hf]; subst.
  constructor; [apply sort_keys_NoDup; exact Hn|apply Forall_snd_sort_keys; exact Hf].
Qed.

(* the same at every depth *)
Theorem edit_preserves_nodup_keys req m m' :
  nodup_keys (BDict m) -> edit_torrent req m = Some m' -> nodup_keys (BDict m').
Proof.
  intros Hm E. destruct (edit_some_info req m m' E) as [i Hi].
  destruct (edit_torrent_shape req m i m' Hi E) as (mp & -> & Hp & Hq & _).
  assert (Hin : nodup_keys (BDict i)).
  { inversion Hm as [| | |d' Hn Hf]; subst.
    apply (lookup_Forall_snd nodup_keys k_info (BDict i) m Hf Hi). }
  apply P_nodup_keys_sort. apply P_nodup_keys_update_gen.
  - unfold info_fin. destruct (info_edit req); [apply P_nodup_keys_sort|];
      apply (Hq P_nodup_keys P_nodup_keys_remove P_nodup_keys_update Hin).
  - apply (Hp P_nodup_keys P_nodup_keys_remove P_nodup_keys_update Hm).
Qed.

(* ---- E6 (C06): the edit keeps a canonical metafile canonical ---- *)
Definition P_canon_vals (d : dict) : Prop :=
  NoDup (map fst d) /\ Forall (fun kv => canon (snd kv)) d.

Lemma P_canon_vals_remove k d : P_canon_vals d -> P_canon_vals (remove k d).
Proof. intros [A B]. split; [apply remove_NoDup; exact A|apply Forall_snd_remove; exact B]. Qed.
Lemma P_canon_vals_update_gen k v d : canon v -> P_canon_vals d -> P_canon_vals (update k v d).
Proof. intros Hv [A B]. split; [apply update_NoDup; exact A|apply Forall_snd_update; assumption]. Qed.
Lemma P_canon_vals_update k v d : flat v -> P_canon_vals d -> P_canon_vals (update k v d).
Proof. intros Hv. apply P_canon_vals_update_gen, flat_canon, Hv. Qed.

Definition P_canon (d : dict) : Prop := canon (BDict d).
Lemma P_canon_remove k d : P_canon d -> P_canon (remove k d).
Proof.
  unfold P_canon. intros H. inversion H as [| | |d' Hs Hf]; subst.
  constructor; [apply sorted_remove; exact Hs|apply Forall_snd_remove; exact Hf].
Qed.

Theorem edit_canon req m m' :
  canon (BDict m) -> edit_torrent req m = Some m' -> canon (BDict m').
Proof.
  intros Hm E. destruct (edit_some_info req m m' E) as [i Hi].
  destruct (edit_torrent_shape req m i m' Hi E) as (mp & -> & Hp & Hq & Hk).
  inversion Hm as [| | |d' Hs Hf]; subst.
  assert (Hin : canon (BDict i)) by (apply (lookup_Forall_snd canon k_info (BDict i) m Hf Hi)).
  assert (Pi : P_canon_vals i).
  { inversion Hin as [| | |d' Hs' Hf']; subst. split; [apply sorted_keys_NoDup; exact Hs'|exact Hf']. }
  assert (Pm : P_canon_vals m) by (split; [apply sorted_keys_NoDup; exact Hs|exact Hf]).
  assert (Cfin : canon (BDict (info_fin req m i))).
  { unfold info_fin. destruct (info_edit req) eqn:IE.
    - destruct (Hq P_canon_vals P_canon_vals_remove P_canon_vals_update Pi) as [A B].
      apply sort_keys_canon_top; assumption.
    - apply (Hk eq_refl P_canon P_canon_remove Hin). }
  destruct (P_canon_vals_update_gen k_info _ mp Cfin
              (Hp P_canon_vals P_canon_vals_remove P_canon_vals_update Pm)) as [A B].
  apply sort_keys_canon_top; assumption.
Qed.

(* for ANY duplicate-free metafile the top level of the result is strictly sorted, and so is info
   as soon as one info field is in the request *)
Theorem edit_top_sorted req m m' :
  NoDup (map fst m) -> edit_torrent req m = Some m' -> StronglySorted key_lt m'.
Proof.
  intros Nm E. destruct (edit_some_info req m m' E) as [i Hi].
  destruct (edit_torrent_shape req m i m' Hi E) as (mp & -> & Hp & _).
  apply sort_keys_sorted, update_NoDup. apply (Hp P_nodup P_nodup_remove P_nodup_update Nm).
Qed.

Theorem edit_info_sorted req (m i : dict) m' :
  NoDup (map fst m) -> lookup k_info m = Some (BDict i) -> NoDup (map fst i) ->
  edit_torrent req m = Some m' -> info_edit req = true ->
  exists i', lookup k_info m' = Some (BDict i') /\ StronglySorted key_lt i'.
Proof.
  intros Nm Hi Ni E IE. exists (info_fin req m i). split; [apply edit_info_of; assumption|].
  destruct (edit_torrent_shape req m i m' Hi E) as (mp & _ & _ & Hq & _).
  unfold info_fin. rewrite IE. apply sort_keys_sorted.
  apply (Hq P_nodup P_nodup_remove P_nodup_update Ni).
Qed.

(* ========================================================================================== *)
(* 4. E5: a history of edits = per field, the last request that is not Keep                    *)
(* ========================================================================================== *)

Definition top_seq (reqs : list request) (k : bytes) (old : option value) : option value :=
  fold_left (fun o r => top_after r k o) reqs old.
Definition info_seq (reqs : list request) (k : bytes) (old : option value) : option value :=
  fold_left (fun o r => info_after r k o) reqs old.

Lemma edit_seq_None reqs :
  fold_left (fun acc r => match acc with Some m => edit_torrent r m | None => None end)
            reqs None = None.
Proof. induction reqs as [|r reqs IH]; cbn [fold_left]; [reflexivity|exact IH]. Qed.

Lemma edit_seq_cons r reqs m :
  edit_seq (r :: reqs) m =
  match edit_torrent r m with Some m1 => edit_seq reqs m1 | None => None end.
Proof.
  unfold edit_seq. cbn [fold_left]. destruct (edit_torrent r m); [reflexivity|apply edit_seq_None].
Qed.

Lemma edit_layout_ok req (m i : dict) m' :
  NoDup (map fst m) -> lookup k_info m = Some (BDict i) -> NoDup (map fst i) -> layout_ok m ->
  edit_torrent req m = Some m' -> layout_ok m'.
Proof.
  intros Nm Hi Ni L E.
  destruct (edit_spec req m i m' Nm Hi Ni L E) as (i' & Hi' & _ & _ & Ht & Hinf & _).
  destruct L as [(Tc & Ts & Tp) Li]. unfold info_of in Li. rewrite Hi in Li.
  destruct Li as (Ia & Iu & Ih & Il).
  unfold layout_ok, layout_top_ok, layout_info_ok, info_of. rewrite Hi'. rewrite !Hinf.
  rewrite !Ht by (intros C; vm_compute in C; discriminate).
  unfold top_after, info_after. keq. cbv iota. repeat split; assumption.
Qed.

Lemma edit_seq_nil m : edit_seq [] m = Some m.
Proof. reflexivity. Qed.

Lemma edit_seq_spec reqs : forall (m i : dict) m',
  NoDup (map fst m) -> lookup k_info m = Some (BDict i) -> NoDup (map fst i) -> layout_ok m ->
  edit_seq reqs m = Some m' ->
  exists i',
    lookup k_info m' = Some (BDict i') /\
    (forall k, k <> k_info -> lookup k m' = top_seq reqs k (lookup k m)) /\
    (forall k, lookup k i' = info_seq reqs k (lookup k i)) /\
    (existsb info_edit reqs = false -> i' = i) /\
    Forall req_ok reqs /\
    (reqs <> [] -> StronglySorted key_lt m') /\
    (existsb info_edit reqs = true -> StronglySorted key_lt i').
Proof.
  induction reqs as [|r reqs IH]; intros m i m' Nm Hi Ni L E.
  - rewrite edit_seq_nil in E. injection E as <-.
    exists i. repeat split; try congruence; try discriminate. constructor.
  - rewrite edit_seq_cons in E. destruct (edit_torrent r m) as [m1|] eqn:E1; [|discriminate].
    destruct (edit_spec r m i m1 Nm Hi Ni L E1)
      as (i1 & Hi1 & Nm1 & Ni1 & Ht & Hinf & Hk & Hsi & Hsm).
    pose proof (edit_layout_ok r m i m1 Nm Hi Ni L E1) as L1.
    destruct (IH m1 i1 m' Nm1 Hi1 Ni1 L1 E) as (i' & Hi' & Ht' & Hinf' & Hk' & Hok & Hsm' & Hsi').
    exists i'. split; [exact Hi'|]. split; [|split; [|split; [|split; [|split]]]].
    + intros k Hne. rewrite (Ht' k Hne), (Ht k Hne). reflexivity.
    + intros k. rewrite Hinf', Hinf. reflexivity.
    + cbn [existsb]. intros X. apply orb_false_iff in X. destruct X as [X1 X2].
      rewrite (Hk' X2). apply Hk. exact X1.
    + constructor; [|exact Hok]. apply (edit_success r m i Hi). congruence.
    + intros _. destruct reqs as [|r2 reqs2].
      * rewrite edit_seq_nil in E. injection E as <-. exact Hsm.
      * apply Hsm'. discriminate.
    + cbn [existsb]. intros X. destruct (existsb info_edit reqs) eqn:X2.
      * apply Hsi'. reflexivity.
      * rewrite (Hk' eq_refl). rewrite orb_false_r in X. apply Hsi. exact X.
Qed.

(* composition of the per-field functions *)
Lemma fld_after_merge a b old : fld_after (merge_field a b) old = fld_after b (fld_after a old).
Proof. destruct b as [| |[|c s]|l]; reflexivity. Qed.

Lemma priv_after_merge a b old : priv_after (merge_field a b) old = priv_after b (priv_after a old).
Proof. destruct b as [| |[|c s]|l]; reflexivity. Qed.

Lemma words_after_merge a b old :
  words_after (merge_field a b) old = words_after b (words_after a old).
Proof. destruct b as [| |[|c s]|l]; reflexivity. Qed.

Lemma ann_after_merge a b old :
  set_words b <> Some [] -> ann_after (merge_field a b) old = ann_after b (ann_after a old).
Proof.
  intros Hb. destruct b as [| |[|c s]|l]; try reflexivity.
  - unfold ann_after. cbn [merge_field is_keep is_clear set_words] in *.
    destruct (split_ws (c :: s)); [congruence|reflexivity].
  - unfold ann_after. cbn [merge_field is_keep is_clear set_words] in *.
    destruct l; [congruence|reflexivity].
Qed.

Lemma info_after_merge a b k old :
  info_after (merge_req a b) k old = info_after b k (info_after a k old).
Proof.
  unfold info_after, merge_req. cbn [rq_comment rq_source rq_private].
  destruct (bytes_eqb k_comment k); [apply fld_after_merge|].
  destruct (bytes_eqb k_source k); [apply fld_after_merge|].
  destruct (bytes_eqb k_private k); [apply priv_after_merge|reflexivity].
Qed.

Lemma last_writes_snoc reqs r : last_writes (reqs ++ [r]) = merge_req (last_writes reqs) r.
Proof. unfold last_writes. rewrite fold_left_app. reflexivity. Qed.

Lemma info_seq_last reqs k old : info_seq reqs k old = info_after (last_writes reqs) k old.
Proof.
  induction reqs as [|r reqs IH] using rev_ind.
  - unfold info_seq, last_writes, info_after. cbn [fold_left].
    destruct (bytes_eqb k_comment k), (bytes_eqb k_source k), (bytes_eqb k_private k); reflexivity.
  - rewrite last_writes_snoc, info_after_merge, <- IH.
    unfold info_seq. rewrite fold_left_app. reflexivity.
Qed.

Lemma top_seq_last reqs k old :
  Forall req_ok reqs ->
  (k = k_announce_list -> is_clear (rq_announce (last_writes reqs)) = false) ->
  top_seq reqs k old = top_after (last_writes reqs) k old.
Proof.
  revert old. induction reqs as [|r reqs IH] using rev_ind; intros old Hok Hc.
  - unfold top_seq, last_writes, top_after. cbn [fold_left].
    destruct (bytes_eqb k_announce k), (bytes_eqb k_announce_list k), (bytes_eqb k_url_list k),
      (bytes_eqb k_httpseeds k); reflexivity.
  - apply Forall_app in Hok. destruct Hok as [Hok Hr]. inversion Hr as [|x l Hr' _]; subst.
    unfold req_ok in Hr'.
    assert (S : top_seq (reqs ++ [r]) k old = top_after r k (top_seq reqs k old))
      by (unfold top_seq; rewrite fold_left_app; reflexivity).
    rewrite S, last_writes_snoc. rewrite last_writes_snoc in Hc.
    destruct (bytes_eqb_spec k_announce_list k) as [<-|N].
    + specialize (Hc eq_refl). unfold merge_req in Hc. cbn [rq_announce] in Hc.
      unfold top_after, merge_req. keq. cbv iota. cbn [rq_announce].
      destruct (rq_announce r) as [| |[|c s]|l] eqn:Er.
      * cbn [merge_field is_keep] in *. rewrite IH by (try exact Hok; intros _; exact Hc).
        unfold top_after. keq. reflexivity.
      * cbn in Hc. discriminate.
      * cbn in Hc. discriminate.
      * unfold annlist_after. cbn [merge_field is_keep set_words] in *.
        destruct (split_ws (c :: s)); [congruence|reflexivity].
      * unfold annlist_after. cbn [merge_field is_keep set_words] in *.
        destruct l; [congruence|reflexivity].
    + rewrite IH by (try exact Hok; intros C; congruence).
      unfold top_after, merge_req. cbn [rq_announce rq_url_list rq_httpseeds].
      destruct (bytes_eqb k_announce k); [symmetry; apply ann_after_merge; exact Hr'|].
      apply bytes_eqb_neq in N. rewrite N.
      destruct (bytes_eqb k_url_list k); [symmetry; apply words_after_merge|].
      destruct (bytes_eqb k_httpseeds k); [symmetry; apply words_after_merge|reflexivity].
Qed.

Lemma merge_field_cases a b : merge_field a b = a \/ merge_field a b = b.
Proof. unfold merge_field. destruct (is_keep b); [left|right]; reflexivity. Qed.

Lemma last_writes_ok reqs : Forall req_ok reqs -> req_ok (last_writes reqs).
Proof.
  induction reqs as [|r reqs IH] using rev_ind; intros Hok.
  - unfold req_ok. cbn. discriminate.
  - apply Forall_app in Hok. destruct Hok as [Hok Hr]. inversion Hr as [|x l Hr' _]; subst.
    rewrite last_writes_snoc. unfold req_ok, merge_req. cbn [rq_announce].
    destruct (merge_field_cases (rq_announce (last_writes reqs)) (rq_announce r)) as [-> | ->];
      [apply IH; exact Hok|exact Hr'].
Qed.

Lemma notkeep_merge a b :
  negb (is_keep (merge_field a b)) = negb (is_keep a) || negb (is_keep b).
Proof. destruct a, b; reflexivity. Qed.

Lemma info_edit_merge a b : info_edit (merge_req a b) = info_edit a || info_edit b.
Proof.
  unfold info_edit, merge_req. cbn [rq_comment rq_source rq_private]. rewrite !notkeep_merge.
  destruct (is_keep (rq_comment a)), (is_keep (rq_source a)), (is_keep (rq_private a)),
    (is_keep (rq_comment b)), (is_keep (rq_source b)), (is_keep (rq_private b)); reflexivity.
Qed.

Lemma info_edit_last_writes reqs : info_edit (last_writes reqs) = existsb info_edit reqs.
Proof.
  induction reqs as [|r reqs IH] using rev_ind; [reflexivity|].
  rewrite last_writes_snoc, info_edit_merge, existsb_app, IH. cbn [existsb].
  rewrite orb_false_r. reflexivity.
Qed.

(* E5.  [m'] after the whole history, [m''] after the single merged request.  The top-level
   key -> value maps agree (except "announce-list" when the last write to announce is Clear: then
   the history keeps the list of an earlier Set while the merged request keeps the original one --
   Clear only promises that "announce" is gone), "info" agrees as a key -> value map, and when no
   request names an info field both infos are syntactically the original info. *)
Theorem edit_history reqs (m i : dict) m' :
  NoDup (map fst m) -> lookup k_info m = Some (BDict i) -> NoDup (map fst i) -> layout_ok m ->
  edit_seq reqs m = Some m' ->
  exists m'' i' i'',
    edit_torrent (last_writes reqs) m = Some m'' /\
    lookup k_info m' = Some (BDict i') /\ lookup k_info m'' = Some (BDict i'') /\
    (forall k, k <> k_info ->
               (k = k_announce_list -> is_clear (rq_announce (last_writes reqs)) = false) ->
               lookup k m' = lookup k m'') /\
    (forall k, lookup k i' = lookup k i'') /\
    (info_edit (last_writes reqs) = false -> i' = i /\ i'' = i).
Proof.
  intros Nm Hi Ni L E.
  destruct (edit_seq_spec reqs m i m' Nm Hi Ni L E) as (i' & Hi' & Ht' & Hinf' & Hk' & Hok & _).
  destruct (edit_torrent (last_writes reqs) m) as [m''|] eqn:E2.
  2:{ exfalso. apply (edit_success (last_writes reqs) m i Hi); [|exact E2].
      apply last_writes_ok; exact Hok. }
  destruct (edit_spec _ m i m'' Nm Hi Ni L E2) as (i'' & Hi'' & _ & _ & Ht'' & Hinf'' & Hk'' & _).
  exists m'', i', i''. split; [reflexivity|]. split; [exact Hi'|]. split; [exact Hi''|].
  split; [|split].
  - intros k Hne Hc. rewrite (Ht' k Hne), (Ht'' k Hne). apply top_seq_last; assumption.
  - intros k. rewrite Hinf', Hinf''. apply info_seq_last.
  - intros IE. split; [apply Hk'; rewrite <- info_edit_last_writes; exact IE|apply Hk''; exact IE].
Qed.

(* two strictly sorted dictionaries with the same key -> value map are the same list *)
Lemma sorted_lookup_ext d1 d2 :
  StronglySorted key_lt d1 -> StronglySorted key_lt d2 ->
  (forall k, lookup k d1 = lookup k d2) -> d1 = d2.
Proof.
  intros S1 S2 H. apply (StronglySorted_perm_eq key_lt key_lt_irrefl key_lt_trans); try assumption.
  pose proof (sorted_keys_NoDup d1 S1) as N1. pose proof (sorted_keys_NoDup d2 S2) as N2.
  apply NoDup_Permutation; [eapply NoDup_map_inv; exact N1|eapply NoDup_map_inv; exact N2|].
  intros [k v]. split; intros I.
  - apply lookup_Some_In. rewrite <- H. apply In_lookup; assumption.
  - apply lookup_Some_In. rewrite H. apply In_lookup; assumption.
Qed.

(* E5, strong form: unless the last write to announce is Clear, a non-empty history and the single
   merged request produce the SAME ordered dictionary, hence the same file bytes. *)
Theorem edit_history_eq reqs (m i : dict) m' :
  NoDup (map fst m) -> lookup k_info m = Some (BDict i) -> NoDup (map fst i) -> layout_ok m ->
  reqs <> [] -> is_clear (rq_announce (last_writes reqs)) = false ->
  edit_seq reqs m = Some m' ->
  edit_torrent (last_writes reqs) m = Some m'.
Proof.
  intros Nm Hi Ni L Hne Hc E.
  destruct (edit_seq_spec reqs m i m' Nm Hi Ni L E)
    as (i' & Hi' & Ht' & Hinf' & Hk' & Hok & Hsm' & Hsi').
  destruct (edit_torrent (last_writes reqs) m) as [m''|] eqn:E2.
  2:{ exfalso. apply (edit_success (last_writes reqs) m i Hi); [|exact E2].
      apply last_writes_ok; exact Hok. }
  destruct (edit_spec _ m i m'' Nm Hi Ni L E2)
    as (i'' & Hi'' & _ & _ & Ht'' & Hinf'' & Hk'' & Hsi'' & Hsm'').
  f_equal. symmetry.
  assert (Ei : i' = i'').
  { destruct (info_edit (last_writes reqs)) eqn:IE.
    - apply sorted_lookup_ext.
      + apply Hsi'. rewrite <- info_edit_last_writes. exact IE.
      + apply Hsi''. reflexivity.
      + intros k. rewrite Hinf', Hinf''. apply info_seq_last.
    - rewrite (Hk'' eq_refl). apply Hk'. rewrite <- info_edit_last_writes. exact IE. }
  apply sorted_lookup_ext; [apply Hsm'; exact Hne|exact Hsm''|].
  intros k. destruct (bytes_eqb_spec k k_info) as [->|N].
  - rewrite Hi', Hi'', Ei. reflexivity.
  - rewrite (Ht' k N), (Ht'' k N). apply top_seq_last; [exact Hok|intros _; exact Hc].
Qed.

(* ========================================================================================== *)
(* 5. Boolean checkers, the D11 witness, examples                                              *)
(* ========================================================================================== *)

Lemma layout_okb_spec m : layout_okb m = true <-> layout_ok m.
Proof.
  unfold layout_okb, layout_ok, layout_top_ok, layout_info_ok.
  rewrite !andb_true_iff, !negb_true_iff, !mem_false. tauto.
Qed.

Module Examples.
  Import String.
  Local Open Scope string_scope.
  Definition b (s : string) : bytes := list_ascii_of_string s.

  (* a FOREIGN metafile: unsorted at both levels, unknown keys, a string url-list *)
  Definition ex_info : dict :=
    [(b"piece length", BInt 16384); (b"name", BStr (b"a")); (b"length", BInt 3);
     (b"pieces", BStr (b"01234567890123456789")); (b"x-foreign", BList [BInt 1])].
  Definition ex_meta : dict :=
    [(b"info", BDict ex_info); (b"announce", BStr (b"http://old")); (b"zzz", BInt 7);
     (b"created by", BStr (b"other"))].

  Example ex_hyps :
    NoDup (map fst ex_meta) /\ lookup k_info ex_meta = Some (BDict ex_info) /\
    NoDup (map fst ex_info) /\ layout_ok ex_meta /\ layout_info_ok ex_info /\
    canonb (BDict ex_meta) = false.
  Proof.
    split; [apply nodupb_spec; vm_compute; reflexivity|]. split; [reflexivity|].
    split; [apply nodupb_spec; vm_compute; reflexivity|].
    split; [apply layout_okb_spec; vm_compute; reflexivity|].
    split; [|vm_compute; reflexivity]. repeat split.
  Qed.

  (* announce from a multi-word string, url-list from a list, httpseeds cleared (absent) *)
  Definition ex_req_top : request :=
    mkReq Keep Keep Keep (SetStr (b"  http://t1   http://t2 ")) (SetList [b"http://w"]) Clear.

  (* E1, E3, E4 on the example: info is syntactically the foreign, unsorted one; top level sorted *)
  Example ex_edit_top :
    edit_torrent ex_req_top ex_meta =
    Some [(b"announce", BStr (b"http://t1"));
          (b"announce-list", BList [BList [BStr (b"http://t1"); BStr (b"http://t2")]]);
          (b"created by", BStr (b"other"));
          (b"info", BDict ex_info);
          (b"url-list", BList [BStr (b"http://w")]);
          (b"zzz", BInt 7)].
  Proof. vm_compute. reflexivity. Qed.

  (* E2, E4, E6: comment from a string, private set, source cleared (absent): info gets sorted *)
  Definition ex_req_info : request :=
    mkReq (SetStr (b"hello world")) Clear (SetStr (b"1")) Keep Keep Keep.

  Example ex_edit_info :
    edit_torrent ex_req_info ex_meta =
    Some [(b"announce", BStr (b"http://old"));
          (b"created by", BStr (b"other"));
          (b"info", BDict [(b"comment", BStr (b"hello world")); (b"length", BInt 3);
                           (b"name", BStr (b"a")); (b"piece length", BInt 16384);
                           (b"pieces", BStr (b"01234567890123456789")); (b"private", BInt 1);
                           (b"x-foreign", BList [BInt 1])]);
          (b"zzz", BInt 7)].
  Proof. vm_compute. reflexivity. Qed.

  Example ex_edit_info_canon :
    option_map (fun m => canonb (BDict m)) (edit_torrent ex_req_info ex_meta) = Some true.
  Proof. vm_compute. reflexivity. Qed.

  (* IndexError: whitespace-only announce string, empty announce list *)
  Example ex_index_error :
    edit_torrent (mkReq Keep Keep Keep (SetStr (b"  ")) Keep Keep) ex_meta = None /\
    edit_torrent (mkReq Keep Keep Keep (SetList []) Keep Keep) ex_meta = None.
  Proof. vm_compute. split; reflexivity. Qed.

  (* E5 on a history: Set then Clear then Set of several fields *)
  Definition ex_history : list request :=
    [mkReq (SetStr (b"c1")) Keep Keep (SetStr (b"http://x")) Keep Keep;
     mkReq Clear (SetStr (b"s")) Keep Keep (SetStr (b"http://w1 http://w2")) Keep;
     mkReq Keep Keep Keep (SetList [b"http://y"; b"http://z"]) Keep Clear].

  Example ex_history_eq :
    last_writes ex_history =
      mkReq Clear (SetStr (b"s")) Keep (SetList [b"http://y"; b"http://z"])
            (SetStr (b"http://w1 http://w2")) Clear /\
    edit_seq ex_history ex_meta = edit_torrent (last_writes ex_history) ex_meta /\
    edit_seq ex_history ex_meta <> None.
  Proof. vm_compute. repeat split. discriminate. Qed.

  (* the exception in E5: Set announce, then Clear announce leaves the announce-list of the Set *)
  Example ex_history_announce_list :
    let h := [mkReq Keep Keep Keep (SetStr (b"http://x")) Keep Keep;
              mkReq Keep Keep Keep Clear Keep Keep] in
    option_map (lookup (b"announce-list")) (edit_seq h ex_meta)
      = Some (Some (BList [BList [BStr (b"http://x")]])) /\
    option_map (lookup (b"announce-list")) (edit_torrent (last_writes h) ex_meta) = Some None /\
    option_map (lookup (b"announce")) (edit_seq h ex_meta) = Some None.
  Proof. vm_compute. repeat split. Qed.

  (* Observation (not excluded by any theorem above, and not D11): an info field that is merely
     NAMED in the request, even Clear of an absent field, makes edit_torrent re-sort info; on a
     foreign metafile whose info is not sorted this changes the bencoding of info, i.e. the
     info-hash, although no key or value of info changed. *)
  Example ex_clear_absent_changes_info_bytes :
    let req := mkReq Clear Keep Keep Keep Keep Keep in
    lookup k_comment ex_info = None /\
    option_map info_of (edit_torrent req ex_meta) = Some (sort_keys ex_info) /\
    (forall k, lookup k (sort_keys ex_info) = lookup k ex_info) /\
    encode (BDict (sort_keys ex_info)) <> encode (BDict ex_info).
  Proof.
    split; [reflexivity|]. split; [vm_compute; reflexivity|]. split.
    - intros k. apply lookup_sort_keys. apply nodupb_spec. vm_compute. reflexivity.
    - vm_compute. intros X. discriminate X.
  Qed.
End Examples.

(* ---- D11: layout_ok cannot be dropped ---- *)
Module D11Consts.
  Import String.
  Local Open Scope string_scope.
  Definition s_top : bytes := Examples.b "top".
  Definition s_inner : bytes := Examples.b "inner".
  Definition s_name : bytes := Examples.b "name".
  Definition s_a : bytes := Examples.b "a".
  Definition s_old : bytes := Examples.b "http://old".
End D11Consts.
Import D11Consts.

Definition d11_meta : dict :=
  [(k_comment, BStr s_top); (k_info, BDict [(k_comment, BStr s_inner); (s_name, BStr s_a)])].
Definition d11_req : request := mkReq Clear Keep Keep Keep Keep Keep.

(* filter_empty tries the TOP level first for every key: Clear comment deletes the foreign
   top-level "comment" and leaves info.comment in place *)
Example edit_D11_witness :
  NoDup (map fst d11_meta) /\ NoDup (map fst (info_of d11_meta)) /\ layout_okb d11_meta = false /\
  edit_torrent d11_req d11_meta =
    Some [(k_info, BDict [(k_comment, BStr s_inner); (s_name, BStr s_a)])].
Proof.
  split; [apply nodupb_spec; vm_compute; reflexivity|].
  split; [apply nodupb_spec; vm_compute; reflexivity|].
  split; vm_compute; reflexivity.
Qed.

(* E4 and E1 without layout_ok are false *)
Theorem edit_D11_refuted :
  ~ (forall req (m i m' : dict),
        NoDup (map fst m) -> lookup k_info m = Some (BDict i) -> NoDup (map fst i) ->
        edit_torrent req m = Some m' ->
        is_clear (rq_comment req) = true -> lookup k_comment (info_of m') = None)
  /\
  ~ (forall req (m i m' : dict) k,
        NoDup (map fst m) -> lookup k_info m = Some (BDict i) -> NoDup (map fst i) ->
        edit_torrent req m = Some m' ->
        ~ In k (touched_top req) -> lookup k m' = lookup k m).
Proof.
  destruct edit_D11_witness as (Nm & Ni & _ & E). split.
  - intros H. specialize (H d11_req d11_meta _ _ Nm eq_refl Ni E eq_refl).
    vm_compute in H. discriminate H.
  - intros H. specialize (H d11_req d11_meta _ _ k_comment Nm eq_refl Ni E).
    assert (X : ~ In k_comment (touched_top d11_req)).
    { cbn. intros [C|[]]. discriminate C. }
    specialize (H X). vm_compute in H. discriminate H.
Qed.

(* the main theorems instantiated on the examples (their hypotheses are satisfiable) *)
Example ex_frame_top_applies k :
  ~ In k (touched_top Examples.ex_req_top) ->
  option_map (lookup k) (edit_torrent Examples.ex_req_top Examples.ex_meta)
  = Some (lookup k Examples.ex_meta).
Proof.
  intros Hk. destruct Examples.ex_hyps as (A & B & C & D & _).
  destruct (edit_torrent Examples.ex_req_top Examples.ex_meta) as [m'|] eqn:E;
    [|vm_compute in E; discriminate].
  cbn [option_map]. f_equal. exact (edit_frame_top _ _ _ _ k A B C D E Hk).
Qed.

Example ex_info_untouched_applies :
  option_map (lookup k_info) (edit_torrent Examples.ex_req_top Examples.ex_meta)
  = Some (Some (BDict Examples.ex_info)).
Proof.
  destruct Examples.ex_hyps as (A & B & _ & _ & D & _).
  destruct (edit_torrent Examples.ex_req_top Examples.ex_meta) as [m'|] eqn:E;
    [|vm_compute in E; discriminate].
  cbn [option_map]. f_equal.
  exact (edit_info_untouched Examples.ex_req_top _ _ _ A B D eq_refl eq_refl eq_refl E).
Qed.

Example ex_canon_applies :
  let m := sort_keys [(k_info, BDict (sort_keys Examples.ex_info));
                      (k_announce, BStr s_old)] in
  canon (BDict m) /\
  forall m', edit_torrent Examples.ex_req_info m = Some m' -> canon (BDict m').
Proof.
  cbv zeta. split; [apply canonb_spec; vm_compute; reflexivity|].
  intros m'. apply edit_canon. apply canonb_spec. vm_compute. reflexivity.
Qed.

(* ========================================================================================== *)
(* Assumptions                                                                                 *)
(* ========================================================================================== *)

Print Assumptions edit_spec.
Print Assumptions edit_frame_top.
Print Assumptions edit_frame_info.
Print Assumptions edit_info_untouched.
Print Assumptions edit_info_hash_unchanged.
Print Assumptions edit_sets.
Print Assumptions edit_history.
Print Assumptions edit_history_eq.
Print Assumptions edit_canon.
Print Assumptions edit_top_sorted.
Print Assumptions edit_info_sorted.
Print Assumptions edit_preserves_nodup.
Print Assumptions edit_preserves_nodup_keys.
Print Assumptions edit_layout_ok.
Print Assumptions edit_D11_refuted.
