(* Proofs about Model/Edit.v (claims C07 and the edit part of C06).
   E1 edit_frame_top, E2 edit_frame_info, E3 edit_info_untouched, E4 edit_sets, E5 edit_history,
   E6 edit_canon / edit_top_sorted, E7 edit_preserves_nodup, and the witness edit_D11_refuted. *)
From TF Require Import Lib.Base Lib.Lex Model.Bencode Proofs.BencodeProofs Model.Edit.
From Coq Require Import Sorted Permutation.

(* ========================================================================================== *)
(* 0. Small tools                                                                              *)
(* ========================================================================================== *)

(* decide [bytes_eqb a b] when both sides are closed terms *)
Ltac keq :=
  repeat match goal with
    | |- context [bytes_eqb ?a ?b] =>
        let v := eval vm_compute in (bytes_eqb a b) in
        match v with
        | true => change (bytes_eqb a b) with true
        | false => change (bytes_eqb a b) with false
        end
    end.

Ltac keq_in H :=
  repeat match type of H with
    | context [bytes_eqb ?a ?b] =>
        let v := eval vm_compute in (bytes_eqb a b) in
        match v with
        | true => change (bytes_eqb a b) with true in H
        | false => change (bytes_eqb a b) with false in H
        end
    end.

Lemma mem_false k d : mem k d = false <-> lookup k d = None.
Proof. unfold mem. destruct (lookup k d); split; congruence. Qed.

Lemma mem_true k d : mem k d = true <-> lookup k d <> None.
Proof. unfold mem. destruct (lookup k d); split; congruence. Qed.

(* conditional deletion: what one iteration of filter_empty does to the dictionary it picks *)
Definition rm (k : bytes) (r : fieldreq) (d : dict) : dict :=
  if is_clear r && mem k d then remove k d else d.

Lemma lookup_rm k r d k' :
  lookup k' (rm k r d) = if is_clear r && bytes_eqb k k' then None else lookup k' d.
Proof.
  unfold rm. destruct (is_clear r); cbn [andb]; [|reflexivity].
  destruct (mem k d) eqn:M.
  - destruct (bytes_eqb_spec k k') as [->|N].
    + apply lookup_remove_same.
    + apply lookup_remove_other; exact N.
  - destruct (bytes_eqb_spec k k') as [->|N]; [|reflexivity].
    apply mem_false in M. exact M.
Qed.

Lemma rm_not_clear k r d : is_clear r = false -> rm k r d = d.
Proof. intros H. unfold rm. rewrite H. reflexivity. Qed.

Lemma rm_cases k r d : rm k r d = d \/ rm k r d = remove k d.
Proof. unfold rm. destruct (is_clear r && mem k d); [right|left]; reflexivity. Qed.

Lemma rm_NoDup k r d : NoDup (map fst d) -> NoDup (map fst (rm k r d)).
Proof. intros H. destruct (rm_cases k r d) as [-> | ->]; [exact H|apply remove_NoDup; exact H]. Qed.

Lemma filter_one_top k r m i :
  lookup k i = None -> filter_one k r (m, i) = (rm k r m, i).
Proof.
  intros H. unfold filter_one, rm. cbn [fst snd]. destruct (is_clear r); cbn [andb]; [|reflexivity].
  destruct (mem k m); [reflexivity|]. apply mem_false in H. rewrite H. reflexivity.
Qed.

Lemma filter_one_info k r m i :
  lookup k m = None -> filter_one k r (m, i) = (m, rm k r i).
Proof.
  intros H. unfold filter_one, rm. cbn [fst snd]. destruct (is_clear r); cbn [andb]; [|reflexivity].
  apply mem_false in H. rewrite H. destruct (mem k i); reflexivity.
Qed.

(* filter_empty on the layout this tool writes, in closed form *)
Lemma filter_empty_layout req m i :
  layout_top_ok m -> layout_info_ok i ->
  filter_empty req (m, i) =
  (rm k_announce (rq_announce req) (rm k_httpseeds (rq_httpseeds req) (rm k_url_list (rq_url_list req) m)),
   rm k_comment (rq_comment req) (rm k_private (rq_private req) (rm k_source (rq_source req) i))).
Proof.
  intros (Tc & Ts & Tp) (Ia & Iu & Ih & _). unfold filter_empty.
  rewrite (filter_one_top k_url_list) by exact Iu.
  rewrite (filter_one_top k_httpseeds) by exact Ih.
  rewrite (filter_one_top k_announce) by exact Ia.
  rewrite (filter_one_info k_source) by (rewrite !lookup_rm; keq; rewrite !andb_false_r; exact Ts).
  rewrite (filter_one_info k_private) by (rewrite !lookup_rm; keq; rewrite !andb_false_r; exact Tp).
  rewrite (filter_one_info k_comment) by (rewrite !lookup_rm; keq; rewrite !andb_false_r; exact Tc).
  reflexivity.
Qed.

(* whatever the layout: each component is obtained by deletions only *)
Lemma filter_one_inv (P Q : dict -> Prop) k r st :
  (forall d, P d -> P (remove k d)) -> (forall d, Q d -> Q (remove k d)) ->
  P (fst st) -> Q (snd st) -> P (fst (filter_one k r st)) /\ Q (snd (filter_one k r st)).
Proof.
  intros HP HQ A B. unfold filter_one. destruct (is_clear r); [|split; assumption].
  destruct (mem k (fst st)); cbn [fst snd]; [split; auto|].
  destruct (mem k (snd st)); cbn [fst snd]; split; auto.
Qed.

Lemma filter_empty_inv (P Q : dict -> Prop) req st :
  (forall k d, P d -> P (remove k d)) -> (forall k d, Q d -> Q (remove k d)) ->
  P (fst st) -> Q (snd st) -> P (fst (filter_empty req st)) /\ Q (snd (filter_empty req st)).
Proof.
  intros HP HQ A B. unfold filter_empty.
  pose proof (filter_one_inv P Q k_url_list (rq_url_list req) _ (HP _) (HQ _) A B) as [A1 B1].
  pose proof (filter_one_inv P Q k_httpseeds (rq_httpseeds req) _ (HP _) (HQ _) A1 B1) as [A2 B2].
  pose proof (filter_one_inv P Q k_announce (rq_announce req) _ (HP _) (HQ _) A2 B2) as [A3 B3].
  pose proof (filter_one_inv P Q k_source (rq_source req) _ (HP _) (HQ _) A3 B3) as [A4 B4].
  pose proof (filter_one_inv P Q k_private (rq_private req) _ (HP _) (HQ _) A4 B4) as [A5 B5].
  exact (filter_one_inv P Q k_comment (rq_comment req) _ (HP _) (HQ _) A5 B5).
Qed.

(* ========================================================================================== *)
(* 1. Per-key description of the edit                                                          *)
(* ========================================================================================== *)

(* what one request does to the value found under a key (None = key absent) *)
Definition fld_after (r : fieldreq) (old : option value) : option value :=
  if is_clear r then None else match set_value r with Some v => Some v | None => old end.
Definition priv_after (r : fieldreq) (old : option value) : option value :=
  if is_clear r then None else if is_set r then Some (BInt 1) else old.
Definition words_after (r : fieldreq) (old : option value) : option value :=
  if is_clear r then None
  else match set_words r with Some ws => Some (BList (map BStr ws)) | None => old end.
Definition ann_after (r : fieldreq) (old : option value) : option value :=
  if is_clear r then None
  else match set_words r with Some (x :: _) => Some (BStr x) | _ => old end.
Definition annlist_after (r : fieldreq) (old : option value) : option value :=
  match set_words r with
  | Some (x :: ws) => Some (BList [BList (map BStr (x :: ws))])
  | _ => old
  end.

Definition info_after (req : request) (k : bytes) (old : option value) : option value :=
  if bytes_eqb k_comment k then fld_after (rq_comment req) old
  else if bytes_eqb k_source k then fld_after (rq_source req) old
  else if bytes_eqb k_private k then priv_after (rq_private req) old
  else old.

(* for every top-level key except "info" *)
Definition top_after (req : request) (k : bytes) (old : option value) : option value :=
  if bytes_eqb k_announce k then ann_after (rq_announce req) old
  else if bytes_eqb k_announce_list k then annlist_after (rq_announce req) old
  else if bytes_eqb k_url_list k then words_after (rq_url_list req) old
  else if bytes_eqb k_httpseeds k then words_after (rq_httpseeds req) old
  else old.

(* the request does not raise IndexError *)
Definition req_ok (req : request) : Prop := set_words (rq_announce req) <> Some [].

Lemma lookup_update k v d k' :
  lookup k' (update k v d) = if bytes_eqb k k' then Some v else lookup k' d.
Proof.
  destruct (bytes_eqb_spec k k') as [->|N];
    [apply lookup_update_same|apply lookup_update_other; exact N].
Qed.

Lemma lookup_set_info_field k r d k' :
  lookup k' (set_info_field k r d) =
  if bytes_eqb k k' then match set_value r with Some v => Some v | None => lookup k' d end
  else lookup k' d.
Proof.
  unfold set_info_field. destruct (set_value r); [rewrite lookup_update|];
    destruct (bytes_eqb k k'); reflexivity.
Qed.

Lemma lookup_set_private r d k' :
  lookup k' (set_private r d) =
  if bytes_eqb k_private k' then (if is_set r then Some (BInt 1) else lookup k' d)
  else lookup k' d.
Proof.
  unfold set_private. destruct (is_set r); [rewrite lookup_update|];
    destruct (bytes_eqb k_private k'); reflexivity.
Qed.

Lemma lookup_set_words_field k r d k' :
  lookup k' (set_words_field k r d) =
  if bytes_eqb k k'
  then match set_words r with Some ws => Some (BList (map BStr ws)) | None => lookup k' d end
  else lookup k' d.
Proof.
  unfold set_words_field. destruct (set_words r); [rewrite lookup_update|];
    destruct (bytes_eqb k k'); reflexivity.
Qed.

Lemma lookup_set_announce r d d' k' :
  set_announce r d = Some d' ->
  lookup k' d' =
  if bytes_eqb k_announce_list k' then annlist_after r (lookup k' d)
  else if bytes_eqb k_announce k'
       then match set_words r with Some (x :: _) => Some (BStr x) | _ => lookup k' d end
       else lookup k' d.
Proof.
  unfold set_announce, annlist_after. destruct (set_words r) as [[|x ws]|]; intros E; try discriminate.
  - injection E as <-. rewrite !lookup_update.
    destruct (bytes_eqb k_announce_list k'), (bytes_eqb k_announce k'); reflexivity.
  - injection E as <-. destruct (bytes_eqb k_announce_list k'), (bytes_eqb k_announce k'); reflexivity.
Qed.

Lemma set_announce_ok r d : set_announce r d <> None <-> set_words r <> Some [].
Proof.
  unfold set_announce. destruct (set_words r) as [[|x ws]|]; split; congruence.
Qed.

(* NoDup is kept by every step *)
Lemma set_info_field_NoDup k r d : NoDup (map fst d) -> NoDup (map fst (set_info_field k r d)).
Proof. intros H. unfold set_info_field. destruct (set_value r); [apply update_NoDup|]; exact H. Qed.

Lemma set_private_NoDup r d : NoDup (map fst d) -> NoDup (map fst (set_private r d)).
Proof. intros H. unfold set_private. destruct (is_set r); [apply update_NoDup|]; exact H. Qed.

Lemma set_words_field_NoDup k r d : NoDup (map fst d) -> NoDup (map fst (set_words_field k r d)).
Proof. intros H. unfold set_words_field. destruct (set_words r); [apply update_NoDup|]; exact H. Qed.

Lemma set_announce_NoDup r d d' :
  set_announce r d = Some d' -> NoDup (map fst d) -> NoDup (map fst d').
Proof.
  unfold set_announce. destruct (set_words r) as [[|x ws]|]; intros E H; try discriminate;
    injection E as <-; [repeat apply update_NoDup|]; exact H.
Qed.

Lemma sort_keys_NoDup d : NoDup (map fst d) -> NoDup (map fst (sort_keys d)).
Proof. intros H. eapply perm_keys_NoDup; [apply Permutation_sym, sort_keys_perm|exact H]. Qed.

(* set_value / set_words / is_clear / is_set agree *)
Lemma set_value_clear r v : set_value r = Some v -> is_clear r = false.
Proof. destruct r as [| |[|c s]|l]; cbn; congruence. Qed.
Lemma set_words_clear r ws : set_words r = Some ws -> is_clear r = false.
Proof. destruct r as [| |[|c s]|l]; cbn; congruence. Qed.
Lemma is_set_clear r : is_set r = true -> is_clear r = false.
Proof. destruct r as [| |[|c s]|l]; cbn; congruence. Qed.
Lemma is_keep_after r : is_keep r = true -> is_clear r = false /\ set_value r = None /\ set_words r = None /\ is_set r = false.
Proof. destruct r as [| |[|c s]|l]; cbn; intros; try discriminate; repeat split. Qed.

(* The whole function in closed form on the tool's own layout *)
Lemma edit_torrent_layout req m i :
  lookup k_info m = Some (BDict i) -> layout_top_ok m -> layout_info_ok i ->
  edit_torrent req m =
  let m1 := rm k_announce (rq_announce req)
              (rm k_httpseeds (rq_httpseeds req) (rm k_url_list (rq_url_list req) m)) in
  let i1 := rm k_comment (rq_comment req)
              (rm k_private (rq_private req) (rm k_source (rq_source req) i)) in
  let i2 := set_private (rq_private req)
              (set_info_field k_source (rq_source req)
                 (set_info_field k_comment (rq_comment req) i1)) in
  match set_announce (rq_announce req) m1 with
  | None => None
  | Some m2 =>
      Some (sort_keys
              (update k_info (BDict (if info_edit req then sort_keys i2 else i2))
                 (set_words_field k_httpseeds (rq_httpseeds req)
                    (set_words_field k_url_list (rq_url_list req) m2))))
  end.
Proof.
  intros Hi Lt Li. unfold edit_torrent. rewrite Hi. cbv beta iota zeta.
  set (st := filter_empty req _).
  assert (F : st = _) by (apply (filter_empty_layout req m i Lt Li)).
  clearbody st. subst st. cbn [fst snd]. reflexivity.
Qed.

Lemma edit_success req m i :
  lookup k_info m = Some (BDict i) -> (edit_torrent req m <> None <-> req_ok req).
Proof.
  intros Hi. unfold edit_torrent, req_ok. rewrite Hi. cbv beta iota zeta.
  set (st := filter_empty req _). clearbody st.
  rewrite <- (set_announce_ok (rq_announce req) (fst st)).
  destruct (set_announce (rq_announce req) (fst st)); split; congruence.
Qed.

Theorem edit_spec req m i m' :
  NoDup (map fst m) -> lookup k_info m = Some (BDict i) -> NoDup (map fst i) ->
  layout_ok m -> edit_torrent req m = Some m' ->
  exists i',
    lookup k_info m' = Some (BDict i') /\
    NoDup (map fst m') /\ NoDup (map fst i') /\
    (forall k, k <> k_info -> lookup k m' = top_after req k (lookup k m)) /\
    (forall k, lookup k i' = info_after req k (lookup k i)) /\
    (info_edit req = false -> i' = i) /\
    (info_edit req = true -> StronglySorted key_lt i') /\
    StronglySorted key_lt m'.
Proof.
  intros Nm Hi Ni [Lt Li] E.
  unfold info_of in Li. rewrite Hi in Li.
  rewrite (edit_torrent_layout req m i Hi Lt Li) in E. cbv zeta in E.
  destruct (set_announce _ _) as [m2|] eqn:Ea in E; [|discriminate]. injection E as <-.
  set (i1 := rm k_comment (rq_comment req)
               (rm k_private (rq_private req) (rm k_source (rq_source req) i))) in *.
  set (i2 := set_private (rq_private req)
               (set_info_field k_source (rq_source req)
                  (set_info_field k_comment (rq_comment req) i1))) in *.
  set (i' := if info_edit req then sort_keys i2 else i2).
  set (m3 := set_words_field k_httpseeds (rq_httpseeds req)
               (set_words_field k_url_list (rq_url_list req) m2)).
  assert (Ni2 : NoDup (map fst i2)).
  { unfold i2, i1. apply set_private_NoDup. repeat apply set_info_field_NoDup.
    repeat apply rm_NoDup. exact Ni. }
  assert (Ni' : NoDup (map fst i')).
  { unfold i'. destruct (info_edit req); [apply sort_keys_NoDup|]; exact Ni2. }
  assert (Nm3 : NoDup (map fst m3)).
  { unfold m3. repeat apply set_words_field_NoDup.
    eapply set_announce_NoDup; [exact Ea|]. repeat apply rm_NoDup. exact Nm. }
  assert (Nu : NoDup (map fst (update k_info (BDict i') m3))) by (apply update_NoDup; exact Nm3).
  exists i'. repeat split.
  - rewrite lookup_sort_keys by exact Nu. apply lookup_update_same.
  - apply sort_keys_NoDup; exact Nu.
  - exact Ni'.
  - intros k Hk. rewrite lookup_sort_keys by exact Nu.
    rewrite lookup_update_other by congruence.
    unfold m3. rewrite !lookup_set_words_field.
    rewrite (lookup_set_announce _ _ _ k Ea). rewrite !lookup_rm.
    unfold top_after, words_after, ann_after, annlist_after.
    destruct (bytes_eqb_spec k_announce k) as [<-|N1]; keq.
    { destruct (rq_announce req) as [| |[|c s]|[|x l]]; cbn [is_clear set_words andb];
        rewrite ?andb_false_r; reflexivity. }
    destruct (bytes_eqb_spec k_announce_list k) as [<-|N2]; keq.
    { rewrite !andb_false_r. reflexivity. }
    destruct (bytes_eqb_spec k_url_list k) as [<-|N3]; keq.
    { rewrite !andb_false_r, ?andb_true_r.
      destruct (rq_url_list req) as [| |[|c s]|l]; cbn [is_clear set_words]; reflexivity. }
    destruct (bytes_eqb_spec k_httpseeds k) as [<-|N4]; keq.
    { rewrite !andb_false_r, ?andb_true_r.
      destruct (rq_httpseeds req) as [| |[|c s]|l]; cbn [is_clear set_words]; reflexivity. }
    rewrite !andb_false_r. reflexivity.
  - intros k.
    assert (L2 : lookup k i' = lookup k i2).
    { unfold i'. destruct (info_edit req); [apply lookup_sort_keys; exact Ni2|reflexivity]. }
    rewrite L2. unfold i2, i1. rewrite lookup_set_private, !lookup_set_info_field, !lookup_rm.
    unfold info_after, fld_after, priv_after.
    destruct (bytes_eqb_spec k_comment k) as [<-|N1]; keq.
    { rewrite !andb_false_r, ?andb_true_r.
      destruct (rq_comment req) as [| |[|c s]|l]; cbn [is_clear set_value]; reflexivity. }
    destruct (bytes_eqb_spec k_source k) as [<-|N2]; keq.
    { rewrite !andb_false_r, ?andb_true_r.
      destruct (rq_source req) as [| |[|c s]|l]; cbn [is_clear set_value]; reflexivity. }
    destruct (bytes_eqb_spec k_private k) as [<-|N3]; keq.
    { rewrite !andb_false_r, ?andb_true_r.
      destruct (rq_private req) as [| |[|c s]|l]; cbn [is_clear is_set is_keep negb andb]; reflexivity. }
    rewrite !andb_false_r. reflexivity.
  - intros IE. unfold i'. rewrite IE. unfold info_edit in IE.
    apply orb_false_iff in IE. destruct IE as [IE Kp]. apply orb_false_iff in IE.
    destruct IE as [Kc Ks]. apply negb_false_iff in Kc, Ks, Kp.
    apply is_keep_after in Kc, Ks, Kp.
    destruct Kc as (Cc & Vc & _ & _), Ks as (Cs & Vs & _ & _), Kp as (Cp & _ & _ & Sp).
    unfold i2, i1, set_private, set_info_field. rewrite Sp, Vs, Vc.
    rewrite !rm_not_clear by assumption. reflexivity.
  - intros IE. unfold i'. rewrite IE. apply sort_keys_sorted. exact Ni2.
  - apply sort_keys_sorted. exact Nu.
Qed.

(* ========================================================================================== *)
(* 2. Shape of the result on ANY layout: deletions, then writes of flat values, then sorting   *)
(* ========================================================================================== *)

(* the values edit_torrent writes *)
Definition flat (v : value) : Prop :=
  v = BInt 1 \/ (exists s, v = BStr s) \/ (exists l, v = BList (map BStr l))
  \/ (exists l, v = BList [BList (map BStr l)]).

Lemma Forall_map_BStr (R : value -> Prop) l : (forall s, R (BStr s)) -> Forall R (map BStr l).
Proof. intros H. induction l; cbn [map]; constructor; auto. Qed.

Lemma flat_canon v : flat v -> canon v.
Proof.
  intros [->|[[s ->]|[[l ->]|[l ->]]]]; try constructor.
  - apply Forall_map_BStr. constructor.
  - constructor; [|constructor]. constructor. apply Forall_map_BStr. constructor.
Qed.

Lemma flat_nodup v : flat v -> nodup_keys v.
Proof. intros H. apply canon_nodup_keys, flat_canon, H. Qed.

Lemma set_value_flat r v : set_value r = Some v -> flat v.
Proof.
  destruct r as [| |[|c s]|l]; cbn [set_value]; intros E; try discriminate; injection E as <-.
  - right; left; eexists; reflexivity.
  - right; right; left; eexists; reflexivity.
Qed.

Section Shape.
  Variables P Q : dict -> Prop.
  Hypothesis P_remove : forall k d, P d -> P (remove k d).
  Hypothesis Q_remove : forall k d, Q d -> Q (remove k d).
  Hypothesis P_update : forall k v d, flat v -> P d -> P (update k v d).
  Hypothesis Q_update : forall k v d, flat v -> Q d -> Q (update k v d).

  Lemma set_info_phase_inv req d :
    Q d ->
    Q (set_private (rq_private req)
         (set_info_field k_source (rq_source req) (set_info_field k_comment (rq_comment req) d))).
  Proof.
    intros H. unfold set_private, set_info_field.
    destruct (set_value (rq_comment req)) as [vc|] eqn:Ec;
      destruct (set_value (rq_source req)) as [vs|] eqn:Es;
      destruct (is_set (rq_private req));
      repeat (apply Q_update; [first [eapply set_value_flat; eassumption|left; reflexivity]|]);
      exact H.
  Qed.

  Lemma set_top_phase_inv req d d2 :
    set_announce (rq_announce req) d = Some d2 -> P d ->
    P (set_words_field k_httpseeds (rq_httpseeds req)
         (set_words_field k_url_list (rq_url_list req) d2)).
  Proof.
    intros E H.
    assert (H2 : P d2).
    { unfold set_announce in E. destruct (set_words (rq_announce req)) as [[|x ws]|];
        try discriminate; injection E as <-; [|exact H].
      apply P_update; [right; right; right; exists (x :: ws); reflexivity|].
      apply P_update; [right; left; eexists; reflexivity|exact H]. }
    unfold set_words_field.
    destruct (set_words (rq_url_list req)); destruct (set_words (rq_httpseeds req));
      repeat (apply P_update; [right; right; left; eexists; reflexivity|]); exact H2.
  Qed.
End Shape.

Lemma set_info_phase_keep req d :
  info_edit req = false ->
  set_private (rq_private req)
    (set_info_field k_source (rq_source req) (set_info_field k_comment (rq_comment req) d)) = d.
Proof.
  intros IE. unfold info_edit in IE.
  apply orb_false_iff in IE. destruct IE as [IE Kp]. apply orb_false_iff in IE.
  destruct IE as [Kc Ks]. apply negb_false_iff in Kc, Ks, Kp.
  apply is_keep_after in Kc, Ks, Kp.
  destruct Kc as (_ & Vc & _ & _), Ks as (_ & Vs & _ & _), Kp as (_ & _ & _ & Sp).
  unfold set_private, set_info_field. rewrite Sp, Vs, Vc. reflexivity.
Qed.

(* [mp], [ip]: meta and info just before the two final sorts *)
Lemma edit_torrent_shape req (m i : dict) m' :
  lookup k_info m = Some (BDict i) -> edit_torrent req m = Some m' ->
  exists mp ip : dict,
    m' = sort_keys (update k_info (BDict (if info_edit req then sort_keys ip else ip)) mp) /\
    (forall P : dict -> Prop,
        (forall k d, P d -> P (remove k d)) -> (forall k v d, flat v -> P d -> P (update k v d)) ->
        P m -> P mp) /\
    (forall Q : dict -> Prop,
        (forall k d, Q d -> Q (remove k d)) -> (forall k v d, flat v -> Q d -> Q (update k v d)) ->
        Q i -> Q ip) /\
    (info_edit req = false ->
     forall Q : dict -> Prop, (forall k d, Q d -> Q (remove k d)) -> Q i -> Q ip).
Proof.
  intros Hi E. unfold edit_torrent in E. rewrite Hi in E. cbv beta iota zeta in E.
  set (st := filter_empty req _) in E.
  destruct (set_announce (rq_announce req) (fst st)) as [m2|] eqn:Ea; [|discriminate].
  injection E as <-.
  eexists. eexists. split; [reflexivity|]. split; [|split].
  - intros P Pr Pu Pm. eapply set_top_phase_inv; [exact Pu|exact Ea|].
    apply (filter_empty_inv P (fun _ => True) req (m, i)); auto.
  - intros Q Qr Qu Qi. apply set_info_phase_inv; [exact Qu|].
    apply (filter_empty_inv (fun _ => True) Q req (m, i)); auto.
  - intros IE Q Qr Qi. rewrite set_info_phase_keep by exact IE.
    apply (filter_empty_inv (fun _ => True) Q req (m, i)); auto.
Qed.

(* closure properties used with the shape lemma *)
Lemma Forall_snd_remove (R : value -> Prop) k d :
  Forall (fun kv => R (snd kv)) d -> Forall (fun kv => R (snd kv)) (remove k d).
Proof.
  induction d as [|[k0 v0] d IH]; cbn [remove]; intros H; [constructor|].
  inversion H as [|x l Hx Hl]; subst.
  destruct (bytes_eqb k0 k); [apply IH; exact Hl|constructor; [exact Hx|apply IH; exact Hl]].
Qed.

Lemma Forall_snd_update (R : value -> Prop) k v d :
  R v -> Forall (fun kv => R (snd kv)) d -> Forall (fun kv => R (snd kv)) (update k v d).
Proof.
  intros Hv. induction d as [|[k0 v0] d IH]; cbn [update]; intros H.
  - constructor; [exact Hv|constructor].
  - inversion H as [|x l Hx Hl]; subst.
    destruct (bytes_eqb k0 k); constructor; auto.
Qed.

Lemma Forall_snd_sort_keys (R : value -> Prop) d :
  Forall (fun kv => R (snd kv)) d -> Forall (fun kv => R (snd kv)) (sort_keys d).
Proof.
  intros H. rewrite Forall_forall in *. intros x Hx. apply H.
  eapply Permutation_in; [apply sort_keys_perm|exact Hx].
Qed.

Lemma In_remove kv k d : In kv (remove k d) -> In kv d.
Proof.
  induction d as [|[k0 v0] d IH]; cbn [remove]; [tauto|].
  destruct (bytes_eqb k0 k); cbn [In]; tauto.
Qed.

Lemma sorted_remove k d : StronglySorted key_lt d -> StronglySorted key_lt (remove k d).
Proof.
  induction 1 as [|a d Hs IH Ha]; cbn [remove]; [constructor|]. destruct a as [k0 v0].
  destruct (bytes_eqb k0 k); [exact IH|]. constructor; [exact IH|].
  rewrite Forall_forall in *. intros x Hx. apply Ha. eapply In_remove; exact Hx.
Qed.

Lemma lookup_Forall_snd (R : value -> Prop) k v d :
  Forall (fun kv => R (snd kv)) d -> lookup k d = Some v -> R v.
Proof.
  intros H L. apply lookup_Some_In in L. rewrite Forall_forall in H. apply (H (k, v) L).
Qed.
