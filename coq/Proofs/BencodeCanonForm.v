(* Sorting the keys is a CANONICAL FORM for dictionaries: the bytes written for a duplicate-free
   dictionary determine its contents up to insertion order, and nothing else.  This is what lets
   C06 / C08 speak of "the" metafile of a dictionary built in any order (creators, edit, config),
   and what makes equal bytes (equal info-hash inputs) mean equal contents. *)
From Coq Require Import List Permutation. Import ListNotations.
From TF Require Import Lib.Base Lib.Lex Model.Bencode Proofs.BencodeProofs.

Lemma perm_Forall {A} (P : A -> Prop) l l' : Permutation l l' -> Forall P l -> Forall P l'.
Proof.
  intros Hp Hf. apply Forall_forall. intros x Hx.
  apply (proj1 (Forall_forall P l) Hf). eapply Permutation_in; [apply Permutation_sym, Hp|exact Hx].
Qed.

Lemma sort_keys_nodup_keys d :
  NoDup (map fst d) -> Forall (fun kv => nodup_keys (snd kv)) d -> nodup_keys (BDict (sort_keys d)).
Proof.
  intros Hn Hv. constructor.
  - eapply perm_keys_NoDup; [apply Permutation_sym, sort_keys_perm|exact Hn].
  - eapply perm_Forall; [apply Permutation_sym, sort_keys_perm|exact Hv].
Qed.

(* equal written bytes <-> same entries, in whatever order they were inserted *)
Theorem sorted_encoding_iff_perm d d' :
  NoDup (map fst d) -> NoDup (map fst d') ->
  Forall (fun kv => nodup_keys (snd kv)) d -> Forall (fun kv => nodup_keys (snd kv)) d' ->
  (encode (BDict (sort_keys d)) = encode (BDict (sort_keys d')) <-> Permutation d d').
Proof.
  intros Hn Hn' Hv Hv'. split.
  - intros He.
    assert (Hs : BDict (sort_keys d) = BDict (sort_keys d')).
    { apply encode_inj; [apply sort_keys_nodup_keys; assumption
                        |apply sort_keys_nodup_keys; assumption|exact He]. }
    injection Hs as Hs.
    eapply perm_trans; [apply Permutation_sym, sort_keys_perm|].
    rewrite Hs. apply sort_keys_perm.
  - intros Hp. rewrite (sort_keys_perm_eq d d' Hp Hn). reflexivity.
Qed.

(* ... and then every key reads the same in both: the bytes fix every field *)
Corollary sorted_encoding_fixes_lookups d d' :
  NoDup (map fst d) -> NoDup (map fst d') ->
  Forall (fun kv => nodup_keys (snd kv)) d -> Forall (fun kv => nodup_keys (snd kv)) d' ->
  encode (BDict (sort_keys d)) = encode (BDict (sort_keys d')) ->
  forall k, lookup k d = lookup k d'.
Proof.
  intros Hn Hn' Hv Hv' He k.
  apply lookup_perm; [|exact Hn].
  apply (proj1 (sorted_encoding_iff_perm d d' Hn Hn' Hv Hv')), He.
Qed.

(* writing what was read back (decode, re-sort, encode) is the identity on our own files *)
Corollary resort_written_is_identity d :
  NoDup (map fst d) ->
  encode (BDict (sort_keys (sort_keys d))) = encode (BDict (sort_keys d)).
Proof. intros Hn. rewrite sort_keys_idem by exact Hn. reflexivity. Qed.

(* non-vacuity: two insertion orders of the same two fields, and a differing pair *)
From Coq Require Import String. Import BencodeProofs.Examples. Local Open Scope string_scope.
Example canon_form_example :
  let d1 := [(b"b", BInt 2); (b"a", BStr (b"x"))] in
  let d2 := [(b"a", BStr (b"x")); (b"b", BInt 2)] in
  let d3 := [(b"a", BStr (b"x")); (b"b", BInt 3)] in
  encode (BDict (sort_keys d1)) = encode (BDict (sort_keys d2)) /\
  encode (BDict (sort_keys d1)) <> encode (BDict (sort_keys d3)).
Proof. vm_compute. split; [reflexivity|discriminate]. Qed.

Print Assumptions sorted_encoding_iff_perm.
Print Assumptions sorted_encoding_fixes_lookups.
Print Assumptions resort_written_is_identity.
