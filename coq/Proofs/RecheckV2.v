(* C16-v2 (DESIGN.md A.5): the trace HashChecker produces is, file by file, exactly
   ceil_div L pl entries, the j-th paired with the j-th recorded hash, sizes pl,...,pl,rest summing
   to L; files of recorded length 0 contribute nothing and do not end the iteration. *)
From TF Require Import Lib.Base Lib.Chunks Spec.RecheckSpec Model.Recheck Proofs.RecheckResult.

(* ---------- ceil_div ---------- *)

Lemma ceil_div_0 pl : 0 < pl -> ceil_div 0 pl = 0.
Proof. intros Hpl. unfold ceil_div. apply Nat.div_small. lia. Qed.

Lemma ceil_div_lt pl L j : 0 < pl -> (j < ceil_div L pl <-> j * pl < L).
Proof.
  intros Hpl. unfold ceil_div. split.
  - intros H. destruct (le_lt_dec L (j * pl)) as [Hle|Hlt]; [|assumption]. exfalso.
    assert ((L + pl - 1) / pl < S j).
    { apply Nat.div_lt_upper_bound; [lia|]. rewrite Nat.mul_succ_r, (Nat.mul_comm pl j). lia. }
    lia.
  - intros H. assert (S j <= (L + pl - 1) / pl).
    { apply Nat.div_le_lower_bound; [lia|]. rewrite Nat.mul_succ_r, (Nat.mul_comm pl j). lia. }
    lia.
Qed.

Lemma ceil_div_step pl L : 0 < pl -> 0 < L ->
  ceil_div L pl = S (ceil_div (if pl <=? L then L - pl else L - L) pl).
Proof.
  intros Hpl HL. destruct (pl <=? L) eqn:E.
  - apply Nat.leb_le in E. unfold ceil_div.
    replace (L + pl - 1) with ((L - pl + pl - 1) + 1 * pl) by lia.
    rewrite Nat.div_add by lia. lia.
  - apply Nat.leb_gt in E. rewrite Nat.sub_diag, ceil_div_0 by assumption. unfold ceil_div.
    replace (L + pl - 1) with ((L - 1) + 1 * pl) by lia.
    rewrite Nat.div_add by lia. rewrite Nat.div_small by lia. reflexivity.
Qed.

Lemma ceil_div_mono pl a b : 0 < pl -> a <= b -> ceil_div a pl <= ceil_div b pl.
Proof. intros Hpl Hab. unfold ceil_div. apply Nat.div_le_mono; lia. Qed.

Lemma ceil_div_le_self pl L : 0 < pl -> ceil_div L pl <= L.
Proof.
  intros Hpl. destruct (le_lt_dec (ceil_div L pl) L) as [H|H]; [assumption|].
  apply ceil_div_lt in H; [|assumption]. destruct pl as [|p]; [lia|].
  rewrite Nat.mul_succ_r in H. lia.
Qed.

Section V2.
Variable H256 : bytes -> bytes.

Local Notation v2_file_spec := (v2_file_spec H256).
Local Notation spec_trace_v2 := (spec_trace_v2 H256).
Local Notation process_current := (process_current H256).
Local Notation next_loop := (next_loop H256).
Local Notation hash_next := (hash_next H256).
Local Notation hash_iter := (hash_iter H256).
Local Notation hash_trace := (hash_trace H256).

(* the entries still to come for a file in a given state: hs = layer hashes the file hasher has
   not yielded yet ([] for a Padder), len = self.length, count = self.count *)
Definition rem (pl : nat) (hs : list bytes) (len count : nat) (pieces : list bytes) : list entry :=
  map (fun j => (nth j hs (H256 (zeros (v2_size pl len j))), nth (count + j) pieces [],
                 v2_size pl len j))
      (seq 0 (ceil_div len pl)).

Lemma v2_file_spec_rem pl f :
  v2_file_spec pl f = rem pl (v2_disk_hashes (v2_disk f)) (v2_len f) 0 (v2_pieces f).
Proof. reflexivity. Qed.

Lemma rem_zero pl hs count pieces : 0 < pl -> rem pl hs 0 count pieces = [].
Proof. intros Hpl. unfold rem. rewrite ceil_div_0 by assumption. reflexivity. Qed.

Lemma rem_step pl hs len count pieces : 0 < pl -> 0 < len ->
  rem pl hs len count pieces =
  (nth 0 hs (H256 (zeros (Nat.min pl len))), nth count pieces [], Nat.min pl len)
    :: rem pl (tl hs) (if pl <=? len then len - pl else len - len) (S count) pieces.
Proof.
  intros Hpl Hlen. unfold rem. rewrite (ceil_div_step pl len) by assumption.
  set (len' := if pl <=? len then len - pl else len - len).
  cbn [seq map]. f_equal.
  - unfold v2_size. cbn [Nat.mul]. rewrite Nat.sub_0_r, Nat.add_0_r. reflexivity.
  - rewrite <- seq_shift, map_map. apply map_ext. intros j.
    assert (Hs : v2_size pl len (S j) = v2_size pl len' j).
    { unfold v2_size, len'. cbn [Nat.mul].
      destruct (pl <=? len) eqn:E; [apply Nat.leb_le in E|apply Nat.leb_gt in E]; lia. }
    rewrite Hs. f_equal. f_equal.
    + destruct hs as [|x hs]; [destruct j; reflexivity|reflexivity].
    + f_equal. lia.
Qed.

(* ---------- one call of process_current ---------- *)

Definition hashes_of (h : hasher) : list bytes :=
  match h with FileHasherOf l => l | PadderOf _ => [] end.

Definition rem_cur (pl : nat) (c : cur_file) : list entry :=
  rem pl (hashes_of (c_hasher c)) (c_length c) (c_count c) (c_pieces c).

(* a Padder's own length runs in step with self.length; the file hasher has no more hashes left
   than pieces are still expected (disk_within); enough recorded hashes for the count test *)
Definition inv (pl : nat) (c : cur_file) : Prop :=
  match c_hasher c with
  | FileHasherOf l => length l <= ceil_div (c_length c) pl
  | PadderOf m => m = c_length c
  end /\ c_count c + ceil_div (c_length c) pl <= length (c_pieces c).

Lemma process_current_step pl c : 0 < pl -> inv pl c ->
  match process_current pl c with
  | None => rem_cur pl c = []
  | Some (e, c') => rem_cur pl c = e :: rem_cur pl c' /\ inv pl c'
  end.
Proof.
  intros Hpl. destruct c as [len pieces count h]. unfold inv, rem_cur, Recheck.process_current.
  cbn [c_length c_pieces c_count c_hasher set_hasher]. intros [Hh Hc].
  destruct (Nat.eq_dec len 0) as [Hz|Hnz].
  - subst len. rewrite ceil_div_0 in Hh, Hc by assumption.
    change (0 <? 0) with false. cbn [andb].
    destruct h as [[|x l]|m].
    + cbn [hasher_next]. apply rem_zero, Hpl.
    + cbn [length] in Hh. lia.
    + subst m. cbn [hasher_next]. unfold padder_next.
      replace (pl <=? 0) with false by (symmetry; apply Nat.leb_gt; lia).
      change (0 <? 0) with false. apply rem_zero, Hpl.
  - assert (Hlen : 0 < len) by lia.
    rewrite (rem_step pl _ len count pieces Hpl Hlen).
    pose proof (ceil_div_step pl len Hpl Hlen) as Hstep.
    assert (Hlt : (0 <? len) = true) by (apply Nat.ltb_lt; lia).
    destruct h as [[|x l]|m]; cbn [hashes_of tl nth].
    + (* the file hasher is exhausted while length > 0: switch to a Padder *)
      cbn [hasher_next]. rewrite Hlt.
      replace (count <? length pieces) with true by (symmetry; apply Nat.ltb_lt; lia).
      cbn [andb]. unfold advance, set_hasher. cbn [c_length c_pieces c_count c_hasher].
      destruct (pl <=? len) eqn:E; cbn [fst snd c_hasher c_length c_pieces c_count hasher_next];
        unfold padder_next; rewrite E; [|rewrite Hlt];
        cbn [c_length c_pieces c_count c_hasher hashes_of];
        [apply Nat.leb_le in E; rewrite Nat.min_l by lia
        |apply Nat.leb_gt in E; rewrite Nat.min_r by lia];
        (split; [reflexivity|]; split; [reflexivity|]; lia).
    + (* the file hasher yields a layer hash *)
      cbn [hasher_next]. unfold advance, set_hasher. cbn [c_length c_pieces c_count c_hasher].
      cbn [length] in Hh.
      destruct (pl <=? len) eqn:E; cbn [fst snd c_hasher c_length c_pieces c_count hashes_of];
        [apply Nat.leb_le in E; rewrite Nat.min_l by lia
        |apply Nat.leb_gt in E; rewrite Nat.min_r by lia];
        (split; [reflexivity|]; split; lia).
    + (* a Padder (absent file, or after the switch) *)
      subst m. cbn [hasher_next]. unfold padder_next, advance, set_hasher.
      cbn [c_length c_pieces c_count c_hasher].
      destruct (pl <=? len) eqn:E; [|rewrite Hlt];
        cbn [fst snd c_hasher c_length c_pieces c_count hashes_of];
        [apply Nat.leb_le in E; rewrite Nat.min_l by lia
        |apply Nat.leb_gt in E; rewrite Nat.min_r by lia];
        (split; [reflexivity|]; split; [reflexivity|]; lia).
Qed.

(* ---------- files ---------- *)

(* hypotheses on a listed file: the file hasher yields no more layer hashes than the recorded
   length has pieces (see v2_wf_from_content), and the metafile records a hash for every piece *)
Definition v2_wf (pl : nat) (f : v2_file) : Prop :=
  length (v2_disk_hashes (v2_disk f)) <= ceil_div (v2_len f) pl /\
  ceil_div (v2_len f) pl <= length (v2_pieces f).

(* the hypothesis on hs as it comes from the bytes on disk: FileHasher yields
   ceil_div (length d) pl hashes for content d, and d is not longer than recorded *)
Lemma v2_wf_from_content pl L pieces hs (d : bytes) : 0 < pl ->
  length hs = ceil_div (length d) pl -> length d <= L -> ceil_div L pl <= length pieces ->
  v2_wf pl {| v2_len := L; v2_pieces := pieces; v2_disk := Some hs |}.
Proof.
  intros Hpl Hhs Hd Hp. split; cbn [v2_disk v2_len v2_pieces v2_disk_hashes]; [|assumption].
  rewrite Hhs. apply ceil_div_mono; assumption.
Qed.

Lemma open_file_ok pl f : v2_wf pl f ->
  inv pl (open_file f) /\ rem_cur pl (open_file f) = v2_file_spec pl f.
Proof.
  intros [Hh Hp]. unfold inv, rem_cur, open_file. cbn [c_length c_pieces c_count c_hasher].
  rewrite v2_file_spec_rem. destruct (v2_disk f) as [hs|]; cbn [v2_disk_hashes hashes_of] in *.
  - split; [split; [assumption|lia]|reflexivity].
  - split; [split; [reflexivity|lia]|reflexivity].
Qed.

Definition rem_later (pl : nat) (later : list v2_file) : list entry :=
  concat (map (v2_file_spec pl) later).

Lemma next_loop_step pl : 0 < pl -> forall later c, inv pl c -> Forall (v2_wf pl) later ->
  match next_loop pl c later with
  | None => rem_cur pl c ++ rem_later pl later = []
  | Some (e, (c', later')) =>
      rem_cur pl c ++ rem_later pl later = e :: (rem_cur pl c' ++ rem_later pl later') /\
      inv pl c' /\ Forall (v2_wf pl) later'
  end.
Proof.
  intros Hpl. induction later as [|f later IH]; intros c Hc Hw; cbn [Recheck.next_loop];
    pose proof (process_current_step pl c Hpl Hc) as Hstep;
    destruct (process_current pl c) as [[e c']|].
  - destruct Hstep as [E Hc']. rewrite E. split; [reflexivity|]. split; assumption.
  - rewrite Hstep. reflexivity.
  - destruct Hstep as [E Hc']. rewrite E. split; [reflexivity|]. split; assumption.
  - inversion Hw as [|x l Hf Hw']; subst. destruct (open_file_ok pl f Hf) as [Hi Hr].
    specialize (IH (open_file f) Hi Hw'). rewrite Hstep. unfold rem_later. cbn [map concat app].
    rewrite <- Hr. exact IH.
Qed.

Definition rem_state (pl : nat) (st : option cur_file * list v2_file) : list entry :=
  match fst st with
  | Some c => rem_cur pl c ++ rem_later pl (snd st)
  | None => rem_later pl (snd st)
  end.

Definition inv_state (pl : nat) (st : option cur_file * list v2_file) : Prop :=
  match fst st with Some c => inv pl c | None => True end /\ Forall (v2_wf pl) (snd st).

Lemma hash_next_step pl st : 0 < pl -> inv_state pl st ->
  match hash_next pl st with
  | None => rem_state pl st = []
  | Some (e, st') => rem_state pl st = e :: rem_state pl st' /\ inv_state pl st'
  end.
Proof.
  intros Hpl. destruct st as [[c|] later]; unfold inv_state, rem_state, Recheck.hash_next;
    cbn [fst snd]; intros [Hc Hw].
  - pose proof (next_loop_step pl Hpl later c Hc Hw) as H.
    destruct (next_loop pl c later) as [[e [c' later']]|]; [|exact H].
    cbn [fst snd]. destruct H as [E [Hc' Hw']]. split; [exact E|]. split; assumption.
  - destruct later as [|f later]; [reflexivity|].
    inversion Hw as [|x l Hf Hw']; subst. destruct (open_file_ok pl f Hf) as [Hi Hr].
    pose proof (next_loop_step pl Hpl later (open_file f) Hi Hw') as H.
    assert (Erem : rem_later pl (f :: later) = rem_cur pl (open_file f) ++ rem_later pl later)
      by (rewrite Hr; reflexivity).
    rewrite Erem.
    destruct (next_loop pl (open_file f) later) as [[e [c' later']]|]; [|exact H].
    cbn [fst snd]. destruct H as [E [Hc' Hw'']]. split; [exact E|]. split; assumption.
Qed.

Lemma hash_iter_spec pl : 0 < pl -> forall fuel st, inv_state pl st ->
  length (rem_state pl st) < fuel -> hash_iter fuel pl st = rem_state pl st.
Proof.
  intros Hpl. induction fuel as [|fuel IH]; intros st Hi Hf; [lia|].
  cbn [Recheck.hash_iter]. pose proof (hash_next_step pl st Hpl Hi) as H.
  destruct (hash_next pl st) as [[e st']|].
  - destruct H as [E Hi']. rewrite E in *. cbn [length] in Hf. f_equal. apply IH; [assumption|lia].
  - symmetry. exact H.
Qed.

(* ---------- facts about the per-file specification ---------- *)

Lemma v2_file_spec_length pl f : length (v2_file_spec pl f) = ceil_div (v2_len f) pl.
Proof. unfold Spec.RecheckSpec.v2_file_spec. rewrite map_length, seq_length. reflexivity. Qed.

Lemma v2_file_spec_nth pl f j : j < ceil_div (v2_len f) pl ->
  nth_error (v2_file_spec pl f) j =
  Some (nth j (v2_disk_hashes (v2_disk f)) (H256 (zeros (v2_size pl (v2_len f) j))),
        nth j (v2_pieces f) [], v2_size pl (v2_len f) j).
Proof.
  intros Hj. unfold Spec.RecheckSpec.v2_file_spec.
  rewrite (map_nth_error _ j (seq 0 (ceil_div (v2_len f) pl)) (d := j)); [reflexivity|].
  rewrite (nth_error_nth' _ 0) by (rewrite seq_length; assumption).
  rewrite seq_nth by assumption. reflexivity.
Qed.

Lemma v2_file_spec_empty pl f : 0 < pl -> v2_len f = 0 -> v2_file_spec pl f = [].
Proof. intros Hpl E. rewrite v2_file_spec_rem, E. apply rem_zero, Hpl. Qed.

(* sizes: pl, ..., pl, then the rest *)
Lemma v2_size_full pl L j : 0 < pl -> S j < ceil_div L pl -> v2_size pl L j = pl.
Proof.
  intros Hpl Hj. apply ceil_div_lt in Hj; [|assumption]. unfold v2_size.
  cbn [Nat.mul] in Hj. lia.
Qed.

Lemma v2_size_pos pl L j : 0 < pl -> j < ceil_div L pl -> 0 < v2_size pl L j <= pl.
Proof. intros Hpl Hj. apply ceil_div_lt in Hj; [|assumption]. unfold v2_size. lia. Qed.

Lemma v2_size_last pl L : 0 < pl -> 0 < L ->
  v2_size pl L (ceil_div L pl - 1) = if L mod pl =? 0 then pl else L mod pl.
Proof.
  intros Hpl HL. set (m := ceil_div L pl - 1).
  assert (Hn : 0 < ceil_div L pl) by (apply ceil_div_lt; [assumption|cbn [Nat.mul]; lia]).
  assert (Hlo : m * pl < L) by (apply ceil_div_lt; [assumption|unfold m; lia]).
  assert (Hhi : L <= m * pl + pl).
  { destruct (le_lt_dec L (m * pl + pl)) as [H|H]; [assumption|]. exfalso.
    assert (S m < ceil_div L pl) by (apply ceil_div_lt; [assumption|cbn [Nat.mul]; lia]).
    unfold m in *. lia. }
  unfold v2_size. destruct (Nat.eq_dec (L - m * pl) pl) as [E|E].
  - assert (Hmod : L mod pl = 0).
    { symmetry. apply (Nat.mod_unique L pl (S m) 0); [lia|].
      rewrite Nat.mul_succ_r, (Nat.mul_comm pl m). lia. }
    rewrite Hmod. cbn [Nat.eqb]. lia.
  - assert (Hmod : L mod pl = L - m * pl).
    { symmetry. apply (Nat.mod_unique L pl m (L - m * pl)); [lia|].
      rewrite (Nat.mul_comm pl m). lia. }
    rewrite Hmod. replace (L - m * pl =? 0) with false by (symmetry; apply Nat.eqb_neq; lia). lia.
Qed.

Lemma consumed_rem pl pieces : 0 < pl -> forall n len hs count, ceil_div len pl = n ->
  consumed_of (verdicts (rem pl hs len count pieces)) = len.
Proof.
  intros Hpl. induction n as [|n IH]; intros len hs count Hn.
  - assert (len = 0).
    { destruct len as [|l]; [reflexivity|].
      assert (0 < ceil_div (S l) pl) by (apply ceil_div_lt; [assumption|cbn [Nat.mul]; lia]). lia. }
    subst len. rewrite rem_zero by assumption. reflexivity.
  - assert (Hlen : 0 < len).
    { destruct len as [|l]; [rewrite ceil_div_0 in Hn by assumption; discriminate|lia]. }
    rewrite rem_step by assumption. cbn [verdicts map verdict_of]. rewrite consumed_of_cons.
    fold (verdicts (rem pl (tl hs) (if pl <=? len then len - pl else len - len) (S count) pieces)).
    rewrite (ceil_div_step pl len) in Hn by assumption. injection Hn as Hn.
    rewrite (IH _ _ _ Hn).
    destruct (pl <=? len) eqn:E; [apply Nat.leb_le in E|apply Nat.leb_gt in E]; lia.
Qed.

(* the sizes of a file's entries sum to exactly its recorded length *)
Theorem v2_file_spec_consumed pl f : 0 < pl ->
  consumed_of (verdicts (v2_file_spec pl f)) = v2_len f.
Proof. intros Hpl. rewrite v2_file_spec_rem. eapply consumed_rem; [assumption|reflexivity]. Qed.

(* the hashes found: first the file hasher's, then Padder hashes *)
Lemma map_nth_seq {A} (l : list A) : forall d : nat -> A,
  map (fun j => nth j l (d j)) (seq 0 (length l)) = l.
Proof.
  induction l as [|x l IH]; intros d; [reflexivity|].
  cbn [length seq map nth]. f_equal. rewrite <- seq_shift, map_map. cbn [nth].
  apply (IH (fun j => d (S j))).
Qed.

Theorem v2_file_spec_disk_hashes pl f :
  length (v2_disk_hashes (v2_disk f)) <= ceil_div (v2_len f) pl ->
  map (fun e : entry => fst (fst e)) (v2_file_spec pl f) =
  v2_disk_hashes (v2_disk f) ++
  map (fun j => H256 (zeros (v2_size pl (v2_len f) j)))
      (seq (length (v2_disk_hashes (v2_disk f)))
           (ceil_div (v2_len f) pl - length (v2_disk_hashes (v2_disk f)))).
Proof.
  intros Hle. unfold Spec.RecheckSpec.v2_file_spec. set (hs := v2_disk_hashes (v2_disk f)) in *.
  rewrite map_map. cbn [fst].
  replace (ceil_div (v2_len f) pl) with (length hs + (ceil_div (v2_len f) pl - length hs)) at 1 by lia.
  rewrite seq_app, map_app. cbn [Nat.add]. f_equal.
  - apply map_nth_seq.
  - apply map_ext_in. intros j Hj. apply in_seq in Hj. apply nth_overflow. lia.
Qed.

(* ---------- the main theorems ---------- *)

Lemma rem_later_length pl files : 0 < pl ->
  length (rem_later pl files) <=
  sum_nat (map (fun f => v2_len f + length (v2_disk_hashes (v2_disk f))) files).
Proof.
  intros Hpl. unfold rem_later. induction files as [|f files IH]; [apply le_n|].
  cbn [map concat sum_nat fold_right]. rewrite app_length, v2_file_spec_length.
  pose proof (ceil_div_le_self pl (v2_len f) Hpl). unfold sum_nat in IH. lia.
Qed.

(* C16_v2_exact *)
Theorem hash_trace_exact pl files : 0 < pl -> Forall (v2_wf pl) files ->
  hash_trace pl files = spec_trace_v2 pl files.
Proof.
  intros Hpl Hw. unfold Recheck.hash_trace.
  rewrite hash_iter_spec; [reflexivity|assumption|split; [exact I|exact Hw]|].
  unfold rem_state, hash_fuel. cbn [fst snd]. pose proof (rem_later_length pl files Hpl). lia.
Qed.

Lemma consumed_rem_later pl files : 0 < pl ->
  consumed_of (verdicts (rem_later pl files)) = sum_nat (map v2_len files).
Proof.
  intros Hpl. unfold rem_later. induction files as [|f files IH]; [reflexivity|].
  cbn [map concat sum_nat fold_right]. unfold verdicts. rewrite map_app.
  fold (verdicts (v2_file_spec pl f)). fold (verdicts (concat (map (v2_file_spec pl) files))).
  rewrite consumed_of_app, v2_file_spec_consumed, IH by assumption. reflexivity.
Qed.

(* overall consumed = total payload; empty files anywhere do not end the iteration *)
Theorem hash_trace_consumed pl files : 0 < pl -> Forall (v2_wf pl) files ->
  consumed (hash_trace pl files) = sum_nat (map v2_len files).
Proof.
  intros Hpl Hw. rewrite hash_trace_exact, consumed_spec by assumption.
  apply consumed_rem_later, Hpl.
Qed.

(* intact file: the file hasher yields exactly the recorded hashes -> every verdict is true *)
Definition v2_intact (pl : nat) (f : v2_file) : Prop :=
  v2_disk f = Some (v2_pieces f) /\ length (v2_pieces f) = ceil_div (v2_len f) pl.

Lemma v2_intact_wf pl f : v2_intact pl f -> v2_wf pl f.
Proof. intros [Hd Hl]. unfold v2_wf. rewrite Hd. cbn [v2_disk_hashes]. lia. Qed.

Theorem v2_intact_file_verdicts pl f : v2_intact pl f ->
  Forall (fun vs : bool * nat => fst vs = true) (verdicts (v2_file_spec pl f)).
Proof.
  intros [Hd Hl]. unfold verdicts, Spec.RecheckSpec.v2_file_spec. rewrite map_map, Hd.
  cbn [v2_disk_hashes]. apply Forall_forall. intros vs Hin. apply in_map_iff in Hin.
  destruct Hin as [j [<- Hj]]. apply in_seq in Hj. cbn [verdict_of fst].
  rewrite (@nth_indep _ (v2_pieces f) j (H256 (zeros (v2_size pl (v2_len f) j))) []) by lia.
  apply bytes_eqb_refl.
Qed.

Theorem C05_v2 pl files : 0 < pl -> Forall (v2_intact pl) files ->
  matched (hash_trace pl files) = consumed (hash_trace pl files) /\
  consumed (hash_trace pl files) = sum_nat (map v2_len files).
Proof.
  intros Hpl Hi.
  assert (Hw : Forall (v2_wf pl) files).
  { eapply Forall_impl; [|exact Hi]. intros f. apply v2_intact_wf. }
  split; [|apply hash_trace_consumed; assumption].
  rewrite matched_spec, consumed_spec, hash_trace_exact by assumption.
  apply matched_eq_consumed_iff. unfold Spec.RecheckSpec.spec_trace_v2, verdicts.
  induction Hi as [|f files Hf _ IH]; [constructor|].
  inversion Hw as [|x l _ Hw']; subst.
  cbn [map concat]. rewrite map_app. apply Forall_app. split; [|apply IH, Hw'].
  eapply Forall_impl; [|apply (v2_intact_file_verdicts pl f Hf)].
  intros vs E _. exact E.
Qed.

(* C04 for v2/hybrid: some piece of some listed file has a hash on disk (layer hash, or Padder
   hash for missing data) different from the recorded one -> strictly less than everything
   matches, and everything was looked at *)
Theorem C04_v2 pl files : 0 < pl -> Forall (v2_wf pl) files ->
  (exists f j, In f files /\ j < ceil_div (v2_len f) pl /\
     nth j (v2_disk_hashes (v2_disk f)) (H256 (zeros (v2_size pl (v2_len f) j)))
       <> nth j (v2_pieces f) []) ->
  matched (hash_trace pl files) < consumed (hash_trace pl files) /\
  consumed (hash_trace pl files) = sum_nat (map v2_len files).
Proof.
  intros Hpl Hw [f [j [Hin [Hj Hne]]]]. split; [|apply hash_trace_consumed; assumption].
  rewrite matched_spec, consumed_spec, hash_trace_exact by assumption.
  apply (failed_piece_lt _ (v2_size pl (v2_len f) j)); [|apply v2_size_pos; assumption].
  unfold verdicts. apply in_map_iff.
  exists (nth j (v2_disk_hashes (v2_disk f)) (H256 (zeros (v2_size pl (v2_len f) j))),
          nth j (v2_pieces f) [], v2_size pl (v2_len f) j).
  split; [cbn [verdict_of]; rewrite bytes_eqb_neq by assumption; reflexivity|].
  unfold Spec.RecheckSpec.spec_trace_v2. apply in_concat. exists (v2_file_spec pl f). split.
  - apply in_map, Hin.
  - eapply nth_error_In. apply v2_file_spec_nth, Hj.
Qed.

End V2.

(* ---------- examples ---------- *)

Local Open Scope char_scope.

(* pl = 4, H256 := identity.  Files: empty (first), 10 bytes of which 5 are on disk (the hasher
   yields 2 layer hashes "P","Q"; recorded "P","R","S"), empty, 3 bytes absent, 4 bytes intact,
   empty (last). *)
Example hash_trace_example :
  let files :=
    [ {| v2_len := 0; v2_pieces := []; v2_disk := Some [] |};
      {| v2_len := 10; v2_pieces := [["P"]; ["R"]; ["S"]]; v2_disk := Some [["P"]; ["Q"]] |};
      {| v2_len := 0; v2_pieces := []; v2_disk := None |};
      {| v2_len := 3; v2_pieces := [["T"]]; v2_disk := None |};
      {| v2_len := 4; v2_pieces := [["U"]]; v2_disk := Some [["U"]] |};
      {| v2_len := 0; v2_pieces := []; v2_disk := Some [] |} ] in
  Forall (v2_wf 4) files /\
  hash_trace (fun x => x) 4 files = spec_trace_v2 (fun x => x) 4 files /\
  hash_trace (fun x => x) 4 files =
    [ (["P"], ["P"], 4); (["Q"], ["R"], 4); ([zero; zero], ["S"], 2);
      ([zero; zero; zero], ["T"], 3); (["U"], ["U"], 4) ] /\
  matched (hash_trace (fun x => x) 4 files) = 8 /\ consumed (hash_trace (fun x => x) 4 files) = 17.
Proof.
  cbv zeta. split.
  - repeat constructor; vm_compute; lia.
  - vm_compute. repeat split.
Qed.

Print Assumptions hash_trace_exact.
Print Assumptions v2_file_spec_length.
Print Assumptions v2_file_spec_nth.
Print Assumptions v2_size_full.
Print Assumptions v2_size_last.
Print Assumptions v2_file_spec_consumed.
Print Assumptions v2_file_spec_disk_hashes.
Print Assumptions v2_file_spec_empty.
Print Assumptions hash_trace_consumed.
Print Assumptions v2_intact_file_verdicts.
Print Assumptions C05_v2.
Print Assumptions C04_v2.
