(* C02 / C03 / C10: the size decisions of the three `_traverse` methods, as REGENERATED from /repo/torrentfile/torrent.py on this
   run (Gen/GenTraverse.v), are the ones Model/Creators.v makes (`if size =? 0 ...`, `if pl <? size then update ... layers`) --
   for every file size and every piece length, which no sampled correspondence can say. *)
From Coq Require Import ZArith Bool Lia ZifyBool.
From TF Require Import Gen.GenTraverse.
Open Scope Z_scope.
Ltac Zify.zify_post_hook ::= Z.to_euclidean_division_equations.

Ltac decide_cond := intros; cbv delta [gen_layer_cond_TorrentFileV2 gen_layer_cond_TorrentFileHybrid gen_layer_cond_TorrentAssembler
                                        gen_rootless_cond_TorrentFileV2 gen_rootless_cond_TorrentFileHybrid
                                        gen_rootless_cond_TorrentAssembler] beta zeta;
                    first [lia | nia].

(* a `piece layers` entry exactly for files larger than the piece length *)
Lemma gen_layer_rule size pl : 0 <= size -> 0 < pl ->
  gen_layer_cond_TorrentFileV2 size pl = (pl <? size) /\
  gen_layer_cond_TorrentFileHybrid size pl = (pl <? size) /\
  gen_layer_cond_TorrentAssembler size pl = (pl <? size).
Proof. repeat split; decide_cond. Qed.

(* no root exactly for empty files *)
Lemma gen_rootless_rule size pl : 0 <= size -> 0 < pl ->
  gen_rootless_cond_TorrentFileV2 size pl = (size =? 0) /\
  gen_rootless_cond_TorrentFileHybrid size pl = (size =? 0) /\
  gen_rootless_cond_TorrentAssembler size pl = (size =? 0).
Proof. repeat split; decide_cond. Qed.

Lemma gen_listing_is_sorted : gen_listing_sorted = true.
Proof. reflexivity. Qed.
