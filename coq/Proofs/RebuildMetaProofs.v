(* Lemmas about Model/RebuildMeta.v: how rebuild.py reads the file list of a metafile (Metadata.extract,
   _parse_tree, _check_parts) and the v2 matching loop (Metadata._match_v2).
   C13: match_v2_complete, parse_tree_paths_exact, v1_files_paths_exact;  C14: match_v2_sound;
   C19: extract_validates_everything, extract_refuses_unsafe_*, target_inside, copy_target_inside. *)
From TF Require Import Lib.Base Lib.Lex Lib.Chunks Model.Bencode Proofs.BencodeProofs Spec.Bep52 Model.HasherV2
  Proofs.HasherV2Correct Model.RebuildMeta.
From TF Require Model.PathSafe Proofs.PathSafeProofs Model.Rebuild.
From Coq Require String.
Local Open Scope list_scope.

(* ---------------------------------------------------------------------------------------------- *)
(* the validator                                                                                  *)
(* ---------------------------------------------------------------------------------------------- *)

(* the element is let through by _check_parts *)
Definition safe (c : bytes) : Prop := safe_b c = true.

Lemma safe_text c : safe c -> PathSafe.safe_comp (text c) = true.
Proof. unfold safe, safe_b. intros H. apply andb_prop in H. tauto. Qed.

Lemma check_parts_b_Forall parts : check_parts_b parts = true <-> Forall safe parts.
Proof. unfold check_parts_b, safe. rewrite forallb_forall, Forall_forall. tauto. Qed.

Lemma list_ascii_of_text c : String.list_ascii_of_string (text c) = c.
Proof. apply String.list_ascii_of_string_of_list_ascii. Qed.

(* what _check_parts promises for an element it lets through, on the raw bytes *)
Theorem safe_spec c : safe c ->
  utf8_valid c = true /\ c <> [] /\ c <> ["."%char] /\ c <> ["."%char; "."%char] /\
  ~ In PathSafe.slash c /\ ~ In PathSafe.nul c.
Proof.
  unfold safe, safe_b. intros H. apply andb_prop in H as [U S]. split; [exact U|].
  apply PathSafeProofs.safe_comp_spec in S. rewrite list_ascii_of_text in S.
  destruct S as (N1 & N2 & N3 & N4 & N5).
  repeat split; try assumption; intros ->; [apply N1 | apply N2 | apply N3]; reflexivity.
Qed.

(* ---------------------------------------------------------------------------------------------- *)
(* _parse_tree                                                                                    *)
(* ---------------------------------------------------------------------------------------------- *)

(* the loop inside parse_val is parse_tree *)
Lemma parse_val_dict partials key d :
  parse_val partials key (BDict d) =
  if negb (safe_b key) then None
  else match lookup rk_empty d with
       | Some leaf =>
           match leaf_fields leaf with
           | Some (n, r) => Some [mk_entry partials (partials ++ [key]) key n r]
           | None => None
           end
       | None => parse_tree (partials ++ [key]) d
       end.
Proof.
  cbn [parse_val]. destruct (negb (safe_b key)); [reflexivity|].
  destruct (lookup rk_empty d); [reflexivity|].
  induction d as [|[k v] r IH]; [reflexivity|]. cbn [parse_tree]. rewrite <- IH. reflexivity.
Qed.

(* SPECIFICATION, written independently of the code: the leaves of a file tree in tree order, each
   with the list of keys leading to it from the root.  A node that has the key "" is a file (its
   other keys are not looked at); any other dictionary is a directory; paths are built on the way
   BACK from the leaf (the code accumulates them on the way down). *)
Fixpoint leaves_of (val : value) : list (list bytes * value) :=
  match val with
  | BDict d =>
      match lookup rk_empty d with
      | Some leaf => [([], leaf)]
      | None =>
          concat (map (fun kv : bytes * value =>
                         let (k, v) := kv in map (fun pl => (k :: fst pl, snd pl)) (leaves_of v)) d)
      end
  | _ => []
  end.

Definition tree_leaves (tree : dict) : list (list bytes * value) :=
  concat (map (fun kv : bytes * value =>
                 let (k, v) := kv in map (fun pl => (k :: fst pl, snd pl)) (leaves_of v)) tree).

(* ... and the keys the walk meets: those of the tree and of every directory below it *)
Fixpoint keys_of (val : value) : list bytes :=
  match val with
  | BDict d =>
      match lookup rk_empty d with
      | Some _ => []
      | None => concat (map (fun kv : bytes * value => let (k, v) := kv in k :: keys_of v) d)
      end
  | _ => []
  end.

Definition tree_keys (tree : dict) : list bytes :=
  concat (map (fun kv : bytes * value => let (k, v) := kv in k :: keys_of v) tree).

Lemma tree_leaves_cons k v r :
  tree_leaves ((k, v) :: r) = map (fun pl => (k :: fst pl, snd pl)) (leaves_of v) ++ tree_leaves r.
Proof. reflexivity. Qed.

Lemma tree_keys_cons k v r : tree_keys ((k, v) :: r) = k :: keys_of v ++ tree_keys r.
Proof. reflexivity. Qed.

Lemma leaves_of_dict d :
  leaves_of (BDict d) = match lookup rk_empty d with Some leaf => [([], leaf)] | None => tree_leaves d end.
Proof. reflexivity. Qed.

Lemma keys_of_dict d :
  keys_of (BDict d) = match lookup rk_empty d with Some _ => [] | None => tree_keys d end.
Proof. reflexivity. Qed.

(* entry e stands for the leaf pl = (keys, leaf dictionary) below the directory `prefix` *)
Definition entry_at (prefix : list bytes) (e : entry) (pl : list bytes * value) : Prop :=
  e_full e = prefix ++ fst pl /\
  e_path e = removelast (e_full e) /\
  e_filename e = last (e_full e) [] /\
  leaf_fields (snd pl) = Some (e_length e, e_root e).

Lemma entry_at_shift prefix k es ls :
  Forall2 (entry_at (prefix ++ [k])) es ls ->
  Forall2 (entry_at prefix) es (map (fun pl => (k :: fst pl, snd pl)) ls).
Proof.
  induction 1 as [|e pl es ls (F & P & N & L) _ IH]; cbn [map]; constructor; [|exact IH].
  repeat split; try assumption. cbn [fst snd]. rewrite F, <- app_assoc. reflexivity.
Qed.

Lemma parse_tree_exact_aux d :
  Forall (fun kv : bytes * value => forall partials key es,
            parse_val partials key (snd kv) = Some es ->
            Forall2 (entry_at (partials ++ [key])) es (leaves_of (snd kv))) d ->
  forall partials es, parse_tree partials d = Some es -> Forall2 (entry_at partials) es (tree_leaves d).
Proof.
  induction 1 as [|[k v] r Hv _ IH]; intros partials es; cbn [parse_tree].
  - intros [= <-]. constructor.
  - destruct (parse_val partials k v) as [a|] eqn:A; [|discriminate].
    destruct (parse_tree partials r) as [b|] eqn:Bq; [|discriminate].
    intros [= <-]. rewrite tree_leaves_cons. apply Forall2_app.
    + apply entry_at_shift. exact (Hv _ _ _ A).
    + apply IH. exact Bq.
Qed.

Lemma parse_val_exact : forall val partials key es,
  parse_val partials key val = Some es -> Forall2 (entry_at (partials ++ [key])) es (leaves_of val).
Proof.
  induction val as [z|s|l _|d IH] using value_ind'; intros partials key es;
    try (cbn [parse_val]; destruct (negb (safe_b key)); discriminate).
  rewrite parse_val_dict, leaves_of_dict. destruct (negb (safe_b key)); [discriminate|].
  destruct (lookup rk_empty d) as [leaf|].
  - destruct (leaf_fields leaf) as [[n r]|] eqn:LF; [|discriminate].
    intros [= <-]. constructor; [|constructor]. unfold entry_at. cbn [e_full e_path e_filename e_length e_root fst snd].
    rewrite app_nil_r, removelast_last, last_last. repeat split. exact LF.
  - apply parse_tree_exact_aux. exact IH.
Qed.

(* C13 (this is what a rebound `partials` breaks): the entries are exactly the leaves of the file tree, in tree
   order; each entry's `full` is the start directory followed by the keys from the root to the leaf, its `path` the
   parent of that, its file name the leaf's key, length and root those recorded in the leaf *)
Theorem parse_tree_entries_exact : forall tree partials es,
  parse_tree partials tree = Some es -> Forall2 (entry_at partials) es (tree_leaves tree).
Proof.
  intros tree partials es. apply parse_tree_exact_aux.
  apply Forall_forall. intros kv _ p k es'. apply parse_val_exact.
Qed.

Lemma Forall2_map_eq {A C D} (R : A -> C -> Prop) (f : A -> D) (g : C -> D) l1 l2 :
  (forall a c, R a c -> f a = g c) -> Forall2 R l1 l2 -> map f l1 = map g l2.
Proof. intros H. induction 1 as [|a c l1 l2 Hac _ IH]; cbn [map]; [reflexivity|]. rewrite (H _ _ Hac), IH. reflexivity. Qed.

Theorem parse_tree_paths_exact : forall tree partials es,
  parse_tree partials tree = Some es ->
  map e_full es = map (fun pl => partials ++ fst pl) (tree_leaves tree).
Proof.
  intros tree partials es H. apply (Forall2_map_eq (entry_at partials)).
  - intros e pl (F & _). exact F.
  - now apply parse_tree_entries_exact.
Qed.

(* every key the walk meets has passed the validator: directory keys and leaf keys at every depth,
   including directories that contain no file *)
Lemma parse_tree_keys_aux d :
  Forall (fun kv : bytes * value => forall partials key es,
            parse_val partials key (snd kv) = Some es -> Forall safe (key :: keys_of (snd kv))) d ->
  forall partials es, parse_tree partials d = Some es -> Forall safe (tree_keys d).
Proof.
  induction 1 as [|[k v] r Hv _ IH]; intros partials es; cbn [parse_tree].
  - intros _. constructor.
  - destruct (parse_val partials k v) as [a|] eqn:A; [|discriminate].
    destruct (parse_tree partials r) as [b|] eqn:Bq; [|discriminate].
    intros _. rewrite tree_keys_cons. change (k :: keys_of v ++ tree_keys r) with ((k :: keys_of v) ++ tree_keys r).
    apply Forall_app. split; [exact (Hv _ _ _ A) | exact (IH _ _ Bq)].
Qed.

Lemma parse_val_keys : forall val partials key es,
  parse_val partials key val = Some es -> Forall safe (key :: keys_of val).
Proof.
  induction val as [z|s|l _|d IH] using value_ind'; intros partials key es;
    try (cbn [parse_val]; destruct (negb (safe_b key)); discriminate).
  rewrite parse_val_dict, keys_of_dict. destruct (safe_b key) eqn:K; cbn [negb]; [|discriminate].
  destruct (lookup rk_empty d) as [leaf|].
  - intros _. constructor; [exact K | constructor].
  - intros H. constructor; [exact K|]. exact (parse_tree_keys_aux d IH _ _ H).
Qed.

Theorem parse_tree_keys_safe : forall tree partials es,
  parse_tree partials tree = Some es -> Forall safe (tree_keys tree).
Proof.
  intros tree partials es. apply parse_tree_keys_aux.
  apply Forall_forall. intros kv _ p k es'. apply parse_val_keys.
Qed.

(* C19: an unsafe key anywhere the walk comes by -- at any depth, directory or file, first or later sibling --
   makes the whole metafile unacceptable *)
Theorem parse_tree_refuses_unsafe : forall tree partials,
  Exists (fun k => safe_b k = false) (tree_keys tree) -> parse_tree partials tree = None.
Proof.
  intros tree partials X. destruct (parse_tree partials tree) as [es|] eqn:P; [|reflexivity].
  apply parse_tree_keys_safe in P. apply Exists_exists in X as (k & I & U).
  rewrite Forall_forall in P. specialize (P k I). unfold safe in P. congruence.
Qed.

(* the keys on the way to a leaf are among the keys the walk meets *)
Lemma leaves_keys_aux d :
  Forall (fun kv : bytes * value => forall pl, In pl (leaves_of (snd kv)) -> incl (fst pl) (keys_of (snd kv))) d ->
  forall pl, In pl (tree_leaves d) -> incl (fst pl) (tree_keys d).
Proof.
  induction 1 as [|[k v] r Hv _ IH]; intros pl; [intros []|].
  rewrite tree_leaves_cons, tree_keys_cons. intros I. apply in_app_or in I as [I|I].
  - apply in_map_iff in I as (q & <- & Iq). cbn [fst]. intros x [<-|Ix]; [now left|].
    right. apply in_or_app. left. exact (Hv q Iq x Ix).
  - intros x Ix. right. apply in_or_app. right. exact (IH pl I x Ix).
Qed.

Lemma leaves_of_keys : forall val pl, In pl (leaves_of val) -> incl (fst pl) (keys_of val).
Proof.
  induction val as [z|s|l _|d IH] using value_ind'; intros pl; try (intros []).
  rewrite leaves_of_dict, keys_of_dict. destruct (lookup rk_empty d).
  - intros [<-|[]]. intros x [].
  - now apply leaves_keys_aux.
Qed.

Lemma tree_leaves_keys tree pl : In pl (tree_leaves tree) -> incl (fst pl) (tree_keys tree).
Proof. apply leaves_keys_aux. apply Forall_forall. intros kv _. apply leaves_of_keys. Qed.

Lemma Forall2_In_l {A C} (R : A -> C -> Prop) l1 l2 a :
  Forall2 R l1 l2 -> In a l1 -> exists c, In c l2 /\ R a c.
Proof.
  induction 1 as [|x y l1 l2 Hxy _ IH]; [intros []|]. intros [<-|I].
  - exists y. split; [now left | exact Hxy].
  - destruct (IH I) as (c & Ic & Rc). exists c. split; [now right | exact Rc].
Qed.

(* the shape of an accepted entry: below `start`, every component validated, parent and file name in step *)
Definition entry_ok (start : list bytes) (e : entry) : Prop :=
  Forall safe (e_full e) /\ (exists rest, rest <> [] /\ e_full e = start ++ rest) /\
  e_path e = removelast (e_full e) /\ e_filename e = last (e_full e) [].

Theorem parse_tree_entries_ok : forall tree partials es,
  Forall safe partials -> parse_tree partials tree = Some es -> Forall (entry_ok partials) es.
Proof.
  intros tree partials es SP H. apply Forall_forall. intros e Ie.
  pose proof (parse_tree_entries_exact _ _ _ H) as X. pose proof (parse_tree_keys_safe _ _ _ H) as K.
  destruct (Forall2_In_l _ _ _ _ X Ie) as (pl & Ipl & F & P & N & L).
  pose proof (tree_leaves_keys _ _ Ipl) as Inc.
  assert (NE : fst pl <> []).
  { clear - Ipl. revert Ipl. unfold tree_leaves. intros I. apply in_concat in I as (l & Il & Ip).
    apply in_map_iff in Il as ([k v] & <- & _). apply in_map_iff in Ip as (q & <- & _). discriminate. }
  repeat split; try assumption.
  - rewrite F. apply Forall_app. split; [exact SP|]. apply Forall_forall. intros x Ix.
    rewrite Forall_forall in K. apply K, Inc, Ix.
  - exists (fst pl). split; assumption.
Qed.

(* ---------------------------------------------------------------------------------------------- *)
(* the v1 `files` loop                                                                            *)
(* ---------------------------------------------------------------------------------------------- *)

(* what one accepted entry of info["files"] looks like: ONLY "path" and "length" are read *)
Definition v1_item_read (name : bytes) (e : entry) (f : value) : Prop :=
  exists d p path,
    f = BDict d /\ lookup rk_path d = Some p /\ path_parts p = Some path /\ path <> [] /\ Forall safe path /\
    lookup rk_length d = Some (BInt (e_length e)) /\
    e_full e = name :: path /\ e_path e = removelast (name :: path) /\ e_filename e = last path [] /\ e_root e = None.

Lemma v1_entry_inv name f e : v1_entry name f = Some e -> v1_item_read name e f.
Proof.
  unfold v1_entry. destruct f as [| | |d]; try discriminate.
  destruct (lookup rk_path d) as [p|] eqn:P; [|discriminate].
  destruct (path_parts p) as [[|c cs]|] eqn:PP; try discriminate.
  destruct (check_parts_b (c :: cs)) eqn:C; [|discriminate].
  destruct (lookup rk_length d) as [[n| | |]|] eqn:L; try discriminate.
  intros [= <-]. exists d, p, (c :: cs). cbn [e_full e_path e_filename e_length e_root].
  apply check_parts_b_Forall in C. repeat split; try assumption; try reflexivity. discriminate.
Qed.

(* C13 / C19: one entry per listed file, in list order, at name/<path elements> with the recorded length; every
   element has passed the validator WHATEVER else the entry's dictionary contains *)
Theorem v1_files_paths_exact : forall name items es,
  v1_entries name items = Some es -> Forall2 (v1_item_read name) es items.
Proof.
  intros name items. induction items as [|f items IH]; intros es; cbn [v1_entries].
  - intros [= <-]. constructor.
  - destruct (v1_entry name f) as [e|] eqn:E; [|discriminate].
    destruct (v1_entries name items) as [r|]; [|discriminate].
    intros [= <-]. constructor; [now apply v1_entry_inv | now apply IH].
Qed.

(* keys other than "path" and "length" (attr, symlink path, md5sum, ...) have no influence at all *)
Theorem v1_entry_ignores_other_keys : forall name d d',
  lookup rk_path d = lookup rk_path d' -> lookup rk_length d = lookup rk_length d' ->
  v1_entry name (BDict d) = v1_entry name (BDict d').
Proof. intros name d d' P L. unfold v1_entry. rewrite P, L. reflexivity. Qed.

Theorem v1_entry_refuses_unsafe : forall name d l path,
  lookup rk_path d = Some (BList l) -> items_bytes l = Some path ->
  Exists (fun c => safe_b c = false) path -> v1_entry name (BDict d) = None.
Proof.
  intros name d l path P IB X. unfold v1_entry. rewrite P. cbn [path_parts]. rewrite IB.
  destruct path as [|c cs]; [reflexivity|].
  destruct (check_parts_b (c :: cs)) eqn:C; [|reflexivity].
  apply check_parts_b_Forall in C. apply Exists_exists in X as (x & I & U).
  rewrite Forall_forall in C. specialize (C x I). unfold safe in C. congruence.
Qed.

(* an element that is not a byte string (int, list, dict) is refused as well *)
Theorem v1_entry_refuses_non_strings : forall name d l,
  lookup rk_path d = Some (BList l) -> items_bytes l = None -> v1_entry name (BDict d) = None.
Proof. intros name d l P IB. unfold v1_entry. rewrite P. cbn [path_parts]. rewrite IB. reflexivity. Qed.

Lemma v1_entries_In name items es f :
  v1_entries name items = Some es -> In f items -> v1_entry name f <> None.
Proof.
  revert es. induction items as [|g items IH]; intros es; [intros _ []|]. cbn [v1_entries].
  destruct (v1_entry name g) as [e|] eqn:E; [|discriminate].
  destruct (v1_entries name items) as [r|] eqn:R; [|discriminate].
  intros _ [<-|I]; [congruence | exact (IH r eq_refl I)].
Qed.

Lemma items_bytes_strs cs : items_bytes (map BStr cs) = Some cs.
Proof. induction cs as [|c cs IH]; cbn; [reflexivity|]. now rewrite IH. Qed.

(* ... and conversely every well-formed list is accepted: entry i is (name :: path_i, length_i) *)
Definition v1_item (extra : dict) (pe : list bytes * Z) : value :=
  BDict ((rk_length, BInt (snd pe)) :: (rk_path, BList (map BStr (fst pe))) :: extra).

Theorem v1_entries_accepts : forall name (extra : list bytes * Z -> dict) (pes : list (list bytes * Z)),
  Forall (fun pe => fst pe <> [] /\ Forall safe (fst pe)) pes ->
  v1_entries name (map (fun pe => v1_item (extra pe) pe) pes) =
  Some (map (fun pe => mk_entry (removelast (name :: fst pe)) (name :: fst pe) (last (fst pe) []) (snd pe) None) pes).
Proof.
  intros name extra pes F. induction F as [|[cs n] pes (NE & S) _ IH]; [reflexivity|].
  cbn [map v1_entries]. rewrite IH. cbn [fst snd] in *.
  unfold v1_entry, v1_item. cbn [fst snd lookup].
  change (bytes_eqb rk_length rk_path) with false. change (bytes_eqb rk_path rk_path) with true.
  change (bytes_eqb rk_length rk_length) with true. cbv iota. cbn [path_parts]. rewrite items_bytes_strs.
  destruct cs as [|c cs]; [contradiction|].
  apply check_parts_b_Forall in S. rewrite S. reflexivity.
Qed.

Lemma v1_entries_ok name items es :
  safe name -> v1_entries name items = Some es -> Forall (entry_ok [name]) es.
Proof.
  intros SN H. apply v1_files_paths_exact in H. induction H as [|e f es items R _ IH]; constructor; [|exact IH].
  destruct R as (d & p & path & _ & _ & _ & NE & SP & _ & F & P & N & _).
  repeat split.
  - rewrite F. constructor; assumption.
  - exists path. split; [exact NE | exact F].
  - rewrite P, F. reflexivity.
  - rewrite N, F. destruct path as [|c cs]; [contradiction|]. reflexivity.
Qed.

(* ---------------------------------------------------------------------------------------------- *)
(* extract                                                                                        *)
(* ---------------------------------------------------------------------------------------------- *)

Lemma extract_inv meta x : extract meta = Some x ->
  exists m info,
    meta = BDict m /\ lookup rk_info m = Some (BDict info) /\
    lookup rk_name info = Some (BStr (x_name x)) /\ safe (x_name x) /\
    lookup rk_piece_length info = Some (x_piece_length x) /\
    x_meta_version x = match lookup rk_meta_version info with Some v => v | None => BInt 1 end /\
    info_files (x_name x) (x_meta_version x) info = Some (x_is_file x, x_files x).
Proof.
  unfold extract. destruct meta as [| | |m]; try discriminate.
  destruct (lookup rk_info m) as [[| | |info]|] eqn:I; try discriminate.
  destruct (lookup rk_piece_length info) as [plv|] eqn:PL; [|discriminate].
  destruct (lookup rk_name info) as [[|name| |]|] eqn:N; try discriminate.
  destruct (safe_b name) eqn:S; cbn [negb]; [|discriminate].
  destruct (info_files name _ info) as [[isf es]|] eqn:F; [|discriminate].
  intros [= <-]. exists m, info. cbn [x_name x_piece_length x_meta_version x_is_file x_files].
  repeat split; try assumption; reflexivity.
Qed.

Lemma single_leaf_inv name tree leaf :
  single_leaf name tree = Some leaf -> exists d, tree = [(name, BDict d)] /\ lookup rk_empty d = Some leaf.
Proof.
  unfold single_leaf. destruct tree as [|[k [| | |d]] [|? ?]]; try discriminate.
  destruct (bytes_eqb k name) eqn:E; [|discriminate]. apply bytes_eqb_eq in E. subst k.
  intros L. now exists d.
Qed.

Lemma single_entry_ok name n r : safe name -> entry_ok [] (mk_entry [] [name] name n r).
Proof.
  intros S. repeat split; cbn; try reflexivity; [now repeat constructor|]. exists [name]. split; [discriminate | reflexivity].
Qed.

Lemma entry_ok_weaken name e : safe name -> entry_ok [name] e \/ (entry_ok [] e /\ e_full e = [name]) ->
  Forall safe (e_full e) /\ (exists rest, e_full e = name :: rest) /\
  e_path e = removelast (e_full e) /\ e_filename e = last (e_full e) [].
Proof.
  intros S [(A & (rest & _ & F) & P & N) | ((A & _ & P & N) & F)]; repeat split; try assumption.
  - exists rest. exact F.
  - exists []. exact F.
Qed.

Lemma info_files_ok name mv info isf es :
  safe name -> info_files name mv info = Some (isf, es) ->
  Forall (fun e => Forall safe (e_full e) /\ (exists rest, e_full e = name :: rest) /\
                   e_path e = removelast (e_full e) /\ e_filename e = last (e_full e) []) es.
Proof.
  intros S. unfold info_files.
  assert (One : forall n r, Forall (fun e => Forall safe (e_full e) /\ (exists rest, e_full e = name :: rest) /\
                   e_path e = removelast (e_full e) /\ e_filename e = last (e_full e) []) [mk_entry [] [name] name n r]).
  { intros n r. constructor; [|constructor]. apply entry_ok_weaken; [exact S|]. right. split; [now apply single_entry_ok | reflexivity]. }
  assert (Many : forall l, Forall (entry_ok [name]) l -> Forall (fun e => Forall safe (e_full e) /\ (exists rest, e_full e = name :: rest) /\
                   e_path e = removelast (e_full e) /\ e_filename e = last (e_full e) []) l).
  { intros l F. eapply Forall_impl; [|exact F]. intros e He. apply entry_ok_weaken; [exact S | now left]. }
  destruct (is_two mv).
  - destruct (lookup rk_file_tree info) as [[| | |tree]|]; try discriminate.
    unfold v2_files. destruct (single_leaf name tree) as [leaf|].
    + destruct (leaf_fields leaf) as [[n r]|]; [|discriminate]. intros [= <- <-]. apply One.
    + destruct (parse_tree [name] tree) as [l|] eqn:P; [|discriminate]. intros [= <- <-].
      apply Many. apply (parse_tree_entries_ok tree); [now repeat constructor | exact P].
  - unfold v1_files. destruct (lookup rk_length info) as [[n| | |]|]; try discriminate.
    + intros [= <- <-]. apply One.
    + destruct (lookup rk_files info) as [fv|].
      * destruct (files_items fv) as [items|]; [|discriminate].
        destruct (v1_entries name items) as [l|] eqn:V; [|discriminate]. intros [= <- <-].
        apply Many. now apply (v1_entries_ok name items).
      * intros [= <- <-]. constructor.
Qed.

(* C19: whatever the metafile is -- v1 single file, v1 `files` (with any further keys in the entries), v2 / hybrid
   single-file form, v2 / hybrid file tree of any depth: if a Metadata object comes into being at all, the name and
   every component of every entry's `full` have passed _check_parts; `full` starts with the name; `path` is its
   parent and `filename` its last component *)
Theorem extract_validates_everything : forall meta x, extract meta = Some x ->
  safe (x_name x) /\
  Forall (fun e => Forall safe (e_full e) /\ (exists rest, e_full e = x_name x :: rest) /\
                   e_path e = removelast (e_full e) /\ e_filename e = last (e_full e) []) (x_files x).
Proof.
  intros meta x H. apply extract_inv in H as (m & info & _ & _ & _ & S & _ & _ & F).
  split; [exact S | exact (info_files_ok _ _ _ _ _ S F)].
Qed.

Theorem metadata_init_validates_everything : forall meta x, metadata_init meta = Some x ->
  safe (x_name x) /\
  Forall (fun e => Forall safe (e_full e) /\ (exists rest, e_full e = x_name x :: rest) /\
                   e_path e = removelast (e_full e) /\ e_filename e = last (e_full e) []) (x_files x).
Proof.
  intros meta x. unfold metadata_init. destruct (extract meta) as [y|] eqn:E; [|discriminate].
  destruct (x_is_v2 y); [|destruct (x_pieces y)]; try discriminate; intros [= <-]; now apply extract_validates_everything in E.
Qed.

(* what the three refusal theorems below speak about: the decoded metafile has an info dictionary *)
Definition info_of (meta : value) (info : dict) : Prop :=
  exists m, meta = BDict m /\ lookup rk_info m = Some (BDict info).

Lemma extract_info meta info x : info_of meta info -> extract meta = Some x ->
  lookup rk_name info = Some (BStr (x_name x)) /\ safe (x_name x) /\
  x_meta_version x = match lookup rk_meta_version info with Some v => v | None => BInt 1 end /\
  info_files (x_name x) (x_meta_version x) info = Some (x_is_file x, x_files x).
Proof.
  intros (m & -> & I) H. apply extract_inv in H as (m' & info' & [= <-] & I' & N & S & _ & MV & F).
  rewrite I in I'. injection I' as <-. repeat split; assumption.
Qed.

(* C19, refusal: an unsafe name ... *)
Theorem extract_refuses_unsafe_name : forall meta info name,
  info_of meta info -> lookup rk_name info = Some (BStr name) -> safe_b name = false -> extract meta = None.
Proof.
  intros meta info name IO N U. destruct (extract meta) as [x|] eqn:E; [|reflexivity].
  destruct (extract_info _ _ _ IO E) as (N' & S & _). rewrite N in N'. injection N' as ->. unfold safe in S. congruence.
Qed.

(* ... an unsafe (or non-string) element in the path of ANY entry of a v1 file list, whatever further keys
   that entry carries ... *)
Theorem extract_refuses_unsafe_v1_path : forall meta info items d l,
  info_of meta info ->
  is_two (match lookup rk_meta_version info with Some v => v | None => BInt 1 end) = false ->
  lookup rk_length info = None -> lookup rk_files info = Some (BList items) ->
  In (BDict d) items -> lookup rk_path d = Some (BList l) ->
  (items_bytes l = None \/ exists path, items_bytes l = Some path /\ Exists (fun c => safe_b c = false) path) ->
  extract meta = None.
Proof.
  intros meta info items d l IO MV L F I P U. destruct (extract meta) as [x|] eqn:E; [|reflexivity]. exfalso.
  destruct (extract_info _ _ _ IO E) as (_ & _ & MVx & IF). rewrite MVx in IF. unfold info_files in IF.
  rewrite MV in IF. unfold v1_files in IF. rewrite L, F in IF. cbn [files_items] in IF.
  destruct (v1_entries (x_name x) items) as [es|] eqn:V; [|discriminate].
  apply (v1_entries_In _ _ _ _ V I).
  destruct U as [U | (path & IB & X)].
  - now apply (v1_entry_refuses_non_strings _ _ l).
  - now apply (v1_entry_refuses_unsafe _ _ l path).
Qed.

(* ... an unsafe key anywhere in a v2 / hybrid file tree: directory or file, any depth, any sibling position *)
Theorem extract_refuses_unsafe_tree_key : forall meta info tree,
  info_of meta info ->
  is_two (match lookup rk_meta_version info with Some v => v | None => BInt 1 end) = true ->
  lookup rk_file_tree info = Some (BDict tree) ->
  Exists (fun k => safe_b k = false) (tree_keys tree) -> extract meta = None.
Proof.
  intros meta info tree IO MV T X. destruct (extract meta) as [x|] eqn:E; [|reflexivity]. exfalso.
  destruct (extract_info _ _ _ IO E) as (_ & S & MVx & IF). rewrite MVx in IF. unfold info_files in IF.
  rewrite MV, T in IF. unfold v2_files in IF.
  destruct (single_leaf (x_name x) tree) as [leaf|] eqn:SL.
  - apply single_leaf_inv in SL as (d & -> & L). rewrite tree_keys_cons, keys_of_dict, L in X. cbn [app tree_keys concat map] in X.
    apply Exists_exists in X as (k & [<-|[]] & U). unfold safe in S. congruence.
  - rewrite (parse_tree_refuses_unsafe tree [x_name x] X) in IF. discriminate.
Qed.

(* C13: for a v2 / hybrid metafile that is not in the single-file form the file list IS the list of leaves of
   the file tree, in tree order, each at name/<keys from the root to the leaf> *)
Theorem extract_v2_paths_exact : forall meta info tree x,
  info_of meta info -> extract meta = Some x -> x_is_v2 x = true ->
  lookup rk_file_tree info = Some (BDict tree) -> single_leaf (x_name x) tree = None ->
  Forall2 (entry_at [x_name x]) (x_files x) (tree_leaves tree) /\
  map e_full (x_files x) = map (fun pl => x_name x :: fst pl) (tree_leaves tree).
Proof.
  intros meta info tree x IO E V2 T SL. destruct (extract_info _ _ _ IO E) as (_ & _ & _ & IF).
  unfold info_files in IF. unfold x_is_v2 in V2. rewrite V2, T in IF. unfold v2_files in IF. rewrite SL in IF.
  destruct (parse_tree [x_name x] tree) as [es|] eqn:P; [|discriminate]. injection IF as _ <-.
  split; [now apply parse_tree_entries_exact | exact (parse_tree_paths_exact _ _ _ P)].
Qed.

(* C13: a v1 metafile with a file list: one entry per listed file, in list order *)
Theorem extract_v1_paths_exact : forall meta info items x,
  info_of meta info -> extract meta = Some x -> x_is_v2 x = false ->
  lookup rk_length info = None -> lookup rk_files info = Some (BList items) ->
  Forall2 (v1_item_read (x_name x)) (x_files x) items.
Proof.
  intros meta info items x IO E V2 L F. destruct (extract_info _ _ _ IO E) as (_ & _ & _ & IF).
  unfold info_files in IF. unfold x_is_v2 in V2. rewrite V2 in IF. unfold v1_files in IF. rewrite L, F in IF.
  cbn [files_items] in IF. destruct (v1_entries (x_name x) items) as [es|] eqn:V; [|discriminate].
  injection IF as _ <-. now apply v1_files_paths_exact.
Qed.

(* ---------------------------------------------------------------------------------------------- *)
(* C19: where the copies go                                                                       *)
(* ---------------------------------------------------------------------------------------------- *)

Lemma safe_texts cs : Forall safe cs -> Forall (fun c => PathSafe.safe_comp c = true) (map text cs).
Proof. induction 1 as [|c cs Hc _ IH]; cbn [map]; constructor; [now apply safe_text | exact IH]. Qed.

(* every entry of every accepted metafile resolves to destination/<full>: inside the destination *)
Theorem target_inside : forall meta x (dest : list String.string), extract meta = Some x ->
  Forall (fun e =>
            PathSafe.resolve (dest ++ map text (e_full e)) = PathSafe.resolve dest ++ map text (e_full e) /\
            PathSafe.prefix (PathSafe.resolve dest) (PathSafe.resolve (dest ++ map text (e_full e)))) (x_files x).
Proof.
  intros meta x dest H. apply extract_validates_everything in H as (_ & F).
  eapply Forall_impl; [|exact F]. intros e (S & _). apply safe_texts in S. split.
  - now apply PathSafeProofs.safe_components_stay_inside.
  - now apply PathSafeProofs.safe_components_prefix.
Qed.

(* the same for the TEXT handed to copypath: os.path.join(dest, entry["full"]) with full the "/"-joined components *)
Lemma append_nil_r s : String.append s String.EmptyString = s.
Proof. induction s as [|c s IH]; cbn; [reflexivity | now rewrite IH]. Qed.

Lemma split_slash_nonempty s : PathSafe.split_slash s <> [].
Proof.
  induction s as [|a s IH]; cbn [PathSafe.split_slash]; [discriminate|].
  destruct (Ascii.eqb a PathSafe.slash); [discriminate|]. destruct (PathSafe.split_slash s); discriminate.
Qed.

Lemma split_slash_app c rest : PathSafe.contains PathSafe.slash c = false ->
  PathSafe.split_slash (String.append c rest) =
  match PathSafe.split_slash rest with [] => [c] | h :: t => String.append c h :: t end.
Proof.
  induction c as [|a c IH]; cbn [String.append PathSafe.contains].
  - intros _. destruct (PathSafe.split_slash rest) eqn:E; [|reflexivity]. now apply split_slash_nonempty in E.
  - intros H. apply orb_false_elim in H as [H1 H2]. cbn [PathSafe.split_slash]. rewrite H1, (IH H2).
    destruct (PathSafe.split_slash rest); reflexivity.
Qed.

Definition sep : String.string := String.String "/" String.EmptyString.

Lemma concat_cons2 x y r :
  String.concat sep (x :: y :: r) = String.append x (String.append sep (String.concat sep (y :: r))).
Proof. reflexivity. Qed.

Lemma split_concat cs : cs <> [] -> Forall (fun c => PathSafe.contains PathSafe.slash c = false) cs ->
  PathSafe.split_slash (String.concat sep cs) = cs.
Proof.
  induction cs as [|x [|y r] IH]; intros NE F; [contradiction| |].
  - inversion F as [|? ? Hx _]; subst. cbn [String.concat]. now apply PathSafeProofs.split_no_slash.
  - inversion F as [|? ? Hx F']; subst. rewrite concat_cons2, (split_slash_app _ _ Hx).
    change (PathSafe.split_slash (String.append sep (String.concat sep (y :: r))))
      with (String.EmptyString :: PathSafe.split_slash (String.concat sep (y :: r))).
    rewrite IH by (discriminate || exact F'). now rewrite append_nil_r.
Qed.

Lemma safe_comp_parts c : PathSafe.safe_comp c = true ->
  String.eqb c String.EmptyString = false /\ String.eqb c (String.String "." String.EmptyString) = false /\
  String.eqb c (String.String "." (String.String "." String.EmptyString)) = false /\
  PathSafe.contains PathSafe.slash c = false.
Proof.
  unfold PathSafe.safe_comp. rewrite !andb_true_iff, !negb_true_iff. tauto.
Qed.

Lemma step_safe stack c : PathSafe.safe_comp c = true -> PathSafe.step stack c = stack ++ [c].
Proof. intros H. apply safe_comp_parts in H as (E & D & DD & _). unfold PathSafe.step. now rewrite E, D, DD. Qed.

Lemma fold_step_safe cs : Forall (fun c => PathSafe.safe_comp c = true) cs ->
  forall stack, fold_left PathSafe.step cs stack = stack ++ cs.
Proof.
  induction 1 as [|c cs Hc _ IH]; intros stack; cbn [fold_left]; [now rewrite app_nil_r|].
  rewrite (step_safe _ _ Hc), IH, <- app_assoc. reflexivity.
Qed.

Lemma concat_not_absolute cs : cs <> [] -> Forall (fun c => PathSafe.safe_comp c = true) cs ->
  PathSafe.starts_with_slash (String.concat sep cs) = false.
Proof.
  destruct cs as [|x r]; [contradiction|]. intros _ F. inversion F as [|? ? Hx _]; subst.
  apply safe_comp_parts in Hx as (E & _ & _ & S). destruct x as [|a x]; [discriminate|].
  cbn [PathSafe.contains] in S. apply orb_false_elim in S as [S _].
  destruct r; cbn [String.concat String.append PathSafe.starts_with_slash]; exact S.
Qed.

(* joining the validated components with "/" and handing the text to os.path.join(dest, .) leads to the same place *)
Theorem joined_text_inside : forall (dest cs : list String.string),
  cs <> [] -> Forall (fun c => PathSafe.safe_comp c = true) cs ->
  PathSafe.resolve (dest ++ [String.concat sep cs]) = PathSafe.resolve dest ++ cs.
Proof.
  intros dest cs NE F. unfold PathSafe.resolve. rewrite fold_left_app. cbn [fold_left]. unfold PathSafe.join_comp.
  rewrite (concat_not_absolute _ NE F), split_concat; [now apply fold_step_safe | exact NE |].
  eapply Forall_impl; [|exact F]. intros c Hc. now apply safe_comp_parts in Hc.
Qed.

Theorem copy_target_inside : forall meta x (dest : list String.string), extract meta = Some x ->
  Forall (fun e =>
            PathSafe.resolve (dest ++ [full_text e]) = PathSafe.resolve dest ++ map text (e_full e) /\
            PathSafe.prefix (PathSafe.resolve dest) (PathSafe.resolve (dest ++ [full_text e]))) (x_files x).
Proof.
  intros meta x dest H. apply extract_validates_everything in H as (_ & F).
  eapply Forall_impl; [|exact F]. intros e (S & (rest & Fu) & _). apply safe_texts in S.
  assert (NE : map text (e_full e) <> []) by (rewrite Fu; discriminate).
  assert (R : PathSafe.resolve (dest ++ [full_text e]) = PathSafe.resolve dest ++ map text (e_full e))
    by (apply joined_text_inside; assumption).
  split; [exact R | exists (map text (e_full e)); exact R].
Qed.

(* ---------------------------------------------------------------------------------------------- *)
(* _match_v2                                                                                      *)
(* ---------------------------------------------------------------------------------------------- *)

Section MatchV2.
Variable H256 : bytes -> bytes.
Variable B : nat.
Hypothesis HB : 0 < B.
Variable k pl : nat.
Hypothesis Hpl : pl = B * 2 ^ k.
Variable fm : Rebuild.filemap.

(* candidate c (location, content) verifies as entry e: it has exactly the recorded length and -- for a file with
   content -- the BEP 52 pieces root of its content is the recorded root.  (An empty candidate "verifies" only
   against a recorded root that is an empty LIST, which no creator writes: see match_v2_empty_file.) *)
Definition verified (e : entry) (c : Rebuild.candidate) : Prop :=
  Z.of_nat (length (snd c)) = e_length e /\
  ((snd c <> [] /\ e_root e = Some (BStr (bep52_root H256 B (snd c)))) \/ (snd c = [] /\ e_root e = Some (BList []))).

Definition verifiedb (e : entry) (c : Rebuild.candidate) : bool :=
  Z.eqb (Z.of_nat (length (snd c))) (e_length e) && root_matches H256 B pl (e_root e) (snd c).

Lemma root_matches_spec root content :
  root_matches H256 B pl root content = true <->
  (content <> [] /\ root = Some (BStr (bep52_root H256 B content))) \/ (content = [] /\ root = Some (BList [])).
Proof.
  unfold root_matches. destruct content as [|c0 content].
  - split.
    + destruct root as [[| |[|? ?]|]|]; try discriminate. intros _. right. now split.
    + intros [[N _]|[_ ->]]; [contradiction | reflexivity].
  - rewrite (hasher_v2_root H256 B HB k pl Hpl (c0 :: content)) by discriminate. split.
    + destruct root as [[|r| |]|]; try discriminate. intros E. apply bytes_eqb_eq in E. subst r. left. split; [discriminate | reflexivity].
    + intros [[_ ->]|[N _]]; [apply bytes_eqb_refl | discriminate].
Qed.

Lemma verifiedb_spec e c : verifiedb e c = true <-> verified e c.
Proof. unfold verifiedb, verified. rewrite andb_true_iff, Z.eqb_eq, root_matches_spec. tauto. Qed.

Lemma v2_candidates_step e l content cands :
  v2_candidates H256 B pl e ((l, content) :: cands) =
  if verifiedb e (l, content) then [(l, full_text e)] else v2_candidates H256 B pl e cands.
Proof. reflexivity. Qed.

(* the candidate loop: the FIRST verifying candidate is copied to the entry's path and the loop ends; without one
   nothing is copied *)
Lemma v2_candidates_first e cands :
  (Forall (fun c => ~ verified e c) cands /\ v2_candidates H256 B pl e cands = []) \/
  (exists pre l content post,
     cands = pre ++ (l, content) :: post /\ Forall (fun c => ~ verified e c) pre /\ verified e (l, content) /\
     v2_candidates H256 B pl e cands = [(l, full_text e)]).
Proof.
  induction cands as [|[l content] cands IH].
  - left. split; [constructor | reflexivity].
  - rewrite v2_candidates_step. destruct (verifiedb e (l, content)) eqn:V.
    + right. exists [], l, content, cands. apply verifiedb_spec in V.
      split; [reflexivity|]. split; [constructor|]. split; [exact V | reflexivity].
    + assert (NV : ~ verified e (l, content)) by (rewrite <- verifiedb_spec; congruence).
      destruct IH as [(F & E) | (pre & l' & c' & post & -> & F & V' & E)].
      * left. split; [now constructor | exact E].
      * right. exists ((l, content) :: pre), l', c', post.
        split; [reflexivity|]. split; [now constructor|]. split; [exact V' | exact E].
Qed.

Lemma match_v2_cons e rest :
  match_v2 H256 B pl fm (e :: rest) =
  (v2_entry H256 B pl fm e ++ fst (match_v2 H256 B pl fm rest),
   length (v2_entry H256 B pl fm e) + snd (match_v2 H256 B pl fm rest)).
Proof. cbn [match_v2]. destruct (match_v2 H256 B pl fm rest). reflexivity. Qed.

(* the copies are those of the entries one after the other; the count is their number *)
Theorem match_v2_is_concat entries :
  fst (match_v2 H256 B pl fm entries) = concat (map (v2_entry H256 B pl fm) entries) /\
  snd (match_v2 H256 B pl fm entries) = length (fst (match_v2 H256 B pl fm entries)).
Proof.
  induction entries as [|e rest [IH1 IH2]]; [split; reflexivity|]. rewrite match_v2_cons. cbn [fst snd map concat].
  rewrite app_length, IH2, IH1. split; reflexivity.
Qed.

(* entries do not influence each other: no state is carried from one entry to the next *)
Theorem match_v2_independent es1 es2 :
  match_v2 H256 B pl fm (es1 ++ es2) =
  (fst (match_v2 H256 B pl fm es1) ++ fst (match_v2 H256 B pl fm es2),
   snd (match_v2 H256 B pl fm es1) + snd (match_v2 H256 B pl fm es2)).
Proof.
  induction es1 as [|e es1 IH]; cbn [app].
  - cbn [match_v2 fst snd app]. now destruct (match_v2 H256 B pl fm es2).
  - rewrite !match_v2_cons, IH. cbn [fst snd]. rewrite app_assoc, Nat.add_assoc. reflexivity.
Qed.

Theorem v2_entry_at_most_one e : length (v2_entry H256 B pl fm e) <= 1.
Proof.
  unfold v2_entry. destruct (Rebuild.fm_lookup fm (text (e_filename e))) as [cands|]; [|cbn; lia].
  destruct (v2_candidates_first e cands) as [(_ & ->) | (? & ? & ? & ? & _ & _ & _ & ->)]; cbn; lia.
Qed.

(* C14 -- only verified copies: every copypath call of the v2 route copies a search-directory file that is listed
   under the entry's file name, has exactly the recorded length and whose BEP 52 root is the recorded one, to the
   path the metafile assigns to that entry *)
Theorem match_v2_sound : forall entries l full,
  In (l, full) (fst (match_v2 H256 B pl fm entries)) ->
  exists e cands content,
    In e entries /\ full = full_text e /\
    Rebuild.fm_lookup fm (text (e_filename e)) = Some cands /\ In (l, content) cands /\ verified e (l, content).
Proof.
  intros entries l full I. rewrite (proj1 (match_v2_is_concat entries)) in I.
  apply in_concat in I as (cs & Ics & I). apply in_map_iff in Ics as (e & <- & Ie).
  unfold v2_entry in I. destruct (Rebuild.fm_lookup fm (text (e_filename e))) as [cands|] eqn:L; [|destruct I].
  destruct (v2_candidates_first e cands) as [(_ & E) | (pre & l' & c' & post & -> & _ & V & E)]; rewrite E in I; [destruct I|].
  destruct I as [[= <- <-]|[]]. exists e, (pre ++ (l', c') :: post), c'.
  split; [exact Ie|]. split; [reflexivity|]. split; [exact L|]. split; [|exact V].
  apply in_or_app. right. now left.
Qed.

(* C13 -- completeness: if some candidate listed under the entry's file name verifies, the entry IS copied: the first
   verifying candidate in the enumeration order, to the entry's path -- wherever it stands among the candidates,
   whatever else is in the list (other sizes, same size with other content, longer files with the genuine bytes first)
   and whatever the other entries are *)
Theorem match_v2_complete : forall entries e cands c,
  In e entries -> Rebuild.fm_lookup fm (text (e_filename e)) = Some cands -> In c cands -> verified e c ->
  exists pre l content post,
    cands = pre ++ (l, content) :: post /\ Forall (fun c' => ~ verified e c') pre /\ verified e (l, content) /\
    v2_entry H256 B pl fm e = [(l, full_text e)] /\
    In (l, full_text e) (fst (match_v2 H256 B pl fm entries)).
Proof.
  intros entries e cands c Ie L Ic V.
  destruct (v2_candidates_first e cands) as [(F & _) | (pre & l & content & post & -> & F & V' & E)].
  - rewrite Forall_forall in F. now destruct (F c Ic).
  - exists pre, l, content, post. assert (VE : v2_entry H256 B pl fm e = [(l, full_text e)]) by (unfold v2_entry; now rewrite L).
    split; [reflexivity|]. split; [exact F|]. split; [exact V'|]. split; [exact VE|].
    rewrite (proj1 (match_v2_is_concat entries)). apply in_concat. exists [(l, full_text e)]. split; [|now left].
    apply in_map_iff. exists e. split; assumption.
Qed.

(* an intact copy verifies: same bytes as the file the metafile describes *)
Theorem intact_copy_verifies : forall e (data : bytes) l,
  data <> [] -> e_length e = Z.of_nat (length data) -> e_root e = Some (BStr (bep52_root H256 B data)) ->
  verified e (l, data).
Proof. intros e data l NE Len R. split; [now rewrite Len | left; now split]. Qed.

(* a candidate of another size never verifies, whatever its bytes *)
Theorem other_size_never_verifies : forall e c, Z.of_nat (length (snd c)) <> e_length e -> ~ verified e c.
Proof. intros e c N (L & _). contradiction. Qed.

(* empty files.  The root HasherV2 reports for an empty file is the empty Python LIST, which equals neither None
   (no "pieces root" key: what every creator writes for an empty file) nor any byte string: an entry of length 0
   is never copied by the v2 route, unless the metafile records the empty list as its root *)
Theorem match_v2_empty_file : forall e, e_length e = 0%Z -> e_root e <> Some (BList []) -> v2_entry H256 B pl fm e = [].
Proof.
  intros e Len R. unfold v2_entry. destruct (Rebuild.fm_lookup fm (text (e_filename e))) as [cands|]; [|reflexivity].
  destruct (v2_candidates_first e cands) as [(_ & E) | (pre & l & content & post & _ & _ & (L & V) & _)]; [exact E|].
  exfalso. cbn [snd] in *. destruct V as [(NE & _) | (_ & R')]; [|contradiction].
  rewrite Len in L. destruct content; [contradiction | discriminate].
Qed.

(* and a file name under which the search directories hold nothing is skipped *)
Theorem match_v2_not_indexed : forall e, Rebuild.fm_lookup fm (text (e_filename e)) = None -> v2_entry H256 B pl fm e = [].
Proof. intros e L. unfold v2_entry. now rewrite L. Qed.

End MatchV2.

(* C14 + C19 together: every copypath call a v2 rebuild of an accepted metafile makes copies a verified candidate
   to a text that resolves to destination/<validated components> *)
Theorem rebuild_v2_copies_verified_inside : forall (H256 : bytes -> bytes) B, 0 < B -> forall k pl, pl = B * 2 ^ k ->
  forall (fm : Rebuild.filemap) meta x copies count (dest : list String.string),
  extract meta = Some x -> rebuild_v2 H256 B pl fm x = Some (copies, count) ->
  count = length copies /\
  forall l full, In (l, full) copies ->
    exists e cands content,
      In e (x_files x) /\ full = full_text e /\
      Rebuild.fm_lookup fm (text (e_filename e)) = Some cands /\ In (l, content) cands /\
      verified H256 B e (l, content) /\
      PathSafe.resolve (dest ++ [full]) = PathSafe.resolve dest ++ map text (e_full e) /\
      PathSafe.prefix (PathSafe.resolve dest) (PathSafe.resolve (dest ++ [full])).
Proof.
  intros H256 B HB k pl Hpl fm meta x copies count dest E R. unfold rebuild_v2 in R.
  destruct (x_is_v2 x); [|discriminate].
  pose proof (match_v2_is_concat H256 B pl fm (x_files x)) as [_ C].
  destruct (match_v2 H256 B pl fm (x_files x)) as [cs n] eqn:M. injection R as <- <-. cbn [fst snd] in C.
  split; [exact C|]. intros l full I.
  assert (I' : In (l, full) (fst (match_v2 H256 B pl fm (x_files x)))) by (rewrite M; exact I).
  destruct (match_v2_sound H256 B HB k pl Hpl fm _ _ _ I') as (e & cands & content & Ie & -> & L & Ic & V).
  pose proof (copy_target_inside meta x dest E) as T. rewrite Forall_forall in T. destruct (T e Ie) as (T1 & T2).
  exists e, cands, content. split; [exact Ie|]. split; [reflexivity|]. split; [exact L|]. split; [exact Ic|].
  split; [exact V|]. split; assumption.
Qed.

(* ---------------------------------------------------------------------------------------------- *)
(* Examples                                                                                       *)
(* ---------------------------------------------------------------------------------------------- *)
Module RebuildMetaExamples.
  Import String.
  Local Open Scope string_scope.
  Definition s (x : string) : bytes := list_ascii_of_string x.
  Definition leaf (n : Z) (r : string) : value := BDict [([], BDict [(s "length", BInt n); (s "pieces root", BStr (s r))])].
  (* name n; tree  d1/{a, s/t/b, z}, d2/c, e : sibling sub-directories, three levels *)
  Definition ex_tree : dict :=
    [(s "d1", BDict [(s "a", leaf 3 "Ra"); (s "s", BDict [(s "t", BDict [(s "b", leaf 4 "Rb")])]); (s "z", leaf 1 "Rz")]);
     (s "d2", BDict [(s "c", leaf 5 "Rc")]); (s "e", leaf 2 "Re")].
  Definition ex_meta (tree : dict) : value :=
    BDict [(s "info", BDict [(s "file tree", BDict tree); (s "meta version", BInt 2); (s "name", BStr (s "n"));
                             (s "piece length", BInt 16384)])].

  Example ex_leaves : map fst (tree_leaves ex_tree) =
    [[s "d1"; s "a"]; [s "d1"; s "s"; s "t"; s "b"]; [s "d1"; s "z"]; [s "d2"; s "c"]; [s "e"]].
  Proof. vm_compute. reflexivity. Qed.

  Example ex_extract_v2 :
    option_map (fun x => (x_is_file x, map (fun e => (e_path e, e_full e, e_filename e, e_length e)) (x_files x))) (extract (ex_meta ex_tree)) =
    Some (false, [([s "n"; s "d1"], [s "n"; s "d1"; s "a"], s "a", 3%Z);
                  ([s "n"; s "d1"; s "s"; s "t"], [s "n"; s "d1"; s "s"; s "t"; s "b"], s "b", 4%Z);
                  ([s "n"; s "d1"], [s "n"; s "d1"; s "z"], s "z", 1%Z);
                  ([s "n"; s "d2"], [s "n"; s "d2"; s "c"], s "c", 5%Z);
                  ([s "n"], [s "n"; s "e"], s "e", 2%Z)]).
  Proof. vm_compute. reflexivity. Qed.

  (* an absolute DIRECTORY key at depth 2, a ".." file key, a key with a separator, a non-UTF-8 key: refused *)
  Example ex_hostile_keys_refused :
    extract (ex_meta [(s "d1", BDict [(s "/abs", BDict [(s "b", leaf 4 "R")])])]) = None /\
    extract (ex_meta [(s "ok", leaf 1 "R"); (s "d", BDict [(s "..", leaf 4 "R")])]) = None /\
    extract (ex_meta [(s "a/b", leaf 1 "R")]) = None /\
    extract (ex_meta [(s "d", BDict [(["255"%char], leaf 1 "R")])]) = None /\
    extract (ex_meta [(s "ok", leaf 1 "R"); (s "..", BDict [])]) = None.
  Proof. vm_compute. repeat split; reflexivity. Qed.

  (* the single-file form: the file is destination/name, not destination/name/name *)
  Example ex_single_file :
    option_map (fun x => (x_is_file x, map (fun e => (e_path e, e_full e)) (x_files x))) (extract (ex_meta [(s "n", leaf 7 "R")])) =
    Some (true, [([], [s "n"])]).
  Proof. vm_compute. reflexivity. Qed.

  Definition ex_v1 (files : list value) : value :=
    BDict [(s "info", BDict [(s "files", BList files); (s "name", BStr (s "n")); (s "piece length", BInt 16384); (s "pieces", BStr [])])].
  Definition item (extra : dict) (n : Z) (path : list string) : value :=
    BDict (extra ++ [(s "length", BInt n); (s "path", BList (map (fun c => BStr (s c)) path))]).

  Example ex_extract_v1 :
    option_map (fun x => map (fun e => (e_path e, e_full e, e_filename e, e_length e)) (x_files x))
               (extract (ex_v1 [item [] 3 ["d"; "a"]; item [(s "attr", BStr (s "p"))] 9 [".pad"; "9"]; item [] 0 ["b"]])) =
    Some [([s "n"; s "d"], [s "n"; s "d"; s "a"], s "a", 3%Z); ([s "n"; s ".pad"], [s "n"; s ".pad"; s "9"], s "9", 9%Z);
          ([s "n"], [s "n"; s "b"], s "b", 0%Z)].
  Proof. vm_compute. reflexivity. Qed.

  (* an entry flagged as padding (or carrying any other key) is validated like every other entry *)
  Example ex_flagged_entry_refused :
    extract (ex_v1 [item [] 3 ["a"]; item [(s "attr", BStr (s "p"))] 9 [".."; ".."; "x"]]) = None /\
    extract (ex_v1 [item [(s "attr", BStr (s "p")); (s "md5sum", BStr (s "0"))] 9 ["/etc"; "x"]]) = None /\
    extract (ex_v1 [item [] 1 []]) = None.
  Proof. vm_compute. repeat split; reflexivity. Qed.

  Example ex_utf8 :
    map utf8_valid [s "abc"; ["195"; "169"]%char; ["195"; "040"]%char; ["237"; "160"; "128"]%char; ["192"; "175"]%char;
                    ["244"; "144"; "128"; "128"]%char; ["240"; "159"; "152"; "128"]%char; ["226"; "130"]%char; ["255"]%char] =
    [true; true; false; false; false; false; true; false; false].
  Proof. vm_compute. reflexivity. Qed.

  (* match_v2 with a toy hash (H256 x = first byte of x, repeated), block size 2, piece length 4 *)
  Definition toyH (x : bytes) : bytes := match x with c :: _ => [c; c] | [] => ["0"%char] end.
  Definition ex_entry (root : bytes) (n : Z) : entry := mk_entry [s "n"] [s "n"; s "f"] (s "f") n (Some (BStr root)).
  Definition genuine : bytes := s "hello".
  Definition ex_fm : Rebuild.filemap :=
    [("f", [("S/1/f", s "hello!!"); ("S/2/f", s "jello"); ("S/3/f", genuine); ("S/4/f", genuine)]); ("g", [("S/g", s "x")])].
  Example ex_match_v2 :
    match_v2 toyH 2 4 ex_fm [ex_entry (bep52_root toyH 2 genuine) 5; mk_entry [s "n"] [s "n"; s "e"] (s "e") 0 None;
                             mk_entry [s "n"] [s "n"; s "g"] (s "g") 1 (Some (BStr (s "no")))] =
    ([("S/3/f", "n/f")], 1).
  Proof. vm_compute. reflexivity. Qed.
  Example ex_verified : verified toyH 2 (ex_entry (bep52_root toyH 2 genuine) 5) ("S/3/f", genuine) /\ 2 = 2 * 2 ^ 0 /\ 4 = 2 * 2 ^ 1.
  Proof. split; [|split; reflexivity]. split; [reflexivity|]. left. split; [discriminate | reflexivity]. Qed.

  Example ex_target :
    PathSafe.resolve (["/srv/x/../dest"] ++ [full_text (ex_entry [] 5)]) = ["srv"; "dest"; "n"; "f"].
  Proof. vm_compute. reflexivity. Qed.
End RebuildMetaExamples.

Print Assumptions safe_spec.
Print Assumptions parse_tree_entries_exact.
Print Assumptions parse_tree_paths_exact.
Print Assumptions parse_tree_keys_safe.
Print Assumptions parse_tree_refuses_unsafe.
Print Assumptions parse_tree_entries_ok.
Print Assumptions v1_files_paths_exact.
Print Assumptions v1_entry_ignores_other_keys.
Print Assumptions v1_entry_refuses_unsafe.
Print Assumptions v1_entries_accepts.
Print Assumptions extract_validates_everything.
Print Assumptions metadata_init_validates_everything.
Print Assumptions extract_refuses_unsafe_name.
Print Assumptions extract_refuses_unsafe_v1_path.
Print Assumptions extract_refuses_unsafe_tree_key.
Print Assumptions extract_v2_paths_exact.
Print Assumptions extract_v1_paths_exact.
Print Assumptions target_inside.
Print Assumptions joined_text_inside.
Print Assumptions copy_target_inside.
Print Assumptions match_v2_is_concat.
Print Assumptions match_v2_independent.
Print Assumptions match_v2_sound.
Print Assumptions match_v2_complete.
Print Assumptions match_v2_empty_file.
Print Assumptions rebuild_v2_copies_verified_inside.
