(* C08 (C09, C20): the static reading of the package REGENERATED on this run (Gen/GenDeterminism.v) found no use through which the
   iteration order of a set -- i.e. the string hash seed -- and no directory listing on the creation path through which the
   enumeration order of the operating system could reach an output.  The translator refuses (and this file stops compiling) as
   soon as there is one; what is proved here is only that the generated lists are empty and that something was read. *)
From Coq Require Import String List Arith.
From TF Require Import Gen.GenDeterminism.
Import ListNotations.

Lemma gen_no_order_leak :
  gen_set_order_leaks = [] /\ gen_unsorted_listings = [] /\ (1 <= gen_listings_checked)%nat.
Proof. split; [reflexivity|]. split; [reflexivity|]. vm_compute. repeat constructor. Qed.
