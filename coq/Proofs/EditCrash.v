(* C17: the generated operation list of edit_torrent (Gen/GenEditOps.v, rewritten from
   /repo/torrentfile/edit.py on every run) is accepted by the certified checker, hence
   enjoys the general crash/error theorems of Proofs/CrashSafe.v. *)
From TF Require Import Lib.Base Spec.FsOps Proofs.CrashSafe Gen.GenEditOps.

Lemma gen_edit_ops_safe : safe_ops edit_fs_ops = true.
Proof. vm_compute. reflexivity. Qed.

Lemma gen_edit_crash : forall (old new : bytes) fs0, fs0 PM = Some old ->
  forall fs', crash_reachable new edit_fs_ops fs0 fs' -> fs' PM = Some old \/ fs' PM = Some new.
Proof. intros old new. exact (safe_ops_crash edit_fs_ops old new gen_edit_ops_safe). Qed.

Lemma gen_edit_error : forall (old new : bytes) fs0, fs0 PM = Some old ->
  forall f fs', error_outcome new edit_fs_ops fs0 f fs' ->
  fs' PM = Some old \/ (fs' PM = Some new /\ after_replace edit_fs_ops f = true).
Proof. intros old new. exact (safe_ops_error edit_fs_ops old new gen_edit_ops_safe). Qed.

Lemma gen_edit_unencodable : forall (old new : bytes) fs0, fs0 PM = Some old ->
  forall i, encode_index (main_ops edit_fs_ops) = Some i ->
  forall fs', error_outcome new edit_fs_ops fs0 (InMain i) fs' ->
  fs' PM = Some old /\ (fs' PT = fs0 PT \/ fs' PT = None).
Proof. intros old new. exact (safe_ops_encode_raises edit_fs_ops old new gen_edit_ops_safe). Qed.

Lemma gen_edit_takes_effect : forall (old new : bytes) fs0, fs0 PM = Some old ->
  forall fs', completes new edit_fs_ops fs0 fs' -> fs' PM = Some new /\ fs' PT = None.
Proof.
  intros old new fs0 Hold fs' C.
  destruct (safe_ops_complete edit_fs_ops old new gen_edit_ops_safe fs0 Hold fs' C) as [A [_ B]].
  split.
  - apply A. vm_compute. reflexivity.
  - apply B. vm_compute. intuition.
Qed.

Lemma gen_edit_has_encode : exists i, encode_index (main_ops edit_fs_ops) = Some i.
Proof. vm_compute. eexists. reflexivity. Qed.
