(* Composition of the v2 recheck theorems (Proofs/RecheckV2.v) with the correctness of
   FileHasher (Proofs/HasherV2Correct.v): the `v2_file` a BEP 52 metafile and a disk state give
   rise to, its well-formedness, and C05 for v2 stated against BEP 52 itself. *)
From TF Require Import Lib.Base Lib.Chunks Spec.Bep52 Spec.RecheckSpec Model.HasherV2 Model.Recheck
  Proofs.HasherV2Correct Proofs.RecheckResult Proofs.RecheckV2.

Section Compose.
Variable H256 : bytes -> bytes.
Variable B : nat.
Hypothesis HB : 0 < B.
Variable k pl : nat.
Hypothesis Hpl : pl = B * 2 ^ k.

(* what a BEP 52 metafile records for a file with content d, as HashChecker.next_file reads it:
   the file's piece layer if it is longer than a piece, else its pieces root; nothing for an
   empty file *)
Definition bep52_recorded (d : bytes) : list bytes :=
  match d with
  | [] => []
  | _ :: _ => if pl <? length d then bep52_piece_layer H256 B k d else [bep52_root H256 B d]
  end.

(* what HashChecker gets from FileHasher(path, pl) (hybrid=False) for on-disk content d *)
Definition fh_layers (d : bytes) : list bytes :=
  fhr_yielded_layers (file_hasher_run H256 B false true pl d).

Definition v2_listed (orig : bytes) (od : option bytes) : v2_file :=
  {| v2_len := length orig; v2_pieces := bep52_recorded orig; v2_disk := option_map fh_layers od |}.

Lemma fh_layers_eq d : fh_layers d = snd (hasher_v2 H256 B pl d).
Proof.
  unfold fh_layers.
  destruct (file_hasher_run_spec H256 B HB k pl Hpl false true d) as [_ [_ [_ [_ [Y _]]]]].
  exact Y.
Qed.

Lemma fh_layers_length d : length (fh_layers d) = ceil_div (length d) pl.
Proof. rewrite fh_layers_eq. apply (hasher_v2_layer_length H256 B HB k pl Hpl). Qed.

(* the file hasher reproduces exactly what the metafile records *)
Lemma fh_layers_recorded d : fh_layers d = bep52_recorded d.
Proof.
  destruct d as [|a d'].
  - pose proof (fh_layers_length []) as L. cbn [length] in L.
    rewrite ceil_div_0 in L by apply (pl_pos B HB k pl Hpl).
    destruct (fh_layers []); [reflexivity|discriminate].
  - rewrite fh_layers_eq. unfold bep52_recorded.
    destruct (pl <? length (a :: d')) eqn:E.
    + apply Nat.ltb_lt in E. apply (hasher_v2_layer H256 B HB k pl Hpl). exact E.
    + apply Nat.ltb_ge in E. apply (hasher_v2_layer_one_piece H256 B HB k pl Hpl).
      * discriminate.
      * exact E.
Qed.

Lemma bep52_recorded_length d : length (bep52_recorded d) = ceil_div (length d) pl.
Proof. rewrite <- fh_layers_recorded. apply fh_layers_length. Qed.

Theorem v2_listed_wf orig od : file_within (length orig) od -> v2_wf pl (v2_listed orig od).
Proof.
  intros Hw. unfold v2_wf, v2_listed. cbn [v2_len v2_pieces v2_disk].
  rewrite bep52_recorded_length. split; [|apply le_n].
  destruct od as [d|]; cbn [option_map v2_disk_hashes].
  - rewrite fh_layers_length. apply ceil_div_mono; [apply (pl_pos B HB k pl Hpl)|exact Hw].
  - cbn [length]. lia.
Qed.

Theorem v2_listed_intact d : v2_intact pl (v2_listed d (Some d)).
Proof.
  unfold v2_intact, v2_listed. cbn [v2_len v2_pieces v2_disk option_map].
  rewrite fh_layers_recorded. split; [reflexivity|apply bep52_recorded_length].
Qed.

(* C05 for v2 against BEP 52: every listed file is on disk with the content the metafile was
   made from -> everything matches and everything was looked at *)
Theorem C05_v2_bep52 (files : list bytes) :
  let fs := map (fun d => v2_listed d (Some d)) files in
  matched (hash_trace H256 pl fs) = consumed (hash_trace H256 pl fs) /\
  consumed (hash_trace H256 pl fs) = sum_nat (map (@length _) files).
Proof.
  intros fs.
  assert (Hi : Forall (v2_intact pl) fs).
  { unfold fs. apply Forall_forall. intros f Hin. apply in_map_iff in Hin.
    destruct Hin as [d [<- _]]. apply v2_listed_intact. }
  destruct (C05_v2 H256 pl fs (pl_pos B HB k pl Hpl) Hi) as [Hm Hc].
  split; [exact Hm|]. rewrite Hc. unfold fs. rewrite map_map. reflexivity.
Qed.

(* damaged / incomplete disk states are covered by the general theorems: the listed files are
   well formed, so hash_trace_exact, hash_trace_consumed and C04_v2 apply *)
Theorem v2_listed_all_wf (files : list bytes) (disk : list (option bytes)) :
  disk_within (map (@length _) files) disk -> length files = length disk ->
  Forall (v2_wf pl) (map2 v2_listed files disk).
Proof.
  revert disk. induction files as [|d files IH]; intros [|od disk] Hw Hlen; try discriminate;
    [constructor|].
  cbn [map disk_within] in Hw. destruct Hw as [Hf Hw]. cbn [map2]. constructor.
  - apply v2_listed_wf, Hf.
  - apply IH; [exact Hw|cbn [length] in Hlen; lia].
Qed.

End Compose.

(* ---------- example: toy hash, B = 2, k = 1, pl = 4 ---------- *)
Section Example.
Local Open Scope char_scope.
Let H (x : bytes) : bytes := "<" :: x ++ [">"].

(* an empty file, a file of more than one piece (5 bytes), a file of less than one piece *)
Example C05_v2_bep52_example :
  let files := [[]; ["a"; "b"; "c"; "d"; "e"]; ["x"; "y"; "z"]] in
  let fs := map (fun d => v2_listed H 2 1 4 d (Some d)) files in
  length (hash_trace H 4 fs) = 3 /\
  matched (hash_trace H 4 fs) = 8 /\ consumed (hash_trace H 4 fs) = 8.
Proof. vm_compute. repeat split. Qed.

(* the middle file truncated to 1 byte, the last one absent *)
Example v2_listed_damaged_example :
  let files := [[]; ["a"; "b"; "c"; "d"; "e"]; ["x"; "y"; "z"]] in
  let disk := [Some []; Some ["a"]; None] in
  let fs := map2 (v2_listed H 2 1 4) files disk in
  map snd (verdicts (hash_trace H 4 fs)) = [4; 1; 3] /\
  matched (hash_trace H 4 fs) = 0 /\ consumed (hash_trace H 4 fs) = 8.
Proof. vm_compute. repeat split. Qed.

End Example.

Print Assumptions v2_listed_wf.
Print Assumptions v2_listed_intact.
Print Assumptions C05_v2_bep52.
Print Assumptions v2_listed_all_wf.
