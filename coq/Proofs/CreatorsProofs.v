(* Proofs about Model/Creators.v, part 1: foundations (sorting of names, content trees, the
   generic traversal), T5 (C10: TorrentAssembler = TorrentFileV2 / TorrentFileHybrid),
   T1 (C08: enumeration order is irrelevant), T2 (C01: v1 file list and pieces).
   Part 2 (CreatorsProofs2.v): T6 (C06), T3 (C02), T4 (C03). *)
From TF Require Import Lib.Base Lib.Lex Lib.Decimal Lib.Chunks Spec.Bep52
                       Model.Bencode Model.Hasher Model.HasherV2 Model.Creators
                       Proofs.BencodeProofs Proofs.HasherCorrect Proofs.HasherV2Correct.
From Coq Require Import Permutation Sorted.

(* ========================================================================================== *)
(* 0. small list facts                                                                         *)
(* ========================================================================================== *)

Lemma Forall2_map_same {A B C} (R : B -> C -> Prop) (f : A -> B) (g : A -> C) l :
  Forall (fun x => R (f x) (g x)) l -> Forall2 R (map f l) (map g l).
Proof. induction 1; cbn [map]; constructor; assumption. Qed.

Lemma Forall_perm {A} (P : A -> Prop) l l' : Permutation l l' -> Forall P l -> Forall P l'.
Proof.
  intros Hp H. rewrite Forall_forall in *. intros x Hx. apply H.
  eapply Permutation_in; [apply Permutation_sym; exact Hp|exact Hx].
Qed.

Lemma flat_map_perm {A B} (f : A -> list B) l l' :
  Permutation l l' -> Permutation (flat_map f l) (flat_map f l').
Proof.
  induction 1 as [|x l l' Hp IH|x y l|l l' l'' H1 IH1 H2 IH2]; cbn [flat_map].
  - constructor.
  - apply Permutation_app_head. exact IH.
  - rewrite !app_assoc. apply Permutation_app_tail. apply Permutation_app_comm.
  - eapply perm_trans; eassumption.
Qed.

Lemma flat_map_perm_pointwise {A B} (f g : A -> list B) l :
  Forall (fun x => Permutation (f x) (g x)) l -> Permutation (flat_map f l) (flat_map g l).
Proof.
  induction 1 as [|x l Hx _ IH]; cbn [flat_map]; [constructor|].
  apply Permutation_app; assumption.
Qed.

Lemma concat_map_flat_map {A B} (f : A -> list B) l : concat (map f l) = flat_map f l.
Proof. symmetry. apply flat_map_concat_map. Qed.

(* ========================================================================================== *)
(* 1. sort_names                                                                               *)
(* ========================================================================================== *)

Section SortNamesFacts.
Context {A : Type}.
Implicit Types (e : bytes * A) (l : list (bytes * A)).

Definition name_lt (a b : bytes * A) : Prop := bytes_ltb (fst a) (fst b) = true.

Lemma name_lt_irrefl a : ~ name_lt a a.
Proof. unfold name_lt. rewrite bytes_ltb_irrefl. discriminate. Qed.

Lemma name_lt_trans a b c : name_lt a b -> name_lt b c -> name_lt a c.
Proof. unfold name_lt. apply bytes_ltb_trans. Qed.

Lemma insert_name_perm e l : Permutation (insert_name e l) (e :: l).
Proof.
  induction l as [|e' l IH]; cbn [insert_name]; [apply Permutation_refl|].
  destruct (bytes_ltb (fst e') (fst e)); [|apply Permutation_refl].
  eapply perm_trans; [apply perm_skip; exact IH|apply perm_swap].
Qed.

Lemma sort_names_perm l : Permutation (sort_names l) l.
Proof.
  induction l as [|e l IH]; cbn [sort_names]; [constructor|].
  eapply perm_trans; [apply insert_name_perm|apply perm_skip; exact IH].
Qed.

Lemma insert_name_sorted e l :
  StronglySorted name_lt l -> (forall x, In x l -> fst x <> fst e) ->
  StronglySorted name_lt (insert_name e l).
Proof.
  induction 1 as [|a l Hs IH Ha]; intros Hne; cbn [insert_name].
  - constructor; constructor.
  - destruct (bytes_ltb (fst a) (fst e)) eqn:E.
    + constructor.
      * apply IH. intros x Hx. apply Hne. right; exact Hx.
      * apply Forall_forall. intros x Hx.
        apply (Permutation_in _ (insert_name_perm e l)) in Hx. destruct Hx as [<-|Hx].
        -- exact E.
        -- rewrite Forall_forall in Ha. apply Ha; exact Hx.
    + apply bytes_ltb_false_iff in E. destruct E as [E|E].
      * exfalso. apply (Hne a); [left; reflexivity|exact E].
      * constructor; [constructor; assumption|].
        constructor; [exact E|].
        eapply Forall_impl; [|exact Ha]. intros x Hx. eapply name_lt_trans; eassumption.
Qed.

Lemma sort_names_sorted l : NoDup (map fst l) -> StronglySorted name_lt (sort_names l).
Proof.
  induction l as [|e l IH]; cbn [sort_names map]; intros H; [constructor|].
  inversion H as [|x l0 Hn Hd]; subst.
  apply insert_name_sorted; [apply IH; exact Hd|].
  intros x Hx E. apply Hn. rewrite <- E. apply in_map.
  eapply Permutation_in; [apply sort_names_perm|exact Hx].
Qed.

Lemma insert_name_below e l : Forall (name_lt e) l -> insert_name e l = e :: l.
Proof.
  intros H. destruct l as [|a l]; [reflexivity|]. cbn [insert_name].
  inversion H as [|x l0 Hx Hl]; subst.
  unfold name_lt in Hx. apply bytes_ltb_asym in Hx. rewrite Hx. reflexivity.
Qed.

Lemma sort_names_sorted_id l : StronglySorted name_lt l -> sort_names l = l.
Proof.
  induction 1 as [|a l Hs IH Ha]; cbn [sort_names]; [reflexivity|].
  rewrite IH. apply insert_name_below. exact Ha.
Qed.

(* the sorted list does not depend on the order of the input (distinct names) *)
Lemma sort_names_perm_eq l l' :
  Permutation l l' -> NoDup (map fst l) -> sort_names l = sort_names l'.
Proof.
  intros Hp Hn.
  apply (StronglySorted_perm_eq name_lt name_lt_irrefl name_lt_trans).
  - apply sort_names_sorted; exact Hn.
  - apply sort_names_sorted. eapply Permutation_NoDup; [|exact Hn].
    apply Permutation_map. exact Hp.
  - eapply perm_trans; [apply sort_names_perm|].
    eapply perm_trans; [exact Hp|]. apply Permutation_sym, sort_names_perm.
Qed.

Lemma sort_names_idem l : NoDup (map fst l) -> sort_names (sort_names l) = sort_names l.
Proof. intros H. apply sort_names_sorted_id, sort_names_sorted, H. Qed.

Lemma sorted_names_NoDup l : StronglySorted name_lt l -> NoDup (map fst l).
Proof.
  induction 1 as [|a l Hs IH Ha]; cbn [map]; constructor; [|exact IH].
  intros C. apply in_map_iff in C. destruct C as (x & Ex & Hx).
  rewrite Forall_forall in Ha. apply Ha in Hx. unfold name_lt in Hx.
  apply bytes_ltb_neq in Hx. congruence.
Qed.
End SortNamesFacts.

(* the sort only looks at the names *)
Definition on_snd {A C} (f : A -> C) (e : bytes * A) : bytes * C := (fst e, f (snd e)).

Lemma fst_on_snd {A C} (f : A -> C) e : fst (on_snd f e) = fst e.
Proof. reflexivity. Qed.
Lemma snd_on_snd {A C} (f : A -> C) e : snd (on_snd f e) = f (snd e).
Proof. reflexivity. Qed.

Lemma map_fst_on_snd {A C} (f : A -> C) l : map fst (map (on_snd f) l) = map fst l.
Proof. rewrite map_map. apply map_ext. reflexivity. Qed.

Lemma insert_name_map {A C} (f : A -> C) e l :
  insert_name (on_snd f e) (map (on_snd f) l) = map (on_snd f) (insert_name e l).
Proof.
  induction l as [|e' l IH]; [reflexivity|]. cbn [map insert_name]. rewrite !fst_on_snd.
  destruct (bytes_ltb (fst e') (fst e)); cbn [map]; [rewrite IH|]; reflexivity.
Qed.

Lemma sort_names_map {A C} (f : A -> C) l :
  sort_names (map (on_snd f) l) = map (on_snd f) (sort_names l).
Proof.
  induction l as [|e l IH]; [reflexivity|]. cbn [map sort_names].
  rewrite IH. apply insert_name_map.
Qed.

Definition rel_snd {A C} (R : A -> C -> Prop) (a : bytes * A) (b : bytes * C) : Prop :=
  fst a = fst b /\ R (snd a) (snd b).

Lemma insert_name_Forall2 {A C} (R : A -> C -> Prop) a b l l' :
  rel_snd R a b -> Forall2 (rel_snd R) l l' ->
  Forall2 (rel_snd R) (insert_name a l) (insert_name b l').
Proof.
  intros Hab H. induction H as [|x y l l' Hxy H IH]; cbn [insert_name].
  - constructor; [exact Hab|constructor].
  - destruct Hab as [E1 R1]. destruct Hxy as [E2 R2]. rewrite <- E1, <- E2.
    destruct (bytes_ltb (fst x) (fst a)).
    + constructor; [split; assumption|exact IH].
    + constructor; [split; assumption|]. constructor; [split; assumption|exact H].
Qed.

Lemma sort_names_Forall2 {A C} (R : A -> C -> Prop) l l' :
  Forall2 (rel_snd R) l l' -> Forall2 (rel_snd R) (sort_names l) (sort_names l').
Proof.
  induction 1 as [|x y l l' Hxy H IH]; cbn [sort_names]; [constructor|].
  apply insert_name_Forall2; assumption.
Qed.

(* sort_keys of Model/Bencode.v is the same sort *)
Lemma sort_keys_sort_names (d : dict) : sort_keys d = sort_names d.
Proof.
  induction d as [|kv d IH]; [reflexivity|]. cbn [sort_keys sort_names]. rewrite IH.
  generalize (sort_names d). intros l. induction l as [|a l IHl]; [reflexivity|].
  cbn [insert_key insert_name]. unfold key_ltb. rewrite IHl. reflexivity.
Qed.

(* ========================================================================================== *)
(* 2. content trees                                                                            *)
(* ========================================================================================== *)

Section NodeInd.
  Variable P : node -> Prop.
  Hypothesis HF : forall d, P (File d).
  Hypothesis HD : forall es, Forall (fun e => P (snd e)) es -> P (Dir es).

  Fixpoint node_ind' (t : node) : P t :=
    match t with
    | File d => HF d
    | Dir es =>
        HD es ((fix go (l : list (bytes * node)) : Forall (fun e => P (snd e)) l :=
                  match l with
                  | [] => Forall_nil _
                  | e :: l' =>
                      @Forall_cons (bytes * node) (fun e => P (snd e)) e l'
                                   (node_ind' (snd e)) (go l')
                  end) es)
    end.
End NodeInd.

Lemma node_all_Dir P es :
  node_all P (Dir es) <-> P (map fst es) /\ Forall (fun e => node_all P (snd e)) es.
Proof.
  cbn [node_all]. apply and_iff_compat_l.
  induction es as [|e es IH]; [split; constructor|].
  rewrite IH. split.
  - intros [H1 H2]. constructor; assumption.
  - intros H. inversion H; subst. split; assumption.
Qed.

Lemma wf_Dir es :
  wf_node (Dir es) <->
  (NoDup (map fst es) /\ Forall name_ok (map fst es)) /\ Forall (fun e => wf_node (snd e)) es.
Proof. apply node_all_Dir. Qed.

(* the tree with every directory listed in sorted name order *)
Fixpoint sort_tree (t : node) : node :=
  match t with
  | File d => File d
  | Dir es => Dir (sort_names (map (on_snd sort_tree) es))
  end.

Definition sorted_names (ns : list bytes) : Prop := StronglySorted bytes_lt ns.
Definition sorted_tree : node -> Prop := node_all sorted_names.

Lemma map_fst_sort_tree_entries es :
  map fst (sort_names (map (on_snd sort_tree) es)) = map fst (sort_names es).
Proof. rewrite sort_names_map, map_fst_on_snd. reflexivity. Qed.

Lemma node_all_sort_tree (P Q : list bytes -> Prop) :
  (forall es : list (bytes * node), P (map fst es) -> Q (map fst (sort_names es))) ->
  forall t, node_all P t -> node_all Q (sort_tree t).
Proof.
  intros HPQ. induction t as [d|es IH] using node_ind'; intros H; [exact I|].
  apply node_all_Dir in H. destruct H as [Hn Hc].
  cbn [sort_tree]. apply node_all_Dir. split.
  - rewrite map_fst_sort_tree_entries. apply HPQ. exact Hn.
  - eapply Forall_perm; [apply Permutation_sym, sort_names_perm|].
    apply Forall_map. cbn [on_snd snd].
    rewrite Forall_forall in *. intros e He. apply IH; [exact He|]. apply Hc; exact He.
Qed.

Lemma wf_sort_tree t : wf_node t -> wf_node (sort_tree t).
Proof.
  apply node_all_sort_tree. intros es [Hn Hok].
  assert (Hp : Permutation (map fst (sort_names es)) (map fst es))
    by (apply Permutation_map, sort_names_perm).
  split.
  - eapply Permutation_NoDup; [apply Permutation_sym; exact Hp|exact Hn].
  - eapply Forall_perm; [apply Permutation_sym; exact Hp|exact Hok].
Qed.

Lemma StronglySorted_map_fst {A} (l : list (bytes * A)) :
  StronglySorted name_lt l -> StronglySorted bytes_lt (map fst l).
Proof.
  induction 1 as [|a l Hs IH Ha]; cbn [map]; constructor; [exact IH|].
  apply Forall_map. exact Ha.
Qed.

Lemma StronglySorted_of_map_fst {A} (l : list (bytes * A)) :
  StronglySorted bytes_lt (map fst l) -> StronglySorted name_lt l.
Proof.
  induction l as [|a l IH]; cbn [map]; intros H; [constructor|].
  inversion H as [|x l0 Hs Ha]; subst. constructor; [apply IH; exact Hs|].
  rewrite Forall_map in Ha. exact Ha.
Qed.

Lemma sorted_sort_tree t : wf_node t -> sorted_tree (sort_tree t).
Proof.
  apply node_all_sort_tree. intros es [Hn _].
  apply StronglySorted_map_fst, sort_names_sorted. exact Hn.
Qed.

(* a sorted tree is its own sorted form *)
Lemma sort_tree_sorted_id t : sorted_tree t -> sort_tree t = t.
Proof.
  induction t as [d|es IH] using node_ind'; intros H; [reflexivity|].
  apply node_all_Dir in H. destruct H as [Hs Hc]. cbn [sort_tree]. f_equal.
  assert (E : map (on_snd sort_tree) es = es).
  { clear Hs. induction es as [|e es IHes]; [reflexivity|].
    inversion IH as [|x l He Hes]; subst. inversion Hc as [|x l Hce Hces]; subst.
    cbn [map]. rewrite IHes by assumption. unfold on_snd. rewrite He by assumption.
    destruct e; reflexivity. }
  rewrite E. apply sort_names_sorted_id, StronglySorted_of_map_fst. exact Hs.
Qed.

(* the same files, whatever the order *)
Lemma files_of_sort_tree t : forall rel,
  Permutation (files_of rel (sort_tree t)) (files_of rel t).
Proof.
  induction t as [d|es IH] using node_ind'; intros rel; [apply Permutation_refl|].
  cbn [sort_tree files_of].
  eapply perm_trans; [apply flat_map_perm, sort_names_perm|].
  rewrite flat_map_concat_map, map_map, <- flat_map_concat_map.
  apply flat_map_perm_pointwise. cbn [on_snd fst snd].
  eapply Forall_impl; [|exact IH]. intros e He. apply He.
Qed.

(* ---------- enumeration order: node_perm ---------- *)

Scheme node_perm_mind := Minimality for node_perm Sort Prop
  with entries_perm_mind := Minimality for entries_perm Sort Prop.
Combined Scheme node_entries_perm_ind from node_perm_mind, entries_perm_mind.

Lemma node_perm_refl t : node_perm t t.
Proof.
  induction t as [d|es IH] using node_ind'; [constructor|].
  apply (np_dir es es es); [|apply Permutation_refl].
  induction IH as [|[n c] es Hc _ IHes]; constructor; assumption.
Qed.

(* the sorted form does not depend on the enumeration order *)
Lemma sort_tree_perm_mut :
  (forall t t', node_perm t t' -> wf_node t -> sort_tree t = sort_tree t') /\
  (forall es es', entries_perm es es' ->
     Forall (fun e => wf_node (snd e)) es ->
     map (on_snd sort_tree) es = map (on_snd sort_tree) es' /\ map fst es = map fst es').
Proof.
  apply node_entries_perm_ind.
  - reflexivity.
  - intros es es' es'' _ IH Hp Hwf. apply wf_Dir in Hwf. destruct Hwf as [[Hn _] Hc].
    destruct (IH Hc) as [E1 E2]. cbn [sort_tree]. f_equal. rewrite E1.
    apply sort_names_perm_eq; [apply Permutation_map; exact Hp|].
    rewrite map_fst_on_snd, <- E2. exact Hn.
  - intros _. split; reflexivity.
  - intros n c c' es es' _ IHc _ IHes Hwf. inversion Hwf as [|x l Hc Hes]; subst.
    cbn [snd] in Hc. destruct (IHes Hes) as [E1 E2]. cbn [map]. unfold on_snd at 1 3.
    cbn [fst snd]. rewrite (IHc Hc), E1, E2. split; reflexivity.
Qed.

Theorem sort_tree_perm t t' : node_perm t t' -> wf_node t -> sort_tree t = sort_tree t'.
Proof. apply sort_tree_perm_mut. Qed.

Lemma node_perm_sort_tree t : wf_node t -> node_perm t (sort_tree t).
Proof.
  induction t as [d|es IH] using node_ind'; intros Hwf; [constructor|].
  apply wf_Dir in Hwf. destruct Hwf as [_ Hc]. cbn [sort_tree].
  apply (np_dir es (map (on_snd sort_tree) es)); [|apply Permutation_sym, sort_names_perm].
  clear - IH Hc. induction es as [|[n c] es IHes]; [constructor|].
  inversion IH; subst. inversion Hc; subst. cbn [map]. unfold on_snd at 1. cbn [fst snd].
  constructor; [auto|apply IHes; assumption].
Qed.

(* ========================================================================================== *)
(* 3. the generic traversal                                                                    *)
(* ========================================================================================== *)

Section Sim.
Variables (S1 S2 : Type) (R : S1 -> S2 -> Prop).

Definition trav_sim (f : trav S1) (g : trav S2) : Prop :=
  forall rel s1 s2, R s1 s2 ->
    fst (f rel s1) = fst (g rel s2) /\ R (snd (f rel s1)) (snd (g rel s2)).

Lemma run_entries_sim es1 es2 : Forall2 (rel_snd trav_sim) es1 es2 ->
  forall rel tree s1 s2, R s1 s2 ->
    fst (run_entries S1 rel es1 tree s1) = fst (run_entries S2 rel es2 tree s2) /\
    R (snd (run_entries S1 rel es1 tree s1)) (snd (run_entries S2 rel es2 tree s2)).
Proof.
  induction 1 as [|a b es1 es2 [En Hab] _ IH]; intros rel tree s1 s2 HR; cbn [run_entries].
  - split; [reflexivity|exact HR].
  - rewrite <- En. destruct (Hab (rel ++ [fst a]) s1 s2 HR) as [E1 R1].
    rewrite E1. apply IH. exact R1.
Qed.

Variables (leaf1 : bytes -> trav S1) (leaf2 : bytes -> trav S2).
Hypothesis leaf_sim : forall d, trav_sim (leaf1 d) (leaf2 d).

Lemma traverse_sim t : trav_sim (traverse S1 leaf1 t) (traverse S2 leaf2 t).
Proof.
  induction t as [d|es IH] using node_ind'; [apply leaf_sim|].
  intros rel s1 s2 HR. cbn [traverse]. apply run_entries_sim; [|exact HR].
  apply sort_names_Forall2. apply Forall2_map_same.
  eapply Forall_impl; [|exact IH]. intros e He. split; [reflexivity|exact He].
Qed.
End Sim.

Definition trav_eq {St} (f g : trav St) : Prop := forall rel st, f rel st = g rel st.

Lemma trav_sim_eq {St} (f g : trav St) : trav_sim St St eq f g <-> trav_eq f g.
Proof.
  split.
  - intros H rel st. destruct (H rel st st eq_refl) as [E1 E2].
    apply injective_projections; assumption.
  - intros H rel s1 s2 <-. rewrite H. split; reflexivity.
Qed.

Lemma run_entries_ext {St} es1 es2 : Forall2 (rel_snd (@trav_eq St)) es1 es2 ->
  forall rel tree st, run_entries St rel es1 tree st = run_entries St rel es2 tree st.
Proof.
  intros H rel tree st.
  assert (H' : Forall2 (rel_snd (trav_sim St St eq)) es1 es2).
  { eapply Forall2_impl; [|exact H]. intros a b [E T]. split; [exact E|].
    apply trav_sim_eq; exact T. }
  destruct (run_entries_sim St St eq es1 es2 H' rel tree st st eq_refl) as [E1 E2].
  apply injective_projections; assumption.
Qed.

(* the traversal without the sort: entries in list order *)
Fixpoint traverse_ord (St : Type) (leaf : bytes -> trav St) (t : node) : trav St :=
  match t with
  | File d => leaf d
  | Dir es =>
      fun rel st => run_entries St rel (map (on_snd (traverse_ord St leaf)) es) [] st
  end.

(* _traverse visits the tree in per-directory sorted order *)
Lemma traverse_sort_tree {St} (leaf : bytes -> trav St) t :
  trav_eq (traverse St leaf t) (traverse_ord St leaf (sort_tree t)).
Proof.
  induction t as [d|es IH] using node_ind'; intros rel st; [reflexivity|].
  cbn [traverse sort_tree traverse_ord].
  rewrite <- sort_names_map, map_map.
  apply run_entries_ext. apply sort_names_Forall2. apply Forall2_map_same.
  eapply Forall_impl; [|exact IH]. intros e He. split; [reflexivity|exact He].
Qed.

(* C08 for every _traverse: the enumeration order does not matter *)
Theorem traverse_enum_irrelevant {St} (leaf : bytes -> trav St) t t' :
  node_perm t t' -> wf_node t -> trav_eq (traverse St leaf t) (traverse St leaf t').
Proof.
  intros Hp Hwf rel st. rewrite !traverse_sort_tree, (sort_tree_perm t t' Hp Hwf). reflexivity.
Qed.

(* the ordered traversal = fold of the file branch over the file list; the returned dictionary
   is a function of the tree alone as soon as the file branch's dictionary does not depend on
   the state *)
Section TraverseSpec.
Variable St : Type.
Variable leaf : bytes -> trav St.
Variable ld : bytes -> dict.
Hypothesis leaf_dict_indep : forall d rel st, fst (leaf d rel st) = ld d.

Fixpoint tree_ord (u : node) : dict :=
  match u with
  | File d => ld d
  | Dir es => map (on_snd (fun c => BDict (tree_ord c))) es
  end.

Definition leaf_step (st : St) (f : list bytes * bytes) : St := snd (leaf (snd f) (fst f) st).

Lemma run_entries_spec es :
  Forall (fun e => forall rel st,
            traverse_ord St leaf (snd e) rel st =
            (tree_ord (snd e), fold_left leaf_step (files_of rel (snd e)) st)) es ->
  forall rel tree st, NoDup (map fst tree ++ map fst es) ->
    run_entries St rel (map (on_snd (traverse_ord St leaf)) es) tree st =
    (tree ++ map (on_snd (fun c => BDict (tree_ord c))) es,
     fold_left leaf_step (flat_map (fun e => files_of (rel ++ [fst e]) (snd e)) es) st).
Proof.
  induction 1 as [|e es He _ IH]; intros rel tree st Hn; cbn [map run_entries flat_map].
  - rewrite app_nil_r. reflexivity.
  - cbn [on_snd fst snd] at 1 2 3. rewrite He. cbn [fst snd].
    assert (Hab : ~ In (fst e) (map fst tree)).
    { cbn [map] in Hn. apply NoDup_remove_2 in Hn. intros C. apply Hn.
      apply in_or_app. left; exact C. }
    rewrite update_absent by exact Hab.
    rewrite IH.
    + rewrite <- app_assoc, fold_left_app. reflexivity.
    + rewrite map_app. cbn [map fst]. rewrite <- app_assoc. exact Hn.
Qed.

Lemma traverse_ord_spec u : node_all (@NoDup bytes) u -> forall rel st,
  traverse_ord St leaf u rel st = (tree_ord u, fold_left leaf_step (files_of rel u) st).
Proof.
  induction u as [d|es IH] using node_ind'; intros Hn rel st.
  - cbn [traverse_ord tree_ord files_of fold_left]. unfold leaf_step. cbn [fst snd].
    rewrite <- (leaf_dict_indep d rel st). apply surjective_pairing.
  - apply node_all_Dir in Hn. destruct Hn as [Hn Hc].
    cbn [traverse_ord tree_ord files_of]. rewrite run_entries_spec; [reflexivity| |exact Hn].
    rewrite Forall_forall in *. intros e He. apply IH; [exact He|]. apply Hc; exact He.
Qed.
End TraverseSpec.

Lemma wf_node_NoDup t : wf_node t -> node_all (@NoDup bytes) t.
Proof.
  induction t as [d|es IH] using node_ind'; intros H; [exact I|].
  apply node_all_Dir in H. destruct H as [[Hn _] Hc]. apply node_all_Dir. split; [exact Hn|].
  rewrite Forall_forall in *. intros e He. apply IH; [exact He|]. apply Hc; exact He.
Qed.

(* the specification of every _traverse *)
Theorem traverse_spec {St} (leaf : bytes -> trav St) (ld : bytes -> dict) :
  (forall d rel st, fst (leaf d rel st) = ld d) ->
  forall t, wf_node t -> forall rel st,
    traverse St leaf t rel st =
    (tree_ord ld (sort_tree t),
     fold_left (leaf_step St leaf) (files_of rel (sort_tree t)) st).
Proof.
  intros Hld t Hwf rel st. rewrite traverse_sort_tree.
  apply traverse_ord_spec; [exact Hld|]. apply wf_node_NoDup, wf_sort_tree, Hwf.
Qed.
