(* Proofs about Model/Creators.v, part 1: foundations (sorting of names, content trees, the
   generic traversal), T5 (C10: TorrentAssembler = TorrentFileV2 / TorrentFileHybrid),
   T1 (C08: enumeration order is irrelevant), T2 (C01: v1 file list and pieces).
   Part 2 (CreatorsProofs2.v): T6 (C06), T3 (C02), T4 (C03). *)
From TF Require Import Lib.Base Lib.Lex Lib.Decimal Lib.Chunks Spec.Bep52
                       Model.Bencode Model.Hasher Model.HasherV2 Model.Creators
                       Proofs.BencodeProofs Proofs.HasherCorrect Proofs.HasherV2Correct.
From Coq Require Import Permutation Sorted.

(* ========================================================================================== *)
(* 0. small list facts                                                                         *)
(* ========================================================================================== *)

Lemma Forall2_map_same {A B C} (R : B -> C -> Prop) (f : A -> B) (g : A -> C) l :
  Forall (fun x => R (f x) (g x)) l -> Forall2 R (map f l) (map g l).
Proof. induction 1; cbn [map]; constructor; assumption. Qed.

Lemma Forall2_impl' {A B} (R R' : A -> B -> Prop) l l' :
  (forall a b, R a b -> R' a b) -> Forall2 R l l' -> Forall2 R' l l'.
Proof. intros H. induction 1; constructor; auto. Qed.

Lemma Forall_perm {A} (P : A -> Prop) l l' : Permutation l l' -> Forall P l -> Forall P l'.
Proof.
  intros Hp H. rewrite Forall_forall in *. intros x Hx. apply H.
  eapply Permutation_in; [apply Permutation_sym; exact Hp|exact Hx].
Qed.

Lemma flat_map_perm {A B} (f : A -> list B) l l' :
  Permutation l l' -> Permutation (flat_map f l) (flat_map f l').
Proof.
  induction 1 as [|x l l' Hp IH|x y l|l l' l'' H1 IH1 H2 IH2]; cbn [flat_map].
  - constructor.
  - apply Permutation_app_head. exact IH.
  - rewrite !app_assoc. apply Permutation_app_tail. apply Permutation_app_comm.
  - eapply perm_trans; eassumption.
Qed.

Lemma flat_map_perm_pointwise {A B} (f g : A -> list B) l :
  Forall (fun x => Permutation (f x) (g x)) l -> Permutation (flat_map f l) (flat_map g l).
Proof.
  induction 1 as [|x l Hx _ IH]; cbn [flat_map]; [constructor|].
  apply Permutation_app; assumption.
Qed.

Lemma concat_map_flat_map {A B} (f : A -> list B) l : concat (map f l) = flat_map f l.
Proof. symmetry. apply flat_map_concat_map. Qed.

(* ========================================================================================== *)
(* 1. sort_names                                                                               *)
(* ========================================================================================== *)

Section SortNamesFacts.
Context {A : Type}.
Implicit Types (e : bytes * A) (l : list (bytes * A)).

Definition name_lt (a b : bytes * A) : Prop := bytes_ltb (fst a) (fst b) = true.

Lemma name_lt_irrefl a : ~ name_lt a a.
Proof. unfold name_lt. rewrite bytes_ltb_irrefl. discriminate. Qed.

Lemma name_lt_trans a b c : name_lt a b -> name_lt b c -> name_lt a c.
Proof. unfold name_lt. apply bytes_ltb_trans. Qed.

Lemma insert_name_perm e l : Permutation (insert_name e l) (e :: l).
Proof.
  induction l as [|e' l IH]; cbn [insert_name]; [apply Permutation_refl|].
  destruct (bytes_ltb (fst e') (fst e)); [|apply Permutation_refl].
  eapply perm_trans; [apply perm_skip; exact IH|apply perm_swap].
Qed.

Lemma sort_names_perm l : Permutation (sort_names l) l.
Proof.
  induction l as [|e l IH]; cbn [sort_names]; [constructor|].
  eapply perm_trans; [apply insert_name_perm|apply perm_skip; exact IH].
Qed.

Lemma insert_name_sorted e l :
  StronglySorted name_lt l -> (forall x, In x l -> fst x <> fst e) ->
  StronglySorted name_lt (insert_name e l).
Proof.
  induction 1 as [|a l Hs IH Ha]; intros Hne; cbn [insert_name].
  - constructor; constructor.
  - destruct (bytes_ltb (fst a) (fst e)) eqn:E.
    + constructor.
      * apply IH. intros x Hx. apply Hne. right; exact Hx.
      * apply Forall_forall. intros x Hx.
        apply (Permutation_in _ (insert_name_perm e l)) in Hx. destruct Hx as [<-|Hx].
        -- exact E.
        -- rewrite Forall_forall in Ha. apply Ha; exact Hx.
    + apply bytes_ltb_false_iff in E. destruct E as [E|E].
      * exfalso. apply (Hne a); [left; reflexivity|exact E].
      * constructor; [constructor; assumption|].
        constructor; [exact E|].
        eapply Forall_impl; [|exact Ha]. intros x Hx. eapply name_lt_trans; eassumption.
Qed.

Lemma sort_names_sorted l : NoDup (map fst l) -> StronglySorted name_lt (sort_names l).
Proof.
  induction l as [|e l IH]; cbn [sort_names map]; intros H; [constructor|].
  inversion H as [|x l0 Hn Hd]; subst.
  apply insert_name_sorted; [apply IH; exact Hd|].
  intros x Hx E. apply Hn. rewrite <- E. apply in_map.
  eapply Permutation_in; [apply sort_names_perm|exact Hx].
Qed.

Lemma insert_name_below e l : Forall (name_lt e) l -> insert_name e l = e :: l.
Proof.
  intros H. destruct l as [|a l]; [reflexivity|]. cbn [insert_name].
  inversion H as [|x l0 Hx Hl]; subst.
  unfold name_lt in Hx. apply bytes_ltb_asym in Hx. rewrite Hx. reflexivity.
Qed.

Lemma sort_names_sorted_id l : StronglySorted name_lt l -> sort_names l = l.
Proof.
  induction 1 as [|a l Hs IH Ha]; cbn [sort_names]; [reflexivity|].
  rewrite IH. apply insert_name_below. exact Ha.
Qed.

(* the sorted list does not depend on the order of the input (distinct names) *)
Lemma sort_names_perm_eq l l' :
  Permutation l l' -> NoDup (map fst l) -> sort_names l = sort_names l'.
Proof.
  intros Hp Hn.
  apply (StronglySorted_perm_eq name_lt name_lt_irrefl name_lt_trans).
  - apply sort_names_sorted; exact Hn.
  - apply sort_names_sorted. eapply Permutation_NoDup; [|exact Hn].
    apply Permutation_map. exact Hp.
  - eapply perm_trans; [apply sort_names_perm|].
    eapply perm_trans; [exact Hp|]. apply Permutation_sym, sort_names_perm.
Qed.

Lemma sort_names_idem l : NoDup (map fst l) -> sort_names (sort_names l) = sort_names l.
Proof. intros H. apply sort_names_sorted_id, sort_names_sorted, H. Qed.

Lemma sorted_names_NoDup l : StronglySorted name_lt l -> NoDup (map fst l).
Proof.
  induction 1 as [|a l Hs IH Ha]; cbn [map]; constructor; [|exact IH].
  intros C. apply in_map_iff in C. destruct C as (x & Ex & Hx).
  rewrite Forall_forall in Ha. apply Ha in Hx. unfold name_lt in Hx.
  apply bytes_ltb_neq in Hx. congruence.
Qed.
End SortNamesFacts.

(* the sort only looks at the names *)
Definition on_snd {A C} (f : A -> C) (e : bytes * A) : bytes * C := (fst e, f (snd e)).

Lemma fst_on_snd {A C} (f : A -> C) e : fst (on_snd f e) = fst e.
Proof. reflexivity. Qed.
Lemma snd_on_snd {A C} (f : A -> C) e : snd (on_snd f e) = f (snd e).
Proof. reflexivity. Qed.

Lemma map_fst_on_snd {A C} (f : A -> C) l : map fst (map (on_snd f) l) = map fst l.
Proof. rewrite map_map. apply map_ext. reflexivity. Qed.

Lemma insert_name_map {A C} (f : A -> C) e l :
  insert_name (on_snd f e) (map (on_snd f) l) = map (on_snd f) (insert_name e l).
Proof.
  induction l as [|e' l IH]; [reflexivity|]. cbn [map insert_name]. rewrite !fst_on_snd.
  destruct (bytes_ltb (fst e') (fst e)); cbn [map]; [rewrite IH|]; reflexivity.
Qed.

Lemma sort_names_map {A C} (f : A -> C) l :
  sort_names (map (on_snd f) l) = map (on_snd f) (sort_names l).
Proof.
  induction l as [|e l IH]; [reflexivity|]. cbn [map sort_names].
  rewrite IH. apply insert_name_map.
Qed.

Definition rel_snd {A C} (R : A -> C -> Prop) (a : bytes * A) (b : bytes * C) : Prop :=
  fst a = fst b /\ R (snd a) (snd b).

Lemma insert_name_Forall2 {A C} (R : A -> C -> Prop) a b l l' :
  rel_snd R a b -> Forall2 (rel_snd R) l l' ->
  Forall2 (rel_snd R) (insert_name a l) (insert_name b l').
Proof.
  intros Hab H. induction H as [|x y l l' Hxy H IH]; cbn [insert_name].
  - constructor; [exact Hab|constructor].
  - destruct Hab as [E1 R1]. destruct Hxy as [E2 R2]. rewrite <- E1, <- E2.
    destruct (bytes_ltb (fst x) (fst a)).
    + constructor; [split; assumption|exact IH].
    + constructor; [split; assumption|]. constructor; [split; assumption|exact H].
Qed.

Lemma sort_names_Forall2 {A C} (R : A -> C -> Prop) l l' :
  Forall2 (rel_snd R) l l' -> Forall2 (rel_snd R) (sort_names l) (sort_names l').
Proof.
  induction 1 as [|x y l l' Hxy H IH]; cbn [sort_names]; [constructor|].
  apply insert_name_Forall2; assumption.
Qed.

(* sort_keys of Model/Bencode.v is the same sort *)
Lemma sort_keys_sort_names (d : dict) : sort_keys d = sort_names d.
Proof.
  induction d as [|kv d IH]; [reflexivity|]. cbn [sort_keys sort_names]. rewrite IH.
  generalize (sort_names d). intros l. induction l as [|a l IHl]; [reflexivity|].
  cbn [insert_key insert_name]. unfold key_ltb. rewrite IHl. reflexivity.
Qed.

(* ========================================================================================== *)
(* 2. content trees                                                                            *)
(* ========================================================================================== *)

Section NodeInd.
  Variable P : node -> Prop.
  Hypothesis HF : forall d, P (File d).
  Hypothesis HD : forall es, Forall (fun e => P (snd e)) es -> P (Dir es).

  Fixpoint node_ind' (t : node) : P t :=
    match t with
    | File d => HF d
    | Dir es =>
        HD es ((fix go (l : list (bytes * node)) : Forall (fun e => P (snd e)) l :=
                  match l with
                  | [] => Forall_nil _
                  | e :: l' =>
                      @Forall_cons (bytes * node) (fun e => P (snd e)) e l'
                                   (node_ind' (snd e)) (go l')
                  end) es)
    end.
End NodeInd.

Lemma node_all_Dir P es :
  node_all P (Dir es) <-> P (map fst es) /\ Forall (fun e => node_all P (snd e)) es.
Proof.
  cbn [node_all]. apply and_iff_compat_l.
  induction es as [|e es IH]; [split; constructor|].
  rewrite IH. split.
  - intros [H1 H2]. constructor; assumption.
  - intros H. inversion H; subst. split; assumption.
Qed.

Lemma wf_Dir es :
  wf_node (Dir es) <->
  (NoDup (map fst es) /\ Forall name_ok (map fst es)) /\ Forall (fun e => wf_node (snd e)) es.
Proof. apply node_all_Dir. Qed.

(* the tree with every directory listed in sorted name order *)
Fixpoint sort_tree (t : node) : node :=
  match t with
  | File d => File d
  | Dir es => Dir (sort_names (map (on_snd sort_tree) es))
  end.

Definition sorted_names (ns : list bytes) : Prop := StronglySorted bytes_lt ns.
Definition sorted_tree : node -> Prop := node_all sorted_names.

Lemma map_fst_sort_tree_entries es :
  map fst (sort_names (map (on_snd sort_tree) es)) = map fst (sort_names es).
Proof. rewrite sort_names_map, map_fst_on_snd. reflexivity. Qed.

Lemma node_all_sort_tree (P Q : list bytes -> Prop) :
  (forall es : list (bytes * node), P (map fst es) -> Q (map fst (sort_names es))) ->
  forall t, node_all P t -> node_all Q (sort_tree t).
Proof.
  intros HPQ. induction t as [d|es IH] using node_ind'; intros H; [exact I|].
  apply node_all_Dir in H. destruct H as [Hn Hc].
  cbn [sort_tree]. apply node_all_Dir. split.
  - rewrite map_fst_sort_tree_entries. apply HPQ. exact Hn.
  - eapply Forall_perm; [apply Permutation_sym, sort_names_perm|].
    apply Forall_map. cbn [on_snd snd].
    rewrite Forall_forall in *. intros e He. apply IH; [exact He|]. apply Hc; exact He.
Qed.

Lemma wf_sort_tree t : wf_node t -> wf_node (sort_tree t).
Proof.
  apply node_all_sort_tree. intros es [Hn Hok].
  assert (Hp : Permutation (map fst (sort_names es)) (map fst es))
    by (apply Permutation_map, sort_names_perm).
  split.
  - eapply Permutation_NoDup; [apply Permutation_sym; exact Hp|exact Hn].
  - eapply Forall_perm; [apply Permutation_sym; exact Hp|exact Hok].
Qed.

Lemma StronglySorted_map_fst {A} (l : list (bytes * A)) :
  StronglySorted name_lt l -> StronglySorted bytes_lt (map fst l).
Proof.
  induction 1 as [|a l Hs IH Ha]; cbn [map]; constructor; [exact IH|].
  apply Forall_map. exact Ha.
Qed.

Lemma StronglySorted_of_map_fst {A} (l : list (bytes * A)) :
  StronglySorted bytes_lt (map fst l) -> StronglySorted name_lt l.
Proof.
  induction l as [|a l IH]; cbn [map]; intros H; [constructor|].
  inversion H as [|x l0 Hs Ha]; subst. constructor; [apply IH; exact Hs|].
  rewrite Forall_map in Ha. exact Ha.
Qed.

Lemma sorted_sort_tree t : wf_node t -> sorted_tree (sort_tree t).
Proof.
  apply node_all_sort_tree. intros es [Hn _].
  apply StronglySorted_map_fst, sort_names_sorted. exact Hn.
Qed.

(* a sorted tree is its own sorted form *)
Lemma sort_tree_sorted_id t : sorted_tree t -> sort_tree t = t.
Proof.
  induction t as [d|es IH] using node_ind'; intros H; [reflexivity|].
  apply node_all_Dir in H. destruct H as [Hs Hc]. cbn [sort_tree]. f_equal.
  assert (E : map (on_snd sort_tree) es = es).
  { clear Hs. induction es as [|e es IHes]; [reflexivity|].
    inversion IH as [|x l He Hes]; subst. inversion Hc as [|x l Hce Hces]; subst.
    cbn [map]. rewrite IHes by assumption. unfold on_snd. rewrite He by assumption.
    destruct e; reflexivity. }
  rewrite E. apply sort_names_sorted_id, StronglySorted_of_map_fst. exact Hs.
Qed.

(* the same files, whatever the order *)
Lemma files_of_sort_tree t : forall rel,
  Permutation (files_of rel (sort_tree t)) (files_of rel t).
Proof.
  induction t as [d|es IH] using node_ind'; intros rel; [apply Permutation_refl|].
  cbn [sort_tree files_of].
  eapply perm_trans; [apply flat_map_perm, sort_names_perm|].
  rewrite flat_map_concat_map, map_map, <- flat_map_concat_map.
  apply flat_map_perm_pointwise. cbn [on_snd fst snd].
  eapply Forall_impl; [|exact IH]. intros e He. apply He.
Qed.

(* ---------- enumeration order: node_perm ---------- *)

Scheme node_perm_mind := Minimality for node_perm Sort Prop
  with entries_perm_mind := Minimality for entries_perm Sort Prop.
Combined Scheme node_entries_perm_ind from node_perm_mind, entries_perm_mind.

Lemma node_perm_refl t : node_perm t t.
Proof.
  induction t as [d|es IH] using node_ind'; [constructor|].
  apply (np_dir es es es); [|apply Permutation_refl].
  induction IH as [|[n c] es Hc _ IHes]; constructor; assumption.
Qed.

(* the sorted form does not depend on the enumeration order *)
Lemma sort_tree_perm_mut :
  (forall t t', node_perm t t' -> wf_node t -> sort_tree t = sort_tree t') /\
  (forall es es', entries_perm es es' ->
     Forall (fun e => wf_node (snd e)) es ->
     map (on_snd sort_tree) es = map (on_snd sort_tree) es' /\ map fst es = map fst es').
Proof.
  apply node_entries_perm_ind.
  - reflexivity.
  - intros es es' es'' _ IH Hp Hwf. apply wf_Dir in Hwf. destruct Hwf as [[Hn _] Hc].
    destruct (IH Hc) as [E1 E2]. cbn [sort_tree]. f_equal. rewrite E1.
    apply sort_names_perm_eq; [apply Permutation_map; exact Hp|].
    rewrite map_fst_on_snd, <- E2. exact Hn.
  - intros _. split; reflexivity.
  - intros n c c' es es' _ IHc _ IHes Hwf. inversion Hwf as [|x l Hc Hes]; subst.
    cbn [snd] in Hc. destruct (IHes Hes) as [E1 E2]. cbn [map]. unfold on_snd at 1 3.
    cbn [fst snd]. rewrite (IHc Hc), E1, E2. split; reflexivity.
Qed.

Theorem sort_tree_perm t t' : node_perm t t' -> wf_node t -> sort_tree t = sort_tree t'.
Proof. apply sort_tree_perm_mut. Qed.

Lemma node_perm_sort_tree t : wf_node t -> node_perm t (sort_tree t).
Proof.
  induction t as [d|es IH] using node_ind'; intros Hwf; [constructor|].
  apply wf_Dir in Hwf. destruct Hwf as [_ Hc]. cbn [sort_tree].
  apply (np_dir es (map (on_snd sort_tree) es)); [|apply Permutation_sym, sort_names_perm].
  clear - IH Hc. induction es as [|[n c] es IHes]; [constructor|].
  inversion IH; subst. inversion Hc; subst. cbn [map]. unfold on_snd at 1. cbn [fst snd].
  constructor; [auto|apply IHes; assumption].
Qed.

(* ========================================================================================== *)
(* 3. the generic traversal                                                                    *)
(* ========================================================================================== *)

Section Sim.
Variables (S1 S2 : Type) (R : S1 -> S2 -> Prop).

Definition trav_sim (f : trav S1) (g : trav S2) : Prop :=
  forall rel s1 s2, R s1 s2 ->
    fst (f rel s1) = fst (g rel s2) /\ R (snd (f rel s1)) (snd (g rel s2)).

Lemma run_entries_sim es1 es2 : Forall2 (rel_snd trav_sim) es1 es2 ->
  forall rel tree s1 s2, R s1 s2 ->
    fst (run_entries S1 rel es1 tree s1) = fst (run_entries S2 rel es2 tree s2) /\
    R (snd (run_entries S1 rel es1 tree s1)) (snd (run_entries S2 rel es2 tree s2)).
Proof.
  induction 1 as [|a b es1 es2 [En Hab] _ IH]; intros rel tree s1 s2 HR; cbn [run_entries].
  - split; [reflexivity|exact HR].
  - rewrite <- En. destruct (Hab (rel ++ [fst a]) s1 s2 HR) as [E1 R1].
    rewrite E1. apply IH. exact R1.
Qed.

Variables (leaf1 : bytes -> trav S1) (leaf2 : bytes -> trav S2).
Hypothesis leaf_sim : forall d, trav_sim (leaf1 d) (leaf2 d).

Lemma traverse_sim t : trav_sim (traverse S1 leaf1 t) (traverse S2 leaf2 t).
Proof.
  induction t as [d|es IH] using node_ind'; [apply leaf_sim|].
  intros rel s1 s2 HR. cbn [traverse]. apply run_entries_sim; [|exact HR].
  apply sort_names_Forall2. apply Forall2_map_same.
  eapply Forall_impl; [|exact IH]. intros e He. split; [reflexivity|exact He].
Qed.
End Sim.

Definition trav_eq {St} (f g : trav St) : Prop := forall rel st, f rel st = g rel st.

Lemma trav_sim_eq {St} (f g : trav St) : trav_sim St St eq f g <-> trav_eq f g.
Proof.
  split.
  - intros H rel st. destruct (H rel st st eq_refl) as [E1 E2].
    apply injective_projections; assumption.
  - intros H rel s1 s2 <-. rewrite H. split; reflexivity.
Qed.

Lemma run_entries_ext {St} es1 es2 : Forall2 (rel_snd (@trav_eq St)) es1 es2 ->
  forall rel tree st, run_entries St rel es1 tree st = run_entries St rel es2 tree st.
Proof.
  intros H rel tree st.
  assert (H' : Forall2 (rel_snd (trav_sim St St eq)) es1 es2).
  { eapply Forall2_impl'; [|exact H]. intros a b [E T]. split; [exact E|].
    apply trav_sim_eq; exact T. }
  destruct (run_entries_sim St St eq es1 es2 H' rel tree st st eq_refl) as [E1 E2].
  apply injective_projections; assumption.
Qed.

(* the traversal without the sort: entries in list order *)
Fixpoint traverse_ord (St : Type) (leaf : bytes -> trav St) (t : node) : trav St :=
  match t with
  | File d => leaf d
  | Dir es =>
      fun rel st => run_entries St rel (map (on_snd (traverse_ord St leaf)) es) [] st
  end.

(* _traverse visits the tree in per-directory sorted order *)
Lemma traverse_sort_tree {St} (leaf : bytes -> trav St) t :
  trav_eq (traverse St leaf t) (traverse_ord St leaf (sort_tree t)).
Proof.
  induction t as [d|es IH] using node_ind'; intros rel st; [reflexivity|].
  cbn [traverse sort_tree traverse_ord].
  rewrite <- sort_names_map, map_map.
  apply run_entries_ext. apply sort_names_Forall2. apply Forall2_map_same.
  eapply Forall_impl; [|exact IH]. intros e He. split; [reflexivity|exact He].
Qed.

(* C08 for every _traverse: the enumeration order does not matter *)
Theorem traverse_enum_irrelevant {St} (leaf : bytes -> trav St) t t' :
  node_perm t t' -> wf_node t -> trav_eq (traverse St leaf t) (traverse St leaf t').
Proof.
  intros Hp Hwf rel st. rewrite !traverse_sort_tree, (sort_tree_perm t t' Hp Hwf). reflexivity.
Qed.

(* the ordered traversal = fold of the file branch over the file list; the returned dictionary
   is a function of the tree alone as soon as the file branch's dictionary does not depend on
   the state *)
Section TraverseSpec.
Variable St : Type.
Variable leaf : bytes -> trav St.
Variable ld : bytes -> dict.
Hypothesis leaf_dict_indep : forall d rel st, fst (leaf d rel st) = ld d.

Fixpoint tree_ord (u : node) : dict :=
  match u with
  | File d => ld d
  | Dir es => map (on_snd (fun c => BDict (tree_ord c))) es
  end.

Definition leaf_step (st : St) (f : list bytes * bytes) : St := snd (leaf (snd f) (fst f) st).

Lemma run_entries_spec es :
  Forall (fun e => forall rel st,
            traverse_ord St leaf (snd e) rel st =
            (tree_ord (snd e), fold_left leaf_step (files_of rel (snd e)) st)) es ->
  forall rel tree st, NoDup (map fst tree ++ map fst es) ->
    run_entries St rel (map (on_snd (traverse_ord St leaf)) es) tree st =
    (tree ++ map (on_snd (fun c => BDict (tree_ord c))) es,
     fold_left leaf_step (flat_map (fun e => files_of (rel ++ [fst e]) (snd e)) es) st).
Proof.
  induction 1 as [|e es He _ IH]; intros rel tree st Hn; cbn [map run_entries flat_map].
  - rewrite app_nil_r. reflexivity.
  - rewrite !fst_on_snd, !snd_on_snd. rewrite He. cbn [fst snd].
    assert (Hab : ~ In (fst e) (map fst tree)).
    { cbn [map] in Hn. apply NoDup_remove_2 in Hn. intros C. apply Hn.
      apply in_or_app. left; exact C. }
    rewrite update_absent by exact Hab.
    rewrite IH.
    + rewrite <- app_assoc, fold_left_app. reflexivity.
    + rewrite map_app. cbn [map fst]. rewrite <- app_assoc. exact Hn.
Qed.

Lemma traverse_ord_spec u : node_all (@NoDup bytes) u -> forall rel st,
  traverse_ord St leaf u rel st = (tree_ord u, fold_left leaf_step (files_of rel u) st).
Proof.
  induction u as [d|es IH] using node_ind'; intros Hn rel st.
  - cbn [traverse_ord tree_ord files_of fold_left]. unfold leaf_step. cbn [fst snd].
    rewrite <- (leaf_dict_indep d rel st). apply surjective_pairing.
  - apply node_all_Dir in Hn. destruct Hn as [Hn Hc].
    cbn [traverse_ord tree_ord files_of]. rewrite run_entries_spec; [reflexivity| |exact Hn].
    rewrite Forall_forall in *. intros e He. apply IH; [exact He|]. apply Hc; exact He.
Qed.
End TraverseSpec.

Lemma wf_node_NoDup t : wf_node t -> node_all (@NoDup bytes) t.
Proof.
  induction t as [d|es IH] using node_ind'; intros H; [exact I|].
  apply node_all_Dir in H. destruct H as [[Hn _] Hc]. apply node_all_Dir. split; [exact Hn|].
  rewrite Forall_forall in *. intros e He. apply IH; [exact He|]. apply Hc; exact He.
Qed.

(* the specification of every _traverse *)
Theorem traverse_spec {St} (leaf : bytes -> trav St) (ld : bytes -> dict) :
  (forall d rel st, fst (leaf d rel st) = ld d) ->
  forall t, wf_node t -> forall rel st,
    traverse St leaf t rel st =
    (tree_ord ld (sort_tree t),
     fold_left (leaf_step St leaf) (files_of rel (sort_tree t)) st).
Proof.
  intros Hld t Hwf rel st. rewrite traverse_sort_tree.
  apply traverse_ord_spec; [exact Hld|]. apply wf_node_NoDup, wf_sort_tree, Hwf.
Qed.

(* ========================================================================================== *)
(* 4. dictionaries: more frame lemmas                                                          *)
(* ========================================================================================== *)

Lemma update_update_same k v v' d : update k v' (update k v d) = update k v' d.
Proof.
  induction d as [|[k0 v0] d IH]; cbn [update].
  - rewrite bytes_eqb_refl. reflexivity.
  - destruct (bytes_eqb k0 k) eqn:E; cbn [update]; rewrite E; [reflexivity|].
    rewrite IH. reflexivity.
Qed.

Lemma update_perm k v d d' :
  Permutation d d' -> NoDup (map fst d) -> Permutation (update k v d) (update k v d').
Proof.
  induction 1 as [|[k0 v0] d d' Hp IH|[k0 v0] [k1 v1] d|d d' d'' Hp1 IH1 Hp2 IH2]; intros Hn.
  - apply Permutation_refl.
  - cbn [update]. cbn [map fst] in Hn. inversion Hn; subst.
    destruct (bytes_eqb k0 k); apply perm_skip; [exact Hp|apply IH; assumption].
  - cbn [update]. cbn [map fst] in Hn. inversion Hn as [|x l Hx Hl]; subst.
    destruct (bytes_eqb k0 k) eqn:E0; destruct (bytes_eqb k1 k) eqn:E1; cbn [update];
      rewrite ?E0, ?E1; try apply perm_swap.
    apply bytes_eqb_eq in E0, E1. subst. exfalso. apply Hx. left; reflexivity.
  - eapply perm_trans; [apply IH1; exact Hn|apply IH2].
    eapply Permutation_NoDup; [apply Permutation_map; exact Hp1|exact Hn].
Qed.

Lemma update_swap_perm k1 v1 k2 v2 d : k1 <> k2 ->
  Permutation (update k1 v1 (update k2 v2 d)) (update k2 v2 (update k1 v1 d)).
Proof.
  intros N. induction d as [|[k0 v0] d IH]; cbn [update].
  - destruct (bytes_eqb_spec k2 k1); [congruence|].
    destruct (bytes_eqb_spec k1 k2); [congruence|]. apply perm_swap.
  - destruct (bytes_eqb k0 k2) eqn:E2; destruct (bytes_eqb k0 k1) eqn:E1; cbn [update];
      rewrite ?E1, ?E2.
    + apply bytes_eqb_eq in E1, E2. congruence.
    + apply Permutation_refl.
    + apply Permutation_refl.
    + apply perm_skip. exact IH.
Qed.

(* what sort_meta does after the info dictionary has been sorted *)
Definition sort_layers (meta : dict) : dict :=
  sort_keys
    match lookup k_piece_layers meta with
    | Some (BDict l) => update k_piece_layers (BDict (sort_keys l)) meta
    | _ => meta
    end.

Lemma sort_meta_close meta info :
  sort_meta (close_meta meta info) = sort_layers (close_meta meta (sort_keys info)).
Proof.
  unfold sort_meta, close_meta, sort_layers. rewrite lookup_update_same, update_update_same.
  reflexivity.
Qed.

(* the written metafile does not depend on the insertion order of the info keys *)
Lemma sort_meta_close_perm meta i1 i2 :
  Permutation i1 i2 -> NoDup (map fst i1) ->
  sort_meta (close_meta meta i1) = sort_meta (close_meta meta i2).
Proof.
  intros Hp Hn. rewrite !sort_meta_close, (sort_keys_perm_eq i1 i2 Hp Hn). reflexivity.
Qed.

Ltac neq := apply bytes_eqb_neq; vm_compute; reflexivity.

(* keys of the dictionaries made by MetaFile.__init__ *)
Lemma meta_init_info_NoDup o name pl : NoDup (map fst (snd (meta_init o name pl))).
Proof.
  unfold meta_init. cbv zeta. cbn [snd].
  repeat match goal with
         | |- NoDup (map fst (update _ _ _)) => apply update_NoDup
         | |- NoDup (map fst (if ?c then _ else _)) => destruct c
         end; constructor.
Qed.

Lemma meta_init_meta_NoDup o name pl : NoDup (map fst (fst (meta_init o name pl))).
Proof.
  unfold meta_init. cbv zeta. cbn [fst].
  repeat match goal with
         | |- NoDup (map fst (update _ _ _)) => apply update_NoDup
         | |- NoDup (map fst (if ?c then _ else _)) => destruct c
         end;
    (apply nodupb_spec; vm_compute; reflexivity).
Qed.

(* ========================================================================================== *)
(* 5. the three file branches in terms of hasher_v2                                            *)
(* ========================================================================================== *)

Section Agree.
Variable H1 H256 : bytes -> bytes.
Variable B : nat.
Hypothesis HB : 0 < B.
Variable k pl : nat.
Hypothesis Hpl : pl = B * 2 ^ k.

Definition v2_root (d : bytes) : bytes := fst (hasher_v2 H256 B pl d).
Definition v2_layer (d : bytes) : list bytes := snd (hasher_v2 H256 B pl d).

(* piece_layers[root] = layer, only if size > piece_length *)
Definition add_layer (d : bytes) (layers : dict) : dict :=
  if pl <? length d then update (v2_root d) (BStr (concat (v2_layer d))) layers else layers.

(* the dictionary _traverse returns for a file (all three classes) *)
Definition leaf_of (d : bytes) : dict :=
  if length d =? 0 then leaf_empty (length d) else leaf_dict (length d) (v2_root d).

(* the v1 piece inputs and the pad file of one file (hybrid) *)
Definition hy_inputs (padding : bool) (d : bytes) : list bytes :=
  map (hy_piece pl padding) (chunks pl d).
Definition hy_padfile (padding : bool) (d : bytes) : option nat :=
  fold_left (hy_pf pl padding) (chunks pl d) None.
Definition hy_entries (padding : bool) (rel : list bytes) (d : bytes) : list value :=
  file_entry rel (length d) ::
  (if length d =? 0 then []
   else match hy_padfile padding d with Some n => [pad_entry n] | None => [] end).
Definition hy_digests (padding : bool) (d : bytes) : list bytes :=
  if length d =? 0 then [] else map H1 (hy_inputs padding d).

Lemma v2_leaf_eq d rel layers :
  v2_leaf H256 B pl d rel layers =
  (leaf_of d, if length d =? 0 then layers else add_layer d layers).
Proof. unfold v2_leaf, leaf_of, add_layer. cbv zeta. destruct (length d =? 0); reflexivity. Qed.

Lemma hybrid_leaf_eq padding d rel st :
  hybrid_leaf H1 H256 B padding pl d rel st =
  (leaf_of d,
   mk_hy (if length d =? 0 then hy_layers st else add_layer d (hy_layers st))
         (hy_files st ++ hy_entries padding rel d)
         (hy_pieces st ++ hy_digests padding d)).
Proof.
  unfold hybrid_leaf, leaf_of, add_layer, hy_entries, hy_digests. cbv zeta.
  destruct (length d =? 0) eqn:E0; [rewrite app_nil_r; reflexivity|].
  rewrite (hasher_hybrid_eq H256 B HB k pl Hpl).
  fold (v2_root d) (v2_layer d) (hy_inputs padding d) (hy_padfile padding d).
  destruct (hy_padfile padding d); [rewrite <- app_assoc|]; reflexivity.
Qed.

Lemma asm_leaf_eq hybrid padding d rel st :
  asm_leaf H1 H256 B hybrid padding pl d rel st =
  (leaf_of d,
   mk_as (if length d =? 0 then as_layers st else add_layer d (as_layers st))
         (if hybrid then as_files st ++ hy_entries padding rel d else as_files st)
         (if hybrid then as_pieces st ++ concat (hy_digests padding d) else as_pieces st)).
Proof.
  unfold asm_leaf, leaf_of, add_layer, hy_entries, hy_digests. cbv zeta.
  destruct (length d =? 0) eqn:E0.
  - destruct hybrid; cbn [concat]; rewrite ?app_nil_r; reflexivity.
  - destruct (file_hasher_run_spec H256 B HB k pl Hpl hybrid padding d)
      as (R1 & _ & R3 & R4 & R5 & R6).
    cbv zeta in R1, R3, R4, R5, R6. rewrite R1, R5, R6, R3, R4.
    fold (v2_root d) (v2_layer d) (hy_inputs padding d) (hy_padfile padding d).
    destruct hybrid; [|reflexivity].
    destruct (hy_padfile padding d); [rewrite <- app_assoc|]; reflexivity.
Qed.

(* ---------- T5 (C10): TorrentAssembler = the dedicated classes ---------- *)

Definition R_v2 (s : as_state) (layers : dict) : Prop := as_layers s = layers.

Lemma asm_v2_leaf_sim padding d :
  trav_sim as_state dict R_v2 (asm_leaf H1 H256 B false padding pl d) (v2_leaf H256 B pl d).
Proof.
  intros rel s layers HR. rewrite asm_leaf_eq, v2_leaf_eq. cbn [fst snd]. unfold R_v2 in *.
  cbn [as_layers]. rewrite HR. split; reflexivity.
Qed.

Definition R_hy (s : as_state) (h : hy_state) : Prop :=
  as_layers s = hy_layers h /\ as_files s = hy_files h /\ as_pieces s = concat (hy_pieces h).

Lemma asm_hybrid_leaf_sim padding d :
  trav_sim as_state hy_state R_hy (asm_leaf H1 H256 B true padding pl d)
           (hybrid_leaf H1 H256 B padding pl d).
Proof.
  intros rel s h (E1 & E2 & E3). rewrite asm_leaf_eq, hybrid_leaf_eq. cbn [fst snd].
  unfold R_hy. cbn [as_layers as_files as_pieces hy_layers hy_files hy_pieces].
  rewrite E1, E2, E3, concat_app. repeat split; reflexivity.
Qed.

Theorem create_assembler_v2_agree o name t :
  create_assembler H1 H256 B false o name pl t = create_v2_class H256 B o name pl t.
Proof.
  unfold create_assembler, create_v2_class, create_assembler_raw, create_v2_class_raw.
  pose proof (meta_init_info_NoDup o name pl) as Hn.
  destruct (meta_init o name pl) as [meta info]. cbn [snd] in Hn. cbv zeta.
  destruct (traverse_sim as_state dict R_v2 _ _ (asm_v2_leaf_sim (negb (is_file t))) t
              (root_rel t) (mk_as [] [] []) [] eq_refl) as [E1 E2].
  unfold R_v2 in E2.
  destruct (traverse as_state _ t (root_rel t) (mk_as [] [] [])) as [tree st].
  destruct (traverse dict _ t (root_rel t) []) as [tree' layers].
  cbn [fst snd] in E1, E2. subst tree' layers. f_equal.
  apply sort_meta_close_perm.
  - destruct t as [d|es].
    + eapply perm_trans; [|apply update_swap_perm; neq].
      apply update_perm; [apply update_swap_perm; neq|].
      repeat apply update_NoDup. exact Hn.
    + apply update_swap_perm; neq.
  - destruct t; repeat apply update_NoDup; exact Hn.
Qed.

Theorem create_assembler_hybrid_agree o name t :
  create_assembler H1 H256 B true o name pl t = create_hybrid_class H1 H256 B o name pl t.
Proof.
  unfold create_assembler, create_hybrid_class, create_assembler_raw, create_hybrid_class_raw.
  destruct (meta_init o name pl) as [meta info]. cbv zeta.
  assert (R0 : R_hy (mk_as [] [] []) (mk_hy [] [] [])) by (repeat split).
  destruct (traverse_sim as_state hy_state R_hy _ _ (asm_hybrid_leaf_sim (negb (is_file t))) t
              (root_rel t) _ _ R0) as [E1 (E2 & E3 & E4)].
  destruct (traverse as_state _ t (root_rel t) (mk_as [] [] [])) as [tree st].
  destruct (traverse hy_state _ t (root_rel t) (mk_hy [] [] [])) as [tree' st'].
  cbn [fst snd] in E1, E2, E3, E4. subst tree'. rewrite E2, E3, E4.
  destruct t; reflexivity.
Qed.

End Agree.

(* ========================================================================================== *)
(* 6. filelist_total                                                                           *)
(* ========================================================================================== *)

Lemma list_sum_perm l l' : Permutation l l' -> list_sum l = list_sum l'.
Proof. unfold list_sum. induction 1; cbn [fold_right]; lia. Qed.

Lemma NoDup_app' {A} (a b : list A) :
  NoDup a -> NoDup b -> (forall x, In x a -> ~ In x b) -> NoDup (a ++ b).
Proof.
  induction 1 as [|x a Hx Ha IH]; intros Hb Hd; cbn [app]; [exact Hb|].
  constructor.
  - intros C. apply in_app_or in C. destruct C as [C|C]; [contradiction|].
    apply (Hd x); [left; reflexivity|exact C].
  - apply IH; [exact Hb|]. intros y Hy. apply Hd. right; exact Hy.
Qed.

(* a path string below [p] is [p] itself or continues with a separator *)
Definition sep_headed (s : bytes) : Prop := s = [] \/ exists r, s = slash :: r.

Lemma name_prefix_inj n : forall n' s s',
  ~ In slash n -> ~ In slash n' -> sep_headed s -> sep_headed s' ->
  n ++ s = n' ++ s' -> n = n'.
Proof.
  induction n as [|c n IH]; intros [|c' n'] s s' Hn Hn' Hs Hs' E; cbn [app] in E.
  - reflexivity.
  - exfalso. destruct Hs as [->|[r ->]]; [discriminate|]. injection E as E1 _.
    apply Hn'. left. symmetry; exact E1.
  - exfalso. destruct Hs' as [->|[r ->]]; [discriminate|]. injection E as E1 _.
    apply Hn. left. exact E1.
  - injection E as -> E. f_equal. apply (IH n' s s'); try assumption.
    + intros C. apply Hn. right; exact C.
    + intros C. apply Hn'. right; exact C.
Qed.

Definition flt_child (path : bytes) (rel : list bytes) (e : bytes * node) : nat * list flt_item :=
  flt (path ++ slash :: fst e) (rel ++ [fst e]) (snd e).

Definition flt_dir_items (path : bytes) (rel : list bytes) (es : list (bytes * node))
  : list flt_item :=
  concat (map snd (map (flt_child path rel) es)).

Lemma flt_Dir_eq path rel es :
  flt path rel (Dir es) =
  (list_sum (map fst (map (flt_child path rel) es)), sort_names (flt_dir_items path rel es)).
Proof. reflexivity. Qed.

Lemma flt_Dir path rel es :
  snd (flt path rel (Dir es)) = sort_names (flt_dir_items path rel es).
Proof. reflexivity. Qed.

Lemma flt_paths_below t : forall path rel x,
  In x (map fst (snd (flt path rel t))) -> exists s, x = path ++ s /\ sep_headed s.
Proof.
  induction t as [d|es IH] using node_ind'; intros path rel x Hx.
  - cbn in Hx. destruct Hx as [<-|[]]. exists []. rewrite app_nil_r. split; [reflexivity|left; reflexivity].
  - rewrite flt_Dir in Hx.
    apply (Permutation_in _ (Permutation_map fst (sort_names_perm _))) in Hx.
    unfold flt_dir_items in Hx. rewrite map_map, concat_map, map_map in Hx.
    apply in_concat in Hx. destruct Hx as (l & Hl & Hx).
    apply in_map_iff in Hl. destruct Hl as (e & <- & He).
    rewrite Forall_forall in IH. destruct (IH e He _ _ _ Hx) as (s & -> & _).
    exists (slash :: fst e ++ s). rewrite <- app_assoc. split; [reflexivity|].
    right. eexists; reflexivity.
Qed.

(* the path strings of a well-formed tree are pairwise distinct *)
Theorem flt_paths_NoDup t : wf_node t -> forall path rel,
  NoDup (map fst (snd (flt path rel t))).
Proof.
  induction t as [d|es IH] using node_ind'; intros Hwf path rel.
  - cbn. constructor; [intros []|constructor].
  - apply wf_Dir in Hwf. destruct Hwf as [[Hn Hok] Hc]. rewrite flt_Dir.
    eapply Permutation_NoDup;
      [apply Permutation_map, Permutation_sym, sort_names_perm|].
    unfold flt_dir_items. rewrite map_map, concat_map, map_map.
    induction es as [|e es IHes]; cbn [map concat]; [constructor|].
    inversion IH as [|x l He Hes]; subst. inversion Hc as [|x l Hwe Hwes]; subst.
    cbn [map] in Hn, Hok. inversion Hn as [|x l Hne Hnes]; subst.
    inversion Hok as [|x l Hoe Hoes]; subst.
    apply NoDup_app'.
    + apply He. exact Hwe.
    + apply IHes; assumption.
    + intros x Hx C. apply in_concat in C. destruct C as (l & Hl & C).
      apply in_map_iff in Hl. destruct Hl as (e' & <- & He').
      destruct (flt_paths_below _ _ _ _ Hx) as (s & E1 & Hs).
      destruct (flt_paths_below _ _ _ _ C) as (s' & E2 & Hs').
      rewrite E1 in E2. rewrite <- !app_assoc in E2. apply app_inv_head in E2.
      cbn [app] in E2. injection E2 as E2.
      apply Hne. replace (fst e) with (fst e'); [apply in_map; exact He'|].
      symmetry. apply (name_prefix_inj (fst e) (fst e') s s'); try assumption.
      * apply Hoe.
      * rewrite Forall_forall in Hoes. apply (Hoes (fst e')). apply in_map; exact He'.
Qed.

Lemma flt_perm_mut :
  (forall t t', node_perm t t' -> wf_node t -> forall path rel, flt path rel t = flt path rel t') /\
  (forall es es', entries_perm es es' -> Forall (fun e => wf_node (snd e)) es ->
     forall path rel, map (flt_child path rel) es = map (flt_child path rel) es').
Proof.
  apply node_entries_perm_ind.
  - reflexivity.
  - intros es es' es'' _ IH Hp Hwf path rel.
    pose proof (flt_paths_NoDup _ Hwf path rel) as Hnd. rewrite flt_Dir in Hnd.
    apply wf_Dir in Hwf. destruct Hwf as [_ Hc].
    specialize (IH Hc path rel). rewrite !flt_Dir_eq.
    assert (Hp' : Permutation (map (flt_child path rel) es) (map (flt_child path rel) es''))
      by (rewrite IH; apply Permutation_map; exact Hp).
    f_equal.
    + apply list_sum_perm, Permutation_map. exact Hp'.
    + apply sort_names_perm_eq.
      * unfold flt_dir_items. rewrite <- !flat_map_concat_map.
        apply flat_map_perm. exact Hp'.
      * eapply Permutation_NoDup; [|exact Hnd].
        apply Permutation_map, sort_names_perm.
  - reflexivity.
  - intros n c c' es es' _ IHc _ IHes Hwf path rel. inversion Hwf as [|x l Hc Hes]; subst.
    cbn [map]. cbn [snd] in Hc. rewrite (IHes Hes). unfold flt_child at 1 3. cbn [fst snd].
    rewrite (IHc Hc). reflexivity.
Qed.

(* C08 for filelist_total *)
Theorem filelist_total_enum_irrelevant root t t' :
  node_perm t t' -> wf_node t -> filelist_total root t = filelist_total root t'.
Proof.
  intros Hp Hwf. unfold filelist_total. rewrite (proj1 flt_perm_mut t t' Hp Hwf). reflexivity.
Qed.

(* every file exactly once, with its data *)
Lemma flt_files t : forall path rel,
  Permutation (map snd (snd (flt path rel t))) (files_of rel t).
Proof.
  induction t as [d|es IH] using node_ind'; intros path rel; [apply Permutation_refl|].
  rewrite flt_Dir. eapply perm_trans; [apply Permutation_map, sort_names_perm|].
  unfold flt_dir_items. rewrite concat_map, !map_map. cbn [files_of].
  rewrite flat_map_concat_map.
  induction IH as [|e es He _ IHes]; cbn [map concat]; [constructor|].
  apply Permutation_app; [apply He|exact IHes].
Qed.

(* T2 (C01), first part *)
Theorem filelist_total_files root t :
  Permutation (snd (filelist_total root t)) (files_of [] t).
Proof. unfold filelist_total. cbn [snd]. apply flt_files. Qed.

Lemma filelist_total_File root d : filelist_total root (File d) = (length d, [([], d)]).
Proof. reflexivity. Qed.

(* ========================================================================================== *)
(* 7. reading the written metafile                                                             *)
(* ========================================================================================== *)

Definition top_get (k : bytes) (m : value) : option value :=
  match m with BDict top => lookup k top | _ => None end.
Definition info_of (m : value) : dict :=
  match top_get k_info m with Some (BDict i) => i | _ => [] end.
Definition info_get (k : bytes) (m : value) : option value := lookup k (info_of m).
Definition layers_of (m : value) : dict :=
  match top_get k_piece_layers m with Some (BDict l) => l | _ => [] end.

Lemma sort_layers_arg_NoDup meta :
  NoDup (map fst meta) ->
  NoDup (map fst match lookup k_piece_layers meta with
                 | Some (BDict l) => update k_piece_layers (BDict (sort_keys l)) meta
                 | _ => meta
                 end).
Proof.
  intros Hn. destruct (lookup k_piece_layers meta) as [[| | |l]|]; try exact Hn.
  apply update_NoDup. exact Hn.
Qed.

Lemma sort_layers_lookup_other meta k :
  NoDup (map fst meta) -> k <> k_piece_layers -> lookup k (sort_layers meta) = lookup k meta.
Proof.
  intros Hn Hk. unfold sort_layers. rewrite lookup_sort_keys by (apply sort_layers_arg_NoDup, Hn).
  destruct (lookup k_piece_layers meta) as [[| | |l]|]; try reflexivity.
  apply lookup_update_other. congruence.
Qed.

Lemma sort_layers_lookup_layers meta l :
  NoDup (map fst meta) -> lookup k_piece_layers meta = Some (BDict l) ->
  lookup k_piece_layers (sort_layers meta) = Some (BDict (sort_keys l)).
Proof.
  intros Hn Hl. unfold sort_layers. rewrite lookup_sort_keys by (apply sort_layers_arg_NoDup, Hn).
  rewrite Hl. apply lookup_update_same.
Qed.

Lemma written_info meta info :
  NoDup (map fst meta) ->
  info_of (BDict (sort_meta (close_meta meta info))) = sort_keys info.
Proof.
  intros Hn. unfold info_of, top_get. rewrite sort_meta_close.
  rewrite sort_layers_lookup_other; [|apply update_NoDup; exact Hn|neq].
  unfold close_meta. rewrite lookup_update_same. reflexivity.
Qed.

Lemma written_info_get meta info k :
  NoDup (map fst meta) -> NoDup (map fst info) ->
  info_get k (BDict (sort_meta (close_meta meta info))) = lookup k info.
Proof.
  intros Hm Hi. unfold info_get. rewrite written_info by exact Hm. apply lookup_sort_keys, Hi.
Qed.

Lemma written_layers meta info l :
  NoDup (map fst meta) -> lookup k_piece_layers meta = Some (BDict l) ->
  layers_of (BDict (sort_meta (close_meta meta info))) = sort_keys l.
Proof.
  intros Hn Hl. unfold layers_of, top_get. rewrite sort_meta_close.
  rewrite (sort_layers_lookup_layers _ l); [reflexivity|apply update_NoDup; exact Hn|].
  unfold close_meta. rewrite lookup_update_other by neq. exact Hl.
Qed.

Lemma written_top_other meta info k :
  NoDup (map fst meta) -> k <> k_info -> k <> k_piece_layers ->
  top_get k (BDict (sort_meta (close_meta meta info))) = lookup k meta.
Proof.
  intros Hn N1 N2. unfold top_get. rewrite sort_meta_close.
  rewrite sort_layers_lookup_other; [|apply update_NoDup; exact Hn|exact N2].
  unfold close_meta. apply lookup_update_other. congruence.
Qed.

Ltac lk := repeat first [ rewrite lookup_update_same | rewrite lookup_update_other by neq ].

(* the info keys MetaFile.__init__ may set *)
Lemma meta_init_info_other o name pl k :
  k <> k_comment -> k <> k_private -> k <> k_source -> k <> k_piece_length -> k <> k_name ->
  lookup k (snd (meta_init o name pl)) = None.
Proof.
  intros N1 N2 N3 N4 N5. unfold meta_init. cbv zeta. cbn [snd].
  repeat match goal with
         | |- lookup _ (update _ _ _) = _ => rewrite lookup_update_other by congruence
         | |- lookup _ (if ?c then _ else _) = _ => destruct c
         end; reflexivity.
Qed.

Lemma meta_init_name o name pl : lookup k_name (snd (meta_init o name pl)) = Some (BStr name).
Proof. unfold meta_init. cbv zeta. cbn [snd]. lk. reflexivity. Qed.

Lemma meta_init_piece_length o name pl :
  lookup k_piece_length (snd (meta_init o name pl)) = Some (BInt (Z.of_nat pl)).
Proof. unfold meta_init. cbv zeta. cbn [snd]. lk. reflexivity. Qed.

Lemma meta_init_no_layers o name pl : lookup k_piece_layers (fst (meta_init o name pl)) = None.
Proof.
  unfold meta_init. cbv zeta. cbn [fst].
  repeat match goal with
         | |- lookup _ (update _ _ _) = _ => rewrite lookup_update_other by neq
         | |- lookup _ (if ?c then _ else _) = _ => destruct c
         end; reflexivity.
Qed.

(* ========================================================================================== *)
(* 8. T1 (C08): the written metafile does not depend on the enumeration order                  *)
(* ========================================================================================== *)

Section EnumIrrelevant.
Variable H1 H256 : bytes -> bytes.
Variable B : nat.

Lemma node_perm_is_file t t' : node_perm t t' -> is_file t = is_file t'.
Proof. destruct 1; reflexivity. Qed.

Theorem create_v1_raw_enum_irrelevant align o root name pl t t' :
  node_perm t t' -> wf_node t ->
  create_v1_raw H1 align o root name pl t = create_v1_raw H1 align o root name pl t'.
Proof.
  intros Hp Hwf. unfold create_v1_raw.
  rewrite (filelist_total_enum_irrelevant root t t' Hp Hwf), (node_perm_is_file t t' Hp).
  reflexivity.
Qed.

Theorem create_v1_enum_irrelevant align o root name pl t t' :
  node_perm t t' -> wf_node t ->
  create_v1 H1 align o root name pl t = create_v1 H1 align o root name pl t'.
Proof.
  intros Hp Hwf. unfold create_v1. rewrite (create_v1_raw_enum_irrelevant align o root name pl t t' Hp Hwf).
  reflexivity.
Qed.

Theorem create_v2_class_enum_irrelevant o name pl t t' :
  node_perm t t' -> wf_node t ->
  create_v2_class H256 B o name pl t = create_v2_class H256 B o name pl t'.
Proof.
  intros Hp Hwf. unfold create_v2_class, create_v2_class_raw.
  pose proof (traverse_enum_irrelevant (v2_leaf H256 B pl) t t' Hp Hwf) as E.
  destruct Hp as [d|es es' es'' Hq Hp]; [reflexivity|].
  unfold root_rel. cbn [is_file]. rewrite E. reflexivity.
Qed.

Theorem create_hybrid_class_enum_irrelevant o name pl t t' :
  node_perm t t' -> wf_node t ->
  create_hybrid_class H1 H256 B o name pl t = create_hybrid_class H1 H256 B o name pl t'.
Proof.
  intros Hp Hwf. unfold create_hybrid_class, create_hybrid_class_raw.
  pose proof (fun pad => traverse_enum_irrelevant (hybrid_leaf H1 H256 B pad pl) t t' Hp Hwf) as E.
  destruct Hp as [d|es es' es'' Hq Hp]; [reflexivity|].
  unfold root_rel. cbn [is_file]. rewrite E. reflexivity.
Qed.

Theorem create_assembler_enum_irrelevant hybrid o name pl t t' :
  node_perm t t' -> wf_node t ->
  create_assembler H1 H256 B hybrid o name pl t = create_assembler H1 H256 B hybrid o name pl t'.
Proof.
  intros Hp Hwf. unfold create_assembler, create_assembler_raw.
  pose proof (fun pad => traverse_enum_irrelevant (asm_leaf H1 H256 B hybrid pad pl) t t' Hp Hwf)
    as E.
  destruct Hp as [d|es es' es'' Hq Hp]; [reflexivity|].
  unfold root_rel. cbn [is_file]. rewrite E. reflexivity.
Qed.
End EnumIrrelevant.

(* ========================================================================================== *)
(* 9. T2 (C01): the v1 creator                                                                 *)
(* ========================================================================================== *)

Section V1.
Variable H1 : bytes -> bytes.

(* the info dictionary TorrentFile.assemble leaves behind *)
Definition v1_files_value (align : bool) (pl : nat) (fl : list (list bytes * bytes)) : value :=
  BList (if align then flat_map (v1_aligned_entries pl) fl
         else map (fun f => file_entry (fst f) (length (snd f))) fl).

Definition v1_info (align : bool) (o : options) (root name : bytes) (pl : nat) (t : node) : dict :=
  let info := snd (meta_init o name pl) in
  let fl := snd (filelist_total root t) in
  update k_pieces
    (BStr (concat (hasher_pieces H1 (if is_file t then false else align) pl (map snd fl))))
    (if is_file t then update k_length (BInt (Z.of_nat (fst (filelist_total root t)))) info
     else update k_files (v1_files_value align pl fl) info).

Lemma create_v1_raw_eq align o root name pl t :
  create_v1_raw H1 align o root name pl t =
  close_meta (fst (meta_init o name pl)) (v1_info align o root name pl t).
Proof.
  unfold create_v1_raw, v1_info, v1_files_value. cbv zeta.
  destruct (meta_init o name pl) as [meta info].
  destruct (filelist_total root t) as [size fl]. cbn [fst snd].
  destruct (is_file t); [reflexivity|]. destruct align; reflexivity.
Qed.

Lemma v1_info_NoDup align o root name pl t : NoDup (map fst (v1_info align o root name pl t)).
Proof.
  unfold v1_info. cbv zeta. apply update_NoDup.
  destruct (is_file t); apply update_NoDup; apply meta_init_info_NoDup.
Qed.

Lemma create_v1_info_get align o root name pl t key :
  info_get key (create_v1 H1 align o root name pl t) = lookup key (v1_info align o root name pl t).
Proof.
  unfold create_v1. rewrite create_v1_raw_eq.
  apply written_info_get; [apply meta_init_meta_NoDup|apply v1_info_NoDup].
Qed.

(* directory, no --align: one entry per file, in the order of the sorted path strings; the
   pieces are the BEP 3 hashing of the concatenation of exactly these files *)
Theorem create_v1_dir_files o root name pl es :
  let m := create_v1 H1 false o root name pl (Dir es) in
  let fl := snd (filelist_total root (Dir es)) in
  Permutation fl (files_of [] (Dir es)) /\
  info_get k_files m = Some (BList (map (fun f => file_entry (fst f) (length (snd f))) fl)) /\
  info_get k_length m = None /\
  info_get k_pieces m = Some (BStr (concat (hasher_pieces H1 false pl (map snd fl)))).
Proof.
  cbv zeta. split; [apply filelist_total_files|].
  rewrite !create_v1_info_get. unfold v1_info, v1_files_value. cbv zeta. cbn [is_file].
  repeat split; lk; try reflexivity.
  apply meta_init_info_other; neq.
Qed.

Theorem create_v1_dir_pieces o root name pl es :
  0 < pl -> has_file (Dir es) ->
  info_get k_pieces (create_v1 H1 false o root name pl (Dir es)) =
  Some (BStr (concat (map H1 (chunks pl
         (concat (map snd (snd (filelist_total root (Dir es))))))))).
Proof.
  intros Hpl Hf.
  destruct (create_v1_dir_files o root name pl es) as (Hp & _ & _ & E). cbv zeta in Hp, E.
  rewrite E. rewrite hasher_pieces_noalign; [reflexivity|exact Hpl|].
  intros C. apply map_eq_nil in C. rewrite C in Hp. apply Permutation_nil in Hp.
  apply Hf. exact Hp.
Qed.

(* directory with --align (C15): the entry list with pad files, and the hashing of the padded
   stream *)
Theorem create_v1_dir_aligned o root name pl es :
  0 < pl -> has_file (Dir es) ->
  let m := create_v1 H1 true o root name pl (Dir es) in
  let fl := snd (filelist_total root (Dir es)) in
  info_get k_files m = Some (BList (flat_map (v1_aligned_entries pl) fl)) /\
  info_get k_length m = None /\
  info_get k_pieces m =
    Some (BStr (concat (map H1 (chunks pl (concat (map (pad_to pl) (map snd fl))))))).
Proof.
  intros Hpl Hf. cbv zeta.
  rewrite !create_v1_info_get. unfold v1_info, v1_files_value. cbv zeta. cbn [is_file].
  repeat split; lk; try reflexivity.
  - apply meta_init_info_other; neq.
  - rewrite hasher_pieces_align; [reflexivity|exact Hpl|].
    intros C. apply map_eq_nil in C.
    pose proof (filelist_total_files root (Dir es)) as Hp. rewrite C in Hp.
    apply Permutation_nil in Hp. apply Hf. exact Hp.
Qed.

(* single file: info.length, no files list, plain BEP 3 pieces -- also with --align *)
Theorem create_v1_single_file align o root name pl d :
  0 < pl ->
  let m := create_v1 H1 align o root name pl (File d) in
  info_get k_length m = Some (BInt (Z.of_nat (length d))) /\
  info_get k_files m = None /\
  info_get k_pieces m = Some (BStr (concat (map H1 (chunks pl d)))).
Proof.
  intros Hpl. cbv zeta.
  rewrite !create_v1_info_get. unfold v1_info. cbv zeta. cbn [is_file].
  rewrite filelist_total_File. cbn [fst snd map].
  repeat split; lk; try reflexivity.
  - apply meta_init_info_other; neq.
  - rewrite hasher_pieces_noalign by (assumption || discriminate).
    cbn [concat]. rewrite app_nil_r. reflexivity.
Qed.

Theorem create_v1_name_piece_length align o root name pl t :
  let m := create_v1 H1 align o root name pl t in
  info_get k_name m = Some (BStr name) /\
  info_get k_piece_length m = Some (BInt (Z.of_nat pl)).
Proof.
  cbv zeta. rewrite !create_v1_info_get. unfold v1_info. cbv zeta.
  split; destruct (is_file t); lk; [apply meta_init_name|apply meta_init_name| |];
    apply meta_init_piece_length.
Qed.

End V1.

(* ========================================================================================== *)
(* 10. the executable well-formedness check is sound                                           *)
(* ========================================================================================== *)

Lemma nodup_namesb_sound ns : nodup_namesb ns = true -> NoDup ns.
Proof.
  induction ns as [|n ns IH]; cbn [nodup_namesb]; intros H; [constructor|].
  apply andb_true_iff in H. destruct H as [H1 H2]. constructor; [|apply IH; exact H2].
  intros C. apply negb_true_iff in H1.
  assert (E : existsb (bytes_eqb n) ns = true)
    by (apply existsb_exists; exists n; split; [exact C|apply bytes_eqb_refl]).
  congruence.
Qed.

Lemma name_okb_sound n : name_okb n = true -> name_ok n.
Proof.
  unfold name_okb, name_ok. destruct n as [|c n]; [discriminate|]. intros H.
  split; [discriminate|]. intros C. apply negb_true_iff in H.
  assert (E : existsb (Ascii.eqb slash) (c :: n) = true)
    by (apply existsb_exists; exists slash; split; [exact C|apply Ascii.eqb_refl]).
  congruence.
Qed.

Theorem wf_nodeb_sound t : wf_nodeb t = true -> wf_node t.
Proof.
  induction t as [d|es IH] using node_ind'; intros H; [exact I|].
  cbn [wf_nodeb] in H. apply andb_true_iff in H. destruct H as [H H3].
  apply andb_true_iff in H. destruct H as [H1 H2]. apply wf_Dir. split; [split|].
  - apply nodup_namesb_sound. exact H1.
  - apply Forall_forall. intros n Hn. apply name_okb_sound.
    rewrite forallb_forall in H2. apply H2. exact Hn.
  - clear H1 H2. induction es as [|e es IHes]; [constructor|].
    apply andb_true_iff in H3. destruct H3 as [He Hes]. inversion IH; subst.
    constructor; [auto|apply IHes; assumption].
Qed.

(* ========================================================================================== *)
(* 11. examples: the hypotheses are satisfiable (toy hashes, B = 2, k = 1, pl = 4)             *)
(* ========================================================================================== *)

Module CreatorsProofsExamples.
Import CreatorsExamples.
Import String.StringSyntax.

Example ex_tree_wf : wf_node ex_tree.
Proof. apply wf_nodeb_sound. vm_compute. reflexivity. Qed.

Example ex_tree_has_file : has_file ex_tree.
Proof. unfold has_file. vm_compute. discriminate. Qed.

Example ex_tree_perm : node_perm ex_tree ex_tree'.
Proof.
  unfold ex_tree, ex_tree'.
  eapply np_dir.
  - apply ep_cons; [apply node_perm_refl|]. apply ep_cons; [apply node_perm_refl|].
    apply ep_cons; [|apply ep_nil].
    eapply np_dir; [|apply perm_swap].
    apply ep_cons; [apply node_perm_refl|]. apply ep_cons; [apply node_perm_refl|apply ep_nil].
  - eapply perm_trans; [apply perm_skip, perm_swap|apply perm_swap].
Qed.

(* T1 instantiated *)
Example ex_T1_assembler :
  create_assembler T1 T256 2 true ex_opts (bs "r") 4 ex_tree =
  create_assembler T1 T256 2 true ex_opts (bs "r") 4 ex_tree'.
Proof. apply create_assembler_enum_irrelevant; [exact ex_tree_perm|exact ex_tree_wf]. Qed.

Example ex_T1_v1 :
  create_v1 T1 false ex_opts (bs "r") (bs "r") 4 ex_tree =
  create_v1 T1 false ex_opts (bs "r") (bs "r") 4 ex_tree'.
Proof. apply create_v1_enum_irrelevant; [exact ex_tree_perm|exact ex_tree_wf]. Qed.

(* T5 instantiated: B = 2 > 0, pl = 4 = 2 * 2^1 *)
Example ex_T5 :
  create_assembler T1 T256 2 true ex_opts (bs "r") 4 ex_tree =
  create_hybrid_class T1 T256 2 ex_opts (bs "r") 4 ex_tree.
Proof. apply (create_assembler_hybrid_agree T1 T256 2 (Nat.lt_0_succ 1) 1 4 eq_refl). Qed.

(* T2 instantiated and computed *)
Example ex_T2 :
  info_get k_pieces (create_v1 T1 false ex_opts (bs "r") (bs "r") 4 ex_tree) =
  Some (BStr (bs "<xyzh><ello><0123><4567><89>")).
Proof.
  unfold ex_tree. rewrite create_v1_dir_pieces; [|lia|exact ex_tree_has_file].
  vm_compute. reflexivity.
Qed.
End CreatorsProofsExamples.

(* ========================================================================================== *)
(* 12. assumptions                                                                             *)
(* ========================================================================================== *)
Print Assumptions create_assembler_v2_agree.
Print Assumptions create_assembler_hybrid_agree.
Print Assumptions traverse_enum_irrelevant.
Print Assumptions filelist_total_enum_irrelevant.
Print Assumptions create_v1_enum_irrelevant.
Print Assumptions create_v2_class_enum_irrelevant.
Print Assumptions create_hybrid_class_enum_irrelevant.
Print Assumptions create_assembler_enum_irrelevant.
Print Assumptions filelist_total_files.
Print Assumptions flt_paths_NoDup.
Print Assumptions create_v1_dir_files.
Print Assumptions create_v1_dir_pieces.
Print Assumptions create_v1_dir_aligned.
Print Assumptions create_v1_single_file.
Print Assumptions traverse_spec.
Print Assumptions wf_nodeb_sound.
