(* Proofs about Model/Creators.v, part 2: the info dictionaries of the v2-capable creators in
   closed form, T6 (C06: canonical + structurally valid), T3 (C02: file tree, pieces roots,
   piece layers), T4 (C03: the v1 view of a hybrid metafile). *)
From TF Require Import Lib.Base Lib.Lex Lib.Decimal Lib.Chunks Spec.Bep52
                       Model.Bencode Model.Hasher Model.HasherV2 Model.Creators
                       Proofs.BencodeProofs Proofs.HasherCorrect Proofs.HasherV2Correct
                       Proofs.CreatorsProofs.
From Coq Require Import Permutation Sorted.

Ltac neq := apply bytes_eqb_neq; vm_compute; reflexivity.
Ltac lk := repeat first [ rewrite lookup_update_same | rewrite lookup_update_other by neq ].

(* ========================================================================================== *)
(* 0. helpers                                                                                  *)
(* ========================================================================================== *)

Lemma fold_left_ext {A C} (f g : A -> C -> A) l : (forall a c, f a c = g a c) ->
  forall a, fold_left f l a = fold_left g l a.
Proof. intros E. induction l as [|c l IH]; intros a; cbn [fold_left]; [reflexivity|]. rewrite E. apply IH. Qed.

Lemma in_update_cases k' v' k v d :
  In (k', v') (update k v d) -> (k' = k /\ v' = v) \/ In (k', v') d.
Proof.
  induction d as [|[k0 v0] d IH]; cbn [update].
  - intros [E|[]]. injection E as <- <-. left; split; reflexivity.
  - destruct (bytes_eqb_spec k0 k) as [->|N].
    + intros [E|H]; [injection E as <- <-; left; split; reflexivity|right; right; exact H].
    + intros [E|H]; [right; left; exact E|]. destruct (IH H) as [L|R]; [left; exact L|right; right; exact R].
Qed.

Lemma Forall_update_replace (P : bytes * value -> Prop) k v d :
  NoDup (map fst d) -> Forall (fun kv => fst kv <> k -> P kv) d -> P (k, v) ->
  Forall P (update k v d).
Proof.
  intros Hn H Hv. induction H as [|[k0 v0] d Hx H IH]; cbn [update].
  - constructor; [exact Hv|constructor].
  - cbn [map fst] in Hn. inversion Hn as [|x l Hk Hd]; subst.
    destruct (bytes_eqb_spec k0 k) as [->|N].
    + constructor; [exact Hv|]. rewrite Forall_forall in *. intros kv Hkv. apply H; [exact Hkv|].
      intros E. apply Hk. rewrite <- E. apply in_map. exact Hkv.
    + constructor; [apply Hx; exact N|apply IH; exact Hd].
Qed.

Lemma Forall_update_key (P : bytes * value -> Prop) k v d :
  Forall P d -> P (k, v) -> Forall P (update k v d).
Proof.
  intros H Hv. induction H as [|[k0 v0] d Hx H IH]; cbn [update].
  - constructor; [exact Hv|constructor].
  - destruct (bytes_eqb_spec k0 k) as [->|N]; constructor; auto.
Qed.

Definition vals_canon (d : dict) : Prop := Forall (fun kv => canon (snd kv)) d.

Lemma vals_canon_update k v d : vals_canon d -> canon v -> vals_canon (update k v d).
Proof. intros H Hv. apply Forall_update_key; assumption. Qed.

Lemma canon_sorted_dict d : NoDup (map fst d) -> vals_canon d -> canon (BDict (sort_keys d)).
Proof. apply sort_keys_canon_top. Qed.

Lemma canon_str_list l : canon (BList (map BStr l)).
Proof. constructor. apply Forall_map. apply Forall_forall. intros; constructor. Qed.

Lemma canon_literal d : sorted_keysb d = true -> vals_canon d -> canon (BDict d).
Proof. intros Hs Hv. constructor; [apply sorted_keysb_sound; exact Hs|exact Hv]. Qed.

Lemma canon_file_entry rel size : canon (file_entry rel size).
Proof.
  apply canon_literal; [reflexivity|].
  constructor; [constructor|]. constructor; [apply canon_str_list|constructor].
Qed.

Lemma canon_pad_entry n : canon (pad_entry n).
Proof. apply canon_literal; [reflexivity|]. repeat constructor. Qed.

(* ========================================================================================== *)
(* 1. written metafile: canonical form                                                         *)
(* ========================================================================================== *)

Lemma written_canon meta info :
  NoDup (map fst meta) -> NoDup (map fst info) -> vals_canon info ->
  Forall (fun kv => fst kv <> k_info -> fst kv <> k_piece_layers -> canon (snd kv)) meta ->
  (forall v, lookup k_piece_layers meta = Some v ->
             exists l, v = BDict l /\ NoDup (map fst l) /\ vals_canon l) ->
  canon (BDict (sort_meta (close_meta meta info))).
Proof.
  intros Hm Hi Hci Hcm Hl. rewrite sort_meta_close. unfold sort_layers.
  assert (HM : NoDup (map fst (close_meta meta (sort_keys info))))
    by (apply update_NoDup; exact Hm).
  apply sort_keys_canon_top; [apply sort_layers_arg_NoDup; exact HM|].
  assert (HcM : Forall (fun kv => fst kv <> k_piece_layers -> canon (snd kv))
                       (close_meta meta (sort_keys info))).
  { unfold close_meta. apply Forall_update_replace; [exact Hm|exact Hcm|].
    intros _. cbn [snd]. apply canon_sorted_dict; assumption. }
  assert (El : lookup k_piece_layers (close_meta meta (sort_keys info))
               = lookup k_piece_layers meta)
    by (unfold close_meta; apply lookup_update_other; neq).
  rewrite El. destruct (lookup k_piece_layers meta) as [v|] eqn:E.
  - destruct (Hl v eq_refl) as (l & -> & Hnl & Hcl).
    apply Forall_update_replace; [exact HM|exact HcM|].
    cbn [snd]. apply canon_sorted_dict; assumption.
  - apply lookup_None in El.
    rewrite Forall_forall in *. intros kv Hkv. apply HcM; [exact Hkv|].
    intros C. apply El. rewrite <- C. apply in_map. exact Hkv.
Qed.

(* ---------- the dictionaries made by MetaFile.__init__ ---------- *)

Lemma meta_init_info_canon o name pl : vals_canon (snd (meta_init o name pl)).
Proof.
  unfold meta_init. cbv zeta. cbn [snd].
  repeat match goal with
         | |- vals_canon (update _ _ _) => apply vals_canon_update; [|constructor]
         | |- vals_canon (if ?c then _ else _) => destruct c
         end; constructor.
Qed.

Definition top_ok (kv : bytes * value) : Prop :=
  fst kv <> k_info -> fst kv <> k_piece_layers -> canon (snd kv).

Lemma meta_init_meta_canon o name pl : Forall top_ok (fst (meta_init o name pl)).
Proof.
  unfold meta_init. cbv zeta. cbn [fst].
  assert (H0 : Forall top_ok
                 [(k_created_by, BStr (o_created_by o));
                  (k_creation_date, BInt (o_creation_date o)); (k_info, BDict [])]).
  { repeat constructor. }
  repeat match goal with
         | |- Forall top_ok (update _ _ _) => apply Forall_update_key
         | |- Forall top_ok (if ?c then _ else _) => destruct c
         end; try exact H0; intros _ _; cbn [snd]; try apply canon_str_list; try constructor.
  all: try (apply Forall_map; apply Forall_forall; intros tier _; apply canon_str_list).
Qed.

Lemma meta_init_layers_vacuous o name pl v :
  lookup k_piece_layers (fst (meta_init o name pl)) = Some v ->
  exists l, v = BDict l /\ NoDup (map fst l) /\ vals_canon l.
Proof. rewrite meta_init_no_layers. discriminate. Qed.

(* ========================================================================================== *)
(* 2. T6 (C06) for the v1 creator                                                              *)
(* ========================================================================================== *)

Section V1Canon.
Variable H1 : bytes -> bytes.

Lemma v1_files_value_canon align pl fl : canon (v1_files_value align pl fl).
Proof.
  unfold v1_files_value. constructor. destruct align.
  - apply Forall_forall. intros v Hv. apply in_flat_map in Hv. destruct Hv as (f & _ & Hv).
    unfold v1_aligned_entries in Hv. cbv zeta in Hv. destruct Hv as [<-|Hv]; [apply canon_file_entry|].
    destruct (neg_mod (length (snd f)) pl =? 0); [destruct Hv|].
    destruct Hv as [<-|[]]. apply canon_pad_entry.
  - apply Forall_map. apply Forall_forall. intros f _. apply canon_file_entry.
Qed.

Lemma v1_info_canon align o root name pl t : vals_canon (v1_info H1 align o root name pl t).
Proof.
  unfold v1_info. cbv zeta. apply vals_canon_update; [|constructor].
  destruct (is_file t); apply vals_canon_update; try apply meta_init_info_canon;
    [constructor|apply v1_files_value_canon].
Qed.

(* both v1 variants (align or not), every tree, every option subset *)
Theorem create_v1_canon align o root name pl t : canon (create_v1 H1 align o root name pl t).
Proof.
  unfold create_v1. rewrite create_v1_raw_eq. apply written_canon.
  - apply meta_init_meta_NoDup.
  - apply v1_info_NoDup.
  - apply v1_info_canon.
  - apply meta_init_meta_canon.
  - apply meta_init_layers_vacuous.
Qed.

Hypothesis H1_len : forall x, length (H1 x) = 20.

Lemma length_concat_map_H1 xs : length (concat (map H1 xs)) mod 20 = 0.
Proof.
  rewrite (length_concat_full 20); [apply Nat.mod_mul; discriminate|].
  apply Forall_map. apply Forall_forall. intros x _. apply H1_len.
Qed.

(* name, piece length, pieces (a multiple of 20 bytes), exactly one of length / files *)
Definition v1_structure_ok (m : value) : Prop :=
  (exists n, info_get k_name m = Some (BStr n)) /\
  (exists z, info_get k_piece_length m = Some (BInt z)) /\
  (exists ps, info_get k_pieces m = Some (BStr ps) /\ length ps mod 20 = 0) /\
  ((exists z, info_get k_length m = Some (BInt z)) /\ info_get k_files m = None \/
   info_get k_length m = None /\ exists l, info_get k_files m = Some (BList l)).

Theorem create_v1_structure_ok align o root name pl t :
  v1_structure_ok (create_v1 H1 align o root name pl t).
Proof.
  unfold v1_structure_ok. rewrite !create_v1_info_get.
  unfold v1_info, v1_files_value, hasher_pieces. cbv zeta.
  split; [|split; [|split]].
  - exists name. destruct (is_file t); lk; apply meta_init_name.
  - eexists. destruct (is_file t); lk; apply meta_init_piece_length.
  - eexists. split; [lk; reflexivity|]. apply length_concat_map_H1.
  - destruct (is_file t); lk; [left|right]; (split; [|try (apply meta_init_info_other; neq)]).
    + eexists; reflexivity.
    + apply meta_init_info_other; neq.
    + eexists; reflexivity.
Qed.
End V1Canon.

(* ========================================================================================== *)
(* 3. the v2-capable creators in closed form                                                   *)
(* ========================================================================================== *)

Section V2Capable.
Variable H1 H256 : bytes -> bytes.
Variable B : nat.
Hypothesis HB : 0 < B.
Variable k pl : nat.
Hypothesis Hpl : pl = B * 2 ^ k.

Let pl_pos : 0 < pl := HasherV2Correct.pl_pos B HB k pl Hpl.

(* the files in the order _traverse visits them: per-directory sorted names *)
Definition sfiles (t : node) : list (list bytes * bytes) := files_of (root_rel t) (sort_tree t).

(* the dictionary _traverse returns *)
Definition tree_spec (t : node) : dict := tree_ord (leaf_of H256 B pl) (sort_tree t).

Definition layer_step (L : dict) (f : list bytes * bytes) : dict := add_layer H256 B pl (snd f) L.

(* self.piece_layers after the traversal (insertion order = traversal order) *)
Definition layers_spec (t : node) : dict := fold_left layer_step (sfiles t) [].

Definition file_tree_value (name : bytes) (t : node) : value :=
  match t with
  | File _ => BDict [(name, BDict (tree_spec t))]
  | Dir _ => BDict (tree_spec t)
  end.

Lemma add_layer_empty d L : (length d =? 0) = true -> add_layer H256 B pl d L = L.
Proof.
  intros E. apply Nat.eqb_eq in E. unfold add_layer. rewrite E.
  destruct (pl <? 0) eqn:C; [apply Nat.ltb_lt in C; lia|reflexivity].
Qed.

Lemma traverse_v2_eq t : wf_node t ->
  traverse dict (v2_leaf H256 B pl) t (root_rel t) [] = (tree_spec t, layers_spec t).
Proof.
  intros Hwf. rewrite (traverse_spec (v2_leaf H256 B pl) (leaf_of H256 B pl)); [|
    intros d rel st; rewrite v2_leaf_eq; reflexivity | exact Hwf].
  unfold tree_spec, layers_spec, sfiles. f_equal. apply fold_left_ext.
  intros L f. unfold leaf_step, layer_step. rewrite v2_leaf_eq. cbn [snd].
  destruct (length (snd f) =? 0) eqn:E; [symmetry; apply add_layer_empty; exact E|reflexivity].
Qed.

Lemma hybrid_fold padding fs : forall st,
  fold_left (leaf_step hy_state (hybrid_leaf H1 H256 B padding pl)) fs st =
  mk_hy (fold_left layer_step fs (hy_layers st))
        (hy_files st ++ flat_map (fun f => hy_entries pl padding (fst f) (snd f)) fs)
        (hy_pieces st ++ flat_map (fun f => hy_digests H1 pl padding (snd f)) fs).
Proof.
  induction fs as [|f fs IH]; intros st; cbn [fold_left flat_map].
  - rewrite !app_nil_r. destruct st; reflexivity.
  - rewrite IH. unfold leaf_step at 1 2 3. rewrite (hybrid_leaf_eq H1 H256 B HB k pl Hpl).
    cbn [snd hy_layers hy_files hy_pieces]. rewrite <- !app_assoc. f_equal.
    f_equal. unfold layer_step.
    destruct (length (snd f) =? 0) eqn:E; [rewrite add_layer_empty by exact E|]; reflexivity.
Qed.

Definition hybrid_files_spec (t : node) : list value :=
  flat_map (fun f => hy_entries pl (negb (is_file t)) (fst f) (snd f)) (sfiles t).
Definition hybrid_digests_spec (t : node) : list bytes :=
  flat_map (fun f => hy_digests H1 pl (negb (is_file t)) (snd f)) (sfiles t).

Lemma traverse_hybrid_eq t : wf_node t ->
  traverse hy_state (hybrid_leaf H1 H256 B (negb (is_file t)) pl) t (root_rel t) (mk_hy [] [] []) =
  (tree_spec t, mk_hy (layers_spec t) (hybrid_files_spec t) (hybrid_digests_spec t)).
Proof.
  intros Hwf.
  rewrite (traverse_spec (hybrid_leaf H1 H256 B (negb (is_file t)) pl) (leaf_of H256 B pl)); [|
    intros d rel st; rewrite (hybrid_leaf_eq H1 H256 B HB k pl Hpl); reflexivity | exact Hwf].
  rewrite hybrid_fold. reflexivity.
Qed.

(* ---------- info dictionaries ---------- *)

Definition v2_info (o : options) (name : bytes) (t : node) : dict :=
  let info := snd (meta_init o name pl) in
  update k_meta_version (BInt 2)
    match t with
    | File d =>
        update k_length (BInt (Z.of_nat (length d)))
          (update k_file_tree (file_tree_value name t) info)
    | Dir _ => update k_file_tree (file_tree_value name t) info
    end.

Definition hybrid_info (o : options) (name : bytes) (t : node) : dict :=
  let info := update k_meta_version (BInt 2) (snd (meta_init o name pl)) in
  update k_pieces (BStr (concat (hybrid_digests_spec t)))
    match t with
    | File d =>
        update k_length (BInt (Z.of_nat (length d)))
          (update k_file_tree (file_tree_value name t) info)
    | Dir _ =>
        update k_files (BList (hybrid_files_spec t))
          (update k_file_tree (file_tree_value name t) info)
    end.

Definition v2_meta (o : options) (name : bytes) (t : node) : dict :=
  update k_piece_layers (BDict (layers_spec t)) (fst (meta_init o name pl)).

Lemma create_v2_class_raw_eq o name t : wf_node t ->
  create_v2_class_raw H256 B o name pl t = close_meta (v2_meta o name t) (v2_info o name t).
Proof.
  intros Hwf. unfold create_v2_class_raw, v2_meta, v2_info. cbv zeta.
  destruct (meta_init o name pl) as [meta info]. rewrite (traverse_v2_eq t Hwf). cbn [fst snd].
  destruct t; reflexivity.
Qed.

Lemma create_hybrid_class_raw_eq o name t : wf_node t ->
  create_hybrid_class_raw H1 H256 B o name pl t =
  close_meta (v2_meta o name t) (hybrid_info o name t).
Proof.
  intros Hwf. unfold create_hybrid_class_raw, v2_meta, hybrid_info. cbv zeta.
  destruct (meta_init o name pl) as [meta info]. rewrite (traverse_hybrid_eq t Hwf).
  cbn [fst snd hy_layers hy_files hy_pieces]. destruct t; reflexivity.
Qed.

(* the metafiles written by the four v2-capable creator variants *)
Inductive v2_output (o : options) (name : bytes) (t : node) : value -> Prop :=
| out_v2_class : v2_output o name t (create_v2_class H256 B o name pl t)
| out_v2_assembler : v2_output o name t (create_assembler H1 H256 B false o name pl t).
Inductive hybrid_output (o : options) (name : bytes) (t : node) : value -> Prop :=
| out_hybrid_class : hybrid_output o name t (create_hybrid_class H1 H256 B o name pl t)
| out_hybrid_assembler : hybrid_output o name t (create_assembler H1 H256 B true o name pl t).

Lemma v2_output_eq o name t m : wf_node t -> v2_output o name t m ->
  m = BDict (sort_meta (close_meta (v2_meta o name t) (v2_info o name t))).
Proof.
  intros Hwf [|]; [|rewrite (create_assembler_v2_agree H1 H256 B HB k pl Hpl)];
    unfold create_v2_class; rewrite create_v2_class_raw_eq by exact Hwf; reflexivity.
Qed.

Lemma hybrid_output_eq o name t m : wf_node t -> hybrid_output o name t m ->
  m = BDict (sort_meta (close_meta (v2_meta o name t) (hybrid_info o name t))).
Proof.
  intros Hwf [|]; [|rewrite (create_assembler_hybrid_agree H1 H256 B HB k pl Hpl)];
    unfold create_hybrid_class; rewrite create_hybrid_class_raw_eq by exact Hwf; reflexivity.
Qed.

(* ---------- frame facts ---------- *)

Lemma v2_meta_NoDup o name t : NoDup (map fst (v2_meta o name t)).
Proof. apply update_NoDup, meta_init_meta_NoDup. Qed.

Lemma v2_info_NoDup o name t : NoDup (map fst (v2_info o name t)).
Proof.
  unfold v2_info. cbv zeta.
  destruct t; [do 3 apply update_NoDup|do 2 apply update_NoDup]; apply meta_init_info_NoDup.
Qed.

Lemma hybrid_info_NoDup o name t : NoDup (map fst (hybrid_info o name t)).
Proof.
  unfold hybrid_info. cbv zeta. destruct t; do 4 apply update_NoDup; apply meta_init_info_NoDup.
Qed.

Lemma v2_meta_layers o name t : lookup k_piece_layers (v2_meta o name t) = Some (BDict (layers_spec t)).
Proof. apply lookup_update_same. Qed.

Lemma layers_fold_NoDup fs : forall L, NoDup (map fst L) -> NoDup (map fst (fold_left layer_step fs L)).
Proof.
  induction fs as [|f fs IH]; intros L HL; cbn [fold_left]; [exact HL|]. apply IH.
  unfold layer_step, add_layer. destruct (pl <? length (snd f)); [apply update_NoDup|]; exact HL.
Qed.

Lemma layers_spec_NoDup t : NoDup (map fst (layers_spec t)).
Proof. apply layers_fold_NoDup. constructor. Qed.

(* reading the written metafile *)
Lemma v2_output_info_get o name t m key : wf_node t -> v2_output o name t m ->
  info_get key m = lookup key (v2_info o name t).
Proof.
  intros Hwf Hm. rewrite (v2_output_eq o name t m Hwf Hm).
  apply written_info_get; [apply v2_meta_NoDup|apply v2_info_NoDup].
Qed.

Lemma hybrid_output_info_get o name t m key : wf_node t -> hybrid_output o name t m ->
  info_get key m = lookup key (hybrid_info o name t).
Proof.
  intros Hwf Hm. rewrite (hybrid_output_eq o name t m Hwf Hm).
  apply written_info_get; [apply v2_meta_NoDup|apply hybrid_info_NoDup].
Qed.

Lemma v2_output_layers o name t m : wf_node t -> v2_output o name t m ->
  layers_of m = sort_keys (layers_spec t).
Proof.
  intros Hwf Hm. rewrite (v2_output_eq o name t m Hwf Hm).
  apply written_layers; [apply v2_meta_NoDup|apply v2_meta_layers].
Qed.

Lemma hybrid_output_layers o name t m : wf_node t -> hybrid_output o name t m ->
  layers_of m = sort_keys (layers_spec t).
Proof.
  intros Hwf Hm. rewrite (hybrid_output_eq o name t m Hwf Hm).
  apply written_layers; [apply v2_meta_NoDup|apply v2_meta_layers].
Qed.

(* the file tree and meta version are the same in all four *)
Lemma v2_info_file_tree o name t :
  lookup k_file_tree (v2_info o name t) = Some (file_tree_value name t) /\
  lookup k_meta_version (v2_info o name t) = Some (BInt 2).
Proof. unfold v2_info. cbv zeta. destruct t; split; lk; reflexivity. Qed.

Lemma hybrid_info_file_tree o name t :
  lookup k_file_tree (hybrid_info o name t) = Some (file_tree_value name t) /\
  lookup k_meta_version (hybrid_info o name t) = Some (BInt 2).
Proof. unfold hybrid_info. cbv zeta. destruct t; split; lk; reflexivity. Qed.

End V2Capable.

(* ========================================================================================== *)
(* 4. T6 (C06) for the v2-capable creators                                                     *)
(* ========================================================================================== *)

Lemma chunks_elems_nonempty {A} n (l : list A) : 0 < n -> Forall (fun p => p <> []) (chunks n l).
Proof.
  intros Hn. destruct (chunks_full_or_last n l Hn) as (ps & r & E & F & _ & _). rewrite E.
  apply Forall_app. split.
  - eapply Forall_impl; [|exact F]. intros p Hp C. rewrite C in Hp. cbn in Hp. lia.
  - destruct r; constructor; [discriminate|constructor].
Qed.

Lemma in_chunks_in {A} n (l : list A) g x : 0 < n -> In g (chunks n l) -> In x g -> In x l.
Proof.
  intros Hn Hg Hx. rewrite <- (concat_chunks n l Hn). apply in_concat. exists g. split; assumption.
Qed.

Section V2Canon.
Variable H1 H256 : bytes -> bytes.
Variable B : nat.
Hypothesis HB : 0 < B.
Variable k pl : nat.
Hypothesis Hpl : pl = B * 2 ^ k.

Notation leaf_of := (leaf_of H256 B pl).
Notation tree_spec := (tree_spec H256 B pl).
Notation layers_spec := (layers_spec H256 B pl).
Notation layer_step := (layer_step H256 B pl).
Notation file_tree_value := (file_tree_value H256 B pl).
Notation v2_info := (v2_info H256 B pl).
Notation hybrid_info := (hybrid_info H1 H256 B pl).
Notation v2_meta := (v2_meta H256 B pl).
Notation v2_output := (v2_output H1 H256 B pl).
Notation hybrid_output := (hybrid_output H1 H256 B pl).

Lemma leaf_of_canon d : canon (BDict (leaf_of d)).
Proof.
  unfold CreatorsProofs.leaf_of, leaf_empty, leaf_dict.
  destruct (length d =? 0); (apply canon_literal; [reflexivity|]);
    (constructor; [|constructor]); cbn [snd]; (apply canon_literal; [reflexivity|]);
    repeat constructor.
Qed.

Lemma tree_ord_canon u : sorted_tree u -> canon (BDict (tree_ord leaf_of u)).
Proof.
  induction u as [d|es IH] using node_ind'; intros Hs; [apply leaf_of_canon|].
  apply node_all_Dir in Hs. destruct Hs as [Hs Hc]. cbn [tree_ord]. constructor.
  - change key_lt with (@name_lt value). apply StronglySorted_of_map_fst.
    rewrite map_fst_on_snd. exact Hs.
  - apply Forall_map. rewrite Forall_forall in *. intros e He. cbn [on_snd snd].
    apply IH; [exact He|]. apply Hc; exact He.
Qed.

Lemma file_tree_value_canon name t : wf_node t -> canon (file_tree_value name t).
Proof.
  intros Hwf. assert (Ht : canon (BDict (tree_spec t)))
    by (apply tree_ord_canon, sorted_sort_tree, Hwf).
  unfold CreatorsProofs2.file_tree_value. destruct t; [|exact Ht].
  constructor; [constructor; constructor|]. constructor; [exact Ht|constructor].
Qed.

Lemma layers_fold_Forall (P : bytes * value -> Prop) :
  (forall d, pl < length d ->
             P (v2_root H256 B pl d, BStr (concat (v2_layer H256 B pl d)))) ->
  forall fs L, Forall P L -> Forall P (fold_left layer_step fs L).
Proof.
  intros HP. induction fs as [|f fs IH]; intros L HL; cbn [fold_left]; [exact HL|]. apply IH.
  unfold CreatorsProofs2.layer_step, add_layer. destruct (pl <? length (snd f)) eqn:E; [|exact HL].
  apply Forall_update_key; [exact HL|]. apply HP. apply Nat.ltb_lt. exact E.
Qed.

Lemma layers_spec_canon t : vals_canon (layers_spec t).
Proof. apply layers_fold_Forall; [|constructor]. intros d _. constructor. Qed.

Lemma hy_entries_canon padding rel d : Forall canon (hy_entries pl padding rel d).
Proof.
  unfold hy_entries. constructor; [apply canon_file_entry|].
  destruct (length d =? 0); [constructor|].
  destruct (hy_padfile pl padding d); [|constructor].
  constructor; [apply canon_pad_entry|constructor].
Qed.

Lemma hybrid_files_spec_canon t : Forall canon (hybrid_files_spec pl t).
Proof.
  unfold hybrid_files_spec. apply Forall_forall. intros v Hv. apply in_flat_map in Hv.
  destruct Hv as (f & _ & Hv). pose proof (hy_entries_canon (negb (is_file t)) (fst f) (snd f)) as F.
  rewrite Forall_forall in F. apply F. exact Hv.
Qed.

Lemma v2_info_canon o name t : wf_node t -> vals_canon (v2_info o name t).
Proof.
  intros Hwf. pose proof (file_tree_value_canon name t Hwf) as Hft.
  unfold CreatorsProofs2.v2_info. cbv zeta.
  destruct t;
    [do 3 (apply vals_canon_update; [|first [exact Hft|constructor]])
    |do 2 (apply vals_canon_update; [|first [exact Hft|constructor]])];
    apply meta_init_info_canon.
Qed.

Lemma hybrid_info_canon o name t : wf_node t -> vals_canon (hybrid_info o name t).
Proof.
  intros Hwf. pose proof (file_tree_value_canon name t Hwf) as Hft.
  pose proof (hybrid_files_spec_canon t) as Hfl.
  unfold CreatorsProofs2.hybrid_info. cbv zeta.
  destruct t;
    do 4 (apply vals_canon_update; [|first [exact Hft|constructor; exact Hfl|constructor]]);
    apply meta_init_info_canon.
Qed.

Lemma v2_meta_canon o name t : Forall top_ok (v2_meta o name t).
Proof.
  apply Forall_update_key; [apply meta_init_meta_canon|].
  intros _ C. exfalso. apply C. reflexivity.
Qed.

Lemma v2_meta_layers_ok o name t v :
  lookup k_piece_layers (v2_meta o name t) = Some v ->
  exists l, v = BDict l /\ NoDup (map fst l) /\ vals_canon l.
Proof.
  rewrite v2_meta_layers. intros E. injection E as <-. eexists. split; [reflexivity|].
  split; [apply layers_spec_NoDup|apply layers_spec_canon].
Qed.

(* T6: TorrentFileV2, TorrentAssembler (v2), TorrentFileHybrid, TorrentAssembler (hybrid) *)
Theorem v2_output_canon o name t m : wf_node t -> v2_output o name t m -> canon m.
Proof.
  intros Hwf Hm. rewrite (v2_output_eq H1 H256 B HB k pl Hpl o name t m Hwf Hm).
  apply written_canon.
  - apply v2_meta_NoDup.
  - apply v2_info_NoDup.
  - apply v2_info_canon, Hwf.
  - apply v2_meta_canon.
  - apply v2_meta_layers_ok.
Qed.

Theorem hybrid_output_canon o name t m : wf_node t -> hybrid_output o name t m -> canon m.
Proof.
  intros Hwf Hm. rewrite (hybrid_output_eq H1 H256 B HB k pl Hpl o name t m Hwf Hm).
  apply written_canon.
  - apply v2_meta_NoDup.
  - apply hybrid_info_NoDup.
  - apply hybrid_info_canon, Hwf.
  - apply v2_meta_canon.
  - apply v2_meta_layers_ok.
Qed.

Corollary create_v2_class_canon o name t : wf_node t -> canon (create_v2_class H256 B o name pl t).
Proof. intros Hwf. apply (v2_output_canon o name t _ Hwf). constructor. Qed.
Corollary create_assembler_v2_canon o name t :
  wf_node t -> canon (create_assembler H1 H256 B false o name pl t).
Proof. intros Hwf. apply (v2_output_canon o name t _ Hwf). constructor. Qed.
Corollary create_hybrid_class_canon o name t :
  wf_node t -> canon (create_hybrid_class H1 H256 B o name pl t).
Proof. intros Hwf. apply (hybrid_output_canon o name t _ Hwf). constructor. Qed.
Corollary create_assembler_hybrid_canon o name t :
  wf_node t -> canon (create_assembler H1 H256 B true o name pl t).
Proof. intros Hwf. apply (hybrid_output_canon o name t _ Hwf). constructor. Qed.

(* ---------- structure ---------- *)

Hypothesis H1_len : forall x, length (H1 x) = 20.
Hypothesis H256_len : forall x, length (H256 x) = 32.

Lemma tree_root_len h : forall l, l <> [] -> (forall x, In x l -> length x = 32) ->
  length (tree_root H256 h l) = 32.
Proof.
  destruct h as [|h]; intros l Hne Hl; cbn [tree_root]; [|apply H256_len].
  destruct l as [|x l]; [congruence|]. apply Hl. left; reflexivity.
Qed.

Lemma piece_layer_len d : length (concat (bep52_piece_layer H256 B k d)) mod 32 = 0.
Proof.
  rewrite (length_concat_full 32); [apply Nat.mod_mul; discriminate|].
  unfold bep52_piece_layer. apply Forall_map. apply Forall_forall. intros g Hg.
  pose proof (chunks_elems_nonempty (2 ^ k) (leaves H256 B d) (Merkle.pow2_pos k)) as Hne.
  rewrite Forall_forall in Hne. specialize (Hne g Hg).
  apply tree_root_len.
  - unfold pad_leaves. destruct g; [congruence|discriminate].
  - intros x Hx. unfold pad_leaves in Hx. apply in_app_or in Hx. destruct Hx as [Hx|Hx].
    + apply (in_chunks_in _ _ _ _ (Merkle.pow2_pos k) Hg) in Hx. unfold leaves in Hx.
      apply in_map_iff in Hx. destruct Hx as (b & <- & _). apply H256_len.
    + apply repeat_spec in Hx. subst x. apply zeros_length.
Qed.

Lemma layers_spec_lengths t :
  Forall (fun kv => exists s, snd kv = BStr s /\ length s mod 32 = 0) (layers_spec t).
Proof.
  apply layers_fold_Forall; [|constructor]. intros d Hd. eexists. split; [reflexivity|].
  unfold v2_layer. rewrite (hasher_v2_layer H256 B HB k pl Hpl d Hd). apply piece_layer_len.
Qed.

(* meta version 2, a file tree, name, piece length, and top-level piece layers whose values are
   a whole number of SHA-256 digests *)
Definition v2_structure_ok (m : value) : Prop :=
  (exists n, info_get k_name m = Some (BStr n)) /\
  (exists z, info_get k_piece_length m = Some (BInt z)) /\
  info_get k_meta_version m = Some (BInt 2) /\
  (exists ft, info_get k_file_tree m = Some (BDict ft)) /\
  (exists L, top_get k_piece_layers m = Some (BDict L) /\
             Forall (fun kv => exists s, snd kv = BStr s /\ length s mod 32 = 0) L).

Lemma layers_of_top_get meta info L :
  NoDup (map fst meta) -> lookup k_piece_layers meta = Some (BDict L) ->
  top_get k_piece_layers (BDict (sort_meta (close_meta meta info))) = Some (BDict (sort_keys L)).
Proof.
  intros Hn Hl. unfold top_get. rewrite sort_meta_close.
  apply sort_layers_lookup_layers; [apply update_NoDup; exact Hn|].
  unfold close_meta. rewrite lookup_update_other by neq. exact Hl.
Qed.

Lemma v2_structure_common o name t info :
  NoDup (map fst info) ->
  lookup k_name info = Some (BStr name) ->
  lookup k_piece_length info = Some (BInt (Z.of_nat pl)) ->
  lookup k_meta_version info = Some (BInt 2) ->
  lookup k_file_tree info = Some (file_tree_value name t) ->
  v2_structure_ok (BDict (sort_meta (close_meta (v2_meta o name t) info))).
Proof.
  intros Hn E1 E2 E3 E4. unfold v2_structure_ok.
  rewrite !written_info_get by (apply v2_meta_NoDup || exact Hn).
  split; [eexists; exact E1|]. split; [eexists; exact E2|]. split; [exact E3|].
  split.
  - rewrite E4. unfold CreatorsProofs2.file_tree_value. destruct t; eexists; reflexivity.
  - exists (sort_keys (layers_spec t)). split.
    + apply layers_of_top_get; [apply v2_meta_NoDup|apply v2_meta_layers].
    + eapply Forall_perm; [apply Permutation_sym, sort_keys_perm|apply layers_spec_lengths].
Qed.

Theorem v2_output_structure_ok o name t m :
  wf_node t -> v2_output o name t m -> v2_structure_ok m.
Proof.
  intros Hwf Hm. rewrite (v2_output_eq H1 H256 B HB k pl Hpl o name t m Hwf Hm).
  destruct (v2_info_file_tree H256 B pl o name t) as [E1 E2].
  apply v2_structure_common; try assumption.
  - apply v2_info_NoDup.
  - unfold CreatorsProofs2.v2_info. cbv zeta. destruct t; lk; apply meta_init_name.
  - unfold CreatorsProofs2.v2_info. cbv zeta. destruct t; lk; apply meta_init_piece_length.
Qed.

Lemma hybrid_digests_len t : length (concat (hybrid_digests_spec H1 pl t)) mod 20 = 0.
Proof.
  rewrite (length_concat_full 20); [apply Nat.mod_mul; discriminate|].
  unfold hybrid_digests_spec. apply Forall_forall. intros x Hx. apply in_flat_map in Hx.
  destruct Hx as (f & _ & Hx). unfold hy_digests in Hx.
  destruct (length (snd f) =? 0); [destruct Hx|].
  apply in_map_iff in Hx. destruct Hx as (y & <- & _). apply H1_len.
Qed.

(* a hybrid metafile has all of the v1 and all of the v2 structure *)
Theorem hybrid_output_structure_ok o name t m :
  wf_node t -> hybrid_output o name t m -> v1_structure_ok m /\ v2_structure_ok m.
Proof.
  intros Hwf Hm. rewrite (hybrid_output_eq H1 H256 B HB k pl Hpl o name t m Hwf Hm).
  destruct (hybrid_info_file_tree H1 H256 B pl o name t) as [E1 E2].
  assert (En : lookup k_name (hybrid_info o name t) = Some (BStr name))
    by (unfold CreatorsProofs2.hybrid_info; cbv zeta; destruct t; lk; apply meta_init_name).
  assert (Ep : lookup k_piece_length (hybrid_info o name t) = Some (BInt (Z.of_nat pl)))
    by (unfold CreatorsProofs2.hybrid_info; cbv zeta; destruct t; lk; apply meta_init_piece_length).
  split; [|apply v2_structure_common; try assumption; apply hybrid_info_NoDup].
  unfold v1_structure_ok.
  rewrite !written_info_get by (apply v2_meta_NoDup || apply hybrid_info_NoDup).
  split; [eexists; exact En|]. split; [eexists; exact Ep|].
  unfold CreatorsProofs2.hybrid_info. cbv zeta. split.
  - eexists. split; [lk; reflexivity|apply hybrid_digests_len].
  - destruct t; lk; [left|right]; (split; [|try (apply meta_init_info_other; neq)]).
    + eexists; reflexivity.
    + apply meta_init_info_other; neq.
    + eexists; reflexivity.
Qed.

End V2Canon.

(* ========================================================================================== *)
(* 5. T3 (C02): file tree, pieces roots, piece layers                                          *)
(* ========================================================================================== *)

(* the leaves of a file tree in dictionary order: (path, the dictionary under the "" key) *)
Fixpoint leaves_v (rel : list bytes) (v : value) : list (list bytes * value) :=
  match v with
  | BDict d =>
      (fix go (d : dict) : list (list bytes * value) :=
         match d with
         | [] => []
         | kv :: d' =>
             (if bytes_eqb (fst kv) k_empty then [(rel, snd kv)]
              else leaves_v (rel ++ [fst kv]) (snd kv)) ++ go d'
         end) d
  | _ => []
  end.

Lemma leaves_v_dict rel d :
  leaves_v rel (BDict d) =
  flat_map (fun kv => if bytes_eqb (fst kv) k_empty then [(rel, snd kv)]
                      else leaves_v (rel ++ [fst kv]) (snd kv)) d.
Proof. cbn [leaves_v]. induction d as [|kv d IH]; [reflexivity|]. cbn [flat_map]. rewrite IH. reflexivity. Qed.

Section C02.
Variable H1 H256 : bytes -> bytes.
Variable B : nat.
Hypothesis HB : 0 < B.
Variable k pl : nat.
Hypothesis Hpl : pl = B * 2 ^ k.

Notation leaf_of := (leaf_of H256 B pl).
Notation tree_spec := (tree_spec H256 B pl).
Notation layers_spec := (layers_spec H256 B pl).
Notation layer_step := (layer_step H256 B pl).
Notation file_tree_value := (file_tree_value H256 B pl).
Notation v2_output := (v2_output H1 H256 B pl).
Notation hybrid_output := (hybrid_output H1 H256 B pl).
Notation root := (bep52_root H256 B).
Notation layer := (bep52_piece_layer H256 B k).

(* any of the four v2-capable creator variants *)
Definition v2_capable_output (o : options) (name : bytes) (t : node) (m : value) : Prop :=
  v2_output o name t m \/ hybrid_output o name t m.

Lemma v2_capable_file_tree o name t m : wf_node t -> v2_capable_output o name t m ->
  info_get k_file_tree m = Some (file_tree_value name t) /\
  layers_of m = sort_keys (layers_spec t).
Proof.
  intros Hwf [Hm|Hm].
  - rewrite (v2_output_info_get H1 H256 B HB k pl Hpl o name t m _ Hwf Hm).
    rewrite (v2_output_layers H1 H256 B HB k pl Hpl o name t m Hwf Hm).
    split; [apply v2_info_file_tree|reflexivity].
  - rewrite (hybrid_output_info_get H1 H256 B HB k pl Hpl o name t m _ Hwf Hm).
    rewrite (hybrid_output_layers H1 H256 B HB k pl Hpl o name t m Hwf Hm).
    split; [apply hybrid_info_file_tree|reflexivity].
Qed.

(* what BEP 52 prescribes under the "" key of a file: its length, and for a non-empty file
   the merkle root of its 16 KiB blocks; an empty file has no "pieces root" *)
Definition leaf_value (d : bytes) : value :=
  BDict ((k_length, BInt (Z.of_nat (length d))) ::
         (if length d =? 0 then [] else [(k_pieces_root, BStr (root d))])).

Lemma leaf_of_spec d : leaf_of d = [(k_empty, leaf_value d)].
Proof.
  unfold CreatorsProofs.leaf_of, leaf_value, leaf_empty, leaf_dict.
  destruct (length d =? 0) eqn:E; [reflexivity|].
  unfold v2_root. rewrite (hasher_v2_root H256 B HB k pl Hpl); [reflexivity|].
  intros ->. discriminate.
Qed.

Lemma leaves_tree_ord u : wf_node u -> forall rel,
  leaves_v rel (BDict (tree_ord leaf_of u)) =
  map (fun f => (fst f, leaf_value (snd f))) (files_of rel u).
Proof.
  induction u as [d|es IH] using node_ind'; intros Hwf rel.
  - cbn [tree_ord files_of map fst snd]. rewrite leaf_of_spec. reflexivity.
  - apply wf_Dir in Hwf. destruct Hwf as [[_ Hok] Hc].
    cbn [tree_ord files_of]. rewrite leaves_v_dict.
    induction es as [|e es IHes]; [reflexivity|].
    inversion IH as [|x l He Hes]; subst. inversion Hc as [|x l Hce Hces]; subst.
    cbn [map] in Hok. inversion Hok as [|x l [Hne _] Hoks]; subst.
    cbn [map flat_map]. rewrite map_app, IHes by assumption.
    rewrite fst_on_snd, snd_on_snd.
    destruct (bytes_eqb_spec (fst e) k_empty) as [C|_]; [contradiction|].
    rewrite He by assumption. reflexivity.
Qed.

(* T3a (C02_tree_mirrors_disk, C02_root_is_bep52, C02_empty_has_no_root), directory case:
   the leaves of info["file tree"], in dictionary order, are exactly the files of the tree in
   per-directory sorted order, each with its exact length and BEP 52 root *)
Theorem file_tree_mirrors_disk o name es m :
  wf_node (Dir es) -> v2_capable_output o name (Dir es) m ->
  exists ft, info_get k_file_tree m = Some ft /\
    leaves_v [] ft =
    map (fun f => (fst f, leaf_value (snd f))) (files_of [] (sort_tree (Dir es))).
Proof.
  intros Hwf Hm. destruct (v2_capable_file_tree o name _ m Hwf Hm) as [E _].
  eexists. split; [exact E|]. unfold CreatorsProofs2.file_tree_value, CreatorsProofs2.tree_spec.
  apply leaves_tree_ord. apply wf_sort_tree. exact Hwf.
Qed.

(* the same, by path: every file of the tree (as enumerated) is a leaf with its length/root *)
Corollary file_tree_has_every_file o name es m p d :
  wf_node (Dir es) -> v2_capable_output o name (Dir es) m ->
  In (p, d) (files_of [] (Dir es)) ->
  exists ft, info_get k_file_tree m = Some ft /\ In (p, leaf_value d) (leaves_v [] ft).
Proof.
  intros Hwf Hm Hin. destruct (file_tree_mirrors_disk o name es m Hwf Hm) as (ft & E & L).
  exists ft. split; [exact E|]. rewrite L.
  apply (in_map (fun f => (fst f, leaf_value (snd f))) _ (p, d)).
  eapply Permutation_in; [apply Permutation_sym, files_of_sort_tree|exact Hin].
Qed.

(* single file: {name: {"": leaf}} *)
Theorem file_tree_single_file o name d m :
  v2_capable_output o name (File d) m ->
  info_get k_file_tree m = Some (BDict [(name, BDict [(k_empty, leaf_value d)])]).
Proof.
  intros Hm. assert (Hwf : wf_node (File d)) by exact I.
  destruct (v2_capable_file_tree o name _ m Hwf Hm) as [E _]. rewrite E.
  unfold CreatorsProofs2.file_tree_value, CreatorsProofs2.tree_spec. cbn [sort_tree tree_ord].
  rewrite leaf_of_spec. reflexivity.
Qed.

(* ---------- piece layers ---------- *)

Definition big (f : list bytes * bytes) : Prop := pl < length (snd f).
Definition layer_value (d : bytes) : value := BStr (concat (v2_layer H256 B pl d)).

Lemma layer_step_lookup L f r :
  lookup r (layer_step L f) =
  if (pl <? length (snd f)) && bytes_eqb (v2_root H256 B pl (snd f)) r
  then Some (layer_value (snd f)) else lookup r L.
Proof.
  unfold CreatorsProofs2.layer_step, add_layer. destruct (pl <? length (snd f)); [|reflexivity].
  cbn [andb]. destruct (bytes_eqb_spec (v2_root H256 B pl (snd f)) r) as [<-|N].
  - apply lookup_update_same.
  - apply lookup_update_other. exact N.
Qed.

(* a binding survives the rest of the traversal unless a later big file has the same root *)
Lemma layers_fold_keeps fs : forall L r v, lookup r L = Some v ->
  lookup r (fold_left layer_step fs L) = Some v \/
  exists f, In f fs /\ big f /\ v2_root H256 B pl (snd f) = r /\
            lookup r (fold_left layer_step fs L) = Some (layer_value (snd f)).
Proof.
  induction fs as [|f fs IH]; intros L r v Hv; cbn [fold_left]; [left; exact Hv|].
  pose proof (layer_step_lookup L f r) as E.
  destruct ((pl <? length (snd f)) && bytes_eqb (v2_root H256 B pl (snd f)) r) eqn:C.
  - apply andb_true_iff in C. destruct C as [C1 C2].
    apply Nat.ltb_lt in C1. apply bytes_eqb_eq in C2.
    destruct (IH _ _ _ E) as [K|(f' & Hin & Hb & Hr & K)].
    + right. exists f. split; [left; reflexivity|]. repeat split; assumption.
    + right. exists f'. split; [right; exact Hin|]. repeat split; assumption.
  - rewrite Hv in E. destruct (IH _ _ _ E) as [K|(f' & Hin & Hb & Hr & K)].
    + left; exact K.
    + right. exists f'. split; [right; exact Hin|]. repeat split; assumption.
Qed.

(* every big file's root is a key, bound to the layer of a big file with that root *)
Lemma layers_fold_has fs : forall L f, In f fs -> big f ->
  exists f', In f' fs /\ big f' /\ v2_root H256 B pl (snd f') = v2_root H256 B pl (snd f) /\
    lookup (v2_root H256 B pl (snd f)) (fold_left layer_step fs L) = Some (layer_value (snd f')).
Proof.
  induction fs as [|f0 fs IH]; intros L f Hin Hb; [destruct Hin|]. cbn [fold_left].
  destruct Hin as [->|Hin].
  - assert (E : lookup (v2_root H256 B pl (snd f)) (layer_step L f) = Some (layer_value (snd f))).
    { rewrite layer_step_lookup. unfold big in Hb. apply Nat.ltb_lt in Hb.
      rewrite Hb, bytes_eqb_refl. reflexivity. }
    destruct (layers_fold_keeps fs _ _ _ E) as [K|(f' & Hin' & Hb' & Hr & K)].
    + exists f. split; [left; reflexivity|]. repeat split; assumption.
    + exists f'. split; [right; exact Hin'|]. repeat split; assumption.
  - destruct (IH (layer_step L f0) f Hin Hb) as (f' & Hin' & Hb' & Hr & K).
    exists f'. split; [right; exact Hin'|]. repeat split; assumption.
Qed.

(* every binding comes from a big file (or was there before) *)
Lemma layers_fold_only fs : forall L r v, lookup r (fold_left layer_step fs L) = Some v ->
  lookup r L = Some v \/
  exists f, In f fs /\ big f /\ r = v2_root H256 B pl (snd f) /\ v = layer_value (snd f).
Proof.
  induction fs as [|f fs IH]; intros L r v Hv; cbn [fold_left] in Hv; [left; exact Hv|].
  destruct (IH _ _ _ Hv) as [K|(f' & Hin & Hb & Hr & K)].
  - rewrite layer_step_lookup in K.
    destruct ((pl <? length (snd f)) && bytes_eqb (v2_root H256 B pl (snd f)) r) eqn:C.
    + apply andb_true_iff in C. destruct C as [C1 C2].
      apply Nat.ltb_lt in C1. apply bytes_eqb_eq in C2. injection K as <-.
      right. exists f. split; [left; reflexivity|]. repeat split; [exact C1|symmetry; exact C2].
    + left; exact K.
  - right. exists f'. split; [right; exact Hin|]. repeat split; assumption.
Qed.

Lemma big_root f : big f -> v2_root H256 B pl (snd f) = root (snd f).
Proof.
  intros Hb. unfold v2_root. apply (hasher_v2_root H256 B HB k pl Hpl).
  intros C. unfold big in Hb. rewrite C in Hb. cbn in Hb. lia.
Qed.

Lemma big_layer f : big f -> layer_value (snd f) = BStr (concat (layer (snd f))).
Proof.
  intros Hb. unfold layer_value, v2_layer.
  rewrite (hasher_v2_layer H256 B HB k pl Hpl _ Hb). reflexivity.
Qed.

Lemma in_sfiles t p d : In (p, d) (sfiles t) <-> In (p, d) (files_of (root_rel t) t).
Proof.
  unfold sfiles. split; apply Permutation_in;
    [apply files_of_sort_tree|apply Permutation_sym, files_of_sort_tree].
Qed.

(* T3b (C02_layers_exact, "<-"): every file larger than a piece has its root as a key of
   "piece layers", bound to the BEP 52 piece layer of a file with that root (itself, unless
   another file of the tree has the same root: then the one _traverse visits last) *)
Theorem piece_layers_has o name t m p d :
  wf_node t -> v2_capable_output o name t m ->
  In (p, d) (files_of (root_rel t) t) -> pl < length d ->
  exists p' d', In (p', d') (files_of (root_rel t) t) /\ pl < length d' /\ root d' = root d /\
    lookup (root d) (layers_of m) = Some (BStr (concat (layer d'))).
Proof.
  intros Hwf Hm Hin Hd. destruct (v2_capable_file_tree o name t m Hwf Hm) as [_ E].
  rewrite E, lookup_sort_keys by apply layers_spec_NoDup.
  apply in_sfiles in Hin.
  destruct (layers_fold_has (sfiles t) [] (p, d) Hin Hd) as ([p' d'] & Hin' & Hb' & Hr & K).
  exists p', d'. cbn [snd] in *. split; [apply in_sfiles; exact Hin'|]. split; [exact Hb'|].
  pose proof (big_root (p', d') Hb') as R1. pose proof (big_root (p, d) Hd) as R2.
  pose proof (big_layer (p', d') Hb') as L1. cbn [snd] in R1, R2, L1.
  rewrite R1, R2 in Hr. split; [exact Hr|].
  rewrite R2 in K. unfold CreatorsProofs2.layers_spec. rewrite K, L1. reflexivity.
Qed.

(* when no two big files of the tree collide on their root (true of SHA-256 as far as anyone
   knows, not provable for an arbitrary H256), the layer is the file's own *)
Corollary piece_layers_own o name t m p d :
  wf_node t -> v2_capable_output o name t m ->
  (forall p1 d1 p2 d2, In (p1, d1) (files_of (root_rel t) t) -> In (p2, d2) (files_of (root_rel t) t) ->
     pl < length d1 -> pl < length d2 -> root d1 = root d2 -> layer d1 = layer d2) ->
  In (p, d) (files_of (root_rel t) t) -> pl < length d ->
  lookup (root d) (layers_of m) = Some (BStr (concat (layer d))).
Proof.
  intros Hwf Hm Hinj Hin Hd.
  destruct (piece_layers_has o name t m p d Hwf Hm Hin Hd) as (p' & d' & Hin' & Hd' & Hr & K).
  rewrite K. rewrite (Hinj p' d' p d Hin' Hin Hd' Hd Hr). reflexivity.
Qed.

(* T3c (C02_layers_exact, "->"): every entry of "piece layers" is the root and the BEP 52 piece
   layer of a file of the tree that is larger than a piece *)
Theorem piece_layers_only o name t m r v :
  wf_node t -> v2_capable_output o name t m -> In (r, v) (layers_of m) ->
  exists p d, In (p, d) (files_of (root_rel t) t) /\ pl < length d /\
              r = root d /\ v = BStr (concat (layer d)).
Proof.
  intros Hwf Hm Hin. destruct (v2_capable_file_tree o name t m Hwf Hm) as [_ E].
  rewrite E in Hin. apply (Permutation_in _ (sort_keys_perm _)) in Hin.
  apply In_lookup in Hin; [|apply layers_spec_NoDup].
  destruct (layers_fold_only (sfiles t) [] r v Hin) as [C|([p d] & Hf & Hb & Hr & Hv)];
    [discriminate|].
  exists p, d. split; [apply in_sfiles; exact Hf|]. split; [exact Hb|].
  pose proof (big_root _ Hb) as R1. pose proof (big_layer _ Hb) as L1. cbn [snd] in *.
  rewrite R1 in Hr. rewrite L1 in Hv. split; assumption.
Qed.

(* the layer omits the hashes that cover only padding (C02_layer_omits_padding) *)
Theorem piece_layer_count d : length (layer d) = ceil_div (length d) pl.
Proof. apply (bep52_piece_layer_length H256 B HB k pl Hpl). Qed.

End C02.

(* ========================================================================================== *)
(* 6. T4 (C03): the v1 view of a hybrid metafile                                               *)
(* ========================================================================================== *)

(* reading an entry of info["files"] *)
Definition is_pad (v : value) : bool :=
  match v with
  | BDict d => match lookup k_attr d with Some _ => true | None => false end
  | _ => false
  end.
Definition entry_len (v : value) : nat :=
  match v with
  | BDict d => match lookup k_length d with Some (BInt z) => Z.to_nat z | _ => 0 end
  | _ => 0
  end.
Definition abs_entry (v : value) : entry := (is_pad v, entry_len v).

Lemma abs_file_entry rel n : abs_entry (file_entry rel n) = (false, n).
Proof. unfold abs_entry, file_entry, is_pad, entry_len. lk. cbn. rewrite Nat2Z.id. reflexivity. Qed.

Lemma abs_pad_entry n : abs_entry (pad_entry n) = (true, n).
Proof. unfold abs_entry, pad_entry, is_pad, entry_len. lk. cbn. rewrite Nat2Z.id. reflexivity. Qed.

Lemma abs_aligned_entries pl f :
  map abs_entry (v1_aligned_entries pl f) = v1_file_entries_aligned pl (length (snd f)).
Proof.
  unfold v1_aligned_entries, v1_file_entries_aligned. cbv zeta. cbn [map].
  rewrite abs_file_entry. destruct (neg_mod (length (snd f)) pl =? 0); cbn [map];
    [|rewrite abs_pad_entry]; reflexivity.
Qed.

Lemma abs_aligned_list pl fs :
  map abs_entry (flat_map (v1_aligned_entries pl) fs) =
  v1_entries true pl (map (fun f => length (snd f)) fs).
Proof.
  unfold v1_entries. induction fs as [|f fs IH]; [reflexivity|].
  cbn [flat_map map]. rewrite map_app, IH, abs_aligned_entries. reflexivity.
Qed.

(* every element of such a list is a payload entry or a well-formed pad entry *)
Lemma aligned_list_shape pl fs v : In v (flat_map (v1_aligned_entries pl) fs) ->
  (exists rel n, v = file_entry rel n) \/ (exists n, v = pad_entry n).
Proof.
  intros Hv. apply in_flat_map in Hv. destruct Hv as (f & _ & Hv).
  unfold v1_aligned_entries in Hv. cbv zeta in Hv. destruct Hv as [<-|Hv].
  - left. eexists _, _. reflexivity.
  - destruct (neg_mod (length (snd f)) pl =? 0); [destruct Hv|].
    destruct Hv as [<-|[]]. right. eexists. reflexivity.
Qed.

Lemma filter_aligned_list pl fs :
  filter (fun v => negb (is_pad v)) (flat_map (v1_aligned_entries pl) fs) =
  map (fun f => file_entry (fst f) (length (snd f))) fs.
Proof.
  induction fs as [|f fs IH]; [reflexivity|]. cbn [flat_map map].
  unfold v1_aligned_entries at 1. cbv zeta. cbn [app filter].
  change (is_pad (file_entry (fst f) (length (snd f)))) with false. cbn [negb]. f_equal.
  destruct (neg_mod (length (snd f)) pl =? 0); cbn [app filter]; [exact IH|].
  change (is_pad (pad_entry (neg_mod (length (snd f)) pl))) with true. cbn [negb]. exact IH.
Qed.

Lemma chunks_concat_padded pl datas : 0 < pl ->
  flat_map (fun d => chunks pl (pad_to pl d)) datas = chunks pl (concat (map (pad_to pl) datas)).
Proof.
  intros Hpl. induction datas as [|d datas IH];
    [cbn [flat_map map concat]; rewrite chunks_nil; reflexivity|].
  cbn [flat_map map concat]. rewrite IH. symmetry. apply chunks_app_multiple; [exact Hpl|].
  rewrite pad_to_neg_mod, app_length, zeros_length.
  pose proof (neg_mod_sum (length d) pl Hpl) as E.
  apply Nat.mod_divides in E; [|lia]. destruct E as [c E]. exists c. lia.
Qed.

Section C03.
Variable H1 H256 : bytes -> bytes.
Variable B : nat.
Hypothesis HB : 0 < B.
Variable k pl : nat.
Hypothesis Hpl : pl = B * 2 ^ k.

Let pl_pos : 0 < pl := HasherV2Correct.pl_pos B HB k pl Hpl.

Notation hybrid_output := (hybrid_output H1 H256 B pl).
Notation hybrid_info := (hybrid_info H1 H256 B pl).

Lemma pad_file_length_neg_mod d :
  pad_file_length pl d =
  if neg_mod (length d) pl =? 0 then None else Some (neg_mod (length d) pl).
Proof.
  unfold pad_file_length.
  destruct (neg_mod_cases (length d) pl pl_pos) as [[E1 E2]|[E1 E2]]; rewrite E2.
  - rewrite E1. reflexivity.
  - destruct (Nat.eqb_spec (length d mod pl) 0); [lia|].
    destruct (Nat.eqb_spec (pl - length d mod pl) 0); [|reflexivity].
    pose proof (Nat.mod_upper_bound (length d) pl ltac:(lia)). lia.
Qed.

(* in a directory torrent the hybrid hashers produce exactly the --align entries *)
Lemma hy_entries_aligned rel d : hy_entries pl true rel d = v1_aligned_entries pl (rel, d).
Proof.
  unfold hy_entries, hy_padfile, v1_aligned_entries. cbv zeta. cbn [fst snd]. f_equal.
  rewrite (hybrid_padding_file B HB k pl Hpl), pad_file_length_neg_mod.
  destruct (length d =? 0) eqn:E; [|destruct (neg_mod (length d) pl =? 0); reflexivity].
  apply Nat.eqb_eq in E. rewrite E. unfold neg_mod.
  rewrite Nat.mod_0_l, Nat.sub_0_r, Nat.mod_same by lia. reflexivity.
Qed.

Lemma hy_digests_padded d :
  hy_digests H1 pl true d = map H1 (chunks pl (pad_to pl d)).
Proof.
  unfold hy_digests, hy_inputs. destruct (length d =? 0) eqn:E.
  - apply Nat.eqb_eq in E. apply length_zero_iff_nil in E. subst d.
    rewrite pad_to_nil by exact pl_pos. rewrite chunks_nil. reflexivity.
  - rewrite (hybrid_pieces B HB k pl Hpl), (v1_inputs_padded_chunks B HB k pl Hpl).
    rewrite pad_to_neg_mod, pad_file_length_neg_mod.
    destruct (neg_mod (length d) pl =? 0) eqn:E0; [|reflexivity].
    apply Nat.eqb_eq in E0. rewrite E0. reflexivity.
Qed.

Lemma hy_digests_plain d : hy_digests H1 pl false d = map H1 (chunks pl d).
Proof.
  unfold hy_digests, hy_inputs. destruct (length d =? 0) eqn:E.
  - apply Nat.eqb_eq in E. apply length_zero_iff_nil in E. subst d. rewrite chunks_nil. reflexivity.
  - rewrite (hybrid_pieces B HB k pl Hpl). reflexivity.
Qed.

Lemma digests_flat fs :
  flat_map (fun f : list bytes * bytes => hy_digests H1 pl true (snd f)) fs =
  map H1 (flat_map (fun d => chunks pl (pad_to pl d)) (map snd fs)).
Proof.
  induction fs as [|f fs IH]; [reflexivity|].
  cbn [flat_map map]. rewrite map_app, hy_digests_padded, IH. reflexivity.
Qed.

(* the files of a directory in _traverse order *)
Definition dir_files (es : list (bytes * node)) : list (list bytes * bytes) :=
  files_of [] (sort_tree (Dir es)).

(* T4a: info["files"] of a hybrid directory torrent: for each file, in file tree order, its
   entry {"length", "path"} followed -- iff its length is not a multiple of the piece length,
   and also after the last file -- by {"attr": "p", "length": n, "path": [".pad", str(n)]}
   with n = -length mod pl *)
Theorem hybrid_files_exact o name es m :
  wf_node (Dir es) -> hybrid_output o name (Dir es) m ->
  info_get k_files m = Some (BList (flat_map (v1_aligned_entries pl) (dir_files es))) /\
  info_get k_length m = None.
Proof.
  intros Hwf Hm. rewrite !(hybrid_output_info_get H1 H256 B HB k pl Hpl o name _ m _ Hwf Hm).
  unfold CreatorsProofs2.hybrid_info. cbv zeta. lk. split.
  - f_equal. f_equal. unfold hybrid_files_spec, sfiles, dir_files, root_rel. cbn [is_file negb].
    apply flat_map_ext. intros [rel d]. apply hy_entries_aligned.
  - apply meta_init_info_other; neq.
Qed.

(* T4b (C03_same_files_same_order): dropping the pad entries leaves one entry per leaf of the
   file tree, in the same order, with the same path and length *)
Theorem hybrid_same_files_same_order o name es m :
  wf_node (Dir es) -> hybrid_output o name (Dir es) m ->
  exists l ft,
    info_get k_files m = Some (BList l) /\ info_get k_file_tree m = Some ft /\
    filter (fun v => negb (is_pad v)) l =
      map (fun f => file_entry (fst f) (length (snd f))) (dir_files es) /\
    leaves_v [] ft = map (fun f => (fst f, leaf_value H256 B (snd f))) (dir_files es).
Proof.
  intros Hwf Hm. destruct (hybrid_files_exact o name es m Hwf Hm) as [E _].
  destruct (file_tree_mirrors_disk H1 H256 B HB k pl Hpl o name es m Hwf (or_intror Hm))
    as (ft & Eft & L).
  eexists _, ft. split; [exact E|]. split; [exact Eft|]. split; [apply filter_aligned_list|exact L].
Qed.

(* T4c (C03_files_start_on_piece_boundary) *)
Theorem hybrid_files_start_on_piece_boundary o name es m l pre f post :
  wf_node (Dir es) -> hybrid_output o name (Dir es) m ->
  info_get k_files m = Some (BList l) -> l = pre ++ f :: post -> is_pad f = false ->
  entries_total (map abs_entry pre) mod pl = 0.
Proof.
  intros Hwf Hm El Es Hf. destruct (hybrid_files_exact o name es m Hwf Hm) as [E _].
  rewrite E in El. injection El as <-.
  apply (f_equal (map abs_entry)) in Es. rewrite abs_aligned_list, map_app in Es. cbn [map] in Es.
  eapply (v1_entries_align_file_offsets pl _ _ (abs_entry f)); [exact pl_pos|exact Es|exact Hf].
Qed.

(* T4d (C03_pad_entries_marked): a pad entry is {"attr": "p", "length": n, "path": [".pad",
   str(n)]}, directly follows a payload entry of length len with n = pl - len mod pl (the gap
   to the next piece boundary, 0 < n < pl), and ends on a piece boundary *)
Theorem hybrid_pad_entries_marked o name es m l pre f post :
  wf_node (Dir es) -> hybrid_output o name (Dir es) m ->
  info_get k_files m = Some (BList l) -> l = pre ++ f :: post -> is_pad f = true ->
  exists n, f = pad_entry n /\ 0 < n < pl /\
    (exists pre' rel len, pre = pre' ++ [file_entry rel len] /\ n = pl - len mod pl) /\
    (entries_total (map abs_entry pre) + n) mod pl = 0.
Proof.
  intros Hwf Hm El Es Hf. destruct (hybrid_files_exact o name es m Hwf Hm) as [E _].
  rewrite E in El. injection El as <-.
  assert (Hshape : forall v, In v (pre ++ f :: post) ->
            (exists rel n, v = file_entry rel n) \/ (exists n, v = pad_entry n))
    by (rewrite <- Es; apply aligned_list_shape).
  destruct (Hshape f) as [(rel & n & ->)|(n & ->)];
    [apply in_or_app; right; left; reflexivity|discriminate Hf|].
  exists n. split; [reflexivity|].
  pose proof Es as Ea. apply (f_equal (map abs_entry)) in Ea.
  rewrite abs_aligned_list, map_app in Ea. cbn [map] in Ea. rewrite abs_pad_entry in Ea.
  destruct (v1_entries_align_pad pl _ _ n _ pl_pos Ea) as (Hn & (pre2 & len & Ep & Hk & _) & Hs).
  split; [exact Hn|]. split; [|exact Hs].
  apply map_eq_app in Ep. destruct Ep as (pre' & lst & -> & _ & Elst).
  destruct lst as [|x [|y lst]]; try discriminate. cbn [map] in Elst.
  injection Elst as Ex1 Ex2.
  destruct (Hshape x) as [(rel & n' & ->)|(n' & ->)].
  - apply in_or_app. left. apply in_or_app. right. left; reflexivity.
  - assert (A2 : entry_len (file_entry rel n') = n')
      by (pose proof (abs_file_entry rel n') as A; unfold abs_entry in A; congruence).
    rewrite A2 in Ex2. subst n'. exists pre', rel, len. split; [reflexivity|exact Hk].
  - change (is_pad (pad_entry n')) with true in Ex1. discriminate Ex1.
Qed.

(* T4e (C03_pieces_hash_that_stream): info["pieces"] is the SHA-1 of the successive pl-slices of
   the stream described by info["files"]: file bytes for payload entries, zeros for pad entries *)
Theorem hybrid_pieces_hash_that_stream o name es m :
  wf_node (Dir es) -> hybrid_output o name (Dir es) m ->
  let datas := map snd (dir_files es) in
  let entries := flat_map (v1_aligned_entries pl) (dir_files es) in
  info_get k_pieces m =
    Some (BStr (concat (map H1 (chunks pl (stream_of_entries (map abs_entry entries) datas))))) /\
  stream_of_entries (map abs_entry entries) datas = concat (map (pad_to pl) datas).
Proof.
  intros Hwf Hm. cbv zeta.
  assert (Es : stream_of_entries
                 (map abs_entry (flat_map (v1_aligned_entries pl) (dir_files es)))
                 (map snd (dir_files es)) = concat (map (pad_to pl) (map snd (dir_files es)))).
  { rewrite abs_aligned_list.
    replace (map (fun f => length (snd f)) (dir_files es))
      with (map (@length ascii) (map snd (dir_files es))) by (rewrite map_map; reflexivity).
    apply stream_of_entries_align. }
  split; [|exact Es]. rewrite Es.
  rewrite (hybrid_output_info_get H1 H256 B HB k pl Hpl o name _ m _ Hwf Hm).
  unfold CreatorsProofs2.hybrid_info. cbv zeta. lk. f_equal. f_equal. f_equal.
  unfold hybrid_digests_spec, sfiles, root_rel. cbn [is_file negb]. fold (dir_files es).
  rewrite <- chunks_concat_padded by exact pl_pos. apply digests_flat.
Qed.

(* T4f (C03_single_file): a single file has info.length, no files list, and the plain BEP 3
   pieces of the file (no zero padding of the last piece) *)
Theorem hybrid_single_file o name d m :
  hybrid_output o name (File d) m ->
  info_get k_length m = Some (BInt (Z.of_nat (length d))) /\
  info_get k_files m = None /\
  info_get k_pieces m = Some (BStr (concat (map H1 (chunks pl d)))).
Proof.
  intros Hm. assert (Hwf : wf_node (File d)) by exact I.
  rewrite !(hybrid_output_info_get H1 H256 B HB k pl Hpl o name _ m _ Hwf Hm).
  unfold CreatorsProofs2.hybrid_info. cbv zeta. lk. split; [reflexivity|]. split.
  - apply meta_init_info_other; neq.
  - unfold hybrid_digests_spec, sfiles, root_rel. cbn [is_file negb sort_tree files_of flat_map snd].
    rewrite app_nil_r, hy_digests_plain. reflexivity.
Qed.

End C03.

(* ========================================================================================== *)
(* 7. examples: the hypotheses are satisfiable (toy hashes of the right digest lengths,        *)
(*    B = 2, k = 1, pl = 4)                                                                    *)
(* ========================================================================================== *)

Module CreatorsProofs2Examples.
Import CreatorsExamples CreatorsProofsExamples.
Import String.StringSyntax.

Definition X1 (x : bytes) : bytes := firstn 20 (x ++ zeros 20).
Definition X256 (x : bytes) : bytes := firstn 32 (x ++ zeros 32).

Lemma X1_len x : length (X1 x) = 20.
Proof. unfold X1. rewrite firstn_length, app_length, zeros_length. lia. Qed.
Lemma X256_len x : length (X256 x) = 32.
Proof. unfold X256. rewrite firstn_length, app_length, zeros_length. lia. Qed.

Definition HB2 : 0 < 2 := Nat.lt_0_succ 1.
Definition Hpl4 : 4 = 2 * 2 ^ 1 := eq_refl.

Definition ex_m : value := create_assembler X1 X256 2 true ex_opts (bs "r") 4 ex_tree.

Lemma ex_m_out : hybrid_output X1 X256 2 4 ex_opts (bs "r") ex_tree ex_m.
Proof. constructor. Qed.

(* T6 *)
Example ex_T6_canon : canon ex_m.
Proof. exact (create_assembler_hybrid_canon X1 X256 2 HB2 1 4 Hpl4 ex_opts (bs "r") ex_tree ex_tree_wf). Qed.

Example ex_T6_canon_v1 : canon (create_v1 X1 true ex_opts (bs "r") (bs "r") 4 ex_tree).
Proof. apply create_v1_canon. Qed.

Example ex_T6_structure : v1_structure_ok ex_m /\ v2_structure_ok ex_m.
Proof.
  exact (hybrid_output_structure_ok X1 X256 2 HB2 1 4 Hpl4 X1_len X256_len ex_opts (bs "r")
           ex_tree ex_m ex_tree_wf ex_m_out).
Qed.

(* T3: the file b (10 bytes > pl) has its root in piece layers with its own BEP 52 layer *)
Example ex_T3_layers :
  lookup (bep52_root X256 2 (bs "0123456789")) (layers_of ex_m) =
  Some (BStr (concat (bep52_piece_layer X256 2 1 (bs "0123456789")))).
Proof.
  destruct (piece_layers_has X1 X256 2 HB2 1 4 Hpl4 ex_opts (bs "r") ex_tree ex_m
              [bs "b"] (bs "0123456789") ex_tree_wf (or_intror ex_m_out)) as (p' & d' & _ & _ & _ & K).
  - vm_compute. left; reflexivity.
  - vm_compute. lia.
  - vm_compute. reflexivity.
Qed.

(* T3: leaves in dictionary order: a/e, a/z, a.txt, b *)
Example ex_T3_leaves :
  map fst (files_of [] (sort_tree ex_tree)) =
  [[bs "a"; bs "e"]; [bs "a"; bs "z"]; [bs "a.txt"]; [bs "b"]].
Proof. vm_compute. reflexivity. Qed.

(* T4: the files list with its pad entries *)
Example ex_T4_files :
  info_get k_files ex_m =
  Some (BList [file_entry [bs "a"; bs "e"] 0; file_entry [bs "a"; bs "z"] 5; pad_entry 3;
               file_entry [bs "a.txt"] 3; pad_entry 1; file_entry [bs "b"] 10; pad_entry 2]).
Proof.
  destruct (hybrid_files_exact X1 X256 2 HB2 1 4 Hpl4 ex_opts (bs "r") _ ex_m ex_tree_wf ex_m_out)
    as [E _].
  rewrite E. vm_compute. reflexivity.
Qed.

(* T4: single file *)
Example ex_T4_single :
  info_get k_pieces (create_hybrid_class X1 X256 2 ex_opts (bs "f") 4 (File (bs "01234"))) =
  Some (BStr (X1 (bs "0123") ++ X1 (bs "4"))).
Proof.
  destruct (hybrid_single_file X1 X256 2 HB2 1 4 Hpl4 ex_opts (bs "f") (bs "01234") _
              (out_hybrid_class _ _ _ _ _ _ _)) as (_ & _ & E).
  rewrite E. vm_compute. reflexivity.
Qed.
End CreatorsProofs2Examples.

(* ========================================================================================== *)
(* 8. assumptions                                                                              *)
(* ========================================================================================== *)
Print Assumptions create_v1_canon.
Print Assumptions create_v1_structure_ok.
Print Assumptions v2_output_canon.
Print Assumptions hybrid_output_canon.
Print Assumptions create_v2_class_canon.
Print Assumptions create_assembler_v2_canon.
Print Assumptions create_hybrid_class_canon.
Print Assumptions create_assembler_hybrid_canon.
Print Assumptions v2_output_structure_ok.
Print Assumptions hybrid_output_structure_ok.
Print Assumptions file_tree_mirrors_disk.
Print Assumptions file_tree_has_every_file.
Print Assumptions file_tree_single_file.
Print Assumptions piece_layers_has.
Print Assumptions piece_layers_own.
Print Assumptions piece_layers_only.
Print Assumptions piece_layer_count.
Print Assumptions hybrid_files_exact.
Print Assumptions hybrid_same_files_same_order.
Print Assumptions hybrid_files_start_on_piece_boundary.
Print Assumptions hybrid_pad_entries_marked.
Print Assumptions hybrid_pieces_hash_that_stream.
Print Assumptions hybrid_single_file.
