(* C07 on the command line: a certified checker `edit_table_ok` over the GENERATED edit table and
   the GENERATED commands.edit mapping, and, for every table/mapping it accepts, every list of
   flags with values (any order, repetitions allowed) and every admissible position of the
   metafile path: a field is Keep in the request iff none of its flags is on the command line,
   and a named field carries exactly the (last) given value.  Instance by computation. *)
From Coq Require Import String List Bool Ascii Arith Lia.
From TF Require Import Model.Edit Model.ArgParse Model.Routes Model.RoutesEdit Model.RoutesRun Gen.GenCli.
From TF Require Import Proofs.RoutesProofs.
Import ListNotations.
Open Scope string_scope.

(* ------------------------------------------------------------------ the checker *)
Definition e_shape_ok (f : efield) (a : argspec) : bool :=
  (a_dest a =? e_dest f)
  && match a_choices a with None => true | Some _ => false end
  && match f, a_action a, a_nargs a with
     | (FAnnounce | FUrlList | FHttpSeeds), ActStore, NPlus => true
     | (FComment | FSource), ActStore, NNone => true
     | FPrivate, ActStoreTrue, _ => true
     | _, _, _ => false
     end.

Definition e_default (table : list argspec) (f : efield) : value :=
  match lookup (defaults table) (e_dest f) with Some v => v | None => VBool true end.

(* an entry of the mapping is the documented one for f, and maps the absent flag to None *)
Definition entry_for (table : list argspec) (f : efield) (e : string * string * bool) : bool :=
  let '(k, attr, orn) := e in
  (k =? e_key f) && (attr =? e_dest f)
  && match f with FComment | FSource => negb orn | _ => true end
  && value_eqb (mapped orn (e_default table f)) VNone.

Definition key_is (k : string) (e : string * string * bool) : bool := fst (fst e) =? k.

Definition edit_table_ok (table : list argspec) (emap : list (string * string * bool)) (mattr : string) : bool :=
  forallb (fun f => match find_flag table (e_flag f) with Some a => e_shape_ok f a | None => false end
                    && match lookup (defaults table) (e_dest f) with Some _ => true | None => false end
                    && negb (e_dest f =? mattr)
                    && match filter (key_is (e_key f)) emap with [_] => true | _ => false end) all_efields
  && forallb (fun e => existsb (fun f => entry_for table f e) all_efields) emap
  && match positional_spec table with Some (d, _) => d =? mattr | None => false end.

(* ------------------------------------------------------------------ fields *)
Lemma in_all_efields : forall f, In f all_efields.
Proof. destruct f; simpl; tauto. Qed.

Lemma efield_eqb_eq : forall x y, efield_eqb x y = true <-> x = y.
Proof. intros x y; split; [destruct x, y; simpl; congruence | intros ->; destruct y; reflexivity]. Qed.

Lemma e_dest_eqb : forall x y, (e_dest x =? e_dest y) = efield_eqb x y.
Proof. intros x y; destruct x, y; reflexivity. Qed.

Lemma e_key_eqb : forall x y, (e_key x =? e_key y) = efield_eqb x y.
Proof. intros x y; destruct x, y; reflexivity. Qed.

Lemma e_flag_is_flag : forall f, is_flag (e_flag f) = true.
Proof. destruct f; reflexivity. Qed.

(* ------------------------------------------------------------------ values set by items *)
Definition item_value (it : eitem) : value :=
  match it with
  | IComment s | ISource s => VStr s
  | IPrivate => VBool true
  | ITracker l | IWebSeed l | IHttpSeed l => VList l
  end.

Definition apply_item (N : namespace) (it : eitem) : namespace :=
  set (e_dest (item_field it)) (item_value it) N.

Definition apply_items (items : list eitem) (N : namespace) : namespace := fold_left apply_item items N.

Lemma apply_items_nseq : forall items A B, nseq A B -> nseq (apply_items items A) (apply_items items B).
Proof.
  induction items as [|it items IH]; intros A B H; cbn [apply_items fold_left]; [exact H|].
  apply IH. apply nseq_set. exact H.
Qed.

Definition last_from (f : efield) (items : list eitem) (acc : option eitem) : option eitem :=
  fold_left (fun acc it => if efield_eqb (item_field it) f then Some it else acc) items acc.

Lemma last_from_acc : forall f items acc,
  last_from f items acc = match last_from f items None with Some x => Some x | None => acc end.
Proof.
  intros f. induction items as [|it items IH]; intros acc; cbn [last_from fold_left]; [reflexivity|].
  fold (last_from f items (if efield_eqb (item_field it) f then Some it else acc)).
  fold (last_from f items (if efield_eqb (item_field it) f then Some it else None)).
  rewrite IH. rewrite (IH (if efield_eqb (item_field it) f then Some it else None)).
  destruct (last_from f items None); [reflexivity|]. destruct (efield_eqb (item_field it) f); reflexivity.
Qed.

Lemma last_item_app : forall f a b,
  last_item f (a ++ b) = match last_item f b with Some x => Some x | None => last_item f a end.
Proof.
  intros f a b. unfold last_item. rewrite fold_left_app.
  change (last_from f b (last_from f a None) = match last_from f b None with Some x => Some x | None => last_from f a None end).
  apply last_from_acc.
Qed.

Lemma lookup_apply_items_from : forall f items N,
  lookup (apply_items items N) (e_dest f) =
  match last_from f items None with Some it => Some (item_value it) | None => lookup N (e_dest f) end.
Proof.
  intros f. induction items as [|it items IH]; intros N; cbn [apply_items fold_left]; [reflexivity|].
  fold (apply_items items (apply_item N it)). rewrite IH.
  change (last_from f (it :: items) None) with (last_from f items (if efield_eqb (item_field it) f then Some it else None)).
  rewrite (last_from_acc f items (if efield_eqb (item_field it) f then Some it else None)).
  destruct (last_from f items None); [reflexivity|].
  unfold apply_item. rewrite lookup_set, e_dest_eqb.
  destruct (efield_eqb (item_field it) f); reflexivity.
Qed.

Lemma lookup_apply_items : forall f items N,
  lookup (apply_items items N) (e_dest f) =
  match last_item f items with Some it => Some (item_value it) | None => lookup N (e_dest f) end.
Proof. exact lookup_apply_items_from. Qed.

Lemma lookup_apply_items_other : forall items N d, (forall f, (e_dest f =? d) = false) ->
  lookup (apply_items items N) d = lookup N d.
Proof.
  induction items as [|it items IH]; intros N d Hd; cbn [apply_items fold_left]; [reflexivity|].
  fold (apply_items items (apply_item N it)). rewrite IH by exact Hd.
  unfold apply_item. rewrite lookup_set, Hd. reflexivity.
Qed.

Lemma last_item_none : forall f items,
  last_item f items = None <-> (forall it, In it items -> item_field it <> f).
Proof.
  intros f. induction items as [|it items IH] using rev_ind.
  - split; [intros _ it [] | reflexivity].
  - rewrite last_item_app. cbn [last_item fold_left]. destruct (efield_eqb (item_field it) f) eqn:E.
    + split; [discriminate|]. intros H. exfalso. apply (H it); [apply in_or_app; right; left; reflexivity|].
      apply efield_eqb_eq. exact E.
    + rewrite IH. split.
      * intros H x Hx. apply in_app_or in Hx. destruct Hx as [Hx|[<-|[]]]; [apply H; exact Hx|].
        intros Hf. apply efield_eqb_eq in Hf. congruence.
      * intros H x Hx. apply H. apply in_or_app. left. exact Hx.
Qed.

Lemma last_item_field : forall f items it, last_item f items = Some it -> item_field it = f /\ In it items.
Proof.
  intros f. induction items as [|x items IH] using rev_ind; intros it H; [discriminate|].
  rewrite last_item_app in H. cbn [last_item fold_left] in H.
  destruct (efield_eqb (item_field x) f) eqn:E.
  - inversion H; subst. split; [apply efield_eqb_eq; exact E | apply in_or_app; right; left; reflexivity].
  - destruct (IH it H) as [H1 H2]. split; [exact H1 | apply in_or_app; left; exact H2].
Qed.

(* ------------------------------------------------------------------ the parser on the rendered argv *)
Section EditCli.
Variable table : list argspec.
Variable emap : list (string * string * bool).
Variable mattr : string.
Hypothesis Hok : edit_table_ok table emap mattr = true.

Lemma ok_field : forall f,
  (exists a, find_flag table (e_flag f) = Some a /\ e_shape_ok f a = true)
  /\ (exists d, lookup (defaults table) (e_dest f) = Some d)
  /\ (e_dest f =? mattr) = false
  /\ (exists e, filter (key_is (e_key f)) emap = [e]).
Proof.
  intros f. unfold edit_table_ok in Hok. rewrite !andb_true_iff in Hok. destruct Hok as [[H _] _].
  rewrite forallb_forall in H. specialize (H f (in_all_efields f)). rewrite !andb_true_iff in H.
  destruct H as [[[H1 H2] H3] H4]. repeat split.
  - destruct (find_flag table (e_flag f)) as [a|]; [|discriminate]. eauto.
  - destruct (lookup (defaults table) (e_dest f)) as [d|]; [|discriminate]. eauto.
  - apply negb_true_iff. exact H3.
  - destruct (filter (key_is (e_key f)) emap) as [|e [|? ?]]; try discriminate. eauto.
Qed.

Lemma ok_entries : forall e, In e emap -> exists f, entry_for table f e = true.
Proof.
  intros e He. unfold edit_table_ok in Hok. rewrite !andb_true_iff in Hok. destruct Hok as [[_ H] _].
  rewrite forallb_forall in H. specialize (H e He). rewrite existsb_exists in H.
  destruct H as [f [_ Hf]]. eauto.
Qed.

Lemma ok_positional : positional_dest table = Some mattr.
Proof.
  unfold edit_table_ok in Hok. rewrite !andb_true_iff in Hok. destruct Hok as [_ H].
  unfold positional_dest. destruct (positional_spec table) as [[d r]|]; [|discriminate].
  apply String.eqb_eq in H. congruence.
Qed.

Definition good_e (m : mode) : Prop :=
  m = Idle \/ exists a acc, m = Collect a acc /\ acc <> [] /\ a_choices a = None.

Lemma good_e_close : forall ns m, good_e m -> close ns m = Some (view ns m).
Proof.
  intros ns m [->|[a [acc [-> [Hne _]]]]]; unfold view; cbn [close]; [reflexivity|].
  destruct acc; [congruence | reflexivity].
Qed.

Lemma item_step : forall it ns m used, good_e m -> item_ok it = true ->
  exists ns' m', fold_left (step table) (item_tokens it) (St ns m used) = St ns' m' used
                 /\ good_e m' /\ (item_list it = false -> m' = Idle)
                 /\ nseq (view ns' m') (apply_item (view ns m) it).
Proof.
  intros it ns m used Hm Hit. unfold item_ok in Hit. apply andb_true_iff in Hit. destruct Hit as [Hv Hl].
  destruct (ok_field (item_field it)) as [[a [Hfind Hsh]] _].
  unfold e_shape_ok in Hsh. rewrite !andb_true_iff in Hsh. destruct Hsh as [[Hd Hc] Hs].
  apply String.eqb_eq in Hd. destruct (a_choices a) eqn:Hch; [discriminate|]. clear Hc.
  unfold item_tokens. cbn [fold_left]. cbn [step].
  rewrite e_flag_is_flag, Hfind, (good_e_close ns m Hm). unfold apply_item. rewrite <- Hd.
  destruct it as [s|s| |l|l|l]; cbn [item_field item_values item_list item_value] in *;
    destruct (a_action a) eqn:Hact; try discriminate; destruct (a_nargs a) eqn:Hn; try discriminate.
  1,2: cbn [forallb] in Hv; apply andb_true_iff in Hv; destruct Hv as [Hv _];
       unfold nonflag in Hv; apply negb_true_iff in Hv;
       cbn [fold_left step]; rewrite Hv; unfold choice_ok; rewrite Hch;
       exists (set (a_dest a) (VStr s) (view ns m)), Idle; split; [reflexivity|];
       split; [left; reflexivity|]; split; [reflexivity|]; apply nseq_refl.
  1,2,3,4: exists (set (a_dest a) (VBool true) (view ns m)), Idle; cbn [fold_left]; split; [reflexivity|];
       split; [left; reflexivity|]; split; [reflexivity|]; apply nseq_refl.
  all: rewrite (collect_run table a l (view ns m) [] used Hch Hv), app_nil_r;
       exists (view ns m), (Collect a (rev l));
       assert (Hr : rev l <> []) by
         (intros Hr; apply (f_equal (@rev string)) in Hr; rewrite rev_involutive in Hr; simpl in Hr;
          subst l; discriminate);
       split; [reflexivity|]; split; [right; exists a, (rev l); auto|]; split; [discriminate|];
       unfold view at 1; cbn [close]; destruct (rev l) eqn:E; [congruence|];
       rewrite <- E, rev_involutive; apply nseq_refl.
Qed.

Lemma items_run : forall items ns m used, good_e m -> forallb item_ok items = true ->
  exists ns' m', fold_left (step table) (concat (map item_tokens items)) (St ns m used) = St ns' m' used
                 /\ good_e m' /\ nseq (view ns' m') (apply_items items (view ns m)).
Proof.
  induction items as [|it items IH]; intros ns m used Hm Hall; cbn [map concat].
  - exists ns, m. split; [reflexivity|]. split; [exact Hm | apply nseq_refl].
  - cbn [forallb] in Hall. apply andb_true_iff in Hall. destruct Hall as [Hit Hall].
    rewrite fold_left_app. destruct (item_step it ns m used Hm Hit) as [ns1 [m1 [E1 [G1 [_ V1]]]]].
    rewrite E1. destruct (IH ns1 m1 used G1 Hall) as [ns2 [m2 [E2 [G2 V2]]]].
    exists ns2, m2. split; [exact E2|]. split; [exact G2|].
    eapply nseq_trans; [exact V2|]. cbn [apply_items fold_left]. apply apply_items_nseq. exact V1.
Qed.

Lemma firstn_S_nth : forall (A : Type) (l : list A) p x,
  nth_error l p = Some x -> firstn (S p) l = (firstn p l ++ [x])%list.
Proof.
  intros A. induction l as [|y l IH]; intros [|p] x H; simpl in H; try discriminate.
  - inversion H. reflexivity.
  - cbn [firstn app]. f_equal. apply IH. exact H.
Qed.

(* the state in front of the metafile token is Idle *)
Lemma prefix_run : forall items pos,
  forallb item_ok items = true ->
  match pos with 0 => true | S p => match nth_error items p with Some it => negb (item_list it) | None => false end end = true ->
  exists ns1, fold_left (step table) (concat (map item_tokens (firstn pos items))) (St (defaults table) Idle false)
              = St ns1 Idle false
              /\ nseq ns1 (apply_items (firstn pos items) (defaults table)).
Proof.
  intros items pos Hall Hpos. destruct pos as [|p].
  - exists (defaults table). split; [reflexivity | apply nseq_refl].
  - destruct (nth_error items p) as [it|] eqn:Hn; [|discriminate]. apply negb_true_iff in Hpos.
    rewrite (firstn_S_nth _ items p it Hn), map_app, concat_app, fold_left_app. cbn [map concat]. rewrite app_nil_r.
    assert (Hall1 : forallb item_ok (firstn p items) = true).
    { rewrite forallb_forall in Hall. rewrite forallb_forall. intros x Hx. apply Hall.
      rewrite <- (firstn_skipn p items). apply in_or_app. left. exact Hx. }
    assert (Hit : item_ok it = true).
    { rewrite forallb_forall in Hall. apply Hall. eapply nth_error_In. exact Hn. }
    destruct (items_run (firstn p items) (defaults table) Idle false (or_introl eq_refl) Hall1)
      as [ns0 [m0 [E0 [G0 V0]]]].
    rewrite E0. destruct (item_step it ns0 m0 false G0 Hit) as [ns1 [m1 [E1 [_ [Hidle V1]]]]].
    rewrite E1, (Hidle Hpos). exists ns1. split; [reflexivity|].
    rewrite (Hidle Hpos) in V1. unfold view at 1 in V1. cbn [close] in V1.
    eapply nseq_trans; [exact V1|]. unfold apply_items. rewrite fold_left_app. cbn [fold_left].
    apply nseq_set. exact V0.
Qed.

Theorem edit_parse_spec : forall items pos mf, edit_argv_ok items pos mf = true ->
  exists N, parse table (render_edit items pos mf) = PR_ok N
            /\ lookup N mattr = Some (VStr mf)
            /\ forall f, lookup N (e_dest f) =
                 Some (match last_item f items with Some it => item_value it | None => e_default table f end).
Proof.
  intros items pos mf Hv. unfold edit_argv_ok in Hv. rewrite !andb_true_iff in Hv.
  destruct Hv as [[Hmf Hall] Hpos]. unfold nonflag in Hmf. apply negb_true_iff in Hmf.
  destruct (prefix_run items pos Hall Hpos) as [ns1 [E1 V1]].
  assert (Hall2 : forallb item_ok (skipn pos items) = true).
  { rewrite forallb_forall in Hall. rewrite forallb_forall. intros x Hx. apply Hall.
    rewrite <- (firstn_skipn pos items). apply in_or_app. right. exact Hx. }
  unfold parse, run, render_edit. rewrite !fold_left_app, E1. cbn [fold_left]. cbn [step].
  rewrite Hmf, ok_positional.
  destruct (items_run (skipn pos items) (set mattr (VStr mf) ns1) Idle true (or_introl eq_refl) Hall2)
    as [ns2 [m2 [E2 [G2 V2]]]].
  rewrite E2. cbn [negb]. rewrite andb_false_r. unfold finish. rewrite (good_e_close ns2 m2 G2).
  exists (view ns2 m2). split; [reflexivity|].
  unfold view at 2 in V2. cbn [close] in V2.
  assert (Hm : forall f, (e_dest f =? mattr) = false) by (intros f; apply (ok_field f)).
  split.
  - rewrite V2, lookup_apply_items_other by exact Hm. rewrite lookup_set, String.eqb_refl. reflexivity.
  - intros f. rewrite V2, lookup_apply_items, lookup_set, String.eqb_sym, Hm, V1, lookup_apply_items.
    replace (last_item f items) with (last_item f (firstn pos items ++ skipn pos items))
      by (rewrite firstn_skipn; reflexivity).
    rewrite last_item_app.
    destruct (last_item f (skipn pos items)); [reflexivity|].
    destruct (last_item f (firstn pos items)); [reflexivity|].
    unfold e_default. destruct (ok_field f) as [_ [[d Hd] _]]. rewrite Hd. reflexivity.
Qed.

(* ------------------------------------------------------------------ commands.edit's mapping *)
Lemma edit_args_lookup : forall N (m : list (string * string * bool)) ea,
  edit_args_of m N = Some ea ->
  forall k, lookup ea k = match filter (key_is k) m with
                          | (k', attr, orn) :: _ => match lookup N attr with Some v => Some (mapped orn v) | None => None end
                          | [] => None
                          end.
Proof.
  intros N. induction m as [|[[k0 attr] orn] m IH]; intros ea H k; cbn [edit_args_of] in H.
  - inversion H. reflexivity.
  - unfold edit_value in H. destruct (lookup N attr) as [v|] eqn:Hv; [|discriminate].
    destruct (edit_args_of m N) as [t|] eqn:Ht; [|discriminate]. inversion H; subst ea.
    cbn [lookup filter]. unfold key_is at 1. cbn [fst]. destruct (k0 =? k) eqn:E.
    + rewrite Hv. reflexivity.
    + apply IH. reflexivity.
Qed.

Lemma edit_args_total : forall N (m : list (string * string * bool)),
  (forall e, In e m -> exists v, lookup N (snd (fst e)) = Some v) -> exists ea, edit_args_of m N = Some ea.
Proof.
  intros N. induction m as [|[[k0 attr] orn] m IH]; intros H; cbn [edit_args_of].
  - eauto.
  - destruct (H (k0, attr, orn) (or_introl eq_refl)) as [v Hv]. cbn [fst snd] in Hv.
    unfold edit_value. rewrite Hv. destruct IH as [t Ht]; [intros e He; apply H; right; exact He|].
    rewrite Ht. eauto.
Qed.

Definition expected_req (items : list eitem) (f : efield) : fieldreq :=
  match last_item f items with Some it => item_req it | None => Keep end.

Lemma item_value_req : forall it,
  fieldreq_of_value (efield_eqb (item_field it) FPrivate) (item_value it) = Some (item_req it).
Proof. destruct it; reflexivity. Qed.

Theorem edit_request_spec : forall items pos mf, edit_argv_ok items pos mf = true ->
  exists ea req, edit_parse table emap mattr (render_edit items pos mf) = ER_ok (VStr mf) ea
                 /\ request_of_args ea = Some req
                 /\ forall f, rq_of f req = expected_req items f.
Proof.
  intros items pos mf Hv. destruct (edit_parse_spec items pos mf Hv) as [N [HN [Hm HNf]]].
  unfold edit_parse. rewrite HN, Hm.
  destruct (edit_args_total N emap) as [ea Hea].
  { intros e He. destruct (ok_entries e He) as [f Hf]. destruct e as [[k attr] orn].
    unfold entry_for in Hf. rewrite !andb_true_iff in Hf. destruct Hf as [[[_ Ha] _] _].
    apply String.eqb_eq in Ha. cbn [fst snd]. subst attr. rewrite HNf. eauto. }
  rewrite Hea. exists ea.
  assert (Hfield : forall f, field_of_args ea (e_key f) (efield_eqb f FPrivate) = Some (expected_req items f)).
  { intros f. unfold field_of_args. rewrite (edit_args_lookup N emap ea Hea).
    destruct (ok_field f) as [_ [_ [_ [e He]]]]. rewrite He. destruct e as [[k attr] orn].
    assert (Hin : In (k, attr, orn) emap /\ key_is (e_key f) (k, attr, orn) = true).
    { apply filter_In. rewrite He. left. reflexivity. }
    destruct Hin as [Hin Hk]. unfold key_is in Hk. cbn [fst] in Hk. apply String.eqb_eq in Hk. subst k.
    destruct (ok_entries _ Hin) as [f' Hf']. unfold entry_for in Hf'. rewrite !andb_true_iff in Hf'.
    destruct Hf' as [[[Hk' Ha] Ho] Hd]. rewrite e_key_eqb in Hk'. apply efield_eqb_eq in Hk'. subst f'.
    apply String.eqb_eq in Ha. subst attr. apply value_eqb_eq in Hd.
    rewrite HNf. unfold expected_req. destruct (last_item f items) as [it|] eqn:Hl.
    - destruct (last_item_field f items it Hl) as [Hfi _]. subst f.
      assert (Hmap : mapped orn (item_value it) = item_value it).
      { unfold mapped. destruct orn; [|reflexivity].
        destruct it; cbn [item_field] in Ho; try discriminate; cbn [item_value truthy]; try reflexivity.
        all: apply last_item_field in Hl; destruct Hl as [_ Hin'];
             unfold edit_argv_ok in Hv; rewrite !andb_true_iff in Hv; destruct Hv as [[_ Hall] _];
             rewrite forallb_forall in Hall; specialize (Hall _ Hin'); unfold item_ok in Hall;
             apply andb_true_iff in Hall; destruct Hall as [_ Hall]; cbn [item_list item_values negb orb] in Hall;
             destruct l; [discriminate | reflexivity]. }
      rewrite Hmap. apply item_value_req.
    - rewrite Hd. reflexivity. }
  unfold request_of_args.
  pose proof (Hfield FComment) as H1. pose proof (Hfield FSource) as H2. pose proof (Hfield FPrivate) as H3.
  pose proof (Hfield FAnnounce) as H4. pose proof (Hfield FUrlList) as H5. pose proof (Hfield FHttpSeeds) as H6.
  cbn [e_key efield_eqb] in H1, H2, H3, H4, H5, H6. rewrite H1, H2, H3, H4, H5, H6.
  eexists. split; [reflexivity|]. split; [reflexivity|]. intros f. destruct f; reflexivity.
Qed.

Lemma item_req_not_keep : forall it, item_req it <> Keep.
Proof. destruct it; cbn [item_req]; try discriminate; destruct (s =? ""); discriminate. Qed.

Theorem cli_unnamed_is_keep : forall items pos mf, edit_argv_ok items pos mf = true ->
  exists req, edit_request_of table emap mattr (render_edit items pos mf) = Some req
              /\ forall f, rq_of f req = Keep <-> (forall it, In it items -> item_field it <> f).
Proof.
  intros items pos mf Hv. destruct (edit_request_spec items pos mf Hv) as [ea [req [H1 [H2 H3]]]].
  exists req. unfold edit_request_of. rewrite H1. split; [exact H2|].
  intros f. rewrite H3, <- last_item_none. unfold expected_req.
  destruct (last_item f items) as [it|]; [|tauto].
  split; [intros H; exfalso; exact (item_req_not_keep it H) | discriminate].
Qed.

Theorem cli_named_take_value : forall items pos mf, edit_argv_ok items pos mf = true ->
  exists ea req, edit_parse table emap mattr (render_edit items pos mf) = ER_ok (VStr mf) ea
                 /\ edit_request_of table emap mattr (render_edit items pos mf) = Some req
                 /\ forall f it, last_item f items = Some it -> rq_of f req = item_req it.
Proof.
  intros items pos mf Hv. destruct (edit_request_spec items pos mf Hv) as [ea [req [H1 [H2 H3]]]].
  exists ea, req. split; [exact H1|]. unfold edit_request_of. rewrite H1. split; [exact H2|].
  intros f it Hl. rewrite H3. unfold expected_req. rewrite Hl. reflexivity.
Qed.

End EditCli.

(* ------------------------------------------------------------------ the generated instance *)
Theorem gen_edit_table_ok : edit_table_ok edit_args edit_map edit_metafile_attr = true.
Proof. vm_compute. reflexivity. Qed.

Theorem gen_cli_unnamed_is_keep : forall items pos mf, edit_argv_ok items pos mf = true ->
  exists req, run_edit_request (render_edit items pos mf) = Some req
              /\ forall f, rq_of f req = Keep <-> (forall it, In it items -> item_field it <> f).
Proof. exact (cli_unnamed_is_keep edit_args edit_map edit_metafile_attr gen_edit_table_ok). Qed.

Theorem gen_cli_named_take_value : forall items pos mf, edit_argv_ok items pos mf = true ->
  exists ea req, run_edit_parse (render_edit items pos mf) = ER_ok (VStr mf) ea
                 /\ run_edit_request (render_edit items pos mf) = Some req
                 /\ forall f it, last_item f items = Some it -> rq_of f req = item_req it.
Proof. exact (cli_named_take_value edit_args edit_map edit_metafile_attr gen_edit_table_ok). Qed.

(* example: hypotheses satisfiable, the model computes *)
Definition ex_items : list eitem :=
  [ITracker ["http://a/1"]; IComment "first"; IWebSeed ["http://w/1"; "http://w/2"]; IComment ""; ISource "SRC"].

Example ex_edit :
  edit_argv_ok ex_items 2 "my file.torrent" = true
  /\ run_edit_request (render_edit ex_items 2 "my file.torrent")
     = Some (mkReq Clear (SetStr (bytes_of "SRC")) Keep (SetList [bytes_of "http://a/1"])
                   (SetList [bytes_of "http://w/1"; bytes_of "http://w/2"]) Keep).
Proof. split; vm_compute; reflexivity. Qed.

(* D10 (pinned behaviour): "private": args.private -- the checker rejects the mapping, and a plain
   `edit m.torrent --comment x` asks for private to be set *)
Definition edit_map_D10 : list (string * string * bool) :=
  map (fun e => let '(k, a, _) := e in (k, a, false)) edit_map.

Definition argv_D10 : list string := ["m.torrent"; "--comment"; "x"].

Theorem C07_cli_unnamed_is_keep_refuted_D10 :
  edit_table_ok edit_args edit_map_D10 edit_metafile_attr = false
  /\ exists req, edit_request_of edit_args edit_map_D10 edit_metafile_attr argv_D10 = Some req
                 /\ rq_private req <> Keep.
Proof. split; [vm_compute; reflexivity|]. eexists. split; [vm_compute; reflexivity | discriminate]. Qed.
