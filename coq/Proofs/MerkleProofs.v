(* DESIGN A.3: the code's bottom-up pairing loop (merkle_root) computes the top-down tree root
   of the specification, and utils.next_power_2 is 2^(log2_up v). *)
From TF Require Import Lib.Base Lib.Chunks Lib.Merkle Spec.Bep52 Model.HasherV2.

Section MerkleProofs.
Variable H256 : bytes -> bytes.

Notation tree_root := (tree_root H256).
Notation pair_up := (pair_up H256).
Notation merkle_loop := (merkle_loop H256).
Notation merkle_root := (merkle_root H256).

Lemma tree_root_S h l :
  tree_root (S h) l = H256 (tree_root h (firstn (2 ^ h) l) ++ tree_root h (skipn (2 ^ h) l)).
Proof. reflexivity. Qed.

Lemma tree_root_app h l1 l2 : length l1 = 2 ^ h ->
  tree_root (S h) (l1 ++ l2) = H256 (tree_root h l1 ++ tree_root h l2).
Proof.
  intros Hl. rewrite tree_root_S, firstn_app_exact, skipn_app_exact by assumption. reflexivity.
Qed.

(* ---------- (i) pair_up ---------- *)

Lemma pair_up_cons2 x y r : pair_up (x :: y :: r) = H256 (x ++ y) :: pair_up r.
Proof. reflexivity. Qed.

Lemma pair_up_app_gen m : forall l1 l2, length l1 = 2 * m ->
  pair_up (l1 ++ l2) = pair_up l1 ++ pair_up l2 /\ length (pair_up l1) = m.
Proof.
  induction m as [|m IH]; intros l1 l2 Hl.
  - destruct l1; [split; reflexivity|cbn [length] in Hl; lia].
  - destruct l1 as [|x [|y r]]; try (cbn [length] in Hl; lia).
    cbn [length] in Hl. destruct (IH r l2 ltac:(lia)) as [E L].
    change ((x :: y :: r) ++ l2) with (x :: y :: (r ++ l2)).
    rewrite !pair_up_cons2, E. cbn [length app]. split; [reflexivity|lia].
Qed.

Lemma pair_up_app l1 l2 : Nat.even (length l1) = true ->
  pair_up (l1 ++ l2) = pair_up l1 ++ pair_up l2.
Proof.
  intros He. apply Nat.even_spec in He. destruct He as [m Hm].
  apply (pair_up_app_gen m). exact Hm.
Qed.

Lemma pair_up_length m l : length l = 2 * m -> length (pair_up l) = m.
Proof. intros Hl. apply (pair_up_app_gen m l []). exact Hl. Qed.

(* an odd last element is dropped *)
Lemma pair_up_odd_drop l x : Nat.even (length l) = true -> pair_up (l ++ [x]) = pair_up l.
Proof. intros He. rewrite pair_up_app by assumption. cbn. apply app_nil_r. Qed.

(* ---------- (ii) iterated pairing ---------- *)

Fixpoint iter_pair (k : nat) (l : list bytes) : list bytes :=
  match k with O => l | S k' => iter_pair k' (pair_up l) end.

Lemma iter_pair_is_iter k l : iter_pair k l = Nat.iter k pair_up l.
Proof.
  revert l. induction k as [|k IH]; intros l; [reflexivity|].
  cbn [iter_pair]. rewrite IH. clear IH.
  induction k as [|k IH]; [reflexivity|].
  change (Nat.iter (S k) pair_up (pair_up l)) with (pair_up (Nat.iter k pair_up (pair_up l))).
  rewrite IH. reflexivity.
Qed.

Lemma iter_pair_app k : forall m l1 l2, length l1 = m * 2 ^ k ->
  iter_pair k (l1 ++ l2) = iter_pair k l1 ++ iter_pair k l2 /\ length (iter_pair k l1) = m.
Proof.
  induction k as [|k IH]; intros m l1 l2 Hl.
  - cbn [iter_pair]. split; [reflexivity|]. rewrite Hl. simpl. lia.
  - cbn [iter_pair].
    assert (Hl' : length l1 = 2 * (m * 2 ^ k)) by (rewrite Hl, Nat.pow_succ_r'; lia).
    destruct (pair_up_app_gen (m * 2 ^ k) l1 l2 Hl') as [E L].
    rewrite E. apply IH. exact L.
Qed.

(* ---------- (iii), (iv) bottom-up = top-down ---------- *)

Lemma tree_root_pair_up k : forall l, length l = 2 ^ S k ->
  tree_root (S k) l = tree_root k (pair_up l).
Proof.
  induction k as [|k IH]; intros l Hl.
  - destruct l as [|x [|y [|z r]]]; try (cbn in Hl; lia). reflexivity.
  - rewrite pow2_S in Hl.
    assert (H1 : length (firstn (2 ^ S k) l) = 2 ^ S k) by (rewrite firstn_length; lia).
    assert (H2 : length (skipn (2 ^ S k) l) = 2 ^ S k) by (rewrite skipn_length; lia).
    rewrite (tree_root_S (S k) l). rewrite !IH by assumption.
    rewrite <- (firstn_skipn (2 ^ S k) l) at 3.
    set (l1 := firstn (2 ^ S k) l) in *. set (l2 := skipn (2 ^ S k) l) in *.
    assert (H1' : length l1 = 2 * 2 ^ k) by (rewrite H1, Nat.pow_succ_r'; reflexivity).
    destruct (pair_up_app_gen (2 ^ k) l1 l2 H1') as [E L].
    rewrite E. rewrite tree_root_app by exact L. reflexivity.
Qed.

Lemma iter_pair_tree_root k : forall l, length l = 2 ^ k -> iter_pair k l = [tree_root k l].
Proof.
  induction k as [|k IH]; intros l Hl.
  - destruct l as [|x [|y r]]; try (cbn in Hl; lia). reflexivity.
  - cbn [iter_pair]. rewrite tree_root_pair_up by assumption. apply IH.
    apply pair_up_length. rewrite Hl, Nat.pow_succ_r'. reflexivity.
Qed.

Lemma merkle_loop_pow2 k : forall fuel l, length l = 2 ^ k -> k <= fuel ->
  merkle_loop fuel l = [tree_root k l].
Proof.
  induction k as [|k IH]; intros fuel l Hl Hf.
  - destruct l as [|x [|y r]]; try (cbn in Hl; lia). destruct fuel; reflexivity.
  - destruct fuel as [|f]; [lia|]. cbn [HasherV2.merkle_loop].
    pose proof (pow2_pos k) as Hp.
    assert (Hgt : (1 <? length l) = true) by (apply Nat.ltb_lt; rewrite Hl, pow2_S; lia).
    rewrite Hgt. rewrite tree_root_pair_up by assumption. apply IH; [|lia].
    apply pair_up_length. rewrite Hl, Nat.pow_succ_r'. reflexivity.
Qed.

(* (iv) *)
Theorem merkle_root_tree_root k l : length l = 2 ^ k -> merkle_root l = tree_root k l.
Proof.
  intros Hl. unfold HasherV2.merkle_root.
  destruct l as [|x r] eqn:El; [pose proof (pow2_pos k); cbn [length] in Hl; lia|].
  rewrite <- El in *. rewrite (merkle_loop_pow2 k); [reflexivity|assumption|].
  rewrite Hl. pose proof (pow2_gt_lin k). lia.
Qed.

Lemma merkle_root_singleton x : merkle_root [x] = x.
Proof. reflexivity. Qed.

(* (v) a tree of height a+b is a tree of height a over the roots of the 2^b-groups *)
Theorem tree_root_split a b : forall l, length l = 2 ^ (a + b) ->
  tree_root (a + b) l = tree_root a (map (tree_root b) (chunks (2 ^ b) l)).
Proof.
  pose proof (pow2_pos b) as Hb.
  induction a as [|a IH]; intros l Hl.
  - cbn [Nat.add] in *. rewrite chunks_short; [reflexivity|assumption| |lia].
    destruct l; [cbn [length] in Hl; lia|discriminate].
  - change (S a + b) with (S (a + b)) in *. rewrite pow2_S in Hl.
    assert (H1 : length (firstn (2 ^ (a + b)) l) = 2 ^ (a + b)) by (rewrite firstn_length; lia).
    assert (H2 : length (skipn (2 ^ (a + b)) l) = 2 ^ (a + b)) by (rewrite skipn_length; lia).
    rewrite (tree_root_S (a + b) l). rewrite !IH by assumption.
    rewrite <- (firstn_skipn (2 ^ (a + b)) l) at 3.
    set (l1 := firstn (2 ^ (a + b)) l) in *. set (l2 := skipn (2 ^ (a + b)) l) in *.
    assert (H1' : length l1 = 2 ^ a * 2 ^ b) by (rewrite H1; apply Nat.pow_add_r).
    rewrite chunks_app_multiple by (try assumption; exists (2 ^ a); exact H1').
    rewrite map_app. rewrite tree_root_app; [reflexivity|].
    rewrite map_length. apply length_chunks_exact; assumption.
Qed.

(* ---------- (vii) next_power_2 ---------- *)

Lemma next_power_2_loop_spec v : 0 < v -> forall fuel j,
  j <= Nat.log2_up v -> Nat.log2_up v - j <= fuel ->
  next_power_2_loop fuel (2 ^ j) v = 2 ^ Nat.log2_up v.
Proof.
  intros Hv. induction fuel as [|f IH]; intros j Hj Hf.
  - cbn [next_power_2_loop]. f_equal. lia.
  - cbn [next_power_2_loop]. destruct (2 ^ j <? v) eqn:E.
    + apply Nat.ltb_lt in E. apply Nat.log2_up_lt_pow2 in E; [|assumption].
      rewrite Nat.shiftl_mul_pow2. change (2 ^ 1) with 2.
      replace (2 ^ j * 2) with (2 ^ S j) by (rewrite Nat.pow_succ_r'; lia).
      apply IH; lia.
    + apply Nat.ltb_ge in E. apply Nat.log2_up_le_pow2 in E; [|assumption].
      f_equal. lia.
Qed.

Theorem next_power_2_nat_spec v : 1 <= v -> next_power_2_nat v = 2 ^ Nat.log2_up v.
Proof.
  intros Hv. unfold next_power_2_nat.
  destruct ((Nat.land v (v - 1) =? 0) && negb (v =? 0)) eqn:E.
  - apply andb_prop in E. destruct E as [E1 _]. apply Nat.eqb_eq in E1.
    destruct (nat_pow2_bit_test v ltac:(lia) E1) as [j ->].
    rewrite Nat.log2_up_pow2 by lia. reflexivity.
  - change 1 with (2 ^ 0) at 1. apply next_power_2_loop_spec; [lia|lia|].
    pose proof (Nat.log2_up_lt_lin v ltac:(lia)). lia.
Qed.

(* least power of two >= v *)
Corollary next_power_2_nat_least v : 1 <= v ->
  v <= next_power_2_nat v /\ (exists j, next_power_2_nat v = 2 ^ j) /\
  forall j, v <= 2 ^ j -> next_power_2_nat v <= 2 ^ j.
Proof.
  intros Hv. rewrite next_power_2_nat_spec by assumption.
  destruct (log2_up_least v ltac:(lia)) as [H1 H2]. split; [exact H1|]. split.
  - exists (Nat.log2_up v). reflexivity.
  - intros j Hj. apply Nat.pow_le_mono_r; [lia|]. apply H2. exact Hj.
Qed.

Lemma next_power_2_nat_0 : next_power_2_nat 0 = 1.
Proof. reflexivity. Qed.

End MerkleProofs.

(* ---------- examples ---------- *)
Section Examples.
Open Scope char_scope.
Let H (x : bytes) : bytes := "<" :: x ++ [">"].
Let a : bytes := ["a"]. Let b : bytes := ["b"]. Let c : bytes := ["c"].
Let d : bytes := ["d"]. Let e : bytes := ["e"].

Example pair_up_drops_odd : pair_up H [a; b; c; d; e] = [H (a ++ b); H (c ++ d)].
Proof. reflexivity. Qed.

Example merkle_root_4 : merkle_root H [a; b; c; d] = tree_root H 2 [a; b; c; d].
Proof. vm_compute. reflexivity. Qed.

Example merkle_root_4_value : merkle_root H [a; b; c; d] = H (H (a ++ b) ++ H (c ++ d)).
Proof. vm_compute. reflexivity. Qed.

(* on a length that is not a power of two the loop silently loses data: e is ignored *)
Example merkle_root_5_ignores_last : merkle_root H [a; b; c; d; e] = merkle_root H [a; b; c; d].
Proof. vm_compute. reflexivity. Qed.

Example tree_root_split_ex :
  tree_root H (1 + 1) [a; b; c; d] = tree_root H 1 (map (tree_root H 1) (chunks 2 [a; b; c; d])).
Proof. vm_compute. reflexivity. Qed.

Example next_power_2_values :
  map next_power_2_nat [0; 1; 2; 3; 4; 5; 7; 8; 9; 16; 17] = [1; 1; 2; 4; 4; 8; 8; 8; 16; 16; 32].
Proof. vm_compute. reflexivity. Qed.
End Examples.
