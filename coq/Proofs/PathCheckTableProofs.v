From Coq Require Import String Ascii List Bool.
From TF Require Import Model.PathSafe Model.PathCheckTable.
Import ListNotations.
Open Scope string_scope.

Lemma mem_s_In s l : mem_s s l = true <-> In s l.
Proof.
  unfold mem_s. rewrite existsb_exists. split.
  - intros [x [Hin Heq]]. apply String.eqb_eq in Heq. subst x. exact Hin.
  - intro Hin. exists s. split; [exact Hin | apply String.eqb_refl].
Qed.

Lemma mem_a_In a l : mem_a a l = true <-> In a l.
Proof.
  unfold mem_a. rewrite existsb_exists. split.
  - intros [x [Hin Heq]]. apply Ascii.eqb_eq in Heq. subst x. exact Hin.
  - intro Hin. exists a. split; [exact Hin | apply Ascii.eqb_refl].
Qed.

Lemma existsb_same_set {A} (f : A -> bool) l1 l2 :
  (forall x, In x l1 <-> In x l2) -> existsb f l1 = existsb f l2.
Proof.
  intro H. apply eq_true_iff_eq. rewrite !existsb_exists.
  split; intros [x [Hin Hf]]; exists x; (split; [apply H; exact Hin | exact Hf]).
Qed.

Lemma table_ok_sets exact chars : table_ok exact chars = true ->
  (forall s, In s exact <-> In s exact_std) /\ (forall a, In a chars <-> In a chars_std).
Proof.
  unfold table_ok. rewrite !andb_true_iff, !forallb_forall.
  intros [[[H1 H2] H3] H4]. split.
  - intro s. split; intro Hin.
    + apply mem_s_In. apply H2. exact Hin.
    + apply mem_s_In. apply H1. exact Hin.
  - intro a. split; intro Hin.
    + apply mem_a_In. apply H4. exact Hin.
    + apply mem_a_In. apply H3. exact Hin.
Qed.

(* an accepted table tests exactly what the model of _check_parts tests *)
Theorem table_ok_is_safe_comp exact chars :
  table_ok exact chars = true -> forall c, table_safe_comp exact chars c = safe_comp c.
Proof.
  intros Hok c. destruct (table_ok_sets _ _ Hok) as [He Hc].
  unfold table_safe_comp.
  rewrite (existsb_same_set (String.eqb c) exact exact_std He).
  rewrite (existsb_same_set (fun a => contains a c) chars chars_std Hc).
  unfold safe_comp, exact_std, chars_std. cbn [existsb].
  destruct (String.eqb c ""), (String.eqb c "."), (String.eqb c ".."), (contains slash c), (contains nul c); reflexivity.
Qed.

(* non-vacuity: the standard table is accepted; a table that forgets ".." or adds a character is not *)
Example table_ok_std : table_ok exact_std chars_std = true.
Proof. reflexivity. Qed.
Example table_ok_rejects_missing_dotdot : table_ok [""; "."] chars_std = false.
Proof. reflexivity. Qed.
Example table_ok_rejects_extra_char : table_ok exact_std [slash; nul; " "%char] = false.
Proof. reflexivity. Qed.
