(* Proofs about Model/Bencode.v: dictionary frame lemmas, key sorting, the lenient decoder
   inverts the encoder (with any remainder), injectivity of the encoder, fuel sufficiency, and
   the strict decoder accepts exactly the encodings of canonical values. *)
From TF Require Import Lib.Base Lib.Lex Lib.Decimal Model.Bencode.
From Coq Require Import NArith Sorted Permutation.

Local Open Scope char_scope.

(* ========================================================================================== *)
(* 0. Induction principle for the nested inductive [value]                                     *)
(* ========================================================================================== *)

Section ValueInd.
  Variable P : value -> Prop.
  Hypothesis HI : forall z, P (BInt z).
  Hypothesis HS : forall s, P (BStr s).
  Hypothesis HL : forall l, Forall P l -> P (BList l).
  Hypothesis HD : forall d, Forall (fun kv => P (snd kv)) d -> P (BDict d).

  Fixpoint value_ind' (v : value) : P v :=
    match v with
    | BInt z => HI z
    | BStr s => HS s
    | BList l =>
        HL l ((fix go (l : list value) : Forall P l :=
                 match l with
                 | [] => Forall_nil P
                 | x :: l' => @Forall_cons value P x l' (value_ind' x) (go l')
                 end) l)
    | BDict d =>
        HD d ((fix go (d : list (bytes * value)) : Forall (fun kv => P (snd kv)) d :=
                 match d with
                 | [] => Forall_nil _
                 | (k, x) :: d' =>
                     @Forall_cons (bytes * value) (fun kv => P (snd kv)) (k, x) d'
                                  (value_ind' x) (go d')
                 end) d)
    end.
End ValueInd.

(* ========================================================================================== *)
(* 5. lookup / update / remove                                                                 *)
(* ========================================================================================== *)

Lemma lookup_update_same k v d : lookup k (update k v d) = Some v.
Proof.
  induction d as [|[k' v'] d IH]; cbn [update lookup].
  - rewrite bytes_eqb_refl; reflexivity.
  - destruct (bytes_eqb k' k) eqn:E; cbn [lookup]; rewrite E; [reflexivity|exact IH].
Qed.

Lemma lookup_update_other k k' v d : k <> k' -> lookup k' (update k v d) = lookup k' d.
Proof.
  intros N. induction d as [|[k0 v0] d IH]; cbn [update lookup].
  - apply bytes_eqb_neq in N. rewrite N. reflexivity.
  - destruct (bytes_eqb k0 k) eqn:E; cbn [lookup].
    + apply bytes_eqb_eq in E; subst k0. apply bytes_eqb_neq in N. rewrite N. reflexivity.
    + destruct (bytes_eqb k0 k'); [reflexivity|exact IH].
Qed.

Lemma lookup_remove_same k d : lookup k (remove k d) = None.
Proof.
  induction d as [|[k' v'] d IH]; cbn [remove lookup]; [reflexivity|].
  destruct (bytes_eqb k' k) eqn:E; [exact IH|]. cbn [lookup]. rewrite E. exact IH.
Qed.

Lemma lookup_remove_other k k' d : k <> k' -> lookup k' (remove k d) = lookup k' d.
Proof.
  intros N. induction d as [|[k0 v0] d IH]; cbn [remove lookup]; [reflexivity|].
  destruct (bytes_eqb k0 k) eqn:E.
  - apply bytes_eqb_eq in E; subst k0. apply bytes_eqb_neq in N. rewrite N. exact IH.
  - cbn [lookup]. destruct (bytes_eqb k0 k'); [reflexivity|exact IH].
Qed.

Lemma in_keys_update k' k v d :
  In k' (map fst (update k v d)) <-> k' = k \/ In k' (map fst d).
Proof.
  induction d as [|[k0 v0] d IH]; cbn [update map fst In].
  - split; [intros [E|[]]; left; congruence|intros [E|[]]; left; congruence].
  - destruct (bytes_eqb k0 k) eqn:E; cbn [map fst In].
    + apply bytes_eqb_eq in E; subst k0. split; [tauto|]. intros [->|H]; [left; reflexivity|exact H].
    + rewrite IH. tauto.
Qed.

Lemma in_keys_remove k' k d :
  In k' (map fst (remove k d)) <-> k' <> k /\ In k' (map fst d).
Proof.
  induction d as [|[k0 v0] d IH]; cbn [remove map fst In]; [tauto|].
  destruct (bytes_eqb k0 k) eqn:E.
  - apply bytes_eqb_eq in E; subst k0. rewrite IH. split; [tauto|].
    intros [N [E|H]]; [congruence|tauto].
  - apply bytes_eqb_neq in E. cbn [map fst In]. rewrite IH. split.
    + intros [->|[N H]]; [split; [exact E|left; reflexivity]|tauto].
    + intros [N [->|H]]; [left; reflexivity|tauto].
Qed.

Lemma update_NoDup k v d : NoDup (map fst d) -> NoDup (map fst (update k v d)).
Proof.
  induction d as [|[k0 v0] d IH]; cbn [update map fst]; intros H.
  - constructor; [intros []|constructor].
  - inversion H as [|x l Hn Hd]; subst.
    destruct (bytes_eqb k0 k) eqn:E; cbn [map fst]; [exact H|].
    constructor; [|apply IH; exact Hd].
    rewrite in_keys_update. apply bytes_eqb_neq in E. intros [C|C]; [congruence|contradiction].
Qed.

Lemma remove_NoDup k d : NoDup (map fst d) -> NoDup (map fst (remove k d)).
Proof.
  induction d as [|[k0 v0] d IH]; cbn [remove map fst]; intros H; [constructor|].
  inversion H as [|x l Hn Hd]; subst.
  destruct (bytes_eqb k0 k); [apply IH; exact Hd|]. cbn [map fst].
  constructor; [|apply IH; exact Hd]. rewrite in_keys_remove. tauto.
Qed.

Lemma lookup_None k d : lookup k d = None <-> ~ In k (map fst d).
Proof.
  induction d as [|[k0 v0] d IH]; cbn [lookup map fst In]; [tauto|].
  destruct (bytes_eqb_spec k0 k) as [->|N].
  - split; [discriminate|]. intros C; exfalso; apply C; left; reflexivity.
  - rewrite IH. tauto.
Qed.

Lemma lookup_Some_In k v d : lookup k d = Some v -> In (k, v) d.
Proof.
  induction d as [|[k0 v0] d IH]; cbn [lookup]; [discriminate|].
  destruct (bytes_eqb_spec k0 k) as [->|N].
  - intros E; injection E as ->; left; reflexivity.
  - intros E; right; apply IH; exact E.
Qed.

Lemma In_lookup k v d : NoDup (map fst d) -> In (k, v) d -> lookup k d = Some v.
Proof.
  induction d as [|[k0 v0] d IH]; cbn [lookup map fst]; intros Hn Hi; [destruct Hi|].
  inversion Hn as [|x l Hx Hd]; subst.
  destruct Hi as [E|Hi].
  - injection E as -> ->. rewrite bytes_eqb_refl. reflexivity.
  - destruct (bytes_eqb_spec k0 k) as [->|N]; [|apply IH; assumption].
    exfalso. apply Hx. apply (in_map fst) in Hi. exact Hi.
Qed.

Lemma update_absent k v d : ~ In k (map fst d) -> update k v d = d ++ [(k, v)].
Proof.
  induction d as [|[k0 v0] d IH]; cbn [update map fst In app]; intros H; [reflexivity|].
  destruct (bytes_eqb_spec k0 k) as [->|N]; [exfalso; apply H; left; reflexivity|].
  rewrite IH by tauto. reflexivity.
Qed.

Lemma fold_update_nodup d acc :
  NoDup (map fst (acc ++ d)) ->
  fold_left (fun a kv => update (fst kv) (snd kv) a) d acc = acc ++ d.
Proof.
  revert acc; induction d as [|[k v] d IH]; intros acc H; cbn [fold_left fst snd].
  - rewrite app_nil_r; reflexivity.
  - assert (Hk : ~ In k (map fst acc)).
    { rewrite map_app in H. cbn [map fst] in H. apply NoDup_remove_2 in H.
      intros C; apply H; apply in_or_app; left; exact C. }
    rewrite (update_absent k v acc Hk). rewrite IH.
    + rewrite <- app_assoc. reflexivity.
    + rewrite <- app_assoc. exact H.
Qed.

(* a Python dict rebuilt from its own items is itself *)
Lemma dict_of_pairs_nodup d : NoDup (map fst d) -> dict_of_pairs d = d.
Proof. intros H. unfold dict_of_pairs. rewrite fold_update_nodup; [reflexivity|exact H]. Qed.

Lemma dict_of_pairs_NoDup ps : NoDup (map fst (dict_of_pairs ps)).
Proof.
  unfold dict_of_pairs.
  assert (G : forall acc, NoDup (map fst acc) ->
               NoDup (map fst (fold_left (fun a kv => update (fst kv) (snd kv) a) ps acc))).
  { induction ps as [|[k v] ps IH]; intros acc H; cbn [fold_left]; [exact H|].
    apply IH. apply update_NoDup. exact H. }
  apply G. constructor.
Qed.

(* ========================================================================================== *)
(* 4. key order, sort_keys                                                                     *)
(* ========================================================================================== *)

Lemma key_lt_irrefl a : ~ key_lt a a.
Proof. unfold key_lt, key_ltb. rewrite bytes_ltb_irrefl. discriminate. Qed.

Lemma key_lt_trans a b c : key_lt a b -> key_lt b c -> key_lt a c.
Proof. unfold key_lt, key_ltb. apply bytes_ltb_trans. Qed.

Lemma key_lt_neq a b : key_lt a b -> fst a <> fst b.
Proof. unfold key_lt, key_ltb. apply bytes_ltb_neq. Qed.

Lemma key_ltb_false a b : key_ltb a b = false -> fst a = fst b \/ key_lt b a.
Proof. unfold key_lt, key_ltb. apply bytes_ltb_false_iff. Qed.

Lemma sorted_keysb_sound d : sorted_keysb d = true -> StronglySorted key_lt d.
Proof.
  induction d as [|a d IH]; intros H; [constructor|].
  destruct d as [|b d']; [constructor; constructor|].
  cbn [sorted_keysb] in H. apply andb_true_iff in H. destruct H as [Hab Hs].
  specialize (IH Hs). constructor; [exact IH|].
  apply StronglySorted_inv in IH. destruct IH as [_ Hb].
  constructor; [exact Hab|].
  eapply Forall_impl; [|exact Hb]. intros x Hx. eapply key_lt_trans; [exact Hab|exact Hx].
Qed.

Lemma sorted_keysb_complete d : StronglySorted key_lt d -> sorted_keysb d = true.
Proof.
  induction 1 as [|a d Hs IH Ha]; [reflexivity|].
  destruct d as [|b d']; [reflexivity|].
  cbn [sorted_keysb]. apply andb_true_iff. split; [|exact IH].
  inversion Ha; assumption.
Qed.

Lemma sorted_keysb_spec d : sorted_keysb d = true <-> StronglySorted key_lt d.
Proof. split; [apply sorted_keysb_sound|apply sorted_keysb_complete]. Qed.

Lemma sorted_keys_NoDup d : StronglySorted key_lt d -> NoDup (map fst d).
Proof.
  induction 1 as [|a d Hs IH Ha]; cbn [map]; constructor; [|exact IH].
  intros C. apply in_map_iff in C. destruct C as (x & Ex & Hx).
  rewrite Forall_forall in Ha. apply Ha in Hx. apply key_lt_neq in Hx. congruence.
Qed.

Lemma insert_key_perm kv d : Permutation (insert_key kv d) (kv :: d).
Proof.
  induction d as [|kv' d IH]; cbn [insert_key]; [apply Permutation_refl|].
  destruct (key_ltb kv' kv); [|apply Permutation_refl].
  eapply perm_trans; [apply perm_skip; exact IH|apply perm_swap].
Qed.

Theorem sort_keys_perm d : Permutation (sort_keys d) d.
Proof.
  induction d as [|kv d IH]; cbn [sort_keys]; [constructor|].
  eapply perm_trans; [apply insert_key_perm|apply perm_skip; exact IH].
Qed.

Lemma insert_key_sorted kv d :
  StronglySorted key_lt d -> (forall x, In x d -> fst x <> fst kv) ->
  StronglySorted key_lt (insert_key kv d).
Proof.
  induction 1 as [|a d Hs IH Ha]; intros Hne; cbn [insert_key].
  - constructor; constructor.
  - destruct (key_ltb a kv) eqn:E.
    + constructor.
      * apply IH. intros x Hx. apply Hne. right; exact Hx.
      * apply Forall_forall. intros x Hx.
        apply (Permutation_in _ (insert_key_perm kv d)) in Hx. destruct Hx as [<-|Hx].
        -- exact E.
        -- rewrite Forall_forall in Ha. apply Ha; exact Hx.
    + apply key_ltb_false in E. destruct E as [E|E].
      * exfalso. apply (Hne a); [left; reflexivity|exact E].
      * constructor; [constructor; assumption|].
        constructor; [exact E|].
        eapply Forall_impl; [|exact Ha]. intros x Hx. eapply key_lt_trans; eassumption.
Qed.

Theorem sort_keys_sorted d : NoDup (map fst d) -> StronglySorted key_lt (sort_keys d).
Proof.
  induction d as [|kv d IH]; cbn [sort_keys map]; intros H; [constructor|].
  inversion H as [|x l Hn Hd]; subst.
  apply insert_key_sorted; [apply IH; exact Hd|].
  intros x Hx E. apply Hn. rewrite <- E. apply in_map.
  eapply Permutation_in; [apply sort_keys_perm|exact Hx].
Qed.

Lemma insert_key_below kv d : Forall (key_lt kv) d -> insert_key kv d = kv :: d.
Proof.
  intros H. destruct d as [|a d]; [reflexivity|]. cbn [insert_key].
  inversion H as [|x l Hx Hl]; subst.
  unfold key_lt, key_ltb in Hx. apply bytes_ltb_asym in Hx.
  unfold key_ltb. rewrite Hx. reflexivity.
Qed.

(* sorting an already strictly sorted dictionary changes nothing *)
Theorem sort_keys_sorted_id d : StronglySorted key_lt d -> sort_keys d = d.
Proof.
  induction 1 as [|a d Hs IH Ha]; cbn [sort_keys]; [reflexivity|].
  rewrite IH. apply insert_key_below. exact Ha.
Qed.

Lemma perm_keys_NoDup (d d' : dict) :
  Permutation d d' -> NoDup (map fst d) -> NoDup (map fst d').
Proof. intros Hp. apply Permutation_NoDup. apply Permutation_map. exact Hp. Qed.

(* the sorted dictionary does not depend on the insertion order *)
Theorem sort_keys_perm_eq d d' :
  Permutation d d' -> NoDup (map fst d) -> sort_keys d = sort_keys d'.
Proof.
  intros Hp Hn.
  apply (StronglySorted_perm_eq key_lt key_lt_irrefl key_lt_trans).
  - apply sort_keys_sorted; exact Hn.
  - apply sort_keys_sorted. eapply perm_keys_NoDup; eassumption.
  - eapply perm_trans; [apply sort_keys_perm|].
    eapply perm_trans; [exact Hp|]. apply Permutation_sym, sort_keys_perm.
Qed.

Lemma lookup_perm k d d' :
  Permutation d d' -> NoDup (map fst d) -> lookup k d = lookup k d'.
Proof.
  induction 1 as [|[k0 v0] d d' Hp IH|[k0 v0] [k1 v1] d|d d' d'' Hp1 IH1 Hp2 IH2]; intros Hn.
  - reflexivity.
  - cbn [lookup]. inversion Hn; subst. rewrite IH by assumption. reflexivity.
  - cbn [lookup]. cbn [map fst] in Hn. inversion Hn as [|x l Hx Hl]; subst.
    destruct (bytes_eqb_spec k0 k) as [->|N0]; destruct (bytes_eqb_spec k1 k) as [->|N1];
      try reflexivity.
    exfalso; apply Hx; left; reflexivity.
  - rewrite IH1 by exact Hn. apply IH2. eapply perm_keys_NoDup; eassumption.
Qed.

Theorem lookup_sort_keys k d : NoDup (map fst d) -> lookup k (sort_keys d) = lookup k d.
Proof.
  intros Hn. symmetry. apply lookup_perm; [apply Permutation_sym, sort_keys_perm|exact Hn].
Qed.

Lemma sort_keys_idem d : NoDup (map fst d) -> sort_keys (sort_keys d) = sort_keys d.
Proof. intros H. apply sort_keys_sorted_id, sort_keys_sorted, H. Qed.

(* ========================================================================================== *)
(* canon / nodup_keys and their boolean versions                                               *)
(* ========================================================================================== *)

Lemma canon_nodup_keys v : canon v -> nodup_keys v.
Proof.
  induction v as [z|s|l IH|d IH] using value_ind'; intros H.
  - constructor.
  - constructor.
  - inversion H as [| |l' Hl|]; subst. constructor.
    rewrite Forall_forall in *. intros x Hx. apply IH; [exact Hx|apply Hl; exact Hx].
  - inversion H as [| | |d' Hs Hd]; subst. constructor; [apply sorted_keys_NoDup; exact Hs|].
    rewrite Forall_forall in *. intros x Hx. apply IH; [exact Hx|apply Hd; exact Hx].
Qed.

Lemma canonb_spec v : canonb v = true <-> canon v.
Proof.
  induction v as [z|s|l IH|d IH] using value_ind'; cbn [canonb].
  - split; [constructor|reflexivity].
  - split; [constructor|reflexivity].
  - rewrite forallb_forall. rewrite Forall_forall in IH. split.
    + intros H. constructor. apply Forall_forall. intros x Hx. apply IH; auto.
    + intros H x Hx. inversion H as [| |l' Hl|]; subst. rewrite Forall_forall in Hl.
      apply IH; auto.
  - rewrite andb_true_iff, forallb_forall, sorted_keysb_spec. rewrite Forall_forall in IH. split.
    + intros [Hs H]. constructor; [exact Hs|]. apply Forall_forall. intros [k x] Hx.
      apply (IH (k, x) Hx). apply (H (k, x) Hx).
    + intros H. inversion H as [| | |d' Hs Hd]; subst. split; [exact Hs|].
      intros [k x] Hx. rewrite Forall_forall in Hd. apply (IH (k, x) Hx). apply (Hd (k, x) Hx).
Qed.

Lemma nodupb_spec ks : nodupb ks = true <-> NoDup ks.
Proof.
  induction ks as [|k ks IH]; cbn [nodupb]; [split; [constructor|reflexivity]|].
  rewrite andb_true_iff, negb_true_iff, IH.
  assert (E : existsb (bytes_eqb k) ks = false <-> ~ In k ks).
  { split.
    - intros H C. assert (existsb (bytes_eqb k) ks = true) as T; [|congruence].
      apply existsb_exists. exists k. split; [exact C|apply bytes_eqb_refl].
    - intros H. destruct (existsb (bytes_eqb k) ks) eqn:X; [|reflexivity].
      apply existsb_exists in X. destruct X as (x & Hx & Ex). apply bytes_eqb_eq in Ex; subst x.
      contradiction. }
  rewrite E. split; [intros [A B]; constructor; assumption|].
  intros H; inversion H; subst; split; assumption.
Qed.

Lemma nodup_keysb_spec v : nodup_keysb v = true <-> nodup_keys v.
Proof.
  induction v as [z|s|l IH|d IH] using value_ind'; cbn [nodup_keysb].
  - split; [constructor|reflexivity].
  - split; [constructor|reflexivity].
  - rewrite forallb_forall. rewrite Forall_forall in IH. split.
    + intros H. constructor. apply Forall_forall. intros x Hx. apply IH; auto.
    + intros H x Hx. inversion H as [| |l' Hl|]; subst. rewrite Forall_forall in Hl.
      apply IH; auto.
  - rewrite andb_true_iff, forallb_forall, nodupb_spec. rewrite Forall_forall in IH. split.
    + intros [Hs H]. constructor; [exact Hs|]. apply Forall_forall. intros [k x] Hx.
      apply (IH (k, x) Hx). apply (H (k, x) Hx).
    + intros H. inversion H as [| | |d' Hs Hd]; subst. split; [exact Hs|].
      intros [k x] Hx. rewrite Forall_forall in Hd. apply (IH (k, x) Hx). apply (Hd (k, x) Hx).
Qed.

(* sorting the top-level keys of a dictionary with canonical members makes it canonical *)
Theorem sort_keys_canon_top d :
  NoDup (map fst d) -> Forall (fun kv => canon (snd kv)) d -> canon (BDict (sort_keys d)).
Proof.
  intros Hn Hc. constructor; [apply sort_keys_sorted; exact Hn|].
  rewrite Forall_forall in *. intros x Hx. apply Hc.
  eapply Permutation_in; [apply sort_keys_perm|exact Hx].
Qed.

(* ========================================================================================== *)
(* Shape of encodings                                                                          *)
(* ========================================================================================== *)

Lemma encode_int_app z r : encode (BInt z) ++ r = "i" :: dec_of_Z z ++ "e" :: r.
Proof. cbn [encode]. unfold enc_int. cbn [app]. rewrite <- app_assoc. reflexivity. Qed.

Lemma encode_str_app s r : encode (BStr s) ++ r = enc_str s ++ r.
Proof. reflexivity. Qed.

Lemma enc_str_app s r : enc_str s ++ r = dec_of_nat (length s) ++ ":" :: s ++ r.
Proof. unfold enc_str. rewrite <- app_assoc. reflexivity. Qed.

Lemma encode_list_app l r : encode (BList l) ++ r = "l" :: enc_list l ++ "e" :: r.
Proof. cbn [encode]. fold (enc_list l). cbn [app]. rewrite <- app_assoc. reflexivity. Qed.

Lemma encode_dict_app d r : encode (BDict d) ++ r = "d" :: enc_pairs d ++ "e" :: r.
Proof. cbn [encode]. fold (enc_pairs d). cbn [app]. rewrite <- app_assoc. reflexivity. Qed.

Lemma enc_list_cons v l : enc_list (v :: l) = encode v ++ enc_list l.
Proof. reflexivity. Qed.

Lemma enc_pairs_cons k v d : enc_pairs ((k, v) :: d) = enc_str k ++ encode v ++ enc_pairs d.
Proof. unfold enc_pairs. cbn [map concat]. rewrite <- app_assoc. reflexivity. Qed.

(* a byte string that starts with something other than "e" *)
Definition starts_ne (bs : bytes) : Prop := exists c t, bs = c :: t /\ Ascii.eqb c "e" = false.

Lemma starts_ne_app a b : starts_ne a -> starts_ne (a ++ b).
Proof. intros (c & t & -> & H). exists c, (t ++ b). split; [reflexivity|exact H]. Qed.

Lemma enc_str_head s : exists c t, enc_str s = c :: t /\ is_digit c = true.
Proof.
  unfold enc_str, dec_of_nat. destruct (dec_of_N_head (N.of_nat (length s))) as (c & t & E & Hc & _).
  rewrite E. exists c, (t ++ ":" :: s). split; [reflexivity|exact Hc].
Qed.

Lemma enc_str_starts_ne s : starts_ne (enc_str s).
Proof.
  destruct (enc_str_head s) as (c & t & E & Hc). exists c, t. split; [exact E|].
  apply is_digit_eqb; [exact Hc|reflexivity].
Qed.

Lemma encode_starts_ne v : starts_ne (encode v).
Proof.
  destruct v as [z|s|l|d]; cbn [encode].
  - eexists _, _. split; [reflexivity|reflexivity].
  - apply enc_str_starts_ne.
  - eexists _, _. split; [reflexivity|reflexivity].
  - eexists _, _. split; [reflexivity|reflexivity].
Qed.

Lemma encode_length_pos v : 0 < length (encode v).
Proof. destruct (encode_starts_ne v) as (c & t & -> & _). cbn [length]. lia. Qed.

Lemma enc_list_length l : length l <= length (enc_list l).
Proof.
  induction l as [|v l IH]; [cbn; lia|].
  rewrite enc_list_cons, app_length. cbn [length]. pose proof (encode_length_pos v). lia.
Qed.

Lemma enc_pairs_length d : length d <= length (enc_pairs d).
Proof.
  induction d as [|[k v] d IH]; [cbn; lia|].
  rewrite enc_pairs_cons, !app_length. cbn [length]. pose proof (encode_length_pos v). lia.
Qed.

(* ========================================================================================== *)
(* Leaf decoders                                                                               *)
(* ========================================================================================== *)

Lemma firstn_length_app (s r : bytes) : firstn (length s) (s ++ r) = s.
Proof. induction s as [|x s IH]; cbn [length firstn app]; [destruct r; reflexivity|rewrite IH; reflexivity]. Qed.

Lemma skipn_length_app (s r : bytes) : skipn (length s) (s ++ r) = r.
Proof. induction s as [|x s IH]; cbn [length skipn app]; [reflexivity|exact IH]. Qed.

Lemma splitN_spec n l : splitN n l = (firstn (N.to_nat n) l, skipn (N.to_nat n) l).
Proof.
  revert n; induction l as [|x l IH]; intros n; cbn [splitN].
  - destruct (N.to_nat n); reflexivity.
  - destruct (N.eqb_spec n 0) as [->|Hn]; [reflexivity|].
    rewrite IH.
    assert (N.to_nat n = S (N.to_nat (N.pred n))) as -> by lia.
    reflexivity.
Qed.

Lemma split_sign_spec rest neg rest1 :
  split_sign rest = (neg, rest1) ->
  (neg = true /\ rest = "-" :: rest1) \/ (neg = false /\ rest = rest1).
Proof.
  unfold split_sign. destruct rest as [|c r].
  - intros E; injection E as <- <-. right; split; reflexivity.
  - destruct (Ascii.eqb_spec c "-") as [->|N]; intros E; injection E as <- <-.
    + left; split; reflexivity.
    + right; split; reflexivity.
Qed.

Lemma split_sign_digit c t : is_digit c = true -> split_sign (c :: t) = (false, c :: t).
Proof. intros H. unfold split_sign. rewrite (is_digit_eqb c "-" H eq_refl). reflexivity. Qed.

Lemma decode_int_digits strict neg n r :
  (neg = true -> n <> 0%N) ->
  decode_int strict ((if neg then ["-"] else []) ++ dec_of_N n ++ "e" :: r)
  = Some (BInt (Z_of_dec neg (dec_of_N n)), r).
Proof.
  intros Hneg. unfold decode_int.
  destruct (dec_of_N_head n) as (c & t & E & Hc & _).
  assert (Es : split_sign ((if neg then ["-"] else []) ++ dec_of_N n ++ "e" :: r)
               = (neg, dec_of_N n ++ "e" :: r)).
  { destruct neg; cbn [app]; [reflexivity|]. rewrite E. cbn [app]. apply split_sign_digit, Hc. }
  rewrite Es.
  rewrite (span_digits_app (dec_of_N n) ("e" :: r) (dec_of_N_digits n) eq_refl).
  rewrite dec_of_N_canonical, N_of_dec_of_N.
  assert (neg && (n =? 0)%N = false) as ->.
  { destruct neg; [|reflexivity]. cbn [andb]. apply N.eqb_neq. apply Hneg. reflexivity. }
  cbn [negb andb]. rewrite andb_false_r.
  rewrite E at 1. rewrite Ascii.eqb_refl. reflexivity.
Qed.

Lemma decode_int_encode strict z r :
  decode_int strict (dec_of_Z z ++ "e" :: r) = Some (BInt z, r).
Proof.
  destruct z as [|p|p].
  - apply (decode_int_digits strict false 0%N r). discriminate.
  - pose proof (decode_int_digits strict false (Npos p) r) as H. cbn [app] in H.
    unfold dec_of_Z. cbn [Z.to_N]. rewrite H by discriminate.
    unfold Z_of_dec. rewrite N_of_dec_of_N. reflexivity.
  - pose proof (decode_int_digits strict true (Npos p) r) as H. cbn [app] in H.
    unfold dec_of_Z. cbn [app]. rewrite H by (intros _; discriminate).
    unfold Z_of_dec. rewrite N_of_dec_of_N. reflexivity.
Qed.

Lemma decode_str_encode strict s r : decode_str strict (enc_str s ++ r) = Some (BStr s, r).
Proof.
  rewrite enc_str_app. unfold decode_str, dec_of_nat.
  rewrite (span_digits_app (dec_of_N (N.of_nat (length s))) (":" :: s ++ r) (dec_of_N_digits _) eq_refl).
  rewrite dec_of_N_canonical, N_of_dec_of_N.
  assert ((N.of_nat (length s) <=? N.of_nat (length (s ++ r)))%N = true) as ->.
  { apply N.leb_le. rewrite app_length. lia. }
  cbn [negb andb]. rewrite andb_false_r.
  rewrite splitN_spec, Nat2N.id, firstn_length_app, skipn_length_app.
  destruct (dec_of_N_head (N.of_nat (length s))) as (c & t & E & _).
  rewrite E. rewrite Ascii.eqb_refl. reflexivity.
Qed.

(* converse direction, strict mode only *)
Lemma decode_int_sound rest v r :
  decode_int true rest = Some (v, r) -> exists z, v = BInt z /\ rest = dec_of_Z z ++ "e" :: r.
Proof.
  unfold decode_int. destruct (split_sign rest) as [neg rest1] eqn:Es.
  destruct (span_digits rest1) as [ds rest2] eqn:Ed.
  destruct ds as [|d0 ds']; [discriminate|]. destruct rest2 as [|c r']; [discriminate|].
  destruct (Ascii.eqb_spec c "e") as [->|N]; [|discriminate].
  cbn [andb]. destruct (canonical_dec (d0 :: ds')) eqn:Ec; [|discriminate]. cbn [andb].
  destruct (neg && (N_of_dec (d0 :: ds') =? 0)%N) eqn:En; [discriminate|]. cbn [negb].
  intros H; injection H as <- <-. exists (Z_of_dec neg (d0 :: ds')). split; [reflexivity|].
  apply span_digits_spec in Ed. destruct Ed as (-> & _ & _).
  pose proof (dec_of_N_of_dec _ Ec) as Hrt.
  apply split_sign_spec in Es. destruct Es as [[-> ->]|[-> ->]]; unfold Z_of_dec.
  - cbn [andb] in En. apply N.eqb_neq in En.
    destruct (N_of_dec (d0 :: ds')) as [|p] eqn:Ep; [congruence|].
    cbn [Z.of_N Z.opp dec_of_Z]. rewrite Hrt. reflexivity.
  - rewrite dec_of_Z_of_N, Hrt. reflexivity.
Qed.

Lemma decode_str_sound bs v r :
  decode_str true bs = Some (v, r) -> exists s, v = BStr s /\ bs = enc_str s ++ r.
Proof.
  unfold decode_str. destruct (span_digits bs) as [ds rest] eqn:Ed.
  destruct ds as [|d0 ds']; [discriminate|]. destruct rest as [|c body]; [discriminate|].
  destruct (Ascii.eqb_spec c ":") as [->|N]; [|discriminate].
  cbn [andb]. destruct (canonical_dec (d0 :: ds')) eqn:Ec; [|discriminate]. cbn [andb].
  destruct (N.leb_spec (N_of_dec (d0 :: ds')) (N.of_nat (length body))) as [Hle|Hgt]; [|discriminate].
  cbn [negb]. rewrite splitN_spec. intros H; injection H as <- <-.
  eexists; split; [reflexivity|].
  apply span_digits_spec in Ed. destruct Ed as (-> & _ & _).
  rewrite enc_str_app, firstn_skipn. unfold dec_of_nat.
  rewrite firstn_length, Nat.min_l by lia. rewrite N2Nat.id, (dec_of_N_of_dec _ Ec). reflexivity.
Qed.

Lemma decode_int_shrinks strict rest v r :
  decode_int strict rest = Some (v, r) -> length r < length rest.
Proof.
  unfold decode_int. destruct (split_sign rest) as [neg rest1] eqn:Es.
  destruct (span_digits rest1) as [ds rest2] eqn:Ed.
  destruct ds as [|d0 ds']; [discriminate|]. destruct rest2 as [|c r']; [discriminate|].
  destruct (Ascii.eqb c "e"); [|discriminate].
  destruct (strict && _); [discriminate|]. intros H; injection H as _ <-.
  apply span_digits_length in Ed. cbn [length] in Ed.
  apply split_sign_spec in Es. destruct Es as [[_ ->]|[_ ->]]; cbn [length]; lia.
Qed.

Lemma decode_str_shrinks strict bs v r :
  decode_str strict bs = Some (v, r) -> length r < length bs.
Proof.
  unfold decode_str. destruct (span_digits bs) as [ds rest] eqn:Ed.
  destruct ds as [|d0 ds']; [discriminate|]. destruct rest as [|c body]; [discriminate|].
  destruct (Ascii.eqb c ":"); [|discriminate].
  destruct (strict && _); [discriminate|]. rewrite splitN_spec. intros H; injection H as _ <-.
  apply span_digits_length in Ed. cbn [length] in Ed. rewrite skipn_length. lia.
Qed.

(* ========================================================================================== *)
(* The two loops, generically in the recursive call [rec]                                      *)
(* ========================================================================================== *)

Lemma list_loop_e rec n r : list_loop rec (S n) ("e" :: r) = Some ([], r).
Proof. reflexivity. Qed.

Lemma pairs_loop_e rec n r : pairs_loop rec (S n) ("e" :: r) = Some ([], r).
Proof. reflexivity. Qed.

Lemma list_loop_ne rec n bs :
  starts_ne bs ->
  list_loop rec (S n) bs =
  match rec bs with
  | None => None
  | Some (v, r1) =>
      match list_loop rec n r1 with None => None | Some (vs, r2) => Some (v :: vs, r2) end
  end.
Proof. intros (c & t & -> & H). cbn [list_loop]. rewrite H. reflexivity. Qed.

Lemma pairs_loop_ne rec n bs :
  starts_ne bs ->
  pairs_loop rec (S n) bs =
  match rec bs with
  | Some (BStr k, r1) =>
      match rec r1 with
      | None => None
      | Some (v, r2) =>
          match pairs_loop rec n r2 with None => None | Some (ps, r3) => Some ((k, v) :: ps, r3) end
      end
  | _ => None
  end.
Proof. intros (c & t & -> & H). cbn [pairs_loop]. rewrite H. reflexivity. Qed.

Section Loops.
  Variable rec : bytes -> option (value * bytes).

  (* --- the loops invert the encoders, if [rec] inverts [encode] on inputs below [bound] --- *)
  Lemma list_loop_encode bound vs :
    Forall (fun v => forall r', length (encode v ++ r') < bound ->
                                rec (encode v ++ r') = Some (v, r')) vs ->
    forall n r, length vs < n -> length (enc_list vs ++ "e" :: r) < bound ->
                list_loop rec n (enc_list vs ++ "e" :: r) = Some (vs, r).
  Proof.
    induction 1 as [|v vs Hv _ IH]; intros n r Hn Hb; (destruct n as [|n]; [cbn [length] in Hn; lia|]).
    - apply list_loop_e.
    - rewrite enc_list_cons, <- app_assoc in *.
      rewrite list_loop_ne by (apply starts_ne_app, encode_starts_ne).
      pose proof (encode_length_pos v) as Hp.
      rewrite Hv by exact Hb. rewrite (app_length (encode v)) in Hb.
      cbn [length] in Hn. rewrite IH by lia. reflexivity.
  Qed.

  Lemma pairs_loop_encode bound d :
    (forall k r', length (enc_str k ++ r') < bound -> rec (enc_str k ++ r') = Some (BStr k, r')) ->
    Forall (fun kv => forall r', length (encode (snd kv) ++ r') < bound ->
                                 rec (encode (snd kv) ++ r') = Some (snd kv, r')) d ->
    forall n r, length d < n -> length (enc_pairs d ++ "e" :: r) < bound ->
                pairs_loop rec n (enc_pairs d ++ "e" :: r) = Some (d, r).
  Proof.
    intros Hk. induction 1 as [|[k v] d Hv _ IH]; intros n r Hn Hb;
      (destruct n as [|n]; [cbn [length] in Hn; lia|]).
    - apply pairs_loop_e.
    - cbn [snd] in Hv. rewrite enc_pairs_cons, <- !app_assoc in *.
      rewrite pairs_loop_ne by (apply starts_ne_app, enc_str_starts_ne).
      destruct (enc_str_head k) as (c & t & E & _). assert (0 < length (enc_str k)) as Hp
          by (rewrite E; cbn [length]; lia).
      pose proof (encode_length_pos v) as Hq.
      rewrite Hk by exact Hb. rewrite (app_length (enc_str k)) in Hb.
      rewrite Hv by lia. rewrite (app_length (encode v)) in Hb.
      cbn [length] in Hn. rewrite IH by lia. reflexivity.
  Qed.

  (* --- the loops consume input, if [rec] does --- *)
  Hypothesis rec_shrinks : forall bs v r, rec bs = Some (v, r) -> length r < length bs.

  Lemma list_loop_shrinks n bs vs r : list_loop rec n bs = Some (vs, r) -> length r < length bs.
  Proof.
    revert bs vs r; induction n as [|n IH]; intros bs vs r; cbn [list_loop]; [discriminate|].
    destruct bs as [|c t]; [discriminate|].
    destruct (Ascii.eqb c "e").
    - intros H; injection H as _ <-. cbn [length]; lia.
    - destruct (rec (c :: t)) as [[v r1]|] eqn:E1; [|discriminate].
      destruct (list_loop rec n r1) as [[vs' r2]|] eqn:E2; [|discriminate].
      intros H; injection H as _ <-. apply rec_shrinks in E1. apply IH in E2. lia.
  Qed.

  Lemma pairs_loop_shrinks n bs ps r : pairs_loop rec n bs = Some (ps, r) -> length r < length bs.
  Proof.
    revert bs ps r; induction n as [|n IH]; intros bs ps r; cbn [pairs_loop]; [discriminate|].
    destruct bs as [|c t]; [discriminate|].
    destruct (Ascii.eqb c "e").
    - intros H; injection H as _ <-. cbn [length]; lia.
    - destruct (rec (c :: t)) as [[[z|k|l|d] r1]|] eqn:E1; try discriminate.
      destruct (rec r1) as [[v r2]|] eqn:E2; [|discriminate].
      destruct (pairs_loop rec n r2) as [[ps' r3]|] eqn:E3; [|discriminate].
      intros H; injection H as _ <-.
      apply rec_shrinks in E1. apply rec_shrinks in E2. apply IH in E3. lia.
  Qed.

  (* --- the loops do not depend on the iteration bound or on [rec] beyond the input length --- *)
  Variable rec2 : bytes -> option (value * bytes).

  Lemma list_loop_ext bound :
    (forall bs, length bs < bound -> rec bs = rec2 bs) ->
    forall n1 n2 bs, length bs < bound -> length bs < n1 -> length bs < n2 ->
                     list_loop rec n1 bs = list_loop rec2 n2 bs.
  Proof.
    intros Hext. induction n1 as [|n1 IH]; intros n2 bs Hb H1 H2; [lia|].
    destruct n2 as [|n2]; [lia|]. cbn [list_loop].
    destruct bs as [|c t]; [reflexivity|]. destruct (Ascii.eqb c "e"); [reflexivity|].
    rewrite <- Hext by exact Hb.
    destruct (rec (c :: t)) as [[v r1]|] eqn:E1; [|reflexivity].
    apply rec_shrinks in E1. rewrite (IH n2 r1) by lia. reflexivity.
  Qed.

  Lemma pairs_loop_ext bound :
    (forall bs, length bs < bound -> rec bs = rec2 bs) ->
    forall n1 n2 bs, length bs < bound -> length bs < n1 -> length bs < n2 ->
                     pairs_loop rec n1 bs = pairs_loop rec2 n2 bs.
  Proof.
    intros Hext. induction n1 as [|n1 IH]; intros n2 bs Hb H1 H2; [lia|].
    destruct n2 as [|n2]; [lia|]. cbn [pairs_loop].
    destruct bs as [|c t]; [reflexivity|]. destruct (Ascii.eqb c "e"); [reflexivity|].
    rewrite <- Hext by exact Hb.
    destruct (rec (c :: t)) as [[[z|k|l|d] r1]|] eqn:E1; try reflexivity.
    apply rec_shrinks in E1.
    rewrite <- Hext by lia.
    destruct (rec r1) as [[v r2]|] eqn:E2; [|reflexivity].
    apply rec_shrinks in E2. rewrite (IH n2 r2) by lia. reflexivity.
  Qed.
End Loops.

Section LoopsSound.
  Variable rec : bytes -> option (value * bytes).
  Variable P : value -> Prop.
  Hypothesis rec_sound : forall bs v r, rec bs = Some (v, r) -> P v /\ bs = encode v ++ r.

  Lemma list_loop_sound n bs vs r :
    list_loop rec n bs = Some (vs, r) -> Forall P vs /\ bs = enc_list vs ++ "e" :: r.
  Proof.
    revert bs vs r; induction n as [|n IH]; intros bs vs r; cbn [list_loop]; [discriminate|].
    destruct bs as [|c t]; [discriminate|].
    destruct (Ascii.eqb_spec c "e") as [->|N].
    - intros H; injection H as <- <-. split; [constructor|reflexivity].
    - destruct (rec (c :: t)) as [[v r1]|] eqn:E1; [|discriminate].
      destruct (list_loop rec n r1) as [[vs' r2]|] eqn:E2; [|discriminate].
      intros H; injection H as <- <-.
      apply rec_sound in E1. destruct E1 as [Hv ->]. apply IH in E2. destruct E2 as [Hvs ->].
      split; [constructor; assumption|]. rewrite enc_list_cons, <- app_assoc. reflexivity.
  Qed.

  Lemma pairs_loop_sound n bs ps r :
    pairs_loop rec n bs = Some (ps, r) ->
    Forall (fun kv => P (snd kv)) ps /\ bs = enc_pairs ps ++ "e" :: r.
  Proof.
    revert bs ps r; induction n as [|n IH]; intros bs ps r; cbn [pairs_loop]; [discriminate|].
    destruct bs as [|c t]; [discriminate|].
    destruct (Ascii.eqb_spec c "e") as [->|N].
    - intros H; injection H as <- <-. split; [constructor|reflexivity].
    - destruct (rec (c :: t)) as [[[z|k|l|d] r1]|] eqn:E1; try discriminate.
      destruct (rec r1) as [[v r2]|] eqn:E2; [|discriminate].
      destruct (pairs_loop rec n r2) as [[ps' r3]|] eqn:E3; [|discriminate].
      intros H; injection H as <- <-.
      apply rec_sound in E1. destruct E1 as [_ ->]. apply rec_sound in E2. destruct E2 as [Hv ->].
      apply IH in E3. destruct E3 as [Hps ->].
      split; [constructor; assumption|].
      rewrite enc_pairs_cons, <- !app_assoc. reflexivity.
  Qed.
End LoopsSound.

(* ========================================================================================== *)
(* decode_gen: unfolding lemmas                                                                *)
(* ========================================================================================== *)

Lemma decode_gen_i strict f rest : decode_gen strict (S f) ("i" :: rest) = decode_int strict rest.
Proof. reflexivity. Qed.

Lemma decode_gen_l strict f rest :
  decode_gen strict (S f) ("l" :: rest) =
  match list_loop (decode_gen strict f) f rest with
  | Some (vs, r) => Some (BList vs, r)
  | None => None
  end.
Proof. reflexivity. Qed.

Lemma decode_gen_d strict f rest :
  decode_gen strict (S f) ("d" :: rest) =
  match pairs_loop (decode_gen strict f) f rest with
  | Some (ps, r) => match finish_dict strict ps with Some v => Some (v, r) | None => None end
  | None => None
  end.
Proof. reflexivity. Qed.

Lemma decode_gen_digit strict f c t :
  is_digit c = true -> decode_gen strict (S f) (c :: t) = decode_str strict (c :: t).
Proof.
  intros H. cbn [decode_gen]. rewrite (is_digit_eqb c "i" H eq_refl), H. reflexivity.
Qed.

(* ========================================================================================== *)
(* 1. The decoders invert the encoder, with any remainder                                      *)
(* ========================================================================================== *)

Definition wf (strict : bool) (v : value) : Prop := if strict then canon v else nodup_keys v.

Lemma wf_list strict l : wf strict (BList l) -> Forall (wf strict) l.
Proof. destruct strict; cbn [wf]; inversion 1; assumption. Qed.

Lemma wf_dict strict d :
  wf strict (BDict d) ->
  Forall (fun kv => wf strict (snd kv)) d /\ finish_dict strict d = Some (BDict d).
Proof.
  destruct strict; cbn [wf finish_dict]; inversion 1 as [| | |d' H1 H2]; subst; split; try assumption.
  - rewrite sorted_keysb_complete by assumption. reflexivity.
  - rewrite dict_of_pairs_nodup by assumption. reflexivity.
Qed.

Theorem decode_gen_encode strict v :
  wf strict v ->
  forall r fuel, length (encode v ++ r) < fuel ->
                 decode_gen strict fuel (encode v ++ r) = Some (v, r).
Proof.
  induction v as [z|s|l IH|d IH] using value_ind'; intros Hwf r fuel Hf;
    (destruct fuel as [|f]; [lia|]).
  - rewrite encode_int_app, decode_gen_i. apply decode_int_encode.
  - rewrite encode_str_app. destruct (enc_str_head s) as (c & t & E & Hc).
    pose proof (decode_str_encode strict s r) as H. rewrite E in *. cbn [app] in *.
    rewrite decode_gen_digit by exact Hc. exact H.
  - rewrite encode_list_app in *. cbn [length] in Hf. rewrite decode_gen_l.
    rewrite (list_loop_encode (decode_gen strict f) f l).
    + reflexivity.
    + apply wf_list in Hwf. rewrite Forall_forall in *. intros v Hv r' Hr'.
      apply IH; [exact Hv|apply Hwf; exact Hv|exact Hr'].
    + rewrite app_length in Hf. pose proof (enc_list_length l). lia.
    + lia.
  - rewrite encode_dict_app in *. cbn [length] in Hf. rewrite decode_gen_d.
    apply wf_dict in Hwf. destruct Hwf as [Hwf Hfin].
    rewrite (pairs_loop_encode (decode_gen strict f) f d).
    + rewrite Hfin. reflexivity.
    + intros k r' Hr'. destruct f as [|f']; [lia|].
      destruct (enc_str_head k) as (c & t & E & Hc).
      pose proof (decode_str_encode strict k r') as H. rewrite E in *. cbn [app] in *.
      rewrite decode_gen_digit by exact Hc. exact H.
    + rewrite Forall_forall in *. intros kv Hkv r' Hr'.
      apply IH; [exact Hkv|apply Hwf; exact Hkv|exact Hr'].
    + rewrite app_length in Hf. pose proof (enc_pairs_length d). lia.
    + lia.
Qed.

(* Theorem 1: pyben's lenient decoder inverts pyben's encoder on every value a Python object can
   be (no dictionary has two equal keys), whatever follows the encoding. *)
Theorem pydecode_encode v :
  nodup_keys v ->
  forall r fuel, fuel > length (encode v ++ r) -> pydecode fuel (encode v ++ r) = Some (v, r).
Proof. intros H r fuel Hf. apply (decode_gen_encode false v H r fuel). lia. Qed.

Corollary pyloads_encode v : nodup_keys v -> pyloads (encode v) = Some v.
Proof.
  intros H. unfold pyloads.
  pose proof (pydecode_encode v H [] (S (length (encode v)))) as E. rewrite app_nil_r in E.
  rewrite E by lia. reflexivity.
Qed.

(* Theorem 2: the encoder is injective (on values without duplicate keys) *)
Theorem encode_inj v w : nodup_keys v -> nodup_keys w -> encode v = encode w -> v = w.
Proof.
  intros Hv Hw E. pose proof (pyloads_encode v Hv) as A. pose proof (pyloads_encode w Hw) as B.
  rewrite E in A. congruence.
Qed.

(* stronger: no encoding is a proper prefix of another (prefix-freeness) *)
Corollary encode_prefix_free v w r r' :
  nodup_keys v -> nodup_keys w -> encode v ++ r = encode w ++ r' -> v = w /\ r = r'.
Proof.
  intros Hv Hw E.
  pose proof (pydecode_encode v Hv r (S (length (encode v ++ r))) ltac:(lia)) as A.
  pose proof (pydecode_encode w Hw r' (S (length (encode w ++ r'))) ltac:(lia)) as B.
  rewrite E in A. rewrite A in B. injection B as -> ->. split; reflexivity.
Qed.

(* ========================================================================================== *)
(* Fuel: S (length bs) is always enough                                                        *)
(* ========================================================================================== *)

Lemma decode_gen_shrinks strict fuel bs v r :
  decode_gen strict fuel bs = Some (v, r) -> length r < length bs.
Proof.
  revert bs v r; induction fuel as [|f IH]; intros bs v r; cbn [decode_gen]; [discriminate|].
  destruct bs as [|c rest]; [discriminate|].
  destruct (Ascii.eqb c "i").
  { intros H. apply decode_int_shrinks in H. cbn [length]. lia. }
  destruct (is_digit c).
  { apply decode_str_shrinks. }
  destruct (Ascii.eqb c "l").
  { destruct (list_loop (decode_gen strict f) f rest) as [[vs r']|] eqn:E; [|discriminate].
    intros H; injection H as _ <-. apply (list_loop_shrinks _ IH) in E. cbn [length]. lia. }
  destruct (Ascii.eqb c "d"); [|discriminate].
  destruct (pairs_loop (decode_gen strict f) f rest) as [[ps r']|] eqn:E; [|discriminate].
  destruct (finish_dict strict ps); [|discriminate].
  intros H; injection H as _ <-. apply (pairs_loop_shrinks _ IH) in E. cbn [length]. lia.
Qed.

Theorem decode_gen_fuel_ext strict f1 f2 bs :
  length bs < f1 -> length bs < f2 -> decode_gen strict f1 bs = decode_gen strict f2 bs.
Proof.
  revert f2 bs; induction f1 as [|f1 IH]; intros f2 bs H1 H2; [lia|].
  destruct f2 as [|f2]; [lia|]. cbn [decode_gen].
  destruct bs as [|c rest]; [reflexivity|]. cbn [length] in *.
  destruct (Ascii.eqb c "i"); [reflexivity|].
  destruct (is_digit c); [reflexivity|].
  assert (Hext : forall bs, length bs < S (length rest) ->
                            decode_gen strict f1 bs = decode_gen strict f2 bs).
  { intros bs Hb. apply IH; lia. }
  destruct (Ascii.eqb c "l").
  { rewrite (list_loop_ext (decode_gen strict f1) (decode_gen_shrinks strict f1)
                           (decode_gen strict f2) (S (length rest)) Hext f1 f2 rest) by lia.
    reflexivity. }
  destruct (Ascii.eqb c "d"); [|reflexivity].
  rewrite (pairs_loop_ext (decode_gen strict f1) (decode_gen_shrinks strict f1)
                          (decode_gen strict f2) (S (length rest)) Hext f1 f2 rest) by lia.
  reflexivity.
Qed.

(* any fuel above the input length gives the same answer, failures included *)
Theorem pydecode_fuel fuel bs :
  fuel > length bs -> pydecode fuel bs = pydecode (S (length bs)) bs.
Proof. intros H. apply decode_gen_fuel_ext; lia. Qed.

(* more fuel never changes a success *)
Theorem decode_gen_fuel_mono strict f1 f2 bs x :
  decode_gen strict f1 bs = Some x -> f1 <= f2 -> decode_gen strict f2 bs = Some x.
Proof.
  revert f2 bs x; induction f1 as [|f1 IH]; intros f2 bs x H Hle; [discriminate H|].
  destruct f2 as [|f2]; [lia|]. revert H. cbn [decode_gen].
  destruct bs as [|c rest]; [discriminate|].
  destruct (Ascii.eqb c "i"); [tauto|]. destruct (is_digit c); [tauto|].
  assert (Hl : forall n1 n2 bs y, n1 <= n2 -> list_loop (decode_gen strict f1) n1 bs = Some y ->
                                  list_loop (decode_gen strict f2) n2 bs = Some y).
  { induction n1 as [|n1 IHn]; intros n2 bs y Hn; cbn [list_loop]; [discriminate|].
    destruct n2 as [|n2]; [lia|]. cbn [list_loop].
    destruct bs as [|c' t]; [discriminate|]. destruct (Ascii.eqb c' "e"); [tauto|].
    destruct (decode_gen strict f1 (c' :: t)) as [[v r1]|] eqn:E1; [|discriminate].
    rewrite (IH f2 _ _ E1) by lia.
    destruct (list_loop (decode_gen strict f1) n1 r1) as [[vs r2]|] eqn:E2; [|discriminate].
    rewrite (IHn n2 _ _ ltac:(lia) E2). tauto. }
  assert (Hp : forall n1 n2 bs y, n1 <= n2 -> pairs_loop (decode_gen strict f1) n1 bs = Some y ->
                                  pairs_loop (decode_gen strict f2) n2 bs = Some y).
  { induction n1 as [|n1 IHn]; intros n2 bs y Hn; cbn [pairs_loop]; [discriminate|].
    destruct n2 as [|n2]; [lia|]. cbn [pairs_loop].
    destruct bs as [|c' t]; [discriminate|]. destruct (Ascii.eqb c' "e"); [tauto|].
    destruct (decode_gen strict f1 (c' :: t)) as [[[z|k|l|d] r1]|] eqn:E1; try discriminate.
    rewrite (IH f2 _ _ E1) by lia.
    destruct (decode_gen strict f1 r1) as [[v r2]|] eqn:E2; [|discriminate].
    rewrite (IH f2 _ _ E2) by lia.
    destruct (pairs_loop (decode_gen strict f1) n1 r2) as [[ps r3]|] eqn:E3; [|discriminate].
    rewrite (IHn n2 _ _ ltac:(lia) E3). tauto. }
  destruct (Ascii.eqb c "l").
  { destruct (list_loop (decode_gen strict f1) f1 rest) as [y|] eqn:E; [|discriminate].
    rewrite (Hl f1 f2 rest y ltac:(lia) E). tauto. }
  destruct (Ascii.eqb c "d"); [|discriminate].
  destruct (pairs_loop (decode_gen strict f1) f1 rest) as [y|] eqn:E; [|discriminate].
  rewrite (Hp f1 f2 rest y ltac:(lia) E). tauto.
Qed.

(* ========================================================================================== *)
(* 3. Strict decoder = canonical encodings                                                     *)
(* ========================================================================================== *)

Theorem decode_gen_strict_sound fuel bs v r :
  decode_gen true fuel bs = Some (v, r) -> canon v /\ bs = encode v ++ r.
Proof.
  revert bs v r; induction fuel as [|f IH]; intros bs v r; cbn [decode_gen]; [discriminate|].
  destruct bs as [|c rest]; [discriminate|].
  destruct (Ascii.eqb_spec c "i") as [->|Ni].
  { intros H. apply decode_int_sound in H. destruct H as (z & -> & ->).
    split; [constructor|]. rewrite encode_int_app. reflexivity. }
  destruct (is_digit c).
  { intros H. apply decode_str_sound in H. destruct H as (s & -> & ->).
    split; [constructor|reflexivity]. }
  destruct (Ascii.eqb_spec c "l") as [->|Nl].
  { destruct (list_loop (decode_gen true f) f rest) as [[vs r']|] eqn:E; [|discriminate].
    intros H; injection H as <- <-. apply (list_loop_sound _ canon IH) in E.
    destruct E as [Hc ->]. split; [constructor; exact Hc|]. rewrite encode_list_app. reflexivity. }
  destruct (Ascii.eqb_spec c "d") as [->|Nd]; [|discriminate].
  destruct (pairs_loop (decode_gen true f) f rest) as [[ps r']|] eqn:E; [|discriminate].
  cbn [finish_dict]. destruct (sorted_keysb ps) eqn:Es; [|discriminate].
  intros H; injection H as <- <-. apply (pairs_loop_sound _ canon IH) in E.
  destruct E as [Hc ->]. split; [|rewrite encode_dict_app; reflexivity].
  constructor; [apply sorted_keysb_sound; exact Es|exact Hc].
Qed.

Theorem strict_decode_encode v : canon v -> strict_decode (encode v) = Some v.
Proof.
  intros H. unfold strict_decode.
  pose proof (decode_gen_encode true v H [] (S (length (encode v)))) as E.
  rewrite app_nil_r in E. rewrite E by lia. reflexivity.
Qed.

Theorem strict_decode_sound bs v : strict_decode bs = Some v -> canon v /\ bs = encode v.
Proof.
  unfold strict_decode.
  destruct (decode_gen true (S (length bs)) bs) as [[v' [|x r]]|] eqn:E; try discriminate.
  intros H; injection H as <-. apply decode_gen_strict_sound in E.
  rewrite app_nil_r in E. exact E.
Qed.

(* canonical byte strings are exactly the encodings of canonical values *)
Theorem canonical_iff bs : canonical_bytes bs = true <-> exists v, canon v /\ bs = encode v.
Proof.
  unfold canonical_bytes. split.
  - destruct (strict_decode bs) as [v|] eqn:E; [|discriminate].
    intros _. exists v. apply strict_decode_sound. exact E.
  - intros (v & Hc & ->). rewrite strict_decode_encode by exact Hc. reflexivity.
Qed.

(* hence any two decoders that are correct on canonical input agree with [strict_decode] there;
   in particular pyben's lenient decoder does *)
Theorem strict_implies_lenient bs v :
  strict_decode bs = Some v -> pydecode (S (length bs)) bs = Some (v, []).
Proof.
  intros H. apply strict_decode_sound in H. destruct H as [Hc ->].
  pose proof (pydecode_encode v (canon_nodup_keys v Hc) [] (S (length (encode v)))) as E.
  rewrite app_nil_r in E. apply E. lia.
Qed.

Corollary strict_decode_unique bs v w :
  strict_decode bs = Some v -> canon w -> bs = encode w -> v = w.
Proof.
  intros H Hw ->. rewrite strict_decode_encode in H by exact Hw. congruence.
Qed.

(* ========================================================================================== *)
(* 6. Examples (the model computes; the hypotheses of the theorems are satisfiable)            *)
(* ========================================================================================== *)

Module Examples.
  Import String.
  Local Open Scope string_scope.
  Definition b (s : string) : bytes := list_ascii_of_string s.

  (* {"info": {"name": "a", "length": -3}, "l": ["xy", 0, []]} in insertion (unsorted) order *)
  Definition ex_value : value :=
    BDict [(b"info", BDict [(b"name", BStr (b"a")); (b"length", BInt (-3))]);
           (b"l", BList [BStr (b"xy"); BInt 0; BList []])].

  Example encode_ex : encode ex_value = b"d4:infod4:name1:a6:lengthi-3ee1:ll2:xyi0eleee".
  Proof. vm_compute. reflexivity. Qed.

  Example ex_value_nodup : nodup_keys ex_value.
  Proof. apply nodup_keysb_spec. vm_compute. reflexivity. Qed.

  Example ex_value_not_canon : canonb ex_value = false.
  Proof. vm_compute. reflexivity. Qed.

  (* Theorem 1 on the example, with a remainder, computed *)
  Example pydecode_encode_ex :
    pydecode 60 (encode ex_value ++ b"tail")%list = Some (ex_value, b"tail").
  Proof. vm_compute. reflexivity. Qed.

  (* lenient-only input: leading zeros in an integer and in a length, "-0", unsorted keys,
     a duplicate key (later value wins, first position kept), trailing bytes.
     Real pyben returns ({'b': 0, 'a': 'xy', 'c': [-5]}, 35) on it. *)
  Definition ex_lenient : bytes := b"d1:bi007e1:a02:xy1:bi-0e1:cli-05eeeTRAILING".

  Example pydecode_lenient_ex :
    pydecode (S (List.length ex_lenient)) ex_lenient =
    Some (BDict [(b"b", BInt 0); (b"a", BStr (b"xy")); (b"c", BList [BInt (-5)])], b"TRAILING").
  Proof. vm_compute. reflexivity. Qed.

  Example strict_decode_lenient_ex : strict_decode ex_lenient = None.
  Proof. vm_compute. reflexivity. Qed.

  (* each defect alone is rejected by the strict decoder and accepted by the lenient one *)
  Example strict_rejects :
    map strict_decode
        [b"i007e"; b"i-0e"; b"02:xy"; b"5:ab"; b"d1:bi1e1:ai2ee"; b"d1:ai1e1:ai2ee"; b"i1ex";
         b"di1ei2ee"; b"i-e"; b"l"; b""]
    = [None; None; None; None; None; None; None; None; None; None; None].
  Proof. vm_compute. reflexivity. Qed.

  Example lenient_accepts :
    map pyloads [b"i007e"; b"i-0e"; b"02:xy"; b"5:ab"; b"d1:bi1e1:ai2ee"; b"d1:ai1e1:ai2ee"; b"i1ex"]
    = [Some (BInt 7); Some (BInt 0); Some (BStr (b"xy")); Some (BStr (b"ab"));
       Some (BDict [(b"b", BInt 1); (b"a", BInt 2)]); Some (BDict [(b"a", BInt 2)]);
       Some (BInt 1)].
  Proof. vm_compute. reflexivity. Qed.

  (* both raise in Python: a short string inside a list, digits without ":", missing "e" *)
  Example lenient_rejects :
    map pyloads [b"l5:abe"; b"12"; b"i12"; b"li1e"; b"d1:ae"; b"x"; b""]
    = [None; None; None; None; None; None; None].
  Proof. vm_compute. reflexivity. Qed.

  (* the canonical form of the example: sort every dictionary *)
  Definition ex_canon : value :=
    BDict (sort_keys [(b"info", BDict (sort_keys [(b"name", BStr (b"a")); (b"length", BInt (-3))]));
                      (b"l", BList [BStr (b"xy"); BInt 0; BList []])]).

  Example ex_canon_canon : canon ex_canon.
  Proof. apply canonb_spec. vm_compute. reflexivity. Qed.

  Example strict_decode_ex :
    strict_decode (b"d4:infod6:lengthi-3e4:name1:ae1:ll2:xyi0eleee") = Some ex_canon
    /\ encode ex_canon = b"d4:infod6:lengthi-3e4:name1:ae1:ll2:xyi0eleee"
    /\ canonical_bytes (encode ex_canon) = true /\ canonical_bytes (encode ex_value) = false.
  Proof. vm_compute. repeat split. Qed.

  (* raw byte order: upper case before lower case, prefix before extension, bytes >= 128 last *)
  Example bytes_ltb_ex :
    bytes_ltb (b"Z") (b"a") = true /\ bytes_ltb (b"a") (b"ab") = true /\
    bytes_ltb (b"ab") (b"a") = false /\ bytes_ltb (b"z") [ascii_of_nat 200] = true /\
    bytes_ltb (b"a") (b"a") = false.
  Proof. vm_compute. repeat split. Qed.

  Example dict_ops_ex :
    let d := [(b"b", BInt 1); (b"a", BInt 2)] in
    update (b"b") (BInt 9) d = [(b"b", BInt 9); (b"a", BInt 2)] /\
    update (b"c") (BInt 9) d = [(b"b", BInt 1); (b"a", BInt 2); (b"c", BInt 9)] /\
    remove (b"b") d = [(b"a", BInt 2)] /\ lookup (b"a") d = Some (BInt 2) /\
    lookup (b"z") d = None /\ sort_keys d = [(b"a", BInt 2); (b"b", BInt 1)] /\
    sort_keys (sort_keys d) = sort_keys d.
  Proof. vm_compute. repeat split. Qed.
End Examples.

(* ========================================================================================== *)
(* Assumptions                                                                                 *)
(* ========================================================================================== *)

Print Assumptions pydecode_encode.
Print Assumptions encode_inj.
Print Assumptions encode_prefix_free.
Print Assumptions pydecode_fuel.
Print Assumptions decode_gen_fuel_mono.
Print Assumptions strict_decode_encode.
Print Assumptions strict_decode_sound.
Print Assumptions canonical_iff.
Print Assumptions strict_implies_lenient.
Print Assumptions sort_keys_perm.
Print Assumptions sort_keys_sorted.
Print Assumptions sort_keys_sorted_id.
Print Assumptions sort_keys_perm_eq.
Print Assumptions lookup_sort_keys.
Print Assumptions sort_keys_canon_top.
Print Assumptions lookup_update_same.
Print Assumptions lookup_update_other.
Print Assumptions lookup_remove_same.
Print Assumptions lookup_remove_other.
Print Assumptions update_NoDup.
Print Assumptions remove_NoDup.
Print Assumptions canonb_spec.
Print Assumptions nodup_keysb_spec.
Print Assumptions N_of_dec_of_N.
Print Assumptions dec_of_N_of_dec.
Print Assumptions bytes_ltb_trichotomy.
Print Assumptions bytes_ltb_trans.
