(* Proofs about Model/Uri.v and Model/Magnet.v (claim C11).
   U1 unquote_quote, U2 quote_has_no_separator, U3 parse_query_join / parse_query_join_unquote,
   M1 magnet_hash_input_is_raw_span, M2 magnet_xt_table (+ magnet_xt_rows),
   M3 magnet_params_roundtrip (+ magnet_params_decoded). *)
From TF Require Import Lib.Base Lib.Lex Model.Bencode Proofs.BencodeProofs Model.Uri Model.Magnet.

Local Open Scope char_scope.

(* ========================================================================================== *)
(* U1, U2: quote_plus / unquote_plus                                                           *)
(* ========================================================================================== *)

(* per byte: the quoted form is one plain character or one escape, and decodes to the byte *)
Definition quote_byte_ok (c : ascii) : bool :=
  match quote_byte c with
  | [x] => negb (Ascii.eqb x "%") && Ascii.eqb (if Ascii.eqb x "+" then " " else x) c
  | [p; h; l] =>
      Ascii.eqb p "%" && match byte_of_hex h l with Some y => Ascii.eqb y c | None => false end
  | _ => false
  end.

Lemma quote_byte_ok_all c : quote_byte_ok c = true.
Proof. destruct c as [[] [] [] [] [] [] [] []]; vm_compute; reflexivity. Qed.

Lemma unquote_quote_byte c r : unquote_plus (quote_byte c ++ r) = c :: unquote_plus r.
Proof.
  pose proof (quote_byte_ok_all c) as H. unfold quote_byte_ok in H.
  destruct (quote_byte c) as [|x [|h [|l [|y t]]]]; try discriminate H.
  - apply andb_true_iff in H. destruct H as [H1 H2]. apply negb_true_iff in H1.
    apply Ascii.eqb_eq in H2. cbn [app unquote_plus]. rewrite H1, H2. reflexivity.
  - apply andb_true_iff in H. destruct H as [H1 H2]. apply Ascii.eqb_eq in H1. subst x.
    cbn [app unquote_plus]. rewrite Ascii.eqb_refl.
    destruct (byte_of_hex h l) as [y|]; [|discriminate H2].
    apply Ascii.eqb_eq in H2. subst y. reflexivity.
Qed.

(* U1 *)
Theorem unquote_quote s : unquote_plus (quote_plus s) = s.
Proof.
  induction s as [|c s IH]; [reflexivity|].
  cbn [quote_plus]. rewrite unquote_quote_byte, IH. reflexivity.
Qed.

(* the alphabet of quoted strings (the hex digits 0-9 A-F are safe characters themselves) *)
Definition quoted_char (c : ascii) : bool := is_safe c || Ascii.eqb c "+" || Ascii.eqb c "%".

Lemma quote_byte_chars c : forallb quoted_char (quote_byte c) = true.
Proof. destruct c as [[] [] [] [] [] [] [] []]; vm_compute; reflexivity. Qed.

Lemma quote_plus_chars s c : In c (quote_plus s) -> quoted_char c = true.
Proof.
  induction s as [|x s IH]; cbn [quote_plus]; [intros []|].
  intros H. apply in_app_or in H. destruct H as [H|H]; [|apply IH; exact H].
  pose proof (quote_byte_chars x) as F. rewrite forallb_forall in F. apply F; exact H.
Qed.

(* U2 *)
Theorem quote_has_no_separator s c :
  In c (quote_plus s) -> c <> "&" /\ c <> "=" /\ c <> "#" /\ c <> " " /\ c <> "?" /\ c <> "/" /\ c <> ":".
Proof.
  intros H. apply quote_plus_chars in H.
  repeat split; intros ->; vm_compute in H; discriminate H.
Qed.

Lemma quote_byte_nonempty c : quote_byte c <> [].
Proof.
  pose proof (quote_byte_ok_all c) as H. unfold quote_byte_ok in H.
  destruct (quote_byte c); [discriminate H|discriminate].
Qed.

Lemma quote_plus_nil s : quote_plus s = [] -> s = [].
Proof.
  destruct s as [|c s]; [reflexivity|]. cbn [quote_plus]. intros H.
  apply app_eq_nil in H. destruct H as [H _]. exfalso. exact (quote_byte_nonempty c H).
Qed.

(* ========================================================================================== *)
(* U3: parse_query                                                                             *)
(* ========================================================================================== *)

Lemma split_on_nonnil sep s : split_on sep s <> [].
Proof.
  destruct s as [|c r]; cbn [split_on]; [discriminate|].
  destruct (Ascii.eqb c sep); [discriminate|]. destruct (split_on sep r); discriminate.
Qed.

Lemma split_on_app sep a r : split_on sep (a ++ sep :: r) = split_on sep a ++ split_on sep r.
Proof.
  induction a as [|c a IH]; cbn [app split_on].
  - rewrite Ascii.eqb_refl. reflexivity.
  - destruct (Ascii.eqb c sep); [rewrite IH; reflexivity|].
    rewrite IH. pose proof (split_on_nonnil sep a) as N.
    destruct (split_on sep a) as [|p ps]; [contradiction|]. reflexivity.
Qed.

Lemma split_on_nosep sep a : ~ In sep a -> split_on sep a = [a].
Proof.
  induction a as [|c a IH]; intros H; cbn [split_on]; [reflexivity|].
  destruct (Ascii.eqb c sep) eqn:E.
  - apply Ascii.eqb_eq in E. subst c. exfalso. apply H. left; reflexivity.
  - rewrite IH; [reflexivity|]. intros C. apply H. right; exact C.
Qed.

Lemma parse_query_nil : parse_query [] = [].
Proof. reflexivity. Qed.

Lemma parse_query_app a r : parse_query (a ++ "&" :: r) = parse_query a ++ parse_query r.
Proof. unfold parse_query. rewrite split_on_app, filter_app, map_app. reflexivity. Qed.

Lemma break_eq_app k v : ~ In "=" k -> break_eq (k ++ "=" :: v) = (k, v).
Proof.
  induction k as [|c k IH]; intros H; cbn [app break_eq].
  - rewrite Ascii.eqb_refl. reflexivity.
  - destruct (Ascii.eqb c "=") eqn:E.
    + apply Ascii.eqb_eq in E. subst c. exfalso. apply H. left; reflexivity.
    + rewrite IH; [reflexivity|]. intros C. apply H. right; exact C.
Qed.

(* a well-formed (key, raw value) parameter *)
Definition okkv (kv : bytes * bytes) : Prop :=
  ~ In "&" (fst kv) /\ ~ In "=" (fst kv) /\ ~ In "&" (snd kv).

Definition render_raw (kv : bytes * bytes) : bytes := fst kv ++ "=" :: snd kv.

Lemma parse_query_single kv : okkv kv -> parse_query (render_raw kv) = [kv].
Proof.
  destruct kv as [k v]. unfold okkv, render_raw. cbn [fst snd]. intros (A & B & C).
  unfold parse_query. rewrite split_on_nosep.
  - assert (N : nonempty (k ++ "=" :: v) = true) by (destruct k; reflexivity).
    cbn [filter]. rewrite N. cbn [map]. rewrite break_eq_app by exact B. reflexivity.
  - intros H. apply in_app_or in H. destruct H as [H|[H|H]]; [auto|discriminate H|auto].
Qed.

(* "&"-joined parameters *)
Theorem parse_query_join_raw kvs :
  Forall okkv kvs -> parse_query (join_amp (map render_raw kvs)) = kvs.
Proof.
  induction 1 as [|kv kvs Hkv Hkvs IH]; [reflexivity|].
  cbn [map join_amp]. destruct kvs as [|kv2 kvs].
  - cbn [map]. apply parse_query_single; exact Hkv.
  - cbn [map]. cbn [map] in IH. rewrite parse_query_app, parse_query_single by exact Hkv.
    rewrite IH. reflexivity.
Qed.

(* parameters each introduced by "&", after anything *)
Definition amp_all (kvs : list (bytes * bytes)) : bytes :=
  concat (map (fun kv => "&" :: render_raw kv) kvs).

Lemma amp_all_app a b : amp_all (a ++ b) = amp_all a ++ amp_all b.
Proof. unfold amp_all. rewrite map_app, concat_app. reflexivity. Qed.

Lemma parse_query_amp_all kvs : forall A,
  Forall okkv kvs -> parse_query (A ++ amp_all kvs) = parse_query A ++ kvs.
Proof.
  induction kvs as [|kv kvs IH]; intros A H.
  - unfold amp_all. cbn [map concat]. rewrite !app_nil_r. reflexivity.
  - inversion H as [|x l Hkv Hkvs]; subst.
    unfold amp_all. cbn [map concat]. fold (amp_all kvs).
    change (A ++ ("&" :: render_raw kv) ++ amp_all kvs)
      with (A ++ "&" :: (render_raw kv ++ amp_all kvs)).
    rewrite parse_query_app. rewrite (IH (render_raw kv) Hkvs).
    rewrite parse_query_single by exact Hkv. reflexivity.
Qed.

Lemma quoted_okkv k v : ~ In "&" k -> ~ In "=" k -> okkv (k, quote_plus v).
Proof.
  intros A B. unfold okkv. cbn [fst snd]. repeat split; try assumption.
  intros H. apply quote_has_no_separator in H. destruct H as [H _]. congruence.
Qed.

(* U3 *)
Theorem parse_query_join (kvs : list (bytes * bytes)) :
  Forall (fun kv => ~ In "&" (fst kv) /\ ~ In "=" (fst kv)) kvs ->
  parse_query (join_amp (map (fun kv => fst kv ++ "=" :: quote_plus (snd kv)) kvs))
  = map (fun kv => (fst kv, quote_plus (snd kv))) kvs.
Proof.
  intros H.
  rewrite <- (parse_query_join_raw (map (fun kv => (fst kv, quote_plus (snd kv))) kvs)).
  - rewrite map_map. reflexivity.
  - apply Forall_forall. intros x Hx. apply in_map_iff in Hx. destruct Hx as (kv & <- & Hkv).
    rewrite Forall_forall in H. destruct (H kv Hkv) as [A B]. apply quoted_okkv; assumption.
Qed.

Corollary parse_query_join_unquote (kvs : list (bytes * bytes)) :
  Forall (fun kv => ~ In "&" (fst kv) /\ ~ In "=" (fst kv)) kvs ->
  map (fun p => (fst p, unquote_plus (snd p)))
      (parse_query (join_amp (map (fun kv => fst kv ++ "=" :: quote_plus (snd kv)) kvs)))
  = kvs.
Proof.
  intros H. rewrite parse_query_join by exact H. rewrite map_map. cbn [fst snd].
  rewrite <- (map_id kvs) at 2. apply map_ext. intros [k v]. cbn [fst snd].
  rewrite unquote_quote. reflexivity.
Qed.

(* ========================================================================================== *)
(* M1: the hashed bytes are the raw span of "info" in the file                                 *)
(* ========================================================================================== *)

Lemma lookup_span k v (d : dict) :
  lookup k d = Some v -> exists pre post, enc_pairs d = pre ++ encode v ++ post.
Proof.
  induction d as [|[k0 v0] d IH]; cbn [lookup]; [discriminate|].
  rewrite enc_pairs_cons. destruct (bytes_eqb k0 k).
  - intros E. injection E as ->. exists (enc_str k0), (enc_pairs d). reflexivity.
  - intros E. destruct (IH E) as (pre & post & ->).
    exists (enc_str k0 ++ encode v0 ++ pre), post. rewrite <- !app_assoc. reflexivity.
Qed.

Theorem magnet_hash_input_is_raw_span (m : dict) (i : value) :
  nodup_keys (BDict m) -> lookup mk_info m = Some i ->
  (exists d, pyloads (encode (BDict m)) = Some (BDict d) /\ magnet_hash_input d = Some (encode i))
  /\ exists pre post, encode (BDict m) = pre ++ encode i ++ post.
Proof.
  intros Hn Hi. split.
  - exists m. split; [apply pyloads_encode; exact Hn|]. unfold magnet_hash_input. rewrite Hi.
    reflexivity.
  - destruct (lookup_span mk_info i m Hi) as (pre & post & E).
    exists ("d" :: pre), (post ++ ["e"]). cbn [encode]. fold (enc_pairs m). rewrite E.
    cbn [app]. rewrite <- !app_assoc. reflexivity.
Qed.

(* ========================================================================================== *)
(* M2, M3: the magnet URI                                                                      *)
(* ========================================================================================== *)

Section MagnetProofs.
  Variables sha1hex sha256hex : bytes -> bytes.
  (* a hex digest contains no "&" *)
  Hypothesis sha1hex_no_amp : forall b, ~ In "&" (sha1hex b).
  Hypothesis sha256hex_no_amp : forall b, ~ In "&" (sha256hex b).

  Definition btih (bencoded : bytes) : bytes * bytes := (s_xt, s_btih ++ sha1hex bencoded).
  Definition btmh (bencoded : bytes) : bytes * bytes := (s_xt, s_btmh ++ sha256hex bencoded).

  (* the table of C11: which exact-topic parameters, in which order *)
  Definition expected_xts (has_mv has_pieces : bool) (version : Z) (bencoded : bytes)
    : list (bytes * bytes) :=
    if negb has_mv then [btih bencoded]                                   (* v1-only metafile *)
    else if has_pieces then                                               (* hybrid *)
      (if Z.eqb version 0 || Z.eqb version 3 then [btih bencoded; btmh bencoded]
       else if Z.eqb version 1 then [btih bencoded] else [btmh bencoded])
    else (if Z.eqb version 1 then [] else [btmh bencoded]).               (* v2-only *)

  (* M2 *)
  Theorem magnet_xt_table (info : dict) (version : Z) (bencoded : bytes) :
    xt_part sha1hex sha256hex info version bencoded =
    join_amp (map render_raw
                (expected_xts (has_key mk_meta_version info) (has_key mk_pieces info)
                              version bencoded)).
  Proof.
    unfold xt_part, v1_test, v2_test, expected_xts, btih, btmh, render_raw.
    destruct (has_key mk_meta_version info), (has_key mk_pieces info);
      destruct (Z.eqb_spec version 1) as [->|N1]; cbn [negb andb orb Z.eqb];
      try (destruct (Z.eqb_spec version 3) as [->|N3]; cbn [negb andb orb Z.eqb]);
      try (destruct (Z.eqb_spec version 0) as [->|N0]; cbn [negb andb orb Z.eqb]);
      cbn [map join_amp fst snd]; rewrite ?app_nil_r, <- ?app_assoc; reflexivity.
  Qed.

  (* the rows of the table; the last one is an OBSERVATION: a v2-only metafile asked for
     version 1 gets no exact-topic parameter at all *)
  Theorem magnet_xt_rows (p : bool) (v : Z) (b : bytes) :
    expected_xts false p v b = [btih b] /\
    expected_xts true true 0 b = [btih b; btmh b] /\
    expected_xts true true 3 b = [btih b; btmh b] /\
    expected_xts true true 1 b = [btih b] /\
    expected_xts true true 2 b = [btmh b] /\
    expected_xts true false 0 b = [btmh b] /\
    expected_xts true false 2 b = [btmh b] /\
    expected_xts true false 3 b = [btmh b] /\
    expected_xts true false 1 b = [].
  Proof. repeat split. Qed.

  Lemma magnet_v2only_version1_no_xt (info : dict) (b : bytes) :
    has_key mk_meta_version info = true -> has_key mk_pieces info = false ->
    xt_part sha1hex sha256hex info 1 b = [].
  Proof. intros A B. rewrite magnet_xt_table, A, B. reflexivity. Qed.

  Lemma expected_xts_ok mv p v b : Forall okkv (expected_xts mv p v b).
  Proof.
    assert (A : okkv (btih b)).
    { unfold okkv, btih. cbn [fst snd]. repeat split.
      - vm_compute. intros [C|[C|[]]]; discriminate C.
      - vm_compute. intros [C|[C|[]]]; discriminate C.
      - intros H. apply in_app_or in H. destruct H as [H|H]; [|exact (sha1hex_no_amp b H)].
        vm_compute in H. repeat (destruct H as [H|H]; [discriminate H|]). exact H. }
    assert (B : okkv (btmh b)).
    { unfold okkv, btmh. cbn [fst snd]. repeat split.
      - vm_compute. intros [C|[C|[]]]; discriminate C.
      - vm_compute. intros [C|[C|[]]]; discriminate C.
      - intros H. apply in_app_or in H. destruct H as [H|H]; [|exact (sha256hex_no_amp b H)].
        vm_compute in H. repeat (destruct H as [H|H]; [discriminate H|]). exact H. }
    unfold expected_xts.
    destruct (negb mv), p, (Z.eqb v 0 || Z.eqb v 3), (Z.eqb v 1);
      repeat (apply Forall_cons; [assumption|]); apply Forall_nil.
  Qed.

  (* the odd rule is the identity unless the list is exactly one empty string *)
  Lemma odd_rule_params prefix urls :
    prefix <> [] -> urls <> [[]] -> odd_rule prefix (params prefix urls) = params prefix urls.
  Proof.
    intros Hp Hu. unfold odd_rule. destruct (bytes_eqb_spec (params prefix urls) prefix) as [E|N];
      [exfalso|reflexivity].
    unfold params in E. destruct urls as [|u [|u2 urls]]; cbn [map concat] in E.
    - apply Hp. symmetry. exact E.
    - rewrite app_nil_r in E. rewrite <- (app_nil_r prefix) in E at 2.
      apply app_inv_head in E. apply quote_plus_nil in E. subst u. apply Hu. reflexivity.
    - apply (f_equal (@length ascii)) in E. rewrite !app_length in E.
      destruct prefix; [apply Hp; reflexivity|]. cbn [length] in E. lia.
  Qed.

  Lemma odd_rule_single_empty prefix : odd_rule prefix (params prefix [[]]) = [].
  Proof.
    unfold odd_rule, params. cbn [map concat quote_plus]. rewrite !app_nil_r.
    rewrite bytes_eqb_refl. reflexivity.
  Qed.

  Lemma params_amp_all k urls :
    params ("&" :: k ++ ["="]) urls = amp_all (map (fun u => (k, quote_plus u)) urls).
  Proof.
    unfold params, amp_all. rewrite map_map. f_equal. apply map_ext. intros u.
    unfold render_raw. cbn [fst snd app]. rewrite <- app_assoc. reflexivity.
  Qed.

  Lemma amp_dn_amp_all q R : s_amp_dn ++ q ++ R = amp_all [(s_dn, q)] ++ R.
  Proof.
    unfold amp_all, render_raw. cbn [map concat fst snd]. rewrite app_nil_r. reflexivity.
  Qed.

  (* M3 *)
  Theorem magnet_params_roundtrip (meta info : dict) (name : bytes) (version : Z)
          (urls ws : list bytes) :
    lookup mk_info meta = Some (BDict info) -> lookup mk_name info = Some (BStr name) ->
    trackers_of meta = Some urls -> webseeds_of meta = Some ws ->
    urls <> [[]] -> ws <> [[]] ->
    exists rest,
      magnet sha1hex sha256hex meta version = Some (s_magnet ++ rest) /\
      parse_query rest =
        expected_xts (has_key mk_meta_version info) (has_key mk_pieces info) version
                     (encode (BDict info))
        ++ [(s_dn, quote_plus name)]
        ++ map (fun u => (s_tr, quote_plus u)) urls
        ++ map (fun u => (s_ws, quote_plus u)) ws.
  Proof.
    intros Hi Hn Ht Hw Hu1 Hu2. unfold magnet. rewrite Hi, Hn, Ht, Hw.
    rewrite !odd_rule_params by (assumption || discriminate).
    eexists. split; [rewrite <- !app_assoc; reflexivity|].
    rewrite magnet_xt_table.
    change s_amp_tr with ("&" :: s_tr ++ ["="]). change s_amp_ws with ("&" :: s_ws ++ ["="]).
    rewrite !params_amp_all.
    rewrite amp_dn_amp_all. rewrite <- !amp_all_app.
    rewrite parse_query_amp_all.
    - rewrite parse_query_join_raw by apply expected_xts_ok. reflexivity.
    - apply Forall_app. split; [|apply Forall_app; split].
      + constructor; [|constructor]. apply quoted_okkv; vm_compute; intros [C|[C|[]]]; discriminate C.
      + apply Forall_forall. intros x Hx. apply in_map_iff in Hx. destruct Hx as (u & <- & _).
        apply quoted_okkv; vm_compute; intros [C|[C|[]]]; discriminate C.
      + apply Forall_forall. intros x Hx. apply in_map_iff in Hx. destruct Hx as (u & <- & _).
        apply quoted_okkv; vm_compute; intros [C|[C|[]]]; discriminate C.
  Qed.

  (* --- reading the parameters back --- *)
  Lemma filter_key k k' (l : list (bytes * bytes)) :
    Forall (fun kv => fst kv = k') l ->
    filter (fun kv => bytes_eqb (fst kv) k) l = if bytes_eqb k' k then l else [].
  Proof.
    induction 1 as [|kv l Hkv Hl IH]; cbn [filter]; [destruct (bytes_eqb k' k); reflexivity|].
    rewrite Hkv, IH. destruct (bytes_eqb k' k); reflexivity.
  Qed.

  Lemma expected_xts_keys mv p v b : Forall (fun kv => fst kv = s_xt) (expected_xts mv p v b).
  Proof.
    unfold expected_xts.
    destruct (negb mv), p, (Z.eqb v 0 || Z.eqb v 3), (Z.eqb v 1);
      repeat (apply Forall_cons; [reflexivity|]); apply Forall_nil.
  Qed.

  Lemma map_const_keys (k : bytes) (f : bytes -> bytes) l :
    Forall (fun kv : bytes * bytes => fst kv = k) (map (fun u => (k, f u)) l).
  Proof. induction l; cbn [map]; constructor; [reflexivity|assumption]. Qed.

  Lemma values_of_split k (xts : list (bytes * bytes)) name urls ws :
    Forall (fun kv => fst kv = s_xt) xts ->
    values_of k (xts ++ [(s_dn, quote_plus name)]
                  ++ map (fun u => (s_tr, quote_plus u)) urls
                  ++ map (fun u => (s_ws, quote_plus u)) ws)
    = (if bytes_eqb s_xt k then map snd xts else [])
      ++ (if bytes_eqb s_dn k then [quote_plus name] else [])
      ++ (if bytes_eqb s_tr k then map quote_plus urls else [])
      ++ (if bytes_eqb s_ws k then map quote_plus ws else []).
  Proof.
    intros Hx. unfold values_of. rewrite !filter_app, !map_app.
    rewrite (filter_key k s_xt xts Hx).
    rewrite (filter_key k s_tr _ (map_const_keys s_tr quote_plus urls)).
    rewrite (filter_key k s_ws _ (map_const_keys s_ws quote_plus ws)).
    cbn [filter fst].
    destruct (bytes_eqb s_xt k), (bytes_eqb s_dn k), (bytes_eqb s_tr k), (bytes_eqb s_ws k);
      cbn [map snd]; rewrite ?map_map; reflexivity.
  Qed.

  Lemma map_unquote_quote l : map unquote_plus (map quote_plus l) = l.
  Proof.
    rewrite map_map. rewrite <- (map_id l) at 2. apply map_ext. intros u. apply unquote_quote.
  Qed.

  (* M3, decoded: a consumer that splits the query and unquotes gets back exactly the name, the
     trackers in order, the web seeds in order, and the exact-topic values of the table *)
  Theorem magnet_params_decoded (meta info : dict) (name : bytes) (version : Z)
          (urls ws : list bytes) :
    lookup mk_info meta = Some (BDict info) -> lookup mk_name info = Some (BStr name) ->
    trackers_of meta = Some urls -> webseeds_of meta = Some ws ->
    urls <> [[]] -> ws <> [[]] ->
    exists rest,
      magnet sha1hex sha256hex meta version = Some (s_magnet ++ rest) /\
      values_of s_xt (parse_query rest) =
        map snd (expected_xts (has_key mk_meta_version info) (has_key mk_pieces info) version
                              (encode (BDict info))) /\
      map unquote_plus (values_of s_dn (parse_query rest)) = [name] /\
      map unquote_plus (values_of s_tr (parse_query rest)) = urls /\
      map unquote_plus (values_of s_ws (parse_query rest)) = ws.
  Proof.
    intros Hi Hn Ht Hw Hu1 Hu2.
    destruct (magnet_params_roundtrip meta info name version urls ws Hi Hn Ht Hw Hu1 Hu2)
      as (rest & E & P).
    exists rest. split; [exact E|]. rewrite P.
    rewrite !values_of_split by apply expected_xts_keys.
    change (bytes_eqb s_xt s_xt) with true. change (bytes_eqb s_dn s_xt) with false.
    change (bytes_eqb s_tr s_xt) with false. change (bytes_eqb s_ws s_xt) with false.
    change (bytes_eqb s_xt s_dn) with false. change (bytes_eqb s_dn s_dn) with true.
    change (bytes_eqb s_tr s_dn) with false. change (bytes_eqb s_ws s_dn) with false.
    change (bytes_eqb s_xt s_tr) with false. change (bytes_eqb s_dn s_tr) with false.
    change (bytes_eqb s_tr s_tr) with true. change (bytes_eqb s_ws s_tr) with false.
    change (bytes_eqb s_xt s_ws) with false. change (bytes_eqb s_dn s_ws) with false.
    change (bytes_eqb s_tr s_ws) with false. change (bytes_eqb s_ws s_ws) with true.
    cbn [app]. rewrite !app_nil_r. repeat split.
    - cbn [map]. rewrite unquote_quote. reflexivity.
    - apply map_unquote_quote.
    - apply map_unquote_quote.
  Qed.
End MagnetProofs.

(* ---- which URLs: BEP 12 (flattened announce-list, else announce) and BEP 19 (url-list) ---- *)
Lemma strs_of_map l : strs_of (map BStr l) = Some l.
Proof. induction l as [|s l IH]; cbn [map strs_of]; [reflexivity|]. rewrite IH. reflexivity. Qed.

Lemma flatten_tiers_map tiers :
  flatten_tiers (map (fun t => BList (map BStr t)) tiers) = Some (concat tiers).
Proof.
  induction tiers as [|t tiers IH]; cbn [map flatten_tiers concat]; [reflexivity|].
  rewrite strs_of_map, IH. reflexivity.
Qed.

Lemma trackers_of_announce_list meta tiers :
  lookup mk_announce_list meta = Some (BList (map (fun t => BList (map BStr t)) tiers)) ->
  trackers_of meta = Some (concat tiers).
Proof. intros H. unfold trackers_of. rewrite H. apply flatten_tiers_map. Qed.

Lemma trackers_of_announce meta s :
  lookup mk_announce_list meta = None -> lookup mk_announce meta = Some (BStr s) ->
  trackers_of meta = Some [s].
Proof. intros H1 H2. unfold trackers_of. rewrite H1, H2. reflexivity. Qed.

Lemma trackers_of_none meta :
  lookup mk_announce_list meta = None -> lookup mk_announce meta = None ->
  trackers_of meta = Some [].
Proof. intros H1 H2. unfold trackers_of. rewrite H1, H2. reflexivity. Qed.

Lemma webseeds_of_list meta l :
  lookup mk_url_list meta = Some (BList (map BStr l)) -> webseeds_of meta = Some l.
Proof. intros H. unfold webseeds_of. rewrite H. apply strs_of_map. Qed.

Lemma webseeds_of_str meta s :
  lookup mk_url_list meta = Some (BStr s) -> webseeds_of meta = Some [s].
Proof. intros H. unfold webseeds_of. rewrite H. reflexivity. Qed.

Lemma webseeds_of_none meta : lookup mk_url_list meta = None -> webseeds_of meta = Some [].
Proof. intros H. unfold webseeds_of. rewrite H. reflexivity. Qed.

(* ========================================================================================== *)
(* Examples (values checked against CPython 3.12 urllib.parse and commands.magnet)             *)
(* ========================================================================================== *)

Module Examples.
  Import String.
  Local Open Scope string_scope.
  Definition b (s : string) : bytes := list_ascii_of_string s.
  Definition e_acute : bytes := [ascii_of_nat 195; ascii_of_nat 169].        (* U+00E9 in UTF-8 *)

  Example quote_plus_ex :
    quote_plus (b"a b&c=d/" ++ e_acute ++ b"~+%")%list = b"a+b%26c%3Dd%2F%C3%A9~%2B%25".
  Proof. vm_compute. reflexivity. Qed.

  (* lower-case escapes, "+", and malformed escapes that are kept *)
  Example unquote_plus_ex : unquote_plus (b"%c3%a9+%zz%4%") = (e_acute ++ b" %zz%4%")%list.
  Proof. vm_compute. reflexivity. Qed.

  Definition all_bytes : bytes := map ascii_of_nat (seq 0 256).

  Example quote_single_bytes_ex :
    map (fun n => quote_plus [ascii_of_nat n]) [0; 32; 37; 43; 45; 46; 95; 126; 127; 255]
    = [b"%00"; b"+"; b"%25"; b"%2B"; b"-"; b"."; b"_"; b"~"; b"%7F"; b"%FF"].
  Proof. vm_compute. reflexivity. Qed.

  Example unquote_quote_all_bytes_ex :
    unquote_plus (quote_plus all_bytes) = all_bytes /\ List.length all_bytes = 256.
  Proof. vm_compute. split; reflexivity. Qed.

  Example parse_query_ex :
    parse_query (b"xt=urn:btih:ab&dn=a+b&&tr=x=y&flag")
    = [(b"xt", b"urn:btih:ab"); (b"dn", b"a+b"); (b"tr", b"x=y"); (b"flag", b"")].
  Proof. vm_compute. reflexivity. Qed.

  Example parse_query_join_ex :
    let kvs := [(b"dn", b"my file&1"); (b"tr", b"http://t/a?b=c"); (b"tr", b"")] in
    join_amp (map (fun kv => fst kv ++ "="%char :: quote_plus (snd kv))%list kvs)
      = b"dn=my+file%261&tr=http%3A%2F%2Ft%2Fa%3Fb%3Dc&tr=" /\
    map (fun p => (fst p, unquote_plus (snd p)))
        (parse_query (join_amp (map (fun kv => fst kv ++ "="%char :: quote_plus (snd kv))%list kvs)))
      = kvs.
  Proof. vm_compute. split; reflexivity. Qed.

  (* toy digests, to make the URI readable *)
  Definition h1 (_ : bytes) : bytes := b"<H1>".
  Definition h2 (_ : bytes) : bytes := b"<H2>".

  (* a hybrid metafile in file (unsorted) order, tiers, a string url-list (BEP 19) *)
  Definition ex_info : dict :=
    [(b"meta version", BInt 2); (b"pieces", BStr (b"01234567890123456789"));
     (b"name", BStr (b"my file&1")); (b"piece length", BInt 16384)].
  Definition ex_meta : dict :=
    [(b"info", BDict ex_info); (b"announce", BStr (b"http://ignored"));
     (b"announce-list", BList [BList [BStr (b"http://t1/a?b=c"); BStr (b"udp://t2")];
                               BList [BStr (b"http://t3")]]);
     (b"url-list", BStr (b"http://w/x y"))].

  Definition tail : bytes :=
    b"&dn=my+file%261&tr=http%3A%2F%2Ft1%2Fa%3Fb%3Dc&tr=udp%3A%2F%2Ft2&tr=http%3A%2F%2Ft3&ws=http%3A%2F%2Fw%2Fx+y".

  Example magnet_ex :
    map (magnet h1 h2 ex_meta) [0; 1; 2; 3]%Z =
    [Some (b"magnet:?xt=urn:btih:<H1>&xt=urn:btmh:1220<H2>" ++ tail)%list;
     Some (b"magnet:?xt=urn:btih:<H1>" ++ tail)%list;
     Some (b"magnet:?xt=urn:btmh:1220<H2>" ++ tail)%list;
     Some (b"magnet:?xt=urn:btih:<H1>&xt=urn:btmh:1220<H2>" ++ tail)%list].
  Proof. vm_compute. reflexivity. Qed.

  (* M1 on the example: the hypotheses hold, the hashed bytes are a span of the file *)
  Example magnet_hash_input_ex :
    nodup_keys (BDict ex_meta) /\ lookup mk_info ex_meta = Some (BDict ex_info) /\
    option_map (fun v => match v with BDict d => magnet_hash_input d | _ => None end)
               (pyloads (encode (BDict ex_meta))) = Some (Some (encode (BDict ex_info))) /\
    encode (BDict ex_meta) =
      (b"d4:info" ++ encode (BDict ex_info)
        ++ b"8:announce14:http://ignored13:announce-listll15:http://t1/a?b=c8:udp://t2el9:http://t3ee8:url-list12:http://w/x ye")%list.
  Proof.
    split; [apply nodup_keysb_spec; vm_compute; reflexivity|]. vm_compute. repeat split.
  Qed.

  (* M3 on the example *)
  Example magnet_params_ex :
    trackers_of ex_meta = Some [b"http://t1/a?b=c"; b"udp://t2"; b"http://t3"] /\
    webseeds_of ex_meta = Some [b"http://w/x y"] /\
    parse_query (b"xt=urn:btih:<H1>&xt=urn:btmh:1220<H2>" ++ tail)%list
    = [(b"xt", b"urn:btih:<H1>"); (b"xt", b"urn:btmh:1220<H2>"); (b"dn", b"my+file%261");
       (b"tr", b"http%3A%2F%2Ft1%2Fa%3Fb%3Dc"); (b"tr", b"udp%3A%2F%2Ft2");
       (b"tr", b"http%3A%2F%2Ft3"); (b"ws", b"http%3A%2F%2Fw%2Fx+y")].
  Proof. vm_compute. repeat split. Qed.

  Example magnet_params_decoded_ex :
    forall version, exists rest,
      magnet h1 h2 ex_meta version = Some (s_magnet ++ rest)%list /\
      map unquote_plus (values_of s_dn (parse_query rest)) = [b"my file&1"] /\
      map unquote_plus (values_of s_tr (parse_query rest))
        = [b"http://t1/a?b=c"; b"udp://t2"; b"http://t3"] /\
      map unquote_plus (values_of s_ws (parse_query rest)) = [b"http://w/x y"].
  Proof.
    intros version.
    destruct (magnet_params_decoded h1 h2) with
      (meta := ex_meta) (info := ex_info) (name := b"my file&1") (version := version)
      (urls := [b"http://t1/a?b=c"; b"udp://t2"; b"http://t3"]) (ws := [b"http://w/x y"])
      as (rest & E & _ & A & B & C);
      try reflexivity; try discriminate.
    - intros x. vm_compute. intros H. repeat (destruct H as [H|H]; [discriminate H|]). exact H.
    - intros x. vm_compute. intros H. repeat (destruct H as [H|H]; [discriminate H|]). exact H.
    - exists rest. auto.
  Qed.

  (* the odd rule: exactly one empty URL is dropped; v2-only metafile asked for version 1: no xt.
     CPython: 'magnet:?&dn=n' *)
  Example magnet_odd_rule_ex :
    magnet h1 h2 [(b"info", BDict [(b"meta version", BInt 2); (b"name", BStr (b"n"))]);
                  (b"announce-list", BList [BList [BStr (b"")]]);
                  (b"url-list", BList [BStr (b"")])] 1
    = Some (b"magnet:?&dn=n").
  Proof. vm_compute. reflexivity. Qed.

  (* ... but empty URLs in longer lists are emitted.  CPython: '...&dn=n&tr=&tr=a&ws=&ws=' *)
  Example magnet_empty_urls_ex :
    magnet h1 h2 [(b"info", BDict [(b"name", BStr (b"n"))]);
                  (b"announce-list", BList [BList [BStr (b""); BStr (b"a")]]);
                  (b"url-list", BList [BStr (b""); BStr (b"")])] 0
    = Some (b"magnet:?xt=urn:btih:<H1>&dn=n&tr=&tr=a&ws=&ws=").
  Proof. vm_compute. reflexivity. Qed.

  (* Observation: M1 needs the file to BE the encoding of a duplicate-free value.  magnet hashes a
     RE-ENCODING of the decoded info, not the raw span: on a foreign file that the lenient
     decoder accepts but that is not canonical inside info (here a leading zero, also duplicate
     keys), the hashed bytes are not the bytes of the file, so the btih in the URI is not the
     info-hash other clients compute.  CPython: sha1("d4:name1:a1:xi7ee") is emitted. *)
  Example magnet_hash_input_foreign_ex :
    let raw := b"d4:infod4:name1:a1:xi007eee" in
    option_map (fun v => match v with BDict d => magnet_hash_input d | _ => None end) (pyloads raw)
      = Some (Some (b"d4:name1:a1:xi7ee")) /\
    raw = (b"d4:info" ++ b"d4:name1:a1:xi007ee" ++ b"e")%list.
  Proof. vm_compute. split; reflexivity. Qed.
End Examples.

(* ========================================================================================== *)
(* Assumptions                                                                                 *)
(* ========================================================================================== *)

Print Assumptions unquote_quote.
Print Assumptions quote_has_no_separator.
Print Assumptions parse_query_join.
Print Assumptions parse_query_join_unquote.
Print Assumptions magnet_hash_input_is_raw_span.
Print Assumptions magnet_xt_table.
Print Assumptions magnet_xt_rows.
Print Assumptions magnet_v2only_version1_no_xt.
Print Assumptions magnet_params_roundtrip.
Print Assumptions magnet_params_decoded.
