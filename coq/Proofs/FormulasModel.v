(* C15: the pad length READ FROM THE SOURCE on this run (Gen/GenFormulas.gen_align_pad) is the one the hand model of
   TorrentFile.assemble uses (Model/Hasher.neg_mod, the `remainder` of Model/Creators.v1_aligned_entries) -- for every file size
   and every piece length.  Together with the correspondence of the model this closes the loop for the alignment arithmetic:
   the differential tie samples sizes, this lemma does not. *)
From Coq Require Import ZArith Lia Arith.
From TF Require Import Model.Hasher Proofs.HasherCorrect Gen.GenFormulas Proofs.FormulasInstance.
Open Scope Z_scope.

Lemma model_pad_is_source_pad (n pl : nat) : (0 < pl)%nat ->
  Z.of_nat (neg_mod n pl) = gen_align_pad (Z.of_nat n) (Z.of_nat pl).
Proof.
  intro Hpl.
  rewrite gen_align_pad_is_gap by lia.
  apply gap_unique; try lia.
  - pose proof (Nat.mod_upper_bound (pl - n mod pl) pl ltac:(lia)) as Hub. unfold neg_mod. lia.
  - pose proof (neg_mod_sum n pl Hpl) as Hs.
    rewrite <- Nat2Z.inj_add, <- Nat2Z.inj_mod, Hs. reflexivity.
Qed.

(* the padding entry is present exactly when the source's test `if remainder:` is true *)
Lemma model_pad_entry_iff (n pl : nat) : (0 < pl)%nat ->
  (neg_mod n pl =? 0)%nat = (gen_align_pad (Z.of_nat n) (Z.of_nat pl) =? 0).
Proof.
  intro Hpl. rewrite <- (model_pad_is_source_pad n pl Hpl).
  destruct (Nat.eqb_spec (neg_mod n pl) 0) as [E|E]; symmetry.
  - rewrite E. reflexivity.
  - apply Z.eqb_neq. lia.
Qed.
