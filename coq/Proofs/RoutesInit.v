(* C20, part 2: MetaFile.__init__ on the namespace each route delivers.  Everything is proved for
   ANY tables accepted by the boolean checkers `init_ok` / `cfg_ok` / `cli_ok`; the generated
   tables are an instance (Proofs/RoutesInstance.v). *)
From Coq Require Import String List Bool Ascii Arith Lia.
From TF Require Import Model.ArgParse Model.Routes Proofs.RoutesProofs.
Import ListNotations.
Open Scope string_scope.

(* ------------------------------------------------------------------ the checker (MetaFile.__init__) *)
Definition list_kws : list string := ["announce"; "url_list"; "httpseeds"].

Definition falsy_default (T : tables) (n : string) : bool :=
  match lookup (t_params T) n with Some v => negb (truthy v) | None => false end.

(* an option that is not supplied as keyword must behave like the option not being set *)
Definition key_default_ok (T : tables) (k : okey) : bool :=
  match k with
  | KMetaVersion => match lookup (t_params T) "meta_version" with
                    | Some v => negb (hybrid_of T v)
                    | None => false
                    end
  | _ => falsy_default T (doc_kw k)
  end.

(* the recovery chain looks at every list-valued parameter, and only at those *)
Definition recovery_ok (chain : list (string * bool)) : bool :=
  forallb (fun d => mem_str d (map fst chain)) list_kws
  && forallb (fun e => mem_str (fst e) list_kws) chain.

Definition init_ok (T : tables) : bool :=
  t_varkw T
  && strs_eqb (t_alias T) ["content"]
  && sig_ok T
  && forallb (key_default_ok T) all_keys
  && falsy_default T "path"
  && falsy_default T "content"
  && (fst (t_hybrid T) =? "3")
  && recovery_ok (t_recovery T).

Lemma init_ok_parts : forall T, init_ok T = true ->
  t_varkw T = true /\ t_alias T = ["content"] /\ sig_ok T = true
  /\ (forall k, key_default_ok T k = true)
  /\ falsy_default T "path" = true /\ falsy_default T "content" = true
  /\ fst (t_hybrid T) = "3" /\ recovery_ok (t_recovery T) = true.
Proof.
  intros T. unfold init_ok. rewrite !andb_true_iff.
  intros [[[[[[[H1 H2] H3] H4] H5] H6] H7] H8].
  repeat split; try assumption.
  - apply strs_eqb_eq. exact H2.
  - intros k. rewrite forallb_forall in H4. apply H4. apply in_all_keys.
  - apply String.eqb_eq. exact H7.
Qed.

(* ------------------------------------------------------------------ binding of keywords *)
Lemma lookup_locals : forall T ns n,
  lookup (locals T ns) n =
  match lookup (t_params T) n with
  | Some d => Some (match lookup ns n with Some v => v | None => d end)
  | None => None
  end.
Proof.
  intros T ns n. unfold locals. induction (t_params T) as [|[n0 d0] ps IH].
  - reflexivity.
  - cbn [map lookup arg fst snd]. destruct (n0 =? n) eqn:E.
    + apply String.eqb_eq in E. subst. reflexivity.
    + exact IH.
Qed.

Lemma mem_lookup : forall (ps : list (string * value)) n,
  mem_str n (map fst ps) = true -> exists d, lookup ps n = Some d.
Proof.
  induction ps as [|[n0 d0] ps IH]; intros n H; cbn [map mem_str existsb fst] in H.
  - discriminate.
  - cbn [lookup]. rewrite String.eqb_sym in H. destruct (n0 =? n).
    + eexists; reflexivity.
    + apply IH. exact H.
Qed.

Lemma sig_ok_lookup : forall T n, sig_ok T = true -> In n (used_params T) ->
  exists d, lookup (t_params T) n = Some d.
Proof.
  intros T n H Hin. unfold sig_ok in H. rewrite forallb_forall in H.
  apply mem_lookup. apply H. exact Hin.
Qed.

Lemma doc_kw_used : forall T k, In (doc_kw k) (used_params T).
Proof. intros T k. unfold used_params. destruct k; simpl; tauto. Qed.

Lemma path_used : forall T, In "path" (used_params T).
Proof. intros T. unfold used_params. simpl. tauto. Qed.

Lemma getv_locals : forall T ns n d, lookup (t_params T) n = Some d ->
  getv (locals T ns) n = match lookup ns n with Some v => v | None => d end.
Proof. intros T ns n d H. unfold getv. rewrite lookup_locals, H. reflexivity. Qed.

(* ------------------------------------------------------------------ normalisation *)
Definition absent_ok (T : tables) (k : okey) (v : value) : Prop :=
  match k with
  | KMetaVersion => hybrid_of T v = false
  | _ => truthy v = false
  end.

Definition key_matches (T : tables) (o : optrec) (k : okey) (v : value) : Prop :=
  match opt_value o k with Some x => v = x | None => absent_ok T k v end.

Definition loc_matches (T : tables) (o : optrec) (loc : namespace) : Prop :=
  getv loc "path" = VStr (o_content o) /\ forall k, key_matches T o k (getv loc (doc_kw k)).

Lemma norm_list_m : forall l v,
  match lv l with Some x => v = x | None => truthy v = false end -> norm_list v = Some l.
Proof.
  intros [|a l] v H; simpl in H.
  - destruct v as [|b|s|n|l0]; simpl in *; try (rewrite H; reflexivity); try reflexivity.
    destruct l0; [reflexivity | discriminate].
  - subst v. reflexivity.
Qed.

Lemma norm_str_m : forall s v,
  match sv s with Some x => v = x | None => truthy v = false end -> norm_str v = Some (dflt s).
Proof.
  intros [x|] v H; simpl in H.
  - subst v. reflexivity.
  - destruct v as [|b|s|n|l0]; simpl in *; try (rewrite H; reflexivity); try reflexivity.
    unfold nonempty in H. apply negb_false_iff in H. apply String.eqb_eq in H. subst. reflexivity.
Qed.

Lemma norm_announce_m : forall l v,
  match lv l with Some x => v = x | None => truthy v = false end ->
  norm_announce v = Some (hd "" l, match l with [] => [[""]] | a0 :: l0 => [a0 :: l0] end).
Proof.
  intros [|a l] v H; simpl in H.
  - destruct v as [|b|s|n|l0]; simpl in *; try (rewrite H; reflexivity); try reflexivity.
    destruct l0; [reflexivity | discriminate].
  - subst v. reflexivity.
Qed.

Lemma truthy_m : forall b v,
  match bv b with Some x => v = x | None => truthy v = false end -> truthy v = b.
Proof. intros [|] v H; simpl in H; [subst v; reflexivity | exact H]. Qed.

Lemma pl_m : forall s v,
  match sv s with Some x => v = x | None => truthy v = false end ->
  (if truthy v then v else VNone) = strv (dflt s).
Proof.
  intros [x|] v H; simpl in H.
  - subst v. reflexivity.
  - rewrite H. reflexivity.
Qed.

Lemma hybrid_m : forall T s v, fst (t_hybrid T) = "3" ->
  match sv s with Some x => v = x | None => hybrid_of T v = false end ->
  hybrid_of T v = (dflt s =? "3").
Proof.
  intros T s v Hlit H. destruct s as [x|]; simpl in H.
  - subst v. unfold hybrid_of. destruct (t_hybrid T) as [lit ts]. simpl in Hlit. subst lit.
    destruct ts; reflexivity.
  - rewrite H. reflexivity.
Qed.

Lemma params_of_locals_ok : forall T o loc, fst (t_hybrid T) = "3" ->
  loc_matches T o loc -> params_of_locals T loc = IOk (params_of o).
Proof.
  intros T o loc Hlit [Hp Hk]. unfold params_of_locals. rewrite Hp.
  pose proof (Hk KAnnounce) as Ha. pose proof (Hk KWebSeed) as Hw. pose proof (Hk KHttpSeed) as Hh.
  pose proof (Hk KPrivate) as Hpr. pose proof (Hk KSource) as Hs. pose proof (Hk KComment) as Hc.
  pose proof (Hk KPieceLength) as Hpl. pose proof (Hk KMetaVersion) as Hmv.
  pose proof (Hk KOut) as Ho. pose proof (Hk KAlign) as Hal.
  unfold key_matches, absent_ok in *. cbn [doc_kw opt_value] in *.
  rewrite (norm_announce_m _ _ Ha), (norm_list_m _ _ Hw), (norm_list_m _ _ Hh).
  rewrite (norm_str_m _ _ Hc), (norm_str_m _ _ Hs), (norm_str_m _ _ Ho).
  cbv beta iota.
  rewrite (truthy_m _ _ Hpr), (truthy_m _ _ Hal), (pl_m _ _ Hpl), (hybrid_m T _ _ Hlit Hmv).
  reflexivity.
Qed.

(* ------------------------------------------------------------------ the path is given *)
Section Init.
Variable exists_ : string -> bool.
Variable T : tables.
Hypothesis Hinit : init_ok T = true.

Lemma kw_lookup : forall k, exists d, lookup (t_params T) (doc_kw k) = Some d.
Proof.
  intros k. destruct (init_ok_parts T Hinit) as [_ [_ [Hsig _]]].
  apply sig_ok_lookup; [exact Hsig | apply doc_kw_used].
Qed.

Lemma default_absent_ok : forall k d, lookup (t_params T) (doc_kw k) = Some d -> absent_ok T k d.
Proof.
  intros k d Hd. destruct (init_ok_parts T Hinit) as [_ [_ [_ [Hk _]]]].
  specialize (Hk k). unfold key_default_ok, falsy_default, absent_ok in *.
  destruct k; cbn [doc_kw] in *; rewrite Hd in Hk; apply negb_true_iff in Hk; exact Hk.
Qed.

Lemma init_locals_start : forall ns,
  init_locals exists_ T ns =
  let loc := alias_step (locals T ns) "content" in
  if truthy (getv loc "path") then IOk loc else recover exists_ (t_recovery T) loc.
Proof.
  intros ns. destruct (init_ok_parts T Hinit) as [Hvk [Hal [Hsig _]]].
  unfold init_locals, kw_ok. rewrite Hsig, Hvk, Hal. reflexivity.
Qed.

(* the path arrives as `content` (command line, configuration file) or as `path` (keywords) *)
Lemma init_direct : forall o ns,
  nonempty (o_content o) = true ->
  (getv (locals T ns) "content" = VStr (o_content o)
   \/ (truthy (getv (locals T ns) "content") = false
       /\ getv (locals T ns) "path" = VStr (o_content o))) ->
  (forall k, key_matches T o k (getv (locals T ns) (doc_kw k))) ->
  init_params exists_ T ns = IOk (params_of o).
Proof.
  intros o ns Hne Hpath Hk. destruct (init_ok_parts T Hinit) as [_ [_ [_ [_ [_ [_ [Hlit _]]]]]]].
  unfold init_params. rewrite init_locals_start. cbv zeta. unfold alias_step.
  destruct Hpath as [Hc | [Hc Hp]].
  - rewrite Hc. cbn [truthy]. rewrite Hne. rewrite getv_set, String.eqb_refl. cbn [truthy]. rewrite Hne.
    apply params_of_locals_ok; [exact Hlit|]. split.
    + rewrite getv_set, String.eqb_refl. reflexivity.
    + intros k. rewrite getv_set, String.eqb_sym, doc_kw_not_path. apply Hk.
  - rewrite Hc, Hp. cbn [truthy]. rewrite Hne.
    apply params_of_locals_ok; [exact Hlit|]. split; assumption.
Qed.

(* ------------------------------------------------------------------ the path was swallowed *)
Lemma list_kw_key : forall n, mem_str n list_kws = true ->
  exists k, doc_shape k = ShList /\ n = doc_kw k.
Proof.
  intros n H. unfold mem_str, list_kws in H. cbn [existsb] in H.
  repeat rewrite orb_true_iff in H. destruct H as [H|[H|[H|H]]]; try discriminate;
    apply String.eqb_eq in H; subst n.
  - exists KAnnounce. split; reflexivity.
  - exists KWebSeed. split; reflexivity.
  - exists KHttpSeed. split; reflexivity.
Qed.

Lemma last_in : forall (l : list string) d, l <> [] -> In (last l d) l.
Proof.
  induction l as [|x l IH]; intros d H; [congruence|].
  destruct l as [|y l']; [left; reflexivity|]. right. apply IH. congruence.
Qed.

Lemma recover_swallowed : forall chain loc k0 l c,
  (forall e, In e chain -> mem_str (fst e) list_kws = true) ->
  mem_str (doc_kw k0) (map fst chain) = true ->
  l <> [] -> exists_ c = true ->
  getv loc (doc_kw k0) = VList (l ++ [c]) ->
  (forall k, k <> k0 -> doc_shape k = ShList ->
     match getv loc (doc_kw k) with
     | VList l' => forallb (fun u => negb (exists_ u)) l' = true
     | v => truthy v = false
     end) ->
  recover exists_ chain loc = IOk (set "path" (VStr c) (set (doc_kw k0) (VList l) loc)).
Proof.
  induction chain as [|[n need2] rest IH]; intros loc k0 l c Hall Hmem Hl Hex Hget Hoth.
  - discriminate.
  - destruct (list_kw_key n (Hall (n, need2) (or_introl eq_refl))) as [k [Hsh ->]].
    cbn [recover]. destruct (okey_eqb k k0) eqn:He.
    + apply okey_eqb_eq in He. subst k. rewrite Hget.
      remember (l ++ [c])%list as L eqn:EL. destruct L as [|x L'].
      { symmetry in EL. apply app_eq_nil in EL. destruct EL; discriminate. }
      rewrite EL. rewrite last_last, Hex, removelast_last.
      assert (Hlen : Nat.ltb 1 (length (l ++ [c])) = true).
      { apply Nat.ltb_lt. rewrite app_length. cbn [length]. destruct l; [congruence|]. cbn [length]. lia. }
      rewrite Hlen, orb_true_r. reflexivity.
    + assert (Hne : k <> k0).
      { intros ->. rewrite okey_eqb_refl in He. discriminate. }
      assert (Hrest : recover exists_ rest loc
                      = IOk (set "path" (VStr c) (set (doc_kw k0) (VList l) loc))).
      { apply IH; try assumption.
        - intros e Hin. apply Hall. right. exact Hin.
        - cbn [map mem_str existsb fst] in Hmem. rewrite doc_kw_eqb in Hmem.
          replace (okey_eqb k0 k) with false in Hmem; [exact Hmem|].
          destruct k0, k; simpl in *; congruence. }
      specialize (Hoth k Hne Hsh).
      destruct (getv loc (doc_kw k)) as [|b|s|m|l'].
      * exact Hrest.
      * cbn [truthy] in *. rewrite Hoth. exact Hrest.
      * cbn [truthy] in *. rewrite Hoth. exact Hrest.
      * cbn [truthy] in *. rewrite Hoth. exact Hrest.
      * destruct l' as [|x l'']; [exact Hrest|].
        rewrite forallb_forall in Hoth.
        assert (Hlast : exists_ (last (x :: l'') "") = false).
        { apply negb_true_iff. apply Hoth. apply last_in. congruence. }
        rewrite Hlast, andb_false_r. exact Hrest.
Qed.

End Init.
