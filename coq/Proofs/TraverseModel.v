(* C02: the size decisions READ FROM THE SOURCE on this run (Gen/GenTraverse.v) are the ones the hand models of the three
   `_traverse` methods make (Model/Creators.v: `if size =? 0 then leaf_empty ...`, `if pl <? size then update ... layers`, on nat)
   -- for every file size and piece length. *)
From Coq Require Import ZArith Lia Arith Bool.
From TF Require Import Gen.GenTraverse Proofs.TraverseInstance.
Open Scope Z_scope.

Lemma model_layer_test_is_source (size pl : nat) : (0 < pl)%nat ->
  (pl <? size)%nat = gen_layer_cond_TorrentFileV2 (Z.of_nat size) (Z.of_nat pl) /\
  (pl <? size)%nat = gen_layer_cond_TorrentFileHybrid (Z.of_nat size) (Z.of_nat pl) /\
  (pl <? size)%nat = gen_layer_cond_TorrentAssembler (Z.of_nat size) (Z.of_nat pl).
Proof.
  intro Hpl.
  destruct (gen_layer_rule (Z.of_nat size) (Z.of_nat pl) ltac:(lia) ltac:(lia)) as [H1 [H2 H3]].
  rewrite H1, H2, H3.
  assert (E : (pl <? size)%nat = (Z.of_nat pl <? Z.of_nat size)).
  { destruct (Nat.ltb_spec pl size); symmetry; [apply Z.ltb_lt | apply Z.ltb_ge]; lia. }
  rewrite E. auto.
Qed.

Lemma model_rootless_test_is_source (size pl : nat) : (0 < pl)%nat ->
  (size =? 0)%nat = gen_rootless_cond_TorrentFileV2 (Z.of_nat size) (Z.of_nat pl) /\
  (size =? 0)%nat = gen_rootless_cond_TorrentFileHybrid (Z.of_nat size) (Z.of_nat pl) /\
  (size =? 0)%nat = gen_rootless_cond_TorrentAssembler (Z.of_nat size) (Z.of_nat pl).
Proof.
  intro Hpl.
  destruct (gen_rootless_rule (Z.of_nat size) (Z.of_nat pl) ltac:(lia) ltac:(lia)) as [H1 [H2 H3]].
  rewrite H1, H2, H3.
  assert (E : (size =? 0)%nat = (Z.of_nat size =? 0)).
  { destruct (Nat.eqb_spec size 0%nat); symmetry; [apply Z.eqb_eq | apply Z.eqb_neq]; lia. }
  rewrite E. auto.
Qed.
