(* C19: the element test and the call shape of rebuild.Metadata._check_parts, as REGENERATED from /repo on this run
   (Gen/GenPathCheck.v), are the ones the model assumes. *)
From Coq Require Import String Ascii List Bool.
From TF Require Import Model.PathSafe Model.PathCheckTable Proofs.PathCheckTableProofs Gen.GenPathCheck.
Import ListNotations.

Definition gen_safe_comp (c : string) : bool := table_safe_comp gen_forbidden_exact gen_forbidden_chars c.

Lemma gen_table_accepted : table_ok gen_forbidden_exact gen_forbidden_chars = true.
Proof. vm_compute. reflexivity. Qed.

Theorem gen_check_parts_is_the_model :
  gen_requires_str = true /\ gen_check_parts_plain_loop = true /\ gen_calls_validate_whole_argument = true /\
  (1 <= gen_call_sites)%nat /\
  forall c, gen_safe_comp c = safe_comp c.
Proof.
  split; [reflexivity|]. split; [reflexivity|]. split; [reflexivity|].
  split; [vm_compute; repeat constructor|].
  exact (table_ok_is_safe_comp _ _ gen_table_accepted).
Qed.

(* hence: a list of str elements passes the source's test iff it passes check_parts_model *)
Theorem gen_check_parts_lists parts :
  forallb gen_safe_comp parts = check_parts_model parts.
Proof.
  unfold check_parts_model. induction parts as [|p r IH]; [reflexivity|].
  cbn [forallb]. rewrite IH.
  destruct gen_check_parts_is_the_model as [_ [_ [_ [_ H]]]]. rewrite H. reflexivity.
Qed.
