(* C04 C05 C16: the expression stored into Checker._result, REGENERATED from recheck.py on this run (Gen/GenFormulas.gen_percent_expr),
   evaluates in IEEE binary64 to the `percent` the float theorems of Proofs/Percent.v are about. *)
From Coq Require Import Reals ZArith.
From TF Require Import Gen.GenFormulas Proofs.Percent.
Open Scope R_scope.

(* integer-valued sub-expressions stay exact integers (Python ints are unbounded) *)
Fixpoint ival (e : fexpr) (m c : Z) : option Z :=
  match e with
  | FM => Some m | FC => Some c | FConst z => Some z
  | FMul a b => match ival a m c, ival b m c with Some x, Some y => Some (x * y)%Z | _, _ => None end
  | FDiv _ _ => None
  end.

(* value as a float: an integer operand of a float operation is converted (rounded) first; int / int is the correctly rounded
   quotient of the two integers; every float operation rounds to nearest-even *)
Fixpoint feval (e : fexpr) (m c : Z) : R :=
  match ival e m c with
  | Some z => rnd (IZR z)
  | None =>
    match e with
    | FDiv a b => match ival a m c, ival b m c with
                  | Some x, Some y => rnd (IZR x / IZR y)
                  | _, _ => rnd (feval a m c / feval b m c)
                  end
    | FMul a b => rnd (feval a m c * feval b m c)
    | _ => 0
    end
  end.

Theorem gen_percent_is_percent : forall m c : Z,
  gen_percent_zero_unless_consumed_positive = true /\ feval gen_percent_expr m c = percent m c.
Proof.
  intros m c. split; [reflexivity|].
  unfold gen_percent_expr, percent. cbn [feval ival].
  rewrite (rnd_id 100 fmt64_100). reflexivity.
Qed.
