(* C16-v1 (DESIGN.md A.4): the pieces FeedChecker yields are exactly the pl-chunks of the
   zero-filled recorded layout, for every layout and every disk state with disk_within. *)
From TF Require Import Lib.Base Lib.Chunks Spec.RecheckSpec Model.Recheck.

Local Notation full pl := (fun p : bytes => length p = pl).

(* ---------- drain ---------- *)

Lemma drain_nonempty pl ys p0 p1 : ys <> [] -> drain pl ys p0 = drain pl ys p1.
Proof.
  destruct ys as [|y ys]; [congruence|]. intros _. cbn [drain]. reflexivity.
Qed.

(* what one file has to deliver: r = (yields, final content of the caller's object), p = the
   caller's partial before the file, s = the bytes the file stands for *)
Definition delivers (pl : nat) (p s : bytes) (r : list bytes * bytes) : Prop :=
  (fst r = [] -> snd r = p) /\
  exists out p', drain pl (fst r) (snd r) = (out, p') /\
                 Forall (full pl) out /\ length p' < pl /\ concat out ++ p' = p ++ s.

(* ---------- _gen_padding ---------- *)

Lemma gen_padding_spec pl length_ : 0 < pl ->
  forall fuel partial read,
    length partial < pl -> length_ - read <= fuel ->
    (read < length_ -> fst (gen_padding fuel pl partial length_ read) <> []) /\
    delivers pl partial (zeros (length_ - read)) (gen_padding fuel pl partial length_ read).
Proof.
  intros Hpl. unfold delivers. induction fuel as [|f IH]; intros partial read Hp Hfuel.
  - cbn [gen_padding]. split; [lia|]. split; [reflexivity|].
    exists [], partial. cbn [fst snd drain]. repeat split; [constructor|assumption|].
    replace (length_ - read) with 0 by lia. cbn [zeros repeat concat app]. rewrite app_nil_r. reflexivity.
  - cbn [gen_padding]. destruct (read <? length_) eqn:Hrl.
    + apply Nat.ltb_lt in Hrl.
      destruct (pl - length partial <? length_ - read) eqn:Hleft.
      * apply Nat.ltb_lt in Hleft. cbn [fst snd].
        split; [intros _; discriminate|]. split; [discriminate|].
        destruct (IH [] (read + (pl - length partial))) as [Hne [_ [out [p' [Hd [Hf [Hl Hc]]]]]]].
        { cbn [length]. lia. } { lia. }
        assert (Hne' : fst (gen_padding f pl [] length_ (read + (pl - length partial))) <> [])
          by (apply Hne; lia).
        rewrite (drain_nonempty pl _ _ []) in Hd by exact Hne'.
        exists ((partial ++ zeros (pl - length partial)) :: out), p'.
        cbn [drain]. rewrite app_length, zeros_length.
        replace (length partial + (pl - length partial)) with pl by lia.
        rewrite Nat.eqb_refl, Hd. cbn [fst snd].
        split; [reflexivity|]. split.
        { constructor; [rewrite app_length, zeros_length; lia|assumption]. }
        split; [assumption|].
        cbn [concat]. rewrite <- !app_assoc. f_equal. rewrite Hc. cbn [app].
        rewrite <- zeros_app. f_equal. lia.
      * apply Nat.ltb_ge in Hleft. cbn [fst snd].
        split; [intros _; discriminate|]. split; [discriminate|].
        set (p1 := partial ++ zeros (length_ - read)).
        assert (Hl1 : length p1 = length partial + (length_ - read))
          by (unfold p1; rewrite app_length, zeros_length; reflexivity).
        cbn [drain]. destruct (length p1 =? pl) eqn:Hfull.
        -- apply Nat.eqb_eq in Hfull. exists [p1], []. cbn [fst snd].
           split; [reflexivity|]. split; [constructor; [assumption|constructor]|].
           split; [cbn [length]; lia|]. cbn [concat]. rewrite !app_nil_r. reflexivity.
        -- apply Nat.eqb_neq in Hfull. exists [], p1.
           split; [reflexivity|]. split; [constructor|]. split; [lia|]. reflexivity.
    + apply Nat.ltb_ge in Hrl. cbn [fst snd]. split; [lia|]. split; [reflexivity|].
      exists [], partial. cbn [drain]. repeat split; [constructor|assumption|].
      replace (length_ - read) with 0 by lia. cbn [zeros repeat concat app]. rewrite app_nil_r. reflexivity.
Qed.

(* ---------- extract ---------- *)

(* read + length rest = size of the file on disk; disk_within is `read + length rest <= length_`.
   It is used exactly where the code tests `read == length`. *)
Lemma extract_loop_spec pl length_ : 0 < pl ->
  forall fuel cur read rest,
    length cur < pl -> read + length rest <= length_ -> length rest < fuel ->
    delivers pl cur (rest ++ zeros (length_ - read - length rest))
             (extract_loop fuel pl length_ cur read rest).
Proof.
  intros Hpl. unfold delivers. induction fuel as [|f IH]; intros cur read rest Hcur Hwithin Hfuel; [lia|].
  cbn [extract_loop].
  set (bitlength := pl - length cur).
  assert (Hbit : 0 < bitlength) by (unfold bitlength; lia).
  destruct (length (firstn bitlength rest) <? bitlength) eqn:Hshort.
  - (* short read: end of file *)
    apply Nat.ltb_lt in Hshort. rewrite firstn_length in Hshort.
    assert (Hrest : length rest < bitlength) by lia.
    rewrite firstn_all2 by lia.
    destruct (negb (length_ =? read + length rest)) eqn:Hneq.
    + (* the file is shorter than recorded: pad *)
      apply negb_true_iff, Nat.eqb_neq in Hneq.
      replace (read + length rest =? length_) with false by (symmetry; apply Nat.eqb_neq; lia).
      rewrite andb_false_r. cbn [app].
      destruct (gen_padding_spec pl length_ Hpl (S length_) (cur ++ rest) (read + length rest))
        as [Hne [_ [out [p' [Hd [Hf [Hl Hc]]]]]]].
      { rewrite app_length. unfold bitlength in Hrest. lia. } { lia. }
      split.
      * cbn [fst snd]. intros E. exfalso. apply Hne; [lia|exact E].
      * exists out, p'. cbn [fst snd]. split; [exact Hd|]. split; [assumption|].
        split; [assumption|]. rewrite Hc, <- app_assoc.
        replace (length_ - (read + length rest)) with (length_ - read - length rest) by lia.
        reflexivity.
    + (* the file is complete *)
      apply negb_false_iff, Nat.eqb_eq in Hneq.
      replace (read + length rest =? length_) with true by (symmetry; apply Nat.eqb_eq; lia).
      rewrite andb_true_r.
      replace (length_ - read - length rest) with 0 by lia. cbn [zeros repeat].
      rewrite app_nil_r.
      destruct (0 <? length rest) eqn:Hamount.
      * cbn [fst snd]. split; [discriminate|].
        exists [], (cur ++ rest). cbn [drain].
        replace (length (cur ++ rest) =? pl) with false
          by (symmetry; apply Nat.eqb_neq; rewrite app_length; unfold bitlength in Hrest; lia).
        split; [reflexivity|]. split; [constructor|].
        split; [rewrite app_length; unfold bitlength in Hrest; lia|reflexivity].
      * apply Nat.ltb_ge in Hamount.
        assert (rest = []) by (destruct rest; [reflexivity|cbn [length] in Hamount; lia]). subst rest.
        rewrite app_nil_r. cbn [fst snd]. split; [reflexivity|].
        exists [], cur. cbn [drain]. split; [reflexivity|]. split; [constructor|].
        split; [assumption|]. reflexivity.
  - (* a full piece; go round again with a fresh bytearray *)
    apply Nat.ltb_ge in Hshort. rewrite firstn_length in Hshort.
    assert (Hrest : bitlength <= length rest) by lia.
    assert (Hlen1 : length (cur ++ firstn bitlength rest) = pl).
    { rewrite app_length, firstn_length. unfold bitlength in *. lia. }
    rewrite firstn_length. replace (Nat.min bitlength (length rest)) with bitlength by lia.
    cbn [fst snd]. split; [discriminate|].
    destruct (IH [] (read + bitlength) (skipn bitlength rest)) as [Hnil [out [p' [Hd [Hf [Hl Hc]]]]]].
    { cbn [length]. lia. } { rewrite skipn_length. lia. } { rewrite skipn_length. lia. }
    set (rec := extract_loop f pl length_ [] (read + bitlength) (skipn bitlength rest)) in *.
    assert (Hd' : drain pl (fst rec) [] = (out, p')).
    { destruct (fst rec) as [|y ys] eqn:Efst.
      - rewrite Hnil in Hd by reflexivity. exact Hd.
      - rewrite <- Hd. apply drain_nonempty. discriminate. }
    exists ((cur ++ firstn bitlength rest) :: out), p'.
    cbn [drain]. rewrite Hlen1, Nat.eqb_refl, Hd'. cbn [fst snd].
    split; [reflexivity|]. split; [constructor; assumption|]. split; [assumption|].
    cbn [concat]. rewrite <- !app_assoc. f_equal. rewrite Hc. cbn [app].
    rewrite skipn_length.
    replace (length_ - (read + bitlength) - (length rest - bitlength))
      with (length_ - read - length rest) by lia.
    rewrite app_assoc, firstn_skipn. reflexivity.
Qed.

(* the fuel is immaterial once it exceeds the number of unread bytes ("fuel suffices") *)
Lemma gen_padding_fuel pl length_ f1 f2 partial read : 0 < pl -> length partial < pl ->
  length_ - read <= f1 -> length_ - read <= f2 ->
  gen_padding f1 pl partial length_ read = gen_padding f2 pl partial length_ read.
Proof.
  intros Hpl. revert f2 partial read. induction f1 as [|f1 IH]; intros f2 partial read Hp H1 H2.
  - destruct f2 as [|f2]; [reflexivity|]. cbn [gen_padding].
    replace (read <? length_) with false by (symmetry; apply Nat.ltb_ge; lia). reflexivity.
  - destruct f2 as [|f2].
    + cbn [gen_padding].
      replace (read <? length_) with false by (symmetry; apply Nat.ltb_ge; lia). reflexivity.
    + cbn [gen_padding]. destruct (read <? length_) eqn:Hrl; [|reflexivity].
      apply Nat.ltb_lt in Hrl.
      destruct (pl - length partial <? length_ - read) eqn:Hleft; [|reflexivity].
      apply Nat.ltb_lt in Hleft.
      rewrite (IH f2); [reflexivity|cbn [length]; lia|lia|lia].
Qed.

Lemma extract_loop_fuel pl length_ f1 f2 cur read rest : 0 < pl -> length cur < pl ->
  length rest < f1 -> length rest < f2 ->
  extract_loop f1 pl length_ cur read rest = extract_loop f2 pl length_ cur read rest.
Proof.
  intros Hpl. revert f2 cur read rest.
  induction f1 as [|f1 IH]; intros f2 cur read rest Hcur H1 H2; [lia|].
  destruct f2 as [|f2]; [lia|]. cbn [extract_loop].
  destruct (length (firstn (pl - length cur) rest) <? pl - length cur) eqn:Hshort; [reflexivity|].
  apply Nat.ltb_ge in Hshort. rewrite firstn_length in Hshort.
  rewrite (IH f2); [reflexivity|cbn [length]; lia|rewrite skipn_length; lia|rewrite skipn_length; lia].
Qed.

Lemma extract_spec pl length_ content partial : 0 < pl ->
  length partial < pl -> length content <= length_ ->
  delivers pl partial (zero_fill length_ (Some content)) (extract pl length_ content partial).
Proof.
  intros Hpl Hp Hc. unfold extract.
  replace (length partial =? pl) with false by (symmetry; apply Nat.eqb_neq; lia).
  pose proof (extract_loop_spec pl length_ Hpl (S (length content)) partial 0 content Hp) as H.
  cbn [zero_fill]. replace (length_ - 0 - length content) with (length_ - length content) in H by lia.
  apply H; cbn [Nat.add]; lia.
Qed.

Lemma absent_spec pl length_ partial : 0 < pl -> length partial < pl ->
  delivers pl partial (zero_fill length_ None) (gen_padding (S length_) pl partial length_ 0).
Proof.
  intros Hpl Hp.
  destruct (gen_padding_spec pl length_ Hpl (S length_) partial 0 Hp) as [_ H]; [lia|].
  cbn [zero_fill]. rewrite Nat.sub_0_r in H. exact H.
Qed.

(* ---------- iter_pieces ---------- *)

Lemma chunks_full_prefix pl (out : list bytes) (x : bytes) : 0 < pl -> Forall (full pl) out ->
  chunks pl (concat out ++ x) = out ++ chunks pl x.
Proof.
  intros Hpl H. induction H as [|p out Hp _ IH]; [reflexivity|].
  cbn [concat]. rewrite <- app_assoc, chunks_app_exact by assumption. rewrite IH. reflexivity.
Qed.

Lemma iter_pieces_from_exact pl : 0 < pl ->
  forall lens disk partial, length partial < pl -> disk_within lens disk ->
    iter_pieces_from pl lens disk partial = chunks pl (partial ++ spec_stream_v1 lens disk).
Proof.
  intros Hpl. unfold spec_stream_v1.
  assert (Hend : forall partial : bytes, length partial < pl ->
            match partial with [] => [] | _ :: _ => [partial] end = chunks pl (partial ++ [])).
  { intros partial Hp. rewrite app_nil_r. destruct partial as [|a l]; [reflexivity|].
    symmetry. apply chunks_short; [assumption|discriminate|lia]. }
  induction lens as [|L lens IH]; intros disk partial Hp Hw.
  - cbn [iter_pieces_from map2 concat]. apply Hend, Hp.
  - destruct disk as [|od disk].
    + cbn [iter_pieces_from map2 concat]. apply Hend, Hp.
    + cbn [iter_pieces_from map2 concat]. cbn [disk_within] in Hw. destruct Hw as [Hfile Hw].
      set (g := match od with
                | Some content => extract pl L content partial
                | None => gen_padding (S L) pl partial L 0
                end).
      assert (Hg : delivers pl partial (zero_fill L od) g).
      { unfold g. destruct od as [content|].
        - apply extract_spec; assumption.
        - apply absent_spec; assumption. }
      destruct Hg as [_ [out [p' [Hd [Hf [Hl Hc]]]]]].
      rewrite Hd. cbn [fst snd]. rewrite IH by assumption.
      rewrite app_assoc, <- Hc, <- app_assoc. symmetry. apply chunks_full_prefix; assumption.
Qed.

Theorem feed_pieces_exact pl lens disk :
  0 < pl -> length lens = length disk -> disk_within lens disk ->
  feed_pieces pl lens disk = spec_pieces_v1 pl lens disk.
Proof.
  intros Hpl _ Hw. unfold feed_pieces, spec_pieces_v1.
  rewrite iter_pieces_from_exact by (assumption || (cbn [length]; lia)). reflexivity.
Qed.

(* C16_v1_exact *)
Theorem feed_trace_exact (H1 : bytes -> bytes) pl lens disk recorded :
  0 < pl -> length lens = length disk -> disk_within lens disk ->
  feed_trace H1 pl lens disk recorded = spec_trace_v1 H1 pl lens disk recorded.
Proof.
  intros Hpl Hlen Hw. unfold feed_trace, spec_trace_v1. rewrite feed_pieces_exact by assumption.
  reflexivity.
Qed.

(* ---------- examples ---------- *)

Local Open Scope char_scope.

(* pl = 3; files: "ab" intact (2), an empty file (0), "cde" truncated to "c" (recorded 3),
   an absent file of 1 byte -- the stream ends exactly on a piece boundary --, a present but
   empty file of recorded length 4, an absent file (2), an empty last file (0). *)
Example feed_pieces_example :
  let lens := [2; 0; 3; 1; 4; 2; 0] in
  let disk := [Some ["a"; "b"]; Some []; Some ["c"]; None; Some []; None; Some []] in
  disk_within lens disk /\
  feed_pieces 3 lens disk = spec_pieces_v1 3 lens disk /\
  feed_pieces 3 lens disk =
    [["a"; "b"; "c"]; [zero; zero; zero]; [zero; zero; zero]; [zero; zero; zero]].
Proof. cbn [disk_within file_within length]. repeat split; try lia; vm_compute; reflexivity. Qed.

(* total smaller than one piece, absent first file, empty last file *)
Example feed_pieces_example_small :
  feed_pieces 8 [2; 1; 0] [None; Some ["x"]; Some []] = [[zero; zero; "x"]] /\
  spec_pieces_v1 8 [2; 1; 0] [None; Some ["x"]; Some []] = [[zero; zero; "x"]].
Proof. split; vm_compute; reflexivity. Qed.

(* Outside disk_within the in-place extension of the caller's bytearray is observable: file 0 is
   recorded with 1 byte but has 2 on disk and fits into the open piece; extract appends "ab" to
   the caller's object, yields nothing (read <> length, nothing to pad), and file 1 then completes
   the piece "abcd".  A reading of the code without aliasing (partial unchanged when nothing is
   yielded) gives the single short piece "cd".  Either way the surplus is not reported. *)
Example aliasing_overlong_example :
  feed_pieces 4 [1; 2] [Some ["a"; "b"]; Some ["c"; "d"]] = [["a"; "b"; "c"; "d"]] /\
  extract 4 1 ["a"; "b"] [] = ([], ["a"; "b"]).
Proof. split; vm_compute; reflexivity. Qed.

Print Assumptions feed_pieces_exact.
Print Assumptions feed_trace_exact.
Print Assumptions extract_loop_fuel.
Print Assumptions gen_padding_fuel.
