(* C20, part 1: the certified checker for the generated command-line table and the theorem about
   the argparse model: for EVERY table the checker accepts, every option record, every order of
   the flags, every documented spelling and every position of the content path, parsing the
   rendered argv yields the documented namespace -- or the namespace in which the content path
   was swallowed by the list-valued flag that precedes it. *)
From Coq Require Import String List Bool Ascii Arith Lia.
From TF Require Import Model.ArgParse Model.Routes.
Import ListNotations.
Open Scope string_scope.

(* ------------------------------------------------------------------ association lists *)
Lemma lookup_set : forall ns d v d',
  lookup (set d v ns) d' = if d =? d' then Some v else lookup ns d'.
Proof.
  induction ns as [|[d0 v0] t IH]; intros d v d'; cbn [set lookup].
  - reflexivity.
  - destruct (d0 =? d) eqn:E0.
    + apply String.eqb_eq in E0. subst d0. cbn [lookup]. destruct (d =? d'); reflexivity.
    + cbn [lookup]. destruct (d0 =? d') eqn:E1.
      * apply String.eqb_eq in E1. subst d0. rewrite String.eqb_sym in E0. rewrite E0. reflexivity.
      * apply IH.
Qed.

Lemma getv_set : forall ns d v d',
  getv (set d v ns) d' = if d =? d' then v else getv ns d'.
Proof. intros. unfold getv. rewrite lookup_set. destruct (d =? d'); reflexivity. Qed.

Definition nseq (a b : namespace) : Prop := forall d, lookup a d = lookup b d.

Lemma nseq_refl : forall a, nseq a a.
Proof. intros a d. reflexivity. Qed.

Lemma nseq_trans : forall a b c, nseq a b -> nseq b c -> nseq a c.
Proof. intros a b c H1 H2 d. rewrite H1. apply H2. Qed.

Lemma nseq_set : forall a b d v, nseq a b -> nseq (set d v a) (set d v b).
Proof. intros a b d v H d'. rewrite !lookup_set. destruct (d =? d'); [reflexivity | apply H]. Qed.

(* ------------------------------------------------------------------ keys *)
Definition okey_eqb (a b : okey) : bool :=
  match a, b with
  | KAnnounce, KAnnounce | KWebSeed, KWebSeed | KHttpSeed, KHttpSeed | KPrivate, KPrivate
  | KSource, KSource | KComment, KComment | KPieceLength, KPieceLength
  | KMetaVersion, KMetaVersion | KOut, KOut | KAlign, KAlign => true
  | _, _ => false
  end.

Lemma okey_eqb_eq : forall a b, okey_eqb a b = true <-> a = b.
Proof. intros a b; split; [destruct a, b; simpl; congruence | intros ->; destruct b; reflexivity]. Qed.

Lemma okey_eqb_refl : forall a, okey_eqb a a = true.
Proof. destruct a; reflexivity. Qed.

Lemma in_all_keys : forall k, In k all_keys.
Proof. destruct k; simpl; tauto. Qed.

Lemma doc_kw_eqb : forall k k', (doc_kw k =? doc_kw k') = okey_eqb k k'.
Proof. destruct k, k'; reflexivity. Qed.

Lemma doc_kw_not_content : forall k, (doc_kw k =? "content") = false.
Proof. destruct k; reflexivity. Qed.

Lemma doc_kw_not_path : forall k, (doc_kw k =? "path") = false.
Proof. destruct k; reflexivity. Qed.

Definition mem_key (k : okey) (ks : list okey) : bool := existsb (okey_eqb k) ks.

Lemma mem_key_In : forall k ks, mem_key k ks = true <-> In k ks.
Proof.
  intros k ks. unfold mem_key. rewrite existsb_exists. split.
  - intros [x [Hin He]]. apply okey_eqb_eq in He. subst. exact Hin.
  - intros Hin. exists k. split; [exact Hin | apply okey_eqb_refl].
Qed.

(* ------------------------------------------------------------------ assigning options by key *)
Section Keys.
Variable f : okey -> option value.

Definition apply_key_f (k : okey) (N : namespace) : namespace :=
  match f k with Some v => set (doc_kw k) v N | None => N end.

Definition apply_keys_f (ks : list okey) (N : namespace) : namespace :=
  fold_left (fun N k => apply_key_f k N) ks N.

Lemma apply_key_f_nseq : forall k A B, nseq A B -> nseq (apply_key_f k A) (apply_key_f k B).
Proof. intros k A B H. unfold apply_key_f. destruct (f k); [apply nseq_set|]; exact H. Qed.

Lemma apply_keys_f_nseq : forall ks A B, nseq A B -> nseq (apply_keys_f ks A) (apply_keys_f ks B).
Proof.
  induction ks as [|k ks IH]; intros A B H; cbn [apply_keys_f fold_left]; [exact H|].
  apply IH. apply apply_key_f_nseq. exact H.
Qed.

Lemma lookup_apply_keys_f_kw : forall ks N k,
  lookup (apply_keys_f ks N) (doc_kw k) =
  match (if mem_key k ks then f k else None) with
  | Some v => Some v
  | None => lookup N (doc_kw k)
  end.
Proof.
  induction ks as [|k0 ks IH]; intros N k; cbn [apply_keys_f fold_left mem_key existsb].
  - reflexivity.
  - fold (apply_keys_f ks (apply_key_f k0 N)). fold (mem_key k ks). rewrite IH.
    destruct (mem_key k ks) eqn:Hm.
    + rewrite orb_true_r. destruct (f k) eqn:Hv; [reflexivity|].
      unfold apply_key_f. destruct (f k0) eqn:Hv0; [|reflexivity].
      rewrite lookup_set, doc_kw_eqb. destruct (okey_eqb k0 k) eqn:He; [|reflexivity].
      apply okey_eqb_eq in He. subst k0. congruence.
    + rewrite orb_false_r. unfold apply_key_f.
      destruct (okey_eqb k k0) eqn:He.
      * apply okey_eqb_eq in He. subst k0. destruct (f k) eqn:Hv; [|reflexivity].
        rewrite lookup_set, String.eqb_refl. reflexivity.
      * destruct (f k0); [|reflexivity].
        rewrite lookup_set, doc_kw_eqb.
        replace (okey_eqb k0 k) with false; [reflexivity|].
        destruct k0, k; simpl in *; congruence.
Qed.

Lemma lookup_apply_keys_f_other : forall ks N d, (forall k, (doc_kw k =? d) = false) ->
  lookup (apply_keys_f ks N) d = lookup N d.
Proof.
  induction ks as [|k0 ks IH]; intros N d Hd; cbn [apply_keys_f fold_left]; [reflexivity|].
  fold (apply_keys_f ks (apply_key_f k0 N)). rewrite IH by exact Hd.
  unfold apply_key_f. destruct (f k0); [|reflexivity].
  rewrite lookup_set, Hd. reflexivity.
Qed.
End Keys.

(* ------------------------------------------------------------------ value equality *)
Fixpoint strs_eqb (a b : list string) : bool :=
  match a, b with
  | [], [] => true
  | x :: a', y :: b' => (x =? y) && strs_eqb a' b'
  | _, _ => false
  end.

Lemma strs_eqb_eq : forall a b, strs_eqb a b = true -> a = b.
Proof.
  induction a as [|x a IH]; destruct b as [|y b]; simpl; try congruence.
  intros H. apply andb_true_iff in H. destruct H as [H1 H2].
  apply String.eqb_eq in H1. subst. f_equal. apply IH. exact H2.
Qed.

Definition value_eqb (a b : value) : bool :=
  match a, b with
  | VNone, VNone => true
  | VBool x, VBool y => Bool.eqb x y
  | VStr x, VStr y => x =? y
  | VInt x, VInt y => Nat.eqb x y
  | VList x, VList y => strs_eqb x y
  | _, _ => false
  end.

Lemma value_eqb_eq : forall a b, value_eqb a b = true -> a = b.
Proof.
  intros x y. destruct x, y; simpl; try congruence; intros H.
  - apply Bool.eqb_prop in H. congruence.
  - apply String.eqb_eq in H. congruence.
  - apply Nat.eqb_eq in H. congruence.
  - apply strs_eqb_eq in H. congruence.
Qed.

Definition ovalue_eqb (a : option value) (b : value) : bool :=
  match a with Some x => value_eqb x b | None => false end.

(* ------------------------------------------------------------------ the checker (command line) *)
Definition choices_ok (k : okey) (a : argspec) : bool :=
  match a_choices a with
  | None => true
  | Some l => match k with
              | KMetaVersion => forallb (fun v => mem_str v l) doc_versions
              | _ => false
              end
  end.

(* the table entry a is what the manual says about option k *)
Definition spec_ok (k : okey) (a : argspec) : bool :=
  (a_dest a =? doc_kw k)
  && match doc_shape k, a_action a, a_nargs a with
     | ShList, ActStore, NPlus => match a_choices a with None => true | Some _ => false end
     | ShBool, ActStoreTrue, _ => true
     | ShStr, ActStore, NNone => choices_ok k a
     | _, _, _ => false
     end.

Definition flag_ok (table : list argspec) (k : okey) (f : string) : bool :=
  match find_flag table f with Some a => spec_ok k a | None => false end.

Definition key_ok (table : list argspec) (k : okey) : bool :=
  forallb (flag_ok table k) (doc_flags k)
  && ovalue_eqb (lookup (defaults table) (doc_kw k)) (doc_default k).

Definition cli_ok (table : list argspec) : bool :=
  match lookup (defaults table) "path" with None => negb (positional_required table) | Some _ => false end
  && (forallb (key_ok table) all_keys
  && match positional_dest table with Some d => d =? "content" | None => false end
  && ovalue_eqb (lookup (defaults table) "content") VNone).

(* ------------------------------------------------------------------ what the checker gives *)
Section Cli.
Variable table : list argspec.
Hypothesis Hok0 : cli_ok table = true.

Lemma cli_ok_no_path : lookup (defaults table) "path" = None.
Proof.
  unfold cli_ok in Hok0. apply andb_true_iff in Hok0. destruct Hok0 as [H _].
  destruct (lookup (defaults table) "path"); [discriminate | reflexivity].
Qed.

Lemma cli_ok_not_required : positional_required table = false.
Proof.
  unfold cli_ok in Hok0. apply andb_true_iff in Hok0. destruct Hok0 as [H _].
  destruct (lookup (defaults table) "path"); [discriminate | apply negb_true_iff; exact H].
Qed.

Lemma Hok : forallb (key_ok table) all_keys
  && match positional_dest table with Some d => d =? "content" | None => false end
  && ovalue_eqb (lookup (defaults table) "content") VNone = true.
Proof. unfold cli_ok in Hok0. apply andb_true_iff in Hok0. apply Hok0. Qed.

Lemma cli_ok_key : forall k, key_ok table k = true.
Proof.
  intros k. pose proof Hok as Hok. apply andb_true_iff in Hok. destruct Hok as [H _].
  apply andb_true_iff in H. destruct H as [H _].
  rewrite forallb_forall in H. apply H. apply in_all_keys.
Qed.

Lemma cli_ok_flag : forall k f, In f (doc_flags k) ->
  exists a, find_flag table f = Some a /\ spec_ok k a = true.
Proof.
  intros k f Hin. pose proof (cli_ok_key k) as H. unfold key_ok in H.
  apply andb_true_iff in H. destruct H as [H _]. rewrite forallb_forall in H.
  specialize (H f Hin). unfold flag_ok in H. destruct (find_flag table f) as [a|]; [|discriminate].
  exists a. split; [reflexivity | exact H].
Qed.

Lemma cli_ok_default : forall k, lookup (defaults table) (doc_kw k) = Some (doc_default k).
Proof.
  intros k. pose proof (cli_ok_key k) as H. unfold key_ok in H.
  apply andb_true_iff in H. destruct H as [_ H]. unfold ovalue_eqb in H.
  destruct (lookup (defaults table) (doc_kw k)) as [v|]; [|discriminate].
  apply value_eqb_eq in H. congruence.
Qed.

Lemma cli_ok_positional : positional_dest table = Some "content".
Proof.
  pose proof Hok as Hok. apply andb_true_iff in Hok. destruct Hok as [H _].
  apply andb_true_iff in H. destruct H as [_ H].
  destruct (positional_dest table) as [d|]; [|discriminate].
  apply String.eqb_eq in H. congruence.
Qed.

Lemma cli_ok_content_default : lookup (defaults table) "content" = Some VNone.
Proof.
  pose proof Hok as Hok. apply andb_true_iff in Hok. destruct Hok as [_ H].
  unfold ovalue_eqb in H. destruct (lookup (defaults table) "content") as [v|]; [|discriminate].
  apply value_eqb_eq in H. congruence.
Qed.

(* ------------------------------------------------------------------ documented flags *)
Lemma doc_flag_is_flag : forall k f, In f (doc_flags k) -> is_flag f = true.
Proof. destruct k; simpl; intros f H; repeat (destruct H as [<-|H]; [reflexivity|]); contradiction. Qed.

Lemma flag_of_in : forall sel k, In (flag_of sel k) (doc_flags k).
Proof.
  intros sel k. unfold flag_of.
  destruct (nth_in_or_default (sel k) (doc_flags k) (hd "" (doc_flags k))) as [H|H]; [exact H|].
  rewrite H. destruct k; simpl; tauto.
Qed.

(* ------------------------------------------------------------------ modes between two groups *)
(* Idle, or collecting (at least one value so far) for a documented list-valued option *)
Definition good_mode (m : mode) : Prop :=
  m = Idle \/
  exists k a acc, m = Collect a acc /\ acc <> [] /\ doc_shape k = ShList
                  /\ a_dest a = doc_kw k /\ a_choices a = None.

Definition view (ns : namespace) (m : mode) : namespace :=
  match close ns m with Some ns' => ns' | None => ns end.

Lemma good_mode_close : forall ns m, good_mode m -> close ns m = Some (view ns m).
Proof.
  intros ns m [->|[k [a [acc [-> [Hne _]]]]]]; unfold view; cbn [close].
  - reflexivity.
  - destruct acc; [congruence | reflexivity].
Qed.

Lemma collect_run : forall a l ns acc used,
  a_choices a = None -> forallb nonflag l = true ->
  fold_left (step table) l (St ns (Collect a acc) used) = St ns (Collect a (rev l ++ acc)) used.
Proof.
  intros a l ns. induction l as [|x l IH]; intros acc used Hc Hl; cbn [fold_left rev app].
  - reflexivity.
  - cbn [forallb] in Hl. apply andb_true_iff in Hl. destruct Hl as [Hx Hl].
    unfold nonflag in Hx. apply negb_true_iff in Hx.
    cbn [step]. rewrite Hx. unfold choice_ok. rewrite Hc.
    rewrite IH by assumption. rewrite <- app_assoc. reflexivity.
Qed.

(* ------------------------------------------------------------------ one option group *)
Variable o : optrec.
Variable sel : okey -> nat.

Definition apply_key (k : okey) (N : namespace) : namespace := apply_key_f (opt_value o) k N.

Definition apply_keys (ks : list okey) (N : namespace) : namespace := apply_keys_f (opt_value o) ks N.

Hypothesis Hflags : forallb nonflag (urls o) = true.
Hypothesis Hstrs : forallb nonflag (str_opts o) = true.
Hypothesis Hver : version_ok o = true.

Lemma urls_nonflag : forall k l, opt_value o k = Some (VList l) -> forallb nonflag l = true.
Proof.
  intros k l H. unfold urls in Hflags. rewrite !forallb_app in Hflags.
  apply andb_true_iff in Hflags. destruct Hflags as [Ha Hb].
  apply andb_true_iff in Hb. destruct Hb as [Hb Hc].
  destruct k; simpl in H; unfold lv, bv, sv in H;
    repeat match goal with
           | H : match ?x with _ => _ end = _ |- _ => destruct x eqn:?; try discriminate
           end; inversion H; subst; assumption.
Qed.

Lemma strs_nonflag : forall k s, opt_value o k = Some (VStr s) -> nonflag s = true.
Proof.
  intros k s H. unfold str_opts in Hstrs. rewrite forallb_forall in Hstrs. apply Hstrs.
  rewrite in_flat_map.
  destruct k; simpl in H; unfold lv, bv, sv in H;
    repeat match goal with
           | H : match ?x with _ => _ end = _ |- _ => destruct x eqn:?; try discriminate
           end; inversion H; subst.
  - exists (o_source o). rewrite Heqo0. simpl. tauto.
  - exists (o_comment o). rewrite Heqo0. simpl. tauto.
  - exists (o_piece_length o). rewrite Heqo0. simpl. tauto.
  - exists (o_meta_version o). rewrite Heqo0. simpl. tauto.
  - exists (o_out o). rewrite Heqo0. simpl. tauto.
Qed.

Lemma opt_value_shape : forall k v, opt_value o k = Some v ->
  match doc_shape k with
  | ShList => exists l, v = VList l /\ l <> []
  | ShBool => v = VBool true
  | ShStr => exists s, v = VStr s
  end.
Proof.
  intros k v H. destruct k; simpl in *; unfold lv, bv, sv in H;
    repeat match goal with
           | H : match ?x with _ => _ end = _ |- _ => destruct x eqn:?; try discriminate
           end; inversion H; subst; eauto; eexists; split; eauto; congruence.
Qed.

Lemma version_choice : forall a s, spec_ok KMetaVersion a = true ->
  opt_value o KMetaVersion = Some (VStr s) -> choice_ok a s = true.
Proof.
  intros a s Hs Hv. unfold spec_ok in Hs. apply andb_true_iff in Hs. destruct Hs as [_ Hs].
  simpl in Hs. destruct (a_action a); [|discriminate]. destruct (a_nargs a); try discriminate.
  unfold choices_ok in Hs. unfold choice_ok. destruct (a_choices a) as [l|]; [|reflexivity].
  rewrite forallb_forall in Hs. simpl in Hv. unfold sv in Hv.
  unfold version_ok in Hver. destruct (o_meta_version o) as [x|]; [|discriminate].
  inversion Hv; subst x. unfold mem_str in Hver at 1. rewrite existsb_exists in Hver.
  destruct Hver as [y [Hy He]]. apply String.eqb_eq in He. subst y. apply Hs. exact Hy.
Qed.

Lemma group_step : forall k ns m used, good_mode m ->
  exists ns' m', fold_left (step table) (render_opt o sel k) (St ns m used) = St ns' m' used
                 /\ good_mode m' /\ nseq (view ns' m') (apply_key k (view ns m)).
Proof.
  intros k ns m used Hm. unfold render_opt, apply_key, apply_key_f.
  destruct (opt_value o k) as [v|] eqn:Hv.
  2:{ exists ns, m. cbn [fold_left]. split; [reflexivity|]. split; [exact Hm | apply nseq_refl]. }
  pose proof (opt_value_shape k v Hv) as Hsh.
  destruct (cli_ok_flag k (flag_of sel k) (flag_of_in sel k)) as [a [Hfind Hspec]].
  pose proof (doc_flag_is_flag k _ (flag_of_in sel k)) as Hisf.
  pose proof Hspec as Hspec0.
  unfold spec_ok in Hspec. apply andb_true_iff in Hspec. destruct Hspec as [Hdest Hspec].
  apply String.eqb_eq in Hdest.
  destruct (doc_shape k) eqn:Hshape.
  - (* list *)
    destruct Hsh as [l [-> Hne]].
    destruct (a_action a) eqn:Hact; [|discriminate]. destruct (a_nargs a) eqn:Hn; try discriminate.
    destruct (a_choices a) eqn:Hch; [discriminate|].
    cbn [fold_left]. cbn [step]. rewrite Hisf, Hfind, (good_mode_close ns m Hm), Hact, Hn.
    rewrite collect_run by (try assumption; eapply urls_nonflag; eassumption).
    rewrite app_nil_r.
    exists (view ns m), (Collect a (rev l)). split; [reflexivity|]. split.
    + right. exists k, a, (rev l). repeat split; try assumption.
      intros Hr. apply (f_equal (@rev string)) in Hr. rewrite rev_involutive in Hr. simpl in Hr. congruence.
    + unfold view at 1. cbn [close]. destruct (rev l) eqn:Hr.
      * exfalso. apply (f_equal (@rev string)) in Hr. rewrite rev_involutive in Hr. simpl in Hr. congruence.
      * rewrite <- Hr, rev_involutive, Hdest. apply nseq_refl.
  - (* bool *)
    subst v. destruct (a_action a) eqn:Hact; [discriminate|].
    cbn [fold_left]. cbn [step]. rewrite Hisf, Hfind, (good_mode_close ns m Hm), Hact.
    exists (set (a_dest a) (VBool true) (view ns m)), Idle. split; [reflexivity|].
    split; [left; reflexivity|]. unfold view at 1. cbn [close]. rewrite Hdest. apply nseq_refl.
  - (* string *)
    destruct Hsh as [s ->].
    destruct (a_action a) eqn:Hact; [|discriminate]. destruct (a_nargs a) eqn:Hn; try discriminate.
    pose proof (strs_nonflag k s Hv) as Hs. unfold nonflag in Hs. apply negb_true_iff in Hs.
    assert (Hc : choice_ok a s = true).
    { destruct (a_choices a) as [l|] eqn:Hch.
      - unfold choices_ok in Hspec. rewrite Hch in Hspec.
        destruct k; try discriminate. apply version_choice; assumption.
      - unfold choice_ok. rewrite Hch. reflexivity. }
    cbn [fold_left]. cbn [step]. rewrite Hisf, Hfind, (good_mode_close ns m Hm), Hact, Hn.
    cbn [step]. rewrite Hs, Hc.
    exists (set (a_dest a) (VStr s) (view ns m)), Idle. split; [reflexivity|].
    split; [left; reflexivity|]. unfold view at 1. cbn [close]. rewrite Hdest. apply nseq_refl.
Qed.

Lemma apply_keys_nseq : forall ks A B, nseq A B -> nseq (apply_keys ks A) (apply_keys ks B).
Proof. exact (apply_keys_f_nseq (opt_value o)). Qed.

Lemma groups_run : forall ks ns m used, good_mode m ->
  exists ns' m', fold_left (step table) (render_groups o sel ks) (St ns m used) = St ns' m' used
                 /\ good_mode m' /\ nseq (view ns' m') (apply_keys ks (view ns m)).
Proof.
  induction ks as [|k ks IH]; intros ns m used Hm; unfold render_groups; cbn [map concat].
  - exists ns, m. split; [reflexivity|]. split; [exact Hm | apply nseq_refl].
  - rewrite fold_left_app.
    destruct (group_step k ns m used Hm) as [ns1 [m1 [E1 [G1 V1]]]]. rewrite E1.
    destruct (IH ns1 m1 used G1) as [ns2 [m2 [E2 [G2 V2]]]].
    exists ns2, m2. split; [exact E2|]. split; [exact G2|].
    eapply nseq_trans; [exact V2|]. unfold apply_keys at 2. cbn [apply_keys_f fold_left].
    apply apply_keys_nseq. exact V1.
Qed.

(* ------------------------------------------------------------------ lookups after a run of groups *)
Lemma lookup_apply_keys_kw : forall ks N k,
  lookup (apply_keys ks N) (doc_kw k) =
  match (if mem_key k ks then opt_value o k else None) with
  | Some v => Some v
  | None => lookup N (doc_kw k)
  end.
Proof. exact (lookup_apply_keys_f_kw (opt_value o)). Qed.

Lemma lookup_apply_keys_other : forall ks N d, (forall k, (doc_kw k =? d) = false) ->
  lookup (apply_keys ks N) d = lookup N d.
Proof. exact (lookup_apply_keys_f_other (opt_value o)). Qed.

(* ------------------------------------------------------------------ the whole argv *)
Definition cli_expected (k : okey) : value :=
  match opt_value o k with Some v => v | None => doc_default k end.

(* N is the documented namespace, or the one in which list option k0 swallowed the path c *)
Definition cli_outcome (c : string) (N : namespace) : Prop :=
  lookup N "path" = None /\
  ((lookup N "content" = Some (VStr c) /\ forall k, lookup N (doc_kw k) = Some (cli_expected k))
  \/
  (lookup N "content" = Some VNone /\
   exists k0 l, doc_shape k0 = ShList /\ opt_value o k0 = Some (VList l) /\ l <> [] /\
                lookup N (doc_kw k0) = Some (VList (l ++ [c])) /\
                forall k, k <> k0 -> lookup N (doc_kw k) = Some (cli_expected k))).

Lemma default_not_nonempty_list : forall k l, doc_default k = VList l -> l = [].
Proof. destruct k; simpl; intros l H; congruence. Qed.

Theorem parse_render_argv : forall order pos,
  nonflag (o_content o) = true ->
  NoDup order -> (forall k, opt_value o k <> None -> In k order) ->
  exists N, parse table (render_argv o sel order pos) = PR_ok N /\ cli_outcome (o_content o) N.
Proof.
  intros order pos Hc Hnd Hcov.
  set (ks1 := firstn pos order). set (ks2 := skipn pos order).
  assert (Hsplit : order = (ks1 ++ ks2)%list) by (symmetry; apply firstn_skipn).
  unfold parse, run, render_argv. fold ks1 ks2. set (c := o_content o) in *. rewrite !fold_left_app.
  destruct (groups_run ks1 (defaults table) Idle false (or_introl eq_refl)) as [ns1 [m1 [E1 [G1 V1]]]].
  rewrite E1. cbn [fold_left].
  unfold nonflag in Hc. apply negb_true_iff in Hc.
  assert (Hmem : forall k, opt_value o k <> None -> mem_key k ks1 || mem_key k ks2 = true).
  { intros k Hk. specialize (Hcov k Hk). rewrite Hsplit in Hcov. apply in_app_or in Hcov.
    apply orb_true_iff. destruct Hcov; [left | right]; apply mem_key_In; assumption. }
  assert (Hexp : forall k A, lookup A (doc_kw k) = Some (doc_default k) ->
             match (if mem_key k ks2 then opt_value o k else None) with
             | Some v => Some v
             | None => match (if mem_key k ks1 then opt_value o k else None) with
                       | Some v => Some v | None => lookup A (doc_kw k) end
             end = Some (cli_expected k)).
  { intros k A HA. unfold cli_expected. destruct (opt_value o k) eqn:Hv.
    - assert (Hk : opt_value o k <> None) by congruence. specialize (Hmem k Hk).
      destruct (mem_key k ks2); [reflexivity|]. rewrite orb_false_r in Hmem. rewrite Hmem. reflexivity.
    - destruct (mem_key k ks2), (mem_key k ks1); exact HA. }
  destruct G1 as [->|[k0 [a [acc [-> [Hacc [Hsh0 [Hdest0 Hch0]]]]]]]].
  - (* the path is taken by the positional *)
    cbn [step]. rewrite Hc, cli_ok_positional.
    destruct (groups_run ks2 (set "content" (VStr c) ns1) Idle true (or_introl eq_refl))
      as [ns2 [m2 [E2 [G2 V2]]]].
    rewrite E2, cli_ok_not_required. cbn [andb]. unfold finish. rewrite (good_mode_close ns2 m2 G2).
    exists (view ns2 m2). split; [reflexivity|].
    unfold view at 2 in V2. cbn [close] in V2. unfold view in V1. cbn [close] in V1.
    split.
    { rewrite V2, lookup_apply_keys_other by apply doc_kw_not_path.
      rewrite lookup_set. change ("content" =? "path") with false. cbv iota.
      rewrite V1, lookup_apply_keys_other by apply doc_kw_not_path. apply cli_ok_no_path. }
    left. split.
    + rewrite V2, lookup_apply_keys_other by apply doc_kw_not_content.
      rewrite lookup_set, String.eqb_refl. reflexivity.
    + intros k. rewrite V2, lookup_apply_keys_kw, lookup_set.
      rewrite String.eqb_sym, doc_kw_not_content. rewrite V1, lookup_apply_keys_kw.
      apply Hexp with (A := defaults table). apply cli_ok_default.
  - (* the path is swallowed by the list option k0 *)
    cbn [step]. rewrite Hc. unfold choice_ok. rewrite Hch0.
    assert (G : good_mode (Collect a (c :: acc))).
    { right. exists k0, a, (c :: acc). repeat split; try assumption. congruence. }
    destruct (groups_run ks2 ns1 (Collect a (c :: acc)) false G) as [ns2 [m2 [E2 [G2 V2]]]].
    rewrite E2, cli_ok_not_required. cbn [andb]. unfold finish. rewrite (good_mode_close ns2 m2 G2).
    exists (view ns2 m2). split; [reflexivity|].
    unfold view at 2 in V2. cbn [close] in V2. unfold view in V1. cbn [close] in V1.
    destruct acc as [|x acc']; [congruence|]. cbn [rev] in V2. rewrite Hdest0 in V1, V2.
    split.
    { rewrite V2, lookup_apply_keys_other by apply doc_kw_not_path.
      rewrite lookup_set, doc_kw_not_path.
      pose proof (V1 "path") as H. rewrite lookup_set, doc_kw_not_path in H.
      rewrite H, lookup_apply_keys_other by apply doc_kw_not_path. apply cli_ok_no_path. }
    right.
    set (l := rev (x :: acc')) in *.
    assert (Hl : l <> []).
    { unfold l. intros Hr. apply (f_equal (@rev string)) in Hr. rewrite rev_involutive in Hr. simpl in Hr. congruence. }
    (* what ns1 holds at k0 identifies l as the value of k0 *)
    assert (Hk0 : mem_key k0 ks1 = true /\ opt_value o k0 = Some (VList l)).
    { pose proof (V1 (doc_kw k0)) as H. rewrite lookup_set, String.eqb_refl in H.
      rewrite lookup_apply_keys_kw, cli_ok_default in H.
      destruct (mem_key k0 ks1).
      - destruct (opt_value o k0) eqn:Hv.
        + split; [reflexivity|]. congruence.
        + inversion H as [H1]. symmetry in H1. apply default_not_nonempty_list in H1. contradiction.
      - inversion H as [H1]. symmetry in H1. apply default_not_nonempty_list in H1. contradiction. }
    destruct Hk0 as [Hin1 Hv0].
    assert (Hnot2 : mem_key k0 ks2 = false).
    { destruct (mem_key k0 ks2) eqn:Hm; [|reflexivity]. exfalso.
      apply mem_key_In in Hm. apply mem_key_In in Hin1. rewrite Hsplit in Hnd.
      apply NoDup_remove_2 with (a := k0) (l := ks1) (l' := []) in Hnd || idtac.
      clear - Hnd Hm Hin1. induction ks1 as [|y ys IH]; [contradiction|].
      simpl in Hnd. inversion Hnd as [|? ? Hny Hnd']; subst.
      destruct Hin1 as [->|Hin1]; [apply Hny; apply in_or_app; right; exact Hm | apply IH; assumption]. }
    split.
    + rewrite V2, lookup_apply_keys_other by apply doc_kw_not_content.
      rewrite lookup_set, doc_kw_not_content.
      pose proof (V1 "content") as H. rewrite lookup_set, doc_kw_not_content in H.
      (* ns1 at content: from V1 both sides are sets on k0 *)
      assert (H' : lookup ns1 "content" = lookup (apply_keys ks1 (defaults table)) "content") by exact H.
      rewrite H', lookup_apply_keys_other by apply doc_kw_not_content. apply cli_ok_content_default.
    + exists k0, l. split; [exact Hsh0|]. split; [exact Hv0|]. split; [exact Hl|]. split.
      * rewrite V2, lookup_apply_keys_kw, Hnot2, lookup_set, String.eqb_refl.
        unfold l. cbn [rev]. rewrite <- app_assoc. reflexivity.
      * intros k Hne. rewrite V2, lookup_apply_keys_kw, lookup_set, doc_kw_eqb.
        assert (He : okey_eqb k0 k = false).
        { destruct (okey_eqb k0 k) eqn:He; [|reflexivity]. apply okey_eqb_eq in He. congruence. }
        rewrite He.
        pose proof (V1 (doc_kw k)) as H. rewrite lookup_set, doc_kw_eqb, He in H.
        rewrite H, lookup_apply_keys_kw.
        apply Hexp with (A := defaults table). apply cli_ok_default.
Qed.

End Cli.
