(* Glue between Proofs/CreatorsProofs.v / CreatorsProofs2.v and the property files Props/C01, C02, C06:
   the creator-level facts re-packaged in the vocabulary of the property texts.  Nothing new is proved about
   the creators here; every lemma is a short composition of lemmas of those two files. *)
From TF Require Import Lib.Base Lib.Lex Lib.Decimal Lib.Chunks Spec.Bep52
                       Model.Bencode Model.Hasher Model.HasherV2 Model.Creators
                       Proofs.BencodeProofs Proofs.HasherCorrect Proofs.HasherV2Correct
                       Proofs.CreatorsProofs Proofs.CreatorsProofs2.
From Coq Require Import Permutation Sorted.

(* ========================================================================================== *)
(* 1. C01: reading an entry of info["files"]                                                   *)
(* ========================================================================================== *)

(* the "path" of an entry as a list of components *)
Definition entry_path (v : value) : list bytes :=
  match v with
  | BDict d =>
      match lookup k_path d with
      | Some (BList l) => flat_map (fun x => match x with BStr s => [s] | _ => [] end) l
      | _ => []
      end
  | _ => []
  end.

(* (path components, length) of an entry *)
Definition entry_of (v : value) : list bytes * nat := (entry_path v, entry_len v).

Lemma flat_map_BStr l : flat_map (fun x => match x with BStr s => [s] | _ => [] end) (map BStr l) = l.
Proof. induction l as [|s l IH]; [reflexivity|]. cbn [map flat_map app]. rewrite IH. reflexivity. Qed.

Lemma entry_of_file_entry rel n : entry_of (file_entry rel n) = (rel, n).
Proof.
  unfold entry_of. f_equal.
  - unfold entry_path, file_entry. lk. apply flat_map_BStr.
  - pose proof (abs_file_entry rel n) as A. unfold abs_entry in A. congruence.
Qed.

Lemma is_pad_file_entry rel n : is_pad (file_entry rel n) = false.
Proof. reflexivity. Qed.

Section C01.
Variable H1 : bytes -> bytes.

(* C01_files_exactly_once: the entries of info["files"] (no --align) are payload entries, and their
   (path, length) pairs are, as a multiset, those of the files of the tree: every file once, nothing else *)
Theorem v1_files_exactly_once o root name pl es :
  exists l, info_get k_files (create_v1 H1 false o root name pl (Dir es)) = Some (BList l) /\
    Forall (fun v => is_pad v = false) l /\
    Permutation (map entry_of l)
                (map (fun f => (fst f, length (snd f))) (files_of [] (Dir es))).
Proof.
  destruct (create_v1_dir_files H1 o root name pl es) as (Hp & Ef & _). cbv zeta in Hp, Ef.
  eexists. split; [exact Ef|]. split.
  - apply Forall_map. apply Forall_forall. intros f _. apply is_pad_file_entry.
  - rewrite map_map.
    rewrite (map_ext _ (fun f : list bytes * bytes => (fst f, length (snd f))))
      by (intros f; apply entry_of_file_entry).
    apply Permutation_map. exact Hp.
Qed.

(* C01_pieces_are_bep3 at creator level: there is ONE list fl of (path, content) pairs -- a permutation of
   the files of the tree -- such that info["files"] lists exactly fl in order and info["pieces"] is the
   SHA-1 of the successive piece-length slices of the concatenation of the contents of fl in that order *)
Theorem v1_pieces_are_bep3 o root name pl es :
  0 < pl -> has_file (Dir es) ->
  let m := create_v1 H1 false o root name pl (Dir es) in
  exists fl, Permutation fl (files_of [] (Dir es)) /\
    info_get k_files m = Some (BList (map (fun f => file_entry (fst f) (length (snd f))) fl)) /\
    info_get k_length m = None /\
    info_get k_pieces m = Some (BStr (concat (map H1 (chunks pl (concat (map snd fl)))))).
Proof.
  intros Hpl Hf. cbv zeta.
  destruct (create_v1_dir_files H1 o root name pl es) as (Hp & Ef & El & _). cbv zeta in Hp, Ef, El.
  exists (snd (filelist_total root (Dir es))). split; [exact Hp|]. split; [exact Ef|]. split; [exact El|].
  apply create_v1_dir_pieces; assumption.
Qed.
End C01.

(* ========================================================================================== *)
(* 2. C02: what a leaf of the file tree holds; piece layers as an equivalence                  *)
(* ========================================================================================== *)

Section C02.
Variable H1 H256 : bytes -> bytes.
Variable B : nat.
Hypothesis HB : 0 < B.
Variable k pl : nat.
Hypothesis Hpl : pl = B * 2 ^ k.

Lemma leaf_value_nonempty (d : bytes) : d <> [] ->
  leaf_value H256 B d =
  BDict [(k_length, BInt (Z.of_nat (length d))); (k_pieces_root, BStr (bep52_root H256 B d))].
Proof.
  intros Hd. unfold leaf_value. destruct (Nat.eqb_spec (length d) 0) as [E|_]; [|reflexivity].
  apply length_zero_iff_nil in E. contradiction.
Qed.

Lemma leaf_value_empty : leaf_value H256 B [] = BDict [(k_length, BInt 0)].
Proof. reflexivity. Qed.

(* C02_root_is_bep52: every non-empty file of the tree is a leaf of info["file tree"] at its path, holding
   exactly its length and the BEP 52 merkle root of its content *)
Theorem file_tree_root_is_bep52 o name es m p (d : bytes) :
  wf_node (Dir es) -> v2_capable_output H1 H256 B pl o name (Dir es) m ->
  In (p, d) (files_of [] (Dir es)) -> d <> [] ->
  exists ft, info_get k_file_tree m = Some ft /\
    In (p, BDict [(k_length, BInt (Z.of_nat (length d))); (k_pieces_root, BStr (bep52_root H256 B d))])
       (leaves_v [] ft).
Proof.
  intros Hwf Hm Hin Hd.
  destruct (file_tree_has_every_file H1 H256 B HB k pl Hpl o name es m p d Hwf Hm Hin) as (ft & E & L).
  exists ft. split; [exact E|]. rewrite <- (leaf_value_nonempty d Hd). exact L.
Qed.

(* C02_empty_has_no_root: an empty file is a leaf holding its length 0 and NO "pieces root" key *)
Theorem file_tree_empty_has_no_root o name es m p :
  wf_node (Dir es) -> v2_capable_output H1 H256 B pl o name (Dir es) m ->
  In (p, []) (files_of [] (Dir es)) ->
  exists ft, info_get k_file_tree m = Some ft /\ In (p, BDict [(k_length, BInt 0)]) (leaves_v [] ft).
Proof.
  intros Hwf Hm Hin.
  destruct (file_tree_has_every_file H1 H256 B HB k pl Hpl o name es m p [] Hwf Hm Hin) as (ft & E & L).
  exists ft. split; [exact E|]. exact L.
Qed.

(* C02_layers_exact: when no two files larger than a piece collide on their root with different layers
   (true of SHA-256 as far as anyone knows; identical files DO share root and layer and satisfy it), the
   entries of "piece layers" are exactly (root, concatenated BEP 52 piece layer) of the files larger than
   the piece length *)
Theorem piece_layers_exact o name t m :
  wf_node t -> v2_capable_output H1 H256 B pl o name t m ->
  (forall p1 d1 p2 d2, In (p1, d1) (files_of (root_rel t) t) -> In (p2, d2) (files_of (root_rel t) t) ->
     pl < length d1 -> pl < length d2 -> bep52_root H256 B d1 = bep52_root H256 B d2 ->
     bep52_piece_layer H256 B k d1 = bep52_piece_layer H256 B k d2) ->
  forall r v, In (r, v) (layers_of m) <->
    exists p d, In (p, d) (files_of (root_rel t) t) /\ pl < length d /\
                r = bep52_root H256 B d /\ v = BStr (concat (bep52_piece_layer H256 B k d)).
Proof.
  intros Hwf Hm Hinj r v. split.
  - apply (piece_layers_only H1 H256 B HB k pl Hpl o name t m r v Hwf Hm).
  - intros (p & d & Hin & Hd & -> & ->). apply lookup_Some_In.
    apply (piece_layers_own H1 H256 B HB k pl Hpl o name t m p d Hwf Hm Hinj Hin Hd).
Qed.
End C02.

(* ========================================================================================== *)
(* 3. C06: all six creator variants at once; the written BYTES                                 *)
(* ========================================================================================== *)

Lemma canon_encode_canonical v : canon v -> canonical_bytes (encode v) = true.
Proof. intros Hc. apply canonical_iff. exists v. split; [exact Hc|reflexivity]. Qed.

Section C06.
Variable H1 H256 : bytes -> bytes.
Variable B : nat.
Hypothesis HB : 0 < B.
Variable k pl : nat.
Hypothesis Hpl : pl = B * 2 ^ k.

(* the value each of the six creator variants writes *)
Inductive created (o : options) (root name : bytes) (t : node) : value -> Prop :=
| created_v1 align : created o root name t (create_v1 H1 align o root name pl t)
| created_v2_class : created o root name t (create_v2_class H256 B o name pl t)
| created_v2_assembler : created o root name t (create_assembler H1 H256 B false o name pl t)
| created_hybrid_class : created o root name t (create_hybrid_class H1 H256 B o name pl t)
| created_hybrid_assembler : created o root name t (create_assembler H1 H256 B true o name pl t).

Theorem created_is_canonical o root name t m : wf_node t -> created o root name t m -> canon m.
Proof.
  intros Hwf [align| | | |].
  - apply create_v1_canon.
  - apply (create_v2_class_canon H1 H256 B HB k pl Hpl); exact Hwf.
  - apply (create_assembler_v2_canon H1 H256 B HB k pl Hpl); exact Hwf.
  - apply (create_hybrid_class_canon H1 H256 B HB k pl Hpl); exact Hwf.
  - apply (create_assembler_hybrid_canon H1 H256 B HB k pl Hpl); exact Hwf.
Qed.

(* what is on disk is `encode` of that value (MetaFile.write = pyben.dump): the strict recogniser accepts it *)
Theorem created_bytes_canonical o root name t m :
  wf_node t -> created o root name t m -> canonical_bytes (encode m) = true.
Proof. intros Hwf Hm. apply canon_encode_canonical. exact (created_is_canonical o root name t m Hwf Hm). Qed.

(* ... and every decoder reads the same value back from it *)
Theorem created_bytes_decode o root name t m :
  wf_node t -> created o root name t m -> strict_decode (encode m) = Some m.
Proof. intros Hwf Hm. apply strict_decode_encode. exact (created_is_canonical o root name t m Hwf Hm). Qed.

End C06.

(* ========================================================================================== *)
(* 4. examples: the hypotheses are satisfiable (toy hashes of the right lengths, B = 2, pl = 4) *)
(* ========================================================================================== *)

Module CreatorsPropsExamples.
Import CreatorsExamples CreatorsProofsExamples CreatorsProofs2Examples.
Import String.StringSyntax.

Definition ex_cap : v2_capable_output X1 X256 2 4 ex_opts (bs "r") ex_tree ex_m := or_intror ex_m_out.

(* C01: the four files of ex_tree, each once *)
Example ex_C01_files :
  exists l, info_get k_files (create_v1 X1 false ex_opts (bs "r") (bs "r") 4 ex_tree) = Some (BList l) /\
    Permutation (map entry_of l)
      [([bs "b"], 10); ([bs "a.txt"], 3); ([bs "a"; bs "z"], 5); ([bs "a"; bs "e"], 0)].
Proof.
  destruct (v1_files_exactly_once X1 ex_opts (bs "r") (bs "r") 4
             [ (bs "b", File (bs "0123456789")); (bs "a.txt", File (bs "xyz"));
               (bs "a", Dir [(bs "z", File (bs "hello")); (bs "e", File [])]) ]) as (l & E & _ & P).
  exists l. split; [exact E|exact P].
Qed.

(* C02: "a/z" (5 bytes) is a leaf with its BEP 52 root, "a/e" (empty) a leaf without a root *)
Example ex_C02_leaves :
  exists ft, info_get k_file_tree ex_m = Some ft /\
    In ([bs "a"; bs "z"], BDict [(k_length, BInt 5); (k_pieces_root, BStr (bep52_root X256 2 (bs "hello")))])
       (leaves_v [] ft) /\
    In ([bs "a"; bs "e"], BDict [(k_length, BInt 0)]) (leaves_v [] ft).
Proof.
  destruct (file_tree_root_is_bep52 X1 X256 2 HB2 1 4 Hpl4 ex_opts (bs "r") _ ex_m
              [bs "a"; bs "z"] (bs "hello") ex_tree_wf ex_cap) as (ft & E & L1);
    [vm_compute; tauto|discriminate|].
  destruct (file_tree_empty_has_no_root X1 X256 2 HB2 1 4 Hpl4 ex_opts (bs "r") _ ex_m
              [bs "a"; bs "e"] ex_tree_wf ex_cap) as (ft' & E' & L2); [vm_compute; tauto|].
  rewrite E in E'. injection E' as <-. exists ft. split; [exact E|]. split; [exact L1|exact L2].
Qed.

(* C02: the no-collision hypothesis holds of ex_tree (two files larger than pl = 4: "hello" and
   "0123456789", with different roots), so piece layers has exactly their two entries *)
Example ex_C02_no_collision : forall p1 d1 p2 d2,
  In (p1, d1) (files_of (root_rel ex_tree) ex_tree) -> In (p2, d2) (files_of (root_rel ex_tree) ex_tree) ->
  4 < length d1 -> 4 < length d2 -> bep52_root X256 2 d1 = bep52_root X256 2 d2 ->
  bep52_piece_layer X256 2 1 d1 = bep52_piece_layer X256 2 1 d2.
Proof.
  intros p1 d1 p2 d2 I1 I2. vm_compute in I1, I2.
  destruct I1 as [I1|[I1|[I1|[I1|[]]]]]; injection I1 as <- <-;
  destruct I2 as [I2|[I2|[I2|[I2|[]]]]]; injection I2 as <- <-;
    intros L1 L2 R; try reflexivity; try (vm_compute in L1; lia); try (vm_compute in L2; lia);
    vm_compute in R; discriminate R.
Qed.

Example ex_C02_layers : forall r v, In (r, v) (layers_of ex_m) <->
  exists p d, In (p, d) (files_of (root_rel ex_tree) ex_tree) /\ 4 < length d /\
              r = bep52_root X256 2 d /\ v = BStr (concat (bep52_piece_layer X256 2 1 d)).
Proof.
  exact (piece_layers_exact X1 X256 2 HB2 1 4 Hpl4 ex_opts (bs "r") ex_tree ex_m ex_tree_wf ex_cap
           ex_C02_no_collision).
Qed.

(* C03: the decomposition hypotheses of C03_files_start_on_piece_boundary / C03_pad_entries_marked are
   satisfiable: the entry of a.txt (after a/e, a/z and its pad) starts at offset 8 = 2 * 4; the pad
   entry after it is pad_entry 1 *)
Example ex_C03_boundary :
  entries_total (map abs_entry [file_entry [bs "a"; bs "e"] 0; file_entry [bs "a"; bs "z"] 5; pad_entry 3])
    mod 4 = 0.
Proof.
  apply (hybrid_files_start_on_piece_boundary X1 X256 2 HB2 1 4 Hpl4 ex_opts (bs "r") _ ex_m _
           _ (file_entry [bs "a.txt"] 3) [pad_entry 1; file_entry [bs "b"] 10; pad_entry 2]
           ex_tree_wf ex_m_out ex_T4_files); reflexivity.
Qed.

Example ex_C03_pad :
  exists n, pad_entry 1 = pad_entry n /\ 0 < n < 4.
Proof.
  destruct (hybrid_pad_entries_marked X1 X256 2 HB2 1 4 Hpl4 ex_opts (bs "r") _ ex_m _
              [file_entry [bs "a"; bs "e"] 0; file_entry [bs "a"; bs "z"] 5; pad_entry 3; file_entry [bs "a.txt"] 3]
              (pad_entry 1) [file_entry [bs "b"] 10; pad_entry 2]
              ex_tree_wf ex_m_out ex_T4_files eq_refl eq_refl) as (n & E & Hn & _).
  exists n. split; assumption.
Qed.

(* C06: the six variants on ex_tree are canonical values, their encodings canonical bytes *)
Example ex_C06_bytes :
  canonical_bytes (encode ex_m) = true /\
  canonical_bytes (encode (create_v1 X1 true ex_opts (bs "r") (bs "r") 4 ex_tree)) = true.
Proof.
  split.
  - apply (created_bytes_canonical X1 X256 2 HB2 1 4 Hpl4 ex_opts (bs "r") (bs "r") ex_tree _ ex_tree_wf).
    apply created_hybrid_assembler.
  - apply (created_bytes_canonical X1 X256 2 HB2 1 4 Hpl4 ex_opts (bs "r") (bs "r") ex_tree _ ex_tree_wf).
    apply created_v1.
Qed.
End CreatorsPropsExamples.

Print Assumptions v1_files_exactly_once.
Print Assumptions v1_pieces_are_bep3.
Print Assumptions file_tree_root_is_bep52.
Print Assumptions file_tree_empty_has_no_root.
Print Assumptions piece_layers_exact.
Print Assumptions created_is_canonical.
Print Assumptions created_bytes_canonical.
Print Assumptions created_bytes_decode.
