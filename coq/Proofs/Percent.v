(* From the integers (matched, consumed) to the float that Checker.results() reports.

   recheck.py, Checker.iter_hashes, last statement:
       self._result = (matched / consumed) * 100 if consumed > 0 else 0
   `matched` and `consumed` are Python ints.  CPython's int / int (long_true_divide) returns the
   CORRECTLY ROUNDED binary64 value of the exact rational (round to nearest, ties to even), and
   float * int converts 100 exactly and performs one IEEE-754 binary64 multiplication (round to
   nearest, ties to even).

   MODEL.  We do not use a bit-level float type.  We use the standard characterisation of
   IEEE-754: "the result of an operation is the rounding of the exact real result", with
   Flocq's description of binary64 as the generic format of radix 2 with exponent function
   FLT_exp (-1074) 53 (53-bit significands, gradual underflow down to 2^-1074) and rounding
   ZnearestE (nearest, ties to even).  Overflow cannot occur: all values are in [0, 100].

   AXIOMS.  This file (and only this file and its three consumers in Props/C04, C05, C16) uses
   Flocq and therefore Coq's axiomatised real numbers; see the Print Assumptions at the end. *)

From Coq Require Import ZArith Reals Lia Lra.
From Flocq Require Import Core.Core Core.Ulp Core.Round_NE.

Open Scope R_scope.

Definition fexp64 : Z -> Z := FLT_exp (-1074) 53.
Definition fmt64 : R -> Prop := generic_format radix2 fexp64.
Definition rnd (x : R) : R := round radix2 fexp64 ZnearestE x.

(* (matched / consumed) * 100 *)
Definition percent (m c : Z) : R := rnd (rnd (IZR m / IZR c) * 100).

#[local] Instance prec53_gt_0 : Prec_gt_0 53.
Proof. reflexivity. Qed.

#[local] Instance fexp64_valid : Valid_exp fexp64.
Proof. unfold fexp64. apply FLT_exp_valid. exact prec53_gt_0. Qed.

#[local] Instance fexp64_NE : Exists_NE radix2 fexp64.
Proof. unfold fexp64. apply exists_NE_FLT. right. reflexivity. Qed.

(* ---------------------------------------------------------------------------------------------- *)
(* numbers                                                                                        *)
(* ---------------------------------------------------------------------------------------------- *)

Lemma bpow_m53 : bpow radix2 (-53) = / 9007199254740992.
Proof. reflexivity. Qed.

Lemma bpow_m54 : bpow radix2 (-54) = / 18014398509481984.
Proof. reflexivity. Qed.

Lemma bpow_m46 : bpow radix2 (-46) = / 70368744177664.
Proof. reflexivity. Qed.

Lemma two53 : IZR (2 ^ 53) = 9007199254740992.
Proof. reflexivity. Qed.

Lemma two54 : IZR (2 ^ 54) = 18014398509481984.
Proof. reflexivity. Qed.

(* membership in the format from an explicit significand and exponent *)
Lemma fmt64_F2R : forall mant e : Z,
  (Z.abs mant < 2 ^ 53)%Z -> (-1074 <= e)%Z -> fmt64 (F2R (Float radix2 mant e)).
Proof.
  intros mant e Hm He. unfold fmt64, fexp64.
  apply generic_format_FLT.
  exact (FLT_spec radix2 (-1074) 53 _ (Float radix2 mant e) eq_refl Hm He).
Qed.

Lemma fmt64_0 : fmt64 0.
Proof. apply generic_format_0. Qed.

Lemma fmt64_1 : fmt64 1.
Proof.
  replace 1 with (F2R (Float radix2 1 0)) by (unfold F2R; simpl; lra).
  apply fmt64_F2R; simpl; lia.
Qed.

Lemma fmt64_100 : fmt64 100.
Proof.
  replace 100 with (F2R (Float radix2 100 0)) by (unfold F2R; simpl; lra).
  apply fmt64_F2R; simpl; lia.
Qed.

(* 1 - 2^-53, the predecessor of 1 *)
Definition below1 : R := 1 - bpow radix2 (-53).

Lemma fmt64_below1 : fmt64 below1.
Proof.
  replace below1 with (F2R (Float radix2 (2 ^ 53 - 1) (-53))).
  - apply fmt64_F2R; simpl; lia.
  - unfold below1, F2R. cbn [Fnum Fexp]. rewrite bpow_m53.
    rewrite minus_IZR, two53. lra.
Qed.

(* 100 - 2^-46, the predecessor of 100 *)
Definition below100 : R := 100 - bpow radix2 (-46).

Lemma fmt64_below100 : fmt64 below100.
Proof.
  replace below100 with (F2R (Float radix2 (100 * 2 ^ 46 - 1) (-46))).
  - apply fmt64_F2R; simpl; lia.
  - unfold below100, F2R. cbn [Fnum Fexp]. rewrite bpow_m46.
    replace (100 * 2 ^ 46 - 1)%Z with 7036874417766399%Z by reflexivity. lra.
Qed.

(* ---------------------------------------------------------------------------------------------- *)
(* rounding                                                                                       *)
(* ---------------------------------------------------------------------------------------------- *)

Lemma rnd_le : forall x y, x <= y -> rnd x <= rnd y.
Proof. intros x y H. unfold rnd. apply round_le; auto with typeclass_instances. Qed.

Lemma rnd_id : forall x, fmt64 x -> rnd x = x.
Proof. intros x H. unfold rnd. apply round_generic; auto with typeclass_instances. Qed.

Lemma rnd_0 : rnd 0 = 0.
Proof. apply rnd_id, fmt64_0. Qed.

Lemma pred_1 : pred radix2 fexp64 1 = below1.
Proof.
  change 1 with (bpow radix2 0). rewrite pred_bpow. reflexivity.
Qed.

Lemma succ_below1 : succ radix2 fexp64 below1 = 1.
Proof. rewrite <- pred_1. apply succ_pred; first [ exact fexp64_valid | exact fmt64_1 ]. Qed.

(* everything strictly below the midpoint 1 - 2^-54 of [1 - 2^-53, 1] rounds to at most 1 - 2^-53 *)
Lemma rnd_below_midpoint_1 : forall x, x < 1 - bpow radix2 (-54) -> rnd x <= below1.
Proof.
  intros x H. unfold rnd.
  apply round_N_le_midp; try exact fexp64_valid.
  - exact fmt64_below1.
  - rewrite succ_below1. unfold below1. rewrite bpow_m53. rewrite bpow_m54 in H. lra.
Qed.

(* everything strictly above that midpoint rounds to at least 1 *)
Lemma rnd_above_midpoint_1 : forall x, 1 - bpow radix2 (-54) < x -> 1 <= rnd x.
Proof.
  intros x H. unfold rnd.
  apply round_N_ge_midp; try exact fexp64_valid.
  - exact fmt64_1.
  - rewrite pred_1. unfold below1. rewrite bpow_m53. rewrite bpow_m54 in H. lra.
Qed.

(* the multiplication: a factor of at most 1 - 2^-53 times 100 rounds strictly below 100 *)
Lemma rnd_times_100_below : forall q, q <= below1 -> rnd (q * 100) <= pred radix2 fexp64 100.
Proof.
  intros q Hq. unfold rnd.
  assert (Hp : below100 <= pred radix2 fexp64 100).
  { apply pred_ge_gt; try exact fexp64_valid.
    - exact fmt64_below100.
    - exact fmt64_100.
    - unfold below100. rewrite bpow_m46. lra. }
  apply round_N_le_midp; try exact fexp64_valid.
  - apply generic_format_pred; try exact fexp64_valid. exact fmt64_100.
  - rewrite succ_pred by first [ exact fexp64_valid | exact fmt64_100 ].
    unfold below100 in Hp. unfold below1 in Hq. rewrite bpow_m46 in Hp. rewrite bpow_m53 in Hq. lra.
Qed.

Lemma pred_100_lt : pred radix2 fexp64 100 < 100.
Proof. apply pred_lt_id. lra. Qed.

Lemma mag_1 : mag radix2 1 = 1%Z :> Z.
Proof.
  apply mag_unique. rewrite Rabs_pos_eq by lra.
  change (bpow radix2 (1 - 1)) with 1. change (bpow radix2 1) with 2. lra.
Qed.

Lemma mag_100 : mag radix2 100 = 7%Z :> Z.
Proof.
  apply mag_unique. rewrite Rabs_pos_eq by lra.
  change (bpow radix2 (7 - 1)) with 64. change (bpow radix2 7) with 128. lra.
Qed.

(* the predecessor of 100.0 is 100 - 2^-46 *)
Lemma pred_100 : pred radix2 fexp64 100 = below100.
Proof.
  rewrite pred_eq_pos by lra. unfold pred_pos. rewrite mag_100.
  rewrite Req_bool_false.
  - rewrite ulp_neq_0 by lra. unfold cexp. rewrite mag_100. reflexivity.
  - change (bpow radix2 (7 - 1)) with 64. lra.
Qed.

(* the tie: the midpoint 1 - 2^-54 itself rounds to 1 (significand 2^52, even), not to
   1 - 2^-53 (significand 2^53 - 1, odd) *)
Definition mid1 : R := 1 - bpow radix2 (-54).

Lemma NE_mid1 : Rnd_NE_pt radix2 fexp64 mid1 1.
Proof.
  assert (Hd : Rnd_DN_pt fmt64 mid1 below1).
  { assert (E : round radix2 fexp64 Zfloor mid1 = below1);
      [ | rewrite <- E; exact (round_DN_pt radix2 fexp64 mid1) ].
    apply round_DN_eq; try exact fexp64_valid.
    - exact fmt64_below1.
    - rewrite succ_below1. unfold mid1, below1. rewrite bpow_m53, bpow_m54. lra. }
  assert (Hu : Rnd_UP_pt fmt64 mid1 1).
  { assert (E : round radix2 fexp64 Zceil mid1 = 1);
      [ | rewrite <- E; exact (round_UP_pt radix2 fexp64 mid1) ].
    apply round_UP_eq; try exact fexp64_valid.
    - exact fmt64_1.
    - rewrite pred_1. unfold mid1, below1. rewrite bpow_m53, bpow_m54. lra. }
  assert (H1 : F2R (Float radix2 (2 ^ 52) (-52)) = 1).
  { unfold F2R. cbn [Fnum Fexp]. change (bpow radix2 (-52)) with (/ 4503599627370496).
    replace (2 ^ 52)%Z with 4503599627370496%Z by reflexivity. field. }
  split.
  - apply Rnd_N_pt_UP with (1 := Hd) (2 := Hu).
    unfold mid1, below1. rewrite bpow_m53, bpow_m54. lra.
  - left. exists (Float radix2 (2 ^ 52) (-52)). split; [ | split ].
    + symmetry. exact H1.
    + unfold canonical, cexp. cbn [Fexp]. rewrite H1, mag_1. reflexivity.
    + reflexivity.
Qed.

Lemma rnd_mid1 : rnd mid1 = 1.
Proof.
  assert (H := round_NE_pt radix2 fexp64 mid1). fold (rnd mid1) in H.
  apply Rle_antisym.
  - exact (Rnd_NE_pt_monotone radix2 fexp64 _ _ _ _ H NE_mid1 (Rle_refl _)).
  - exact (Rnd_NE_pt_monotone radix2 fexp64 _ _ _ _ NE_mid1 H (Rle_refl _)).
Qed.

(* hence everything from the midpoint upwards rounds to at least 1 *)
Lemma rnd_from_midpoint_1 : forall x, mid1 <= x -> 1 <= rnd x.
Proof. intros x H. rewrite <- rnd_mid1. apply rnd_le. exact H. Qed.

(* ---------------------------------------------------------------------------------------------- *)
(* the quotient                                                                                   *)
(* ---------------------------------------------------------------------------------------------- *)

Lemma quotient_range : forall m c : Z, (0 <= m <= c)%Z -> (0 < c)%Z -> 0 <= IZR m / IZR c <= 1.
Proof.
  intros m c [H0 Hm] Hc.
  apply IZR_le in H0. apply IZR_le in Hm. apply IZR_lt in Hc.
  split.
  - apply Rmult_le_pos; [ lra | left; apply Rinv_0_lt_compat; lra ].
  - apply Rmult_le_reg_r with (IZR c); [ lra | ]. unfold Rdiv.
    rewrite Rmult_assoc, Rinv_l by lra. lra.
Qed.

Lemma quotient_damaged : forall m c : Z, (0 <= m < c)%Z -> IZR m / IZR c <= 1 - / IZR c.
Proof.
  intros m c [H0 Hm].
  assert (Hc : 0 < IZR c) by (apply IZR_lt; lia).
  assert (Hm1 : IZR m <= IZR c - 1) by (rewrite <- minus_IZR; apply IZR_le; lia).
  apply Rmult_le_reg_r with (IZR c); [ lra | ]. unfold Rdiv.
  rewrite Rmult_assoc, Rinv_l by lra.
  rewrite Rmult_minus_distr_r, Rinv_l by lra. lra.
Qed.

Lemma rnd_quotient_range : forall m c : Z, (0 <= m <= c)%Z -> (0 < c)%Z -> 0 <= rnd (IZR m / IZR c) <= 1.
Proof.
  intros m c Hm Hc. destruct (quotient_range m c Hm Hc) as [H0 H1]. split.
  - rewrite <- rnd_0. apply rnd_le. exact H0.
  - rewrite <- (rnd_id 1 fmt64_1). apply rnd_le. exact H1.
Qed.

(* the division of a damaged run: the quotient rounds to at most the predecessor of 1 -- as long
   as consumed < 2^54 *)
Lemma rnd_quotient_damaged : forall m c : Z,
  (0 <= m < c)%Z -> (c < 2 ^ 54)%Z -> rnd (IZR m / IZR c) <= below1.
Proof.
  intros m c Hm Hc. apply rnd_below_midpoint_1.
  apply Rle_lt_trans with (1 := quotient_damaged m c Hm).
  assert (Hc0 : 0 < IZR c) by (apply IZR_lt; lia).
  apply IZR_lt in Hc. rewrite two54 in Hc. rewrite bpow_m54.
  assert (H : / 18014398509481984 < / IZR c) by (apply Rinv_lt_contravar; [ nra | lra ]).
  lra.
Qed.

(* ---------------------------------------------------------------------------------------------- *)
(* theorems                                                                                       *)
(* ---------------------------------------------------------------------------------------------- *)

(* 1. every byte matched: exactly 100.0 *)
Theorem percent_intact : forall c : Z, (0 < c)%Z -> percent c c = 100.
Proof.
  intros c Hc. unfold percent.
  assert (Hc0 : IZR c <> 0) by (apply IZR_lt in Hc; lra).
  replace (IZR c / IZR c) with 1 by (field; exact Hc0).
  rewrite (rnd_id 1 fmt64_1). rewrite Rmult_1_l. apply rnd_id, fmt64_100.
Qed.

(* 2. at least one byte not matched: strictly below 100.0 (at most the predecessor of 100.0),
   for consumed < 2^54 bytes (16 PiB) *)
Theorem percent_damaged_le_pred_100 : forall m c : Z,
  (0 <= m < c)%Z -> (c < 2 ^ 54)%Z -> percent m c <= 100 - bpow radix2 (-46).
Proof.
  intros m c Hm Hc. unfold percent. fold below100. rewrite <- pred_100.
  apply rnd_times_100_below. apply rnd_quotient_damaged; assumption.
Qed.

Theorem percent_damaged_lt_100_wide : forall m c : Z,
  (0 <= m < c)%Z -> (c < 2 ^ 54)%Z -> percent m c < 100.
Proof.
  intros m c Hm Hc.
  apply Rle_lt_trans with (1 := percent_damaged_le_pred_100 m c Hm Hc). rewrite bpow_m46. lra.
Qed.

Theorem percent_damaged_lt_100 : forall m c : Z,
  (0 <= m < c)%Z -> (c <= 2 ^ 53)%Z -> percent m c < 100.
Proof.
  intros m c Hm Hc. apply percent_damaged_lt_100_wide; [ exact Hm | ].
  apply Z.le_lt_trans with (1 := Hc). reflexivity.
Qed.

(* the bound 2^54 is exact: from 2^54 consumed bytes on, a single unmatched byte is invisible
   (at 2^54 itself by the tie-to-even rule) *)
Theorem percent_damaged_is_100_from_2_54 : forall c : Z,
  (2 ^ 54 <= c)%Z -> percent (c - 1) c = 100.
Proof.
  intros c Hc. unfold percent.
  assert (Hc0 : 0 < IZR c) by (apply IZR_lt; lia).
  assert (Hq : rnd (IZR (c - 1) / IZR c) = 1).
  { apply Rle_antisym.
    - apply (rnd_quotient_range (c - 1) c); lia.
    - apply rnd_from_midpoint_1. unfold mid1.
      rewrite minus_IZR. replace ((IZR c - 1) / IZR c) with (1 - / IZR c) by (field; lra).
      apply IZR_le in Hc. rewrite two54 in Hc. rewrite bpow_m54.
      assert (H : / IZR c <= / 18014398509481984) by (apply Rinv_le_contravar; lra).
      lra. }
  rewrite Hq, Rmult_1_l. apply rnd_id, fmt64_100.
Qed.

(* 3. nothing matched: exactly 0.0; always within [0, 100] *)
Theorem percent_zero : forall c : Z, (0 < c)%Z -> percent 0 c = 0.
Proof.
  intros c Hc. unfold percent. unfold Rdiv. rewrite Rmult_0_l, rnd_0, Rmult_0_l. exact rnd_0.
Qed.

Theorem percent_range : forall m c : Z, (0 <= m <= c)%Z -> (0 < c)%Z -> 0 <= percent m c <= 100.
Proof.
  intros m c Hm Hc. destruct (rnd_quotient_range m c Hm Hc) as [H0 H1]. unfold percent. split.
  - rewrite <- rnd_0. apply rnd_le. lra.
  - apply Rle_trans with (rnd 100); [ apply rnd_le; lra | right; apply rnd_id, fmt64_100 ].
Qed.

(* 4. monotone in the number of matched bytes *)
Theorem percent_monotone : forall m1 m2 c : Z,
  (m1 <= m2)%Z -> (0 < c)%Z -> percent m1 c <= percent m2 c.
Proof.
  intros m1 m2 c Hm Hc. unfold percent. apply rnd_le.
  apply Rmult_le_compat_r; [ lra | ]. apply rnd_le.
  apply IZR_le in Hm. apply IZR_lt in Hc. unfold Rdiv.
  apply Rmult_le_compat_r; [ left; apply Rinv_0_lt_compat; lra | exact Hm ].
Qed.

(* 5. the reported float is 100.0 exactly when every consumed byte matched *)
Theorem percent_100_iff_wide : forall m c : Z,
  (0 <= m <= c)%Z -> (0 < c < 2 ^ 54)%Z -> (percent m c = 100 <-> m = c).
Proof.
  intros m c Hm Hc. split.
  - intro H. destruct (Z.eq_dec m c) as [E | N]; [ exact E | exfalso ].
    assert (Hlt : percent m c < 100) by (apply percent_damaged_lt_100_wide; lia). lra.
  - intro E. subst m. apply percent_intact. lia.
Qed.

Theorem percent_100_iff : forall m c : Z,
  (0 <= m <= c)%Z -> (0 < c <= 2 ^ 53)%Z -> (percent m c = 100 <-> m = c).
Proof.
  intros m c Hm Hc. apply percent_100_iff_wide; [ exact Hm | ].
  split; [ lia | ]. apply Z.le_lt_trans with (2 ^ 53)%Z; [ lia | reflexivity ].
Qed.

(* the same for the nat counters of Model/Recheck.v (matched_of / consumed_of), ready to be
   composed with the integer-level theorems of Props/C04, C05, C16 *)
Theorem percent_nat_damaged_lt_100 : forall m c : nat,
  (m < c)%nat -> (Z.of_nat c < 2 ^ 54)%Z -> percent (Z.of_nat m) (Z.of_nat c) < 100.
Proof. intros m c Hm Hc. apply percent_damaged_lt_100_wide; lia. Qed.

Theorem percent_nat_intact : forall c : nat, (0 < c)%nat -> percent (Z.of_nat c) (Z.of_nat c) = 100.
Proof. intros c Hc. apply percent_intact. lia. Qed.

(* ---------------------------------------------------------------------------------------------- *)
(* examples                                                                                       *)
(* ---------------------------------------------------------------------------------------------- *)

(* half matched: exactly 50.0 *)
Example percent_half : percent 1 2 = 50.
Proof.
  unfold percent.
  assert (Hh : fmt64 (1 / 2)).
  { replace (1 / 2) with (F2R (Float radix2 1 (-1))) by (unfold F2R; simpl; lra).
    apply fmt64_F2R; simpl; lia. }
  assert (H50 : fmt64 50).
  { replace 50 with (F2R (Float radix2 50 0)) by (unfold F2R; simpl; lra).
    apply fmt64_F2R; simpl; lia. }
  rewrite (rnd_id _ Hh). replace (1 / 2 * 100) with 50 by lra. apply rnd_id, H50.
Qed.

(* the largest run covered by the requested bound with a single unmatched byte *)
Example percent_one_byte_off_at_2_53 : percent (2 ^ 53 - 1) (2 ^ 53) < 100.
Proof. apply percent_damaged_lt_100; lia. Qed.

Example percent_intact_at_2_53 : percent (2 ^ 53) (2 ^ 53) = 100.
Proof. apply percent_intact. reflexivity. Qed.

Print Assumptions percent_intact.
Print Assumptions percent_damaged_lt_100.
Print Assumptions percent_damaged_le_pred_100.
Print Assumptions percent_damaged_is_100_from_2_54.
Print Assumptions percent_zero.
Print Assumptions percent_range.
Print Assumptions percent_monotone.
Print Assumptions percent_100_iff.
Print Assumptions percent_nat_damaged_lt_100.
