(* C19 -- validated path elements cannot lead out of the destination; unvalidated ones can. *)
From Coq Require Import List String Ascii Bool.
From TF Require Import Model.PathSafe.
Import ListNotations.
Open Scope string_scope.
Open Scope list_scope.

(** * The validator *)

Lemma contains_In a s : contains a s = true <-> In a (list_ascii_of_string s).
Proof.
  induction s as [|c s IH]; cbn.
  - split; [discriminate | intros []].
  - rewrite orb_true_iff, IH, Ascii.eqb_eq. tauto.
Qed.

(* safe_comp is what the docstring of _check_parts promises *)
Lemma safe_comp_spec c :
  safe_comp c = true <->
  c <> "" /\ c <> "." /\ c <> ".." /\
  ~ In slash (list_ascii_of_string c) /\ ~ In nul (list_ascii_of_string c).
Proof.
  unfold safe_comp. rewrite !andb_true_iff, !negb_true_iff.
  rewrite <- !not_true_iff_false, !String.eqb_eq, !contains_In. tauto.
Qed.

Lemma check_parts_model_Forall parts :
  check_parts_model parts = true <-> Forall (fun c => safe_comp c = true) parts.
Proof. unfold check_parts_model. rewrite forallb_forall, Forall_forall. tauto. Qed.

(** * Resolution of safe components *)

Lemma split_no_slash c : contains slash c = false -> split_slash c = [c].
Proof.
  induction c as [|a c IH]; cbn; intros H; [reflexivity|].
  apply orb_false_elim in H. destruct H as [H1 H2].
  rewrite H1, (IH H2). reflexivity.
Qed.

Lemma no_slash_not_absolute c : contains slash c = false -> starts_with_slash c = false.
Proof.
  destruct c as [|a c]; cbn; intros H; [reflexivity|].
  apply orb_false_elim in H. tauto.
Qed.

Lemma join_safe stack c : safe_comp c = true -> join_comp stack c = stack ++ [c].
Proof.
  unfold safe_comp. rewrite !andb_true_iff, !negb_true_iff.
  intros ((((E & D) & DD) & S) & _).
  unfold join_comp. rewrite (split_no_slash _ S), (no_slash_not_absolute _ S).
  cbn. unfold step. now rewrite E, D, DD.
Qed.

Lemma fold_join_safe cs : Forall (fun c => safe_comp c = true) cs ->
  forall stack, fold_left join_comp cs stack = stack ++ cs.
Proof.
  induction 1 as [|c cs Hc _ IH]; intros stack; cbn.
  - now rewrite app_nil_r.
  - rewrite (join_safe _ _ Hc), IH, <- app_assoc. reflexivity.
Qed.

(* For EVERY destination (relative, absolute, containing "..", anything) and every depth:
   appending validated components extends the resolved destination by exactly these
   components. *)
Theorem safe_components_stay_inside : forall dest cs,
  Forall (fun c => safe_comp c = true) cs ->
  resolve (dest ++ cs) = resolve dest ++ cs.
Proof.
  intros dest cs F. unfold resolve. rewrite fold_left_app. now apply fold_join_safe.
Qed.

(* hence nothing escapes the destination *)
Corollary safe_components_prefix : forall dest cs,
  Forall (fun c => safe_comp c = true) cs ->
  prefix (resolve dest) (resolve (dest ++ cs)).
Proof. intros dest cs F. exists cs. now apply safe_components_stay_inside. Qed.

Lemma prefixb_prefix p l : prefixb p l = true <-> prefix p l.
Proof.
  revert l. induction p as [|x p IH]; intros l; cbn.
  - split; [intros _; now exists l | reflexivity].
  - destruct l as [|y l].
    + split; [discriminate | intros [r H]; discriminate H].
    + rewrite andb_true_iff, String.eqb_eq, IH. split.
      * intros [-> [r ->]]. now exists r.
      * intros [r H]. cbn in H. inversion H; subst. split; [reflexivity | now exists r].
Qed.

(* what rebuild does after the repair: the target is under the destination, or the metafile
   is refused and nothing is written *)
Theorem checked_target_inside : forall dest name path t,
  checked_target dest name path = Some t ->
  t = resolve dest ++ name :: path /\ prefix (resolve dest) t.
Proof.
  unfold checked_target. intros dest name path t H.
  destruct (check_parts_model [name] && check_parts_model path) eqn:E; [|discriminate H].
  inversion H; subst t; clear H. apply andb_prop in E. destruct E as [E1 E2].
  apply check_parts_model_Forall in E1, E2.
  assert (F : Forall (fun c => safe_comp c = true) (name :: path)).
  { inversion E1; subst. now constructor. }
  split; [now apply safe_components_stay_inside | now apply safe_components_prefix].
Qed.

Theorem checked_target_refuses : forall dest name path,
  Exists (fun c => safe_comp c = false) (name :: path) ->
  checked_target dest name path = None.
Proof.
  unfold checked_target. intros dest name path X.
  destruct (check_parts_model [name] && check_parts_model path) eqn:E; [|reflexivity].
  apply andb_prop in E. destruct E as [E1 E2].
  apply check_parts_model_Forall in E1, E2.
  apply Exists_exists in X. destruct X as (c & I & U).
  destruct I as [<- | I].
  - inversion E1; subst. congruence.
  - rewrite Forall_forall in E2. rewrite (E2 _ I) in U. discriminate U.
Qed.

(** * Examples and the refutation of the unvalidated code (D16) *)

Example safe_comp_examples :
  map safe_comp ["a"; "evil.txt"; "..x"; "x.."; "..."; " "]
    = [true; true; true; true; true; true] /\
  map safe_comp [""; "."; ".."; "a/b"; "/abs"; "a/"; "/"; String nul "a"; String "a" (String nul "")]
    = [false; false; false; false; false; false; false; false; false].
Proof. vm_compute. split; reflexivity. Qed.

Example resolve_examples :
  resolve ["srv"; "dest"; "name"; "dir"; "f.txt"] = ["srv"; "dest"; "name"; "dir"; "f.txt"] /\
  resolve ["/srv/dest/"; "name"; "a/../../b"] = ["srv"; "dest"; "b"] /\
  resolve ["srv"; "dest"; "/abs"; "x"] = ["abs"; "x"] /\
  resolve [".."; "a"; "."; ""; "b//c"; ".."] = ["a"; "b"] /\
  resolve ["srv"; "dest"; "name"; ".."; ".."; "escaped"; "evil.txt"] = ["srv"; "escaped"; "evil.txt"].
Proof. vm_compute. repeat split; reflexivity. Qed.

Example safe_components_example :
  Forall (fun c => safe_comp c = true) ["name"; "..x"; "f.txt"] /\
  resolve (["/srv/x/../dest"] ++ ["name"; "..x"; "f.txt"]) = ["srv"; "dest"; "name"; "..x"; "f.txt"].
Proof. split; [repeat constructor | vm_compute; reflexivity]. Qed.

(* Without the validator the statement is false. *)
Theorem unsanitised_refuted :
  exists dest cs, ~ prefix (resolve dest) (resolve (dest ++ cs)).
Proof.
  exists ["srv"; "dest"], [".."; ".."; "escaped"; "evil.txt"].
  rewrite <- prefixb_prefix. vm_compute. discriminate.
Qed.

(* the reproducer of D16: path = ["..", "..", "escaped", "evil.txt"] under dest/name *)
Theorem unchecked_target_escapes :
  let dest := ["srv"; "dest"] in
  let t := unchecked_target dest "name" [".."; ".."; "escaped"; "evil.txt"] in
  t = ["srv"; "escaped"; "evil.txt"] /\ ~ prefix (resolve dest) t /\
  checked_target dest "name" [".."; ".."; "escaped"; "evil.txt"] = None.
Proof.
  cbv zeta. split; [vm_compute; reflexivity|]. split.
  - rewrite <- prefixb_prefix. vm_compute. discriminate.
  - vm_compute. reflexivity.
Qed.

(* ... and an absolute element, or one with an embedded separator, escapes as well *)
Theorem unchecked_absolute_escapes :
  ~ prefix (resolve ["srv"; "dest"]) (unchecked_target ["srv"; "dest"] "name" ["/etc"; "passwd"]) /\
  ~ prefix (resolve ["srv"; "dest"]) (unchecked_target ["srv"; "dest"] "name" ["../../x"]).
Proof. split; rewrite <- prefixb_prefix; vm_compute; discriminate. Qed.

Print Assumptions safe_comp_spec.
Print Assumptions check_parts_model_Forall.
Print Assumptions safe_components_stay_inside.
Print Assumptions safe_components_prefix.
Print Assumptions checked_target_inside.
Print Assumptions checked_target_refuses.
Print Assumptions unsanitised_refuted.
Print Assumptions unchecked_target_escapes.
Print Assumptions unchecked_absolute_escapes.
