(* C20, part 4: the GENERATED tables (Gen/GenCli.v, Gen/GenConfig.v, regenerated from /repo on
   every run) are accepted by the certified checker -- by computation on the finite tables --
   and therefore inherit every theorem of Proofs/RoutesThm.v.  Examples; and the pinned
   (pre-repair) behaviours D17/D18/D19/D21 as tables the checker rejects, with their witnesses. *)
From Coq Require Import String List Bool Ascii Arith Lia Permutation.
From TF Require Import Model.ArgParse Model.Routes Model.RoutesRun Gen.GenCli Gen.GenConfig.
From TF Require Import Proofs.RoutesProofs Proofs.RoutesInit Proofs.RoutesThm.
Import ListNotations.
Open Scope string_scope.

Theorem gen_route_table_ok : route_table_ok T_gen = true.
Proof. vm_compute. reflexivity. Qed.

Theorem route_table_ok_sound : forall T, route_table_ok T = true ->
  forall k,
    (* command line: every documented spelling is an option whose dest is the documented keyword *)
    (forall f, In f (doc_flags k) ->
       exists a, find_flag (t_cli T) f = Some a /\ a_dest a = doc_kw k)
    (* configuration file: the documented key is stored under the same keyword, same shape *)
    /\ t_cfg T (doc_cfg_key k) = (doc_kw k, tr_of (doc_shape k))
    (* that keyword is a parameter of MetaFile.__init__ *)
    /\ (exists d, lookup (t_params T) (doc_kw k) = Some d).
Proof.
  intros T HT k. destruct (route_table_ok_parts T HT) as [Hcli [_ [Hini _]]].
  split; [|split].
  - intros f Hf. destruct (cli_ok_flag (t_cli T) Hcli k f Hf) as [a [Ha Hs]].
    exists a. split; [exact Ha|]. unfold spec_ok in Hs. apply andb_true_iff in Hs.
    apply String.eqb_eq. apply Hs.
  - apply cfg_ok_key. exact HT.
  - apply kw_lookup. exact Hini.
Qed.

Lemma NoDup_all_keys : NoDup all_keys.
Proof. unfold all_keys. repeat constructor; simpl; intuition discriminate. Qed.

Section Gen.
Variable exists_ : string -> bool.

Theorem gen_cli_any_position : forall o sel order pos,
  cli_values_ok exists_ o = true ->
  NoDup order -> (forall k, opt_value o k <> None -> In k order) ->
  exists N, run_parse (render_argv o sel order pos) = PR_ok N
            /\ init_params exists_ T_gen N = IOk (params_of o)
            /\ dispatch T_gen N = doc_class o.
Proof. exact (cli_route exists_ T_gen gen_route_table_ok). Qed.

Corollary gen_cli_any_permutation : forall o sel order pos,
  cli_values_ok exists_ o = true -> Permutation all_keys order ->
  exists N, run_parse (render_argv o sel order pos) = PR_ok N
            /\ init_params exists_ T_gen N = IOk (params_of o)
            /\ dispatch T_gen N = doc_class o.
Proof.
  intros o sel order pos Hv Hp. apply gen_cli_any_position; [exact Hv | |].
  - apply (Permutation_NoDup Hp). exact NoDup_all_keys.
  - intros k _. apply (Permutation_in _ Hp). apply in_all_keys.
Qed.

Theorem gen_config_route : forall o ef order N0,
  cfg_values_ok o = true ->
  (forall k, opt_value o k <> None -> In k order) ->
  cfg_start o N0 ->
  exists N, apply_cfg T_gen (render_ini o ef order) N0 = Some N
            /\ init_params exists_ T_gen N = IOk (params_of o)
            /\ dispatch T_gen N = doc_class o.
Proof. exact (config_route exists_ T_gen gen_route_table_ok). Qed.

(* `torrentfile create <content> --config` delivers a start namespace *)
Lemma gen_config_argv : forall o, nonflag (o_content o) = true ->
  exists N0, run_parse [o_content o; "--config"] = PR_ok N0 /\ cfg_start o N0.
Proof.
  intros o Hc. unfold nonflag in Hc. apply negb_true_iff in Hc.
  exists (set "config" (VBool true) (set "content" (VStr (o_content o)) (defaults create_args))).
  split.
  - unfold run_parse, parse, run. cbn [fold_left]. unfold step at 2. rewrite Hc. reflexivity.
  - split; [reflexivity|]. intros k. destruct k; reflexivity.
Qed.

Theorem gen_config_route_argv : forall o ef order,
  cfg_values_ok o = true -> nonflag (o_content o) = true ->
  (forall k, opt_value o k <> None -> In k order) ->
  exists N, run_cfg (render_ini o ef order) [o_content o; "--config"] = Some N
            /\ init_params exists_ T_gen N = IOk (params_of o)
            /\ dispatch T_gen N = doc_class o.
Proof.
  intros o ef order Hv Hc Hcov. destruct (gen_config_argv o Hc) as [N0 [HN0 Hs]].
  unfold run_cfg. rewrite HN0. apply gen_config_route; assumption.
Qed.

Theorem gen_keyword_route : forall o, kw_values_ok o = true ->
  init_params exists_ T_gen (kwargs_of o) = IOk (params_of o).
Proof. exact (keyword_route exists_ T_gen gen_route_table_ok). Qed.

Theorem gen_keyword_int_hybrid : forall n, n < 10 -> hybrid_of T_gen (VInt n) = Nat.eqb n 3.
Proof.
  intros n Hn. destruct (keyword_int_hybrid T_gen gen_route_table_ok n) as [H|H]; [exact H | lia].
Qed.

Theorem gen_params_land : forall normalize_pl path_pl o f v,
  In (f, v) (doc_fields normalize_pl path_pl o) ->
  mfield (meta_of T_gen normalize_pl path_pl (params_of o)) f = v.
Proof.
  intros npl ppl o f v. apply (params_land T_gen npl ppl).
  exact (proj1 (proj2 (proj2 (proj2 (proj2 (route_table_ok_parts T_gen gen_route_table_ok)))))).
Qed.

End Gen.

(* ------------------------------------------------------------------ examples *)
Definition ex_o : optrec :=
  {| o_announce := ["http://t.example/ann?x=%20"; "udp://t2.example:80"];
     o_webseed := ["http://w.example/%7Efiles"];
     o_httpseed := ["http://h.example/a"; "http://h.example/b"];
     o_private := true; o_source := Some "SRC"; o_comment := Some "true";
     o_piece_length := Some "16"; o_meta_version := Some "3"; o_out := Some "out dir/x.torrent";
     o_align := true; o_content := "my content" |}.

Definition ex_exists (p : string) : bool := p =? "my content".

Definition ex_order : list okey :=
  [KComment; KWebSeed; KAlign; KAnnounce; KOut; KHttpSeed; KPrivate; KMetaVersion; KSource; KPieceLength].

Example ex_values_ok :
  cli_values_ok ex_exists ex_o = true /\ cfg_values_ok ex_o = true /\ kw_values_ok ex_o = true
  /\ Permutation all_keys ex_order.
Proof.
  repeat split; try (vm_compute; reflexivity).
  unfold all_keys, ex_order.
  apply Permutation_sym.
  apply Permutation_cons_app with (l1 := [KAnnounce; KWebSeed; KHttpSeed; KPrivate; KSource]) (l2 := [KPieceLength; KMetaVersion; KOut; KAlign]).
  apply Permutation_cons_app with (l1 := [KAnnounce]) (l2 := [KHttpSeed; KPrivate; KSource; KPieceLength; KMetaVersion; KOut; KAlign]).
  apply Permutation_cons_app with (l1 := [KAnnounce; KHttpSeed; KPrivate; KSource; KPieceLength; KMetaVersion; KOut]) (l2 := []).
  apply Permutation_cons_app with (l1 := []) (l2 := [KHttpSeed; KPrivate; KSource; KPieceLength; KMetaVersion; KOut]).
  apply Permutation_cons_app with (l1 := [KHttpSeed; KPrivate; KSource; KPieceLength; KMetaVersion]) (l2 := []).
  apply Permutation_cons_app with (l1 := []) (l2 := [KPrivate; KSource; KPieceLength; KMetaVersion]).
  apply Permutation_cons_app with (l1 := []) (l2 := [KSource; KPieceLength; KMetaVersion]).
  apply Permutation_cons_app with (l1 := [KSource; KPieceLength]) (l2 := []).
  apply Permutation_cons_app with (l1 := []) (l2 := [KPieceLength]).
  apply Permutation_refl.
Qed.

(* the path right after --web-seed (swallowed, recovered), -a spelled --tracker *)
Example ex_cli :
  run_cli ["my content"] (render_argv ex_o (fun k => match k with KAnnounce => 2 | _ => 0 end) ex_order 2)
  = Some ("TorrentAssembler", IOk (params_of ex_o))
  /\ lookup (match run_parse (render_argv ex_o (fun _ => 0) ex_order 2) with PR_ok N => N | _ => [] end) "content"
     = Some VNone.
Proof. split; vm_compute; reflexivity. Qed.

Example ex_cli_every_position :
  forallb (fun pos =>
    match run_cli ["my content"] (render_argv ex_o (fun _ => 1) ex_order pos) with
    | Some (c, IOk p) => (c =? "TorrentAssembler") && (p_path p =? "my content")
                         && strs_eqb (p_url_list p) (o_webseed ex_o)
                         && strs_eqb (p_httpseeds p) (o_httpseed ex_o)
                         && (p_announce p =? "http://t.example/ann?x=%20")
    | _ => false
    end) (seq 0 12) = true.
Proof. vm_compute. reflexivity. Qed.

Example ex_config :
  run_config ["my content"] (render_ini ex_o true ex_order) ["my content"; "--config"]
  = Some ("TorrentAssembler", IOk (params_of ex_o)).
Proof. vm_compute. reflexivity. Qed.

Example ex_keyword : run_kwargs ["my content"] (kwargs_of ex_o) = IOk (params_of ex_o).
Proof. vm_compute. reflexivity. Qed.

Example ex_land :
  map (fun fv => mfield (meta_of T_gen (fun _ => 7) (fun _ => 5) (params_of ex_o)) (fst fv))
      (doc_fields (fun _ => 7) (fun _ => 5) ex_o)
  = map snd (doc_fields (fun _ => 7) (fun _ => 5) ex_o)
  /\ mfield (meta_of T_gen (fun _ => 7) (fun _ => 5) (params_of ex_o)) "url-list"
     = Some (MVal (VList ["http://w.example/%7Efiles"])).
Proof. split; vm_compute; reflexivity. Qed.

(* ------------------------------------------------------------------ the pinned behaviours are rejected *)
Definition with_cfg (f : string -> string * cfg_transform) (interp : bool) : tables :=
  mk_tables create_args f interp init_params_sig init_varkw init_alias init_recovery init_landings
            create_dispatch assembler_hybrid.

(* D17: web-seed stored under kwargs["url-list"] *)
Definition cfg_D17 (key : string) : string * cfg_transform :=
  if key =? "web-seed" then ("url-list", TLines) else cfg_route key.

Theorem C20_config_route_refuted_D17 :
  route_table_ok (with_cfg cfg_D17 true) = false
  /\ exists p, match apply_cfg (with_cfg cfg_D17 true) (render_ini ex_o true ex_order)
                     (set "content" (VStr "my content") (defaults create_args)) with
               | Some N => init_params ex_exists (with_cfg cfg_D17 true) N
               | None => IOutside
               end = IOk p /\ p_url_list p = [] /\ p_url_list (params_of ex_o) <> [].
Proof.
  split; [vm_compute; reflexivity|]. eexists. split; [vm_compute; reflexivity|].
  split; [reflexivity | discriminate].
Qed.

(* D18: out stored under kwargs["out"] *)
Definition cfg_D18 (key : string) : string * cfg_transform :=
  if key =? "out" then ("out", TVerbatim) else cfg_route key.

Theorem C20_config_route_refuted_D18 :
  route_table_ok (with_cfg cfg_D18 true) = false
  /\ exists p, match apply_cfg (with_cfg cfg_D18 true) (render_ini ex_o true ex_order)
                     (set "content" (VStr "my content") (defaults create_args)) with
               | Some N => init_params ex_exists (with_cfg cfg_D18 true) N
               | None => IOutside
               end = IOk p /\ p_outfile p = "" /\ p_outfile (params_of ex_o) <> "".
Proof.
  split; [vm_compute; reflexivity|]. eexists. split; [vm_compute; reflexivity|].
  split; [reflexivity | discriminate].
Qed.

(* D19: ConfigParser() with the default interpolation: the percent-encoded URLs are not read *)
Theorem C20_config_route_refuted_D19 :
  route_table_ok (with_cfg cfg_route false) = false
  /\ apply_cfg (with_cfg cfg_route false) (render_ini ex_o true ex_order)
       (set "content" (VStr "my content") (defaults create_args)) = None.
Proof. split; vm_compute; reflexivity. Qed.

(* D21: self.hybrid = self.meta_version == "3": the documented int 3 is not hybrid *)
Theorem C20_keyword_route_refuted_D21 :
  let T := mk_tables create_args cfg_route true init_params_sig init_varkw init_alias init_recovery
                     init_landings create_dispatch ("3", false) in
  route_table_ok T = false /\ hybrid_of T (VInt 3) = false /\ hybrid_of T_gen (VInt 3) = true.
Proof. repeat split; vm_compute; reflexivity. Qed.
