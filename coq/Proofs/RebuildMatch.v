(* C13/C14: the candidate search PieceNode._find_matches and the `copied` bookkeeping of
   Metadata._match_v1.  Model: Model/Rebuild.v. *)
From TF Require Import Lib.Base Model.Rebuild.
From Coq Require String.

(* ------------------------------------------------------------------------------------------ *)
(* helpers                                                                                     *)
(* ------------------------------------------------------------------------------------------ *)

Lemma bytes_eqb_eq (a b : bytes) : bytes_eqb a b = true <-> a = b.
Proof.
  revert b. induction a as [|x a IH]; intros [|y b]; cbn [bytes_eqb]; try (split; [discriminate|discriminate]).
  - split; reflexivity.
  - rewrite andb_true_iff, Ascii.eqb_eq, IH. split.
    + intros [-> ->]. reflexivity.
    + intros [= -> ->]. split; reflexivity.
Qed.

Lemma mem_string_In (s : String.string) (l : list String.string) : mem_string s l = true <-> In s l.
Proof.
  unfold mem_string. rewrite existsb_exists. split.
  - intros [x [Hin Heq]]. apply String.eqb_eq in Heq. subst x. exact Hin.
  - intros Hin. exists s. split; [exact Hin|apply String.eqb_eq; reflexivity].
Qed.

Lemma Forall2_length_eq {A B} (R : A -> B -> Prop) l l' : Forall2 R l l' -> length l = length l'.
Proof. induction 1 as [|a b l l' _ _ IH]; [reflexivity|cbn [length]; rewrite IH; reflexivity]. Qed.

Lemma Forall2_nth_error_r {A B} (R : A -> B -> Prop) l l' : Forall2 R l l' ->
  forall k b, nth_error l' k = Some b -> exists a, nth_error l k = Some a /\ R a b.
Proof.
  induction 1 as [|a0 b0 l l' Hab _ IH]; intros k b Hk.
  - destruct k; discriminate.
  - destruct k as [|k].
    + injection Hk as <-. exists a0. split; [reflexivity|exact Hab].
    + cbn [nth_error] in Hk |- *. apply IH. exact Hk.
Qed.

Lemma Forall2_of_nth_error {A B} (R : A -> B -> Prop) : forall l l',
  length l = length l' ->
  (forall k a b, nth_error l k = Some a -> nth_error l' k = Some b -> R a b) ->
  Forall2 R l l'.
Proof.
  induction l as [|a l IH]; intros [|b l'] Hlen Hpt; try discriminate; constructor.
  - apply (Hpt 0); reflexivity.
  - apply IH; [cbn [length] in Hlen; lia|]. intros k x y Hx Hy. apply (Hpt (S k)); assumption.
Qed.

(* ------------------------------------------------------------------------------------------ *)
(* _find_matches                                                                               *)
(* ------------------------------------------------------------------------------------------ *)

Section FindMatchesProofs.
Variable H1 : bytes -> bytes.
Variable fm : filemap.
Variable piece : bytes.

(* c is listed in filemap under the pathnode's filename and has the pathnode's length *)
Definition is_candidate (pn : pathnode) (c : candidate) : Prop :=
  exists cands, fm_lookup fm (pn_filename pn) = Some cands /\ In c cands /\
                length (snd c) = pn_length pn.

(* pathnode.get_part applied to a file content *)
Definition part_of (pn : pathnode) (content : bytes) : bytes :=
  get_part content (pn_start pn) (pn_stop pn).

(* one candidate per pathnode *)
Definition valid_choice (paths : list pathnode) (chosen : list candidate) : Prop :=
  Forall2 is_candidate paths chosen.

(* the data hashed at the leaf for given file contents (one per pathnode) *)
Fixpoint parts_bytes (paths : list pathnode) (contents : list bytes) : bytes :=
  match paths, contents with
  | pn :: ps, c :: cs => part_of pn c ++ parts_bytes ps cs
  | _, _ => []
  end.

Definition choice_bytes (paths : list pathnode) (chosen : list candidate) : bytes :=
  parts_bytes paths (map snd chosen).

(* the copies for a choice, in path order (they are executed in reverse: innermost first) *)
Fixpoint choice_copies (paths : list pathnode) (chosen : list candidate) : list copy :=
  match paths, chosen with
  | pn :: ps, c :: cs => (fst c, pn_full pn) :: choice_copies ps cs
  | _, _ => []
  end.

Definition fm_spec (paths : list pathnode) (data : bytes) (res : bool * list copy) : Prop :=
  match res with
  | (true, copies) => exists chosen, valid_choice paths chosen /\
                                     H1 (data ++ choice_bytes paths chosen) = piece /\
                                     copies = rev (choice_copies paths chosen)
  | (false, copies) => copies = []
  end.

Lemma fm_loop_spec pn paths' cands :
  fm_lookup fm (pn_filename pn) = Some cands ->
  (forall data, fm_spec paths' data (find_matches_rec H1 fm piece paths' data)) ->
  forall cs, incl cs cands ->
  forall data, fm_spec (pn :: paths') data (fm_loop pn (find_matches_rec H1 fm piece paths') data cs).
Proof.
  intros Hlk IH. induction cs as [|[l content] cs IHcs]; intros Hincl data.
  - reflexivity.
  - assert (Hincl' : incl cs cands) by (intros x Hx; apply Hincl; right; exact Hx).
    cbn [fm_loop]. destruct (length content =? pn_length pn) eqn:Hsz; cbn [negb].
    + apply Nat.eqb_eq in Hsz.
      specialize (IH (data ++ get_part content (pn_start pn) (pn_stop pn))).
      destruct (find_matches_rec H1 fm piece paths' (data ++ get_part content (pn_start pn) (pn_stop pn)))
        as [val copies].
      destruct val.
      * destruct IH as (chosen & Hv & Hh & Hc). cbn [fm_spec].
        exists ((l, content) :: chosen). split; [|split].
        -- constructor; [|exact Hv]. exists cands. split; [exact Hlk|]. split; [|exact Hsz].
           apply Hincl. left. reflexivity.
        -- unfold choice_bytes in *. cbn [map snd parts_bytes]. unfold part_of at 1.
           rewrite app_assoc. exact Hh.
        -- cbn [choice_copies rev fst]. rewrite Hc. reflexivity.
      * cbn [fm_spec] in IH. subst copies. specialize (IHcs Hincl' data).
        destruct (fm_loop pn (find_matches_rec H1 fm piece paths') data cs) as [val' copies'].
        cbn [app]. exact IHcs.
    + apply IHcs. exact Hincl'.
Qed.

Lemma find_matches_rec_spec : forall paths data,
  fm_spec paths data (find_matches_rec H1 fm piece paths data).
Proof.
  induction paths as [|pn paths IH]; intros data.
  - cbn [find_matches_rec fm_spec]. destruct (bytes_eqb (H1 data) piece) eqn:Heq; [|reflexivity].
    apply bytes_eqb_eq in Heq. exists []. split; [constructor|]. split; [|reflexivity].
    unfold choice_bytes. cbn [map parts_bytes]. rewrite app_nil_r. exact Heq.
  - cbn [find_matches_rec]. destruct (fm_lookup fm (pn_filename pn)) as [cands|] eqn:Hlk.
    + apply (fm_loop_spec pn paths cands Hlk IH cands). intros x Hx. exact Hx.
    + reflexivity.
Qed.

Lemma choice_copies_candidates : forall paths chosen, valid_choice paths chosen ->
  forall l full, In (l, full) (choice_copies paths chosen) ->
  exists pn c, In pn paths /\ In c chosen /\ full = pn_full pn /\ l = fst c /\ is_candidate pn c.
Proof.
  induction 1 as [|pn c paths chosen Hc _ IH]; intros l full Hin.
  - destruct Hin.
  - cbn [choice_copies] in Hin. destruct Hin as [Heq|Hin].
    + injection Heq as <- <-. exists pn, c. repeat split; try (left; reflexivity). exact Hc.
    + destruct (IH l full Hin) as (pn' & c' & Hp & Hch & Hf & Hl & Hcand).
      exists pn', c'. repeat split; try (right; assumption); assumption.
Qed.

Lemma choice_copies_all : forall paths chosen, valid_choice paths chosen ->
  forall pn, In pn paths -> exists l, In (l, pn_full pn) (choice_copies paths chosen).
Proof.
  induction 1 as [|pn0 c paths chosen _ _ IH]; intros pn Hin.
  - destruct Hin.
  - cbn [choice_copies]. destruct Hin as [->|Hin].
    + exists (fst c). left. reflexivity.
    + destruct (IH pn Hin) as [l Hl]. exists l. right. exact Hl.
Qed.

(* (a) soundness *)
Theorem find_matches_sound : forall paths copies,
  find_matches H1 fm piece paths = (true, copies) ->
  exists chosen,
    valid_choice paths chosen /\
    H1 (choice_bytes paths chosen) = piece /\
    copies = rev (choice_copies paths chosen) /\
    (forall l full, In (l, full) copies ->
       exists pn c, In pn paths /\ full = pn_full pn /\ l = fst c /\ is_candidate pn c) /\
    (forall pn, In pn paths -> exists l, In (l, pn_full pn) copies).
Proof.
  intros paths copies Hrun. pose proof (find_matches_rec_spec paths []) as Hs.
  unfold find_matches in Hrun. rewrite Hrun in Hs. destruct Hs as (chosen & Hv & Hh & Hc).
  exists chosen. split; [exact Hv|]. split; [exact Hh|]. split; [exact Hc|]. split.
  - intros l full Hin. rewrite Hc, <- in_rev in Hin.
    destruct (choice_copies_candidates paths chosen Hv l full Hin) as (pn & c & Hp & _ & Hf & Hl & Hcand).
    exists pn, c. repeat split; assumption.
  - intros pn Hin. destruct (choice_copies_all paths chosen Hv pn Hin) as [l Hl].
    exists l. rewrite Hc, <- in_rev. exact Hl.
Qed.

Theorem find_matches_failure_no_copies : forall paths copies,
  find_matches H1 fm piece paths = (false, copies) -> copies = [].
Proof.
  intros paths copies Hrun. pose proof (find_matches_rec_spec paths []) as Hs.
  unfold find_matches in Hrun. rewrite Hrun in Hs. exact Hs.
Qed.

(* (b) completeness: `trues` are the contents of the torrent's files named by the pathnodes *)
Definition intact_available (pn : pathnode) (t : bytes) : Prop :=
  exists c, is_candidate pn c /\ part_of pn (snd c) = part_of pn t.

Lemma fm_loop_complete pn (k : bytes -> bool * list copy) (data good : bytes) :
  fst (k (data ++ good)) = true ->
  forall cs, (exists c, In c cs /\ length (snd c) = pn_length pn /\ part_of pn (snd c) = good) ->
  fst (fm_loop pn k data cs) = true.
Proof.
  intros Hk. induction cs as [|[l content] cs IHcs]; intros (c & Hin & Hsz & Hpart).
  - destruct Hin.
  - cbn [fm_loop]. destruct (length content =? pn_length pn) eqn:Hsz'; cbn [negb].
    + destruct (k (data ++ get_part content (pn_start pn) (pn_stop pn))) as [val copies] eqn:Ek.
      destruct val; [reflexivity|].
      destruct Hin as [Heq|Hin].
      * subst c. cbn [snd] in Hpart. unfold part_of in Hpart. rewrite Hpart in Ek.
        rewrite Ek in Hk. discriminate.
      * assert (Hrec : fst (fm_loop pn k data cs) = true) by (apply IHcs; exists c; auto).
        destruct (fm_loop pn k data cs) as [val' copies']. exact Hrec.
    + destruct Hin as [Heq|Hin].
      * subst c. cbn [snd] in Hsz. apply Nat.eqb_neq in Hsz'. contradiction.
      * apply IHcs. exists c. auto.
Qed.

Lemma find_matches_rec_complete : forall paths trues, Forall2 intact_available paths trues ->
  forall data, H1 (data ++ parts_bytes paths trues) = piece ->
  fst (find_matches_rec H1 fm piece paths data) = true.
Proof.
  induction 1 as [|pn t paths trues Hav _ IH]; intros data Hh.
  - cbn [find_matches_rec fst]. cbn [parts_bytes] in Hh. rewrite app_nil_r in Hh.
    apply bytes_eqb_eq. exact Hh.
  - destruct Hav as (c & (cands & Hlk & Hin & Hsz) & Hpart).
    cbn [find_matches_rec]. rewrite Hlk.
    apply (fm_loop_complete pn _ data (part_of pn t)).
    + apply IH. cbn [parts_bytes] in Hh. rewrite <- app_assoc. exact Hh.
    + exists c. auto.
Qed.

Theorem find_matches_complete : forall paths trues,
  Forall2 intact_available paths trues ->
  H1 (parts_bytes paths trues) = piece ->
  fst (find_matches H1 fm piece paths) = true.
Proof.
  intros paths trues Hav Hh. unfold find_matches.
  apply (find_matches_rec_complete paths trues Hav []). exact Hh.
Qed.

(* (c) which candidate is copied.  `candidates_clean`: a candidate for the k-th pathnode is the
   true file, or no choice of candidates containing it at position k verifies the piece.  This
   hypothesis is where collision resistance of H1 and the known finding D27 (a candidate that
   agrees with the true file on the whole piece but differs elsewhere) live. *)
Definition candidates_clean (paths : list pathnode) (trues : list bytes) : Prop :=
  forall k pn t c,
    nth_error paths k = Some pn -> nth_error trues k = Some t -> is_candidate pn c ->
    snd c = t \/
    (forall chosen, valid_choice paths chosen -> nth_error chosen k = Some c ->
                    H1 (choice_bytes paths chosen) <> piece).

Theorem find_matches_intact_choice_partial : forall paths trues copies,
  length trues = length paths ->
  candidates_clean paths trues ->
  find_matches H1 fm piece paths = (true, copies) ->
  exists chosen,
    valid_choice paths chosen /\
    copies = rev (choice_copies paths chosen) /\
    map snd chosen = trues.
Proof.
  intros paths trues copies Hlen Hclean Hrun.
  destruct (find_matches_sound paths copies Hrun) as (chosen & Hv & Hh & Hc & _ & _).
  exists chosen. split; [exact Hv|]. split; [exact Hc|].
  assert (HF : Forall2 (fun c t => snd c = t) chosen trues).
  { apply Forall2_of_nth_error.
    - transitivity (length paths); [symmetry; exact (Forall2_length_eq _ _ _ Hv)|symmetry; exact Hlen].
    - intros k c t Hkc Hkt.
      destruct (Forall2_nth_error_r _ _ _ Hv k c Hkc) as (pn & Hkp & Hcand).
      destruct (Hclean k pn t c Hkp Hkt Hcand) as [Heq|Hbad]; [exact Heq|].
      exfalso. apply (Hbad chosen Hv Hkc). exact Hh. }
  clear -HF. induction HF as [|c t chosen trues Hct _ IH]; [reflexivity|].
  cbn [map]. rewrite Hct, IH. reflexivity.
Qed.

End FindMatchesProofs.

(* ------------------------------------------------------------------------------------------ *)
(* _match_v1: the `copied` shortcut                                                            *)
(* ------------------------------------------------------------------------------------------ *)

Section MatchV1Proofs.
Variable H1 : bytes -> bytes.
Variable fm : filemap.

(* every path in `copied` has had a copypath call *)
Definition copied_inv (copied : list String.string) (trace : list copy) : Prop :=
  forall full, In full copied -> exists l, In (l, full) trace.

Lemma v1_mark_In : forall paths copied full,
  In full (v1_mark paths copied) -> In full copied \/ exists pn, In pn paths /\ pn_full pn = full.
Proof.
  induction paths as [|pn paths IH]; intros copied full Hin.
  - left. exact Hin.
  - cbn [v1_mark] in Hin. destruct (mem_string (pn_full pn) copied).
    + destruct (IH _ _ Hin) as [Hc|(pn' & Hp & Hf)]; [left; exact Hc|].
      right. exists pn'. split; [right; exact Hp|exact Hf].
    + destruct (IH _ _ Hin) as [Hc|(pn' & Hp & Hf)].
      * apply in_app_or in Hc. destruct Hc as [Hc|[Hc|[]]]; [left; exact Hc|].
        right. exists pn. split; [left; reflexivity|exact Hc].
      * right. exists pn'. split; [right; exact Hp|exact Hf].
Qed.

Lemma match_v1_loop_app : forall a b copied trace,
  match_v1_loop H1 fm (a ++ b) copied trace =
  let '(o1, c1, t1) := match_v1_loop H1 fm a copied trace in
  let '(o2, c2, t2) := match_v1_loop H1 fm b c1 t1 in
  (o1 ++ o2, c2, t2).
Proof.
  induction a as [|[piece paths] a IH]; intros b copied trace.
  - cbn [app match_v1_loop].
    destruct (match_v1_loop H1 fm b copied trace) as [[o2 c2] t2]. reflexivity.
  - cbn [app match_v1_loop]. destruct (v1_skip paths copied).
    + rewrite IH. destruct (match_v1_loop H1 fm a copied trace) as [[o1 c1] t1].
      destruct (match_v1_loop H1 fm b c1 t1) as [[o2 c2] t2]. reflexivity.
    + destruct (find_matches H1 fm piece paths) as [ok copies].
      rewrite IH.
      destruct (match_v1_loop H1 fm a (if ok then v1_mark paths copied else copied) (trace ++ copies))
        as [[o1 c1] t1].
      destruct (match_v1_loop H1 fm b c1 t1) as [[o2 c2] t2]. reflexivity.
Qed.

Lemma match_v1_loop_inv : forall nodes copied trace outs copied' trace',
  copied_inv copied trace ->
  match_v1_loop H1 fm nodes copied trace = (outs, copied', trace') ->
  copied_inv copied' trace' /\ length outs = length nodes /\ exists more, trace' = trace ++ more.
Proof.
  induction nodes as [|[piece paths] nodes IH]; intros copied trace outs copied' trace' Hinv Hrun.
  - cbn [match_v1_loop] in Hrun. injection Hrun as <- <- <-.
    split; [exact Hinv|]. split; [reflexivity|]. exists []. rewrite app_nil_r. reflexivity.
  - cbn [match_v1_loop] in Hrun. destruct (v1_skip paths copied).
    + destruct (match_v1_loop H1 fm nodes copied trace) as [[os c] t] eqn:Erec.
      injection Hrun as <- <- <-.
      destruct (IH _ _ _ _ _ Hinv Erec) as (Hi & Hl & Hm).
      split; [exact Hi|]. split; [cbn [length]; rewrite Hl; reflexivity|exact Hm].
    + destruct (find_matches H1 fm piece paths) as [ok copies] eqn:Efm.
      destruct (match_v1_loop H1 fm nodes (if ok then v1_mark paths copied else copied) (trace ++ copies))
        as [[os c] t] eqn:Erec.
      injection Hrun as <- <- <-.
      assert (Hinv' : copied_inv (if ok then v1_mark paths copied else copied) (trace ++ copies)).
      { intros full Hin. destruct ok.
        - destruct (v1_mark_In _ _ _ Hin) as [Hc|(pn & Hp & Hf)].
          + destruct (Hinv full Hc) as [l Hl]. exists l. apply in_or_app. left. exact Hl.
          + destruct (find_matches_sound H1 fm piece paths copies Efm) as (_ & _ & _ & _ & _ & Hall).
            destruct (Hall pn Hp) as [l Hl]. exists l. apply in_or_app. right. rewrite <- Hf. exact Hl.
        - destruct (Hinv full Hin) as [l Hl]. exists l. apply in_or_app. left. exact Hl. }
      destruct (IH _ _ _ _ _ Hinv' Erec) as (Hi & Hl & [more Hm]).
      split; [exact Hi|]. split; [cbn [length]; rewrite Hl; reflexivity|].
      exists (copies ++ more). rewrite Hm, app_assoc. reflexivity.
Qed.

(* A piece that _match_v1 skips (`continue`) consists of a single pathnode whose file is in
   `copied`, and a copypath call for that file was recorded while processing an earlier piece. *)
Theorem match_v1_skipped_has_copy : forall nodes outs copied trace i piece paths,
  match_v1 H1 fm nodes = (outs, copied, trace) ->
  nth_error nodes i = Some (piece, paths) ->
  nth_error outs i = Some Skipped ->
  exists pn before after outs_i copied_i trace_i l more,
    paths = [pn] /\
    nodes = before ++ (piece, paths) :: after /\ length before = i /\
    match_v1 H1 fm before = (outs_i, copied_i, trace_i) /\
    In (pn_full pn) copied_i /\
    In (l, pn_full pn) trace_i /\
    trace = trace_i ++ more.
Proof.
  intros nodes outs copied trace i piece paths Hrun Hnode Hout.
  destruct (nth_error_split nodes i Hnode) as (before & after & Hsplit & Hlen).
  unfold match_v1 in Hrun. rewrite Hsplit, match_v1_loop_app in Hrun.
  destruct (match_v1_loop H1 fm before [] []) as [[o1 c1] t1] eqn:E1.
  assert (Hinv0 : copied_inv [] []) by (intros full []).
  destruct (match_v1_loop_inv _ _ _ _ _ _ Hinv0 E1) as (Hinv1 & Hlen1 & _).
  destruct (match_v1_loop H1 fm ((piece, paths) :: after) c1 t1) as [[o2 c2] t2] eqn:E2.
  injection Hrun as <- <- <-.
  rewrite nth_error_app2 in Hout by lia.
  replace (i - length o1) with 0 in Hout by lia.
  cbn [match_v1_loop] in E2. destruct (v1_skip paths c1) eqn:Hskip.
  - destruct (match_v1_loop H1 fm after c1 t1) as [[os c] t] eqn:E3.
    injection E2 as <- <- <-.
    destruct (match_v1_loop_inv _ _ _ _ _ _ Hinv1 E3) as (_ & _ & [more Hmore]).
    unfold v1_skip in Hskip. destruct paths as [|pn [|pn' paths]]; try discriminate.
    apply mem_string_In in Hskip. destruct (Hinv1 _ Hskip) as [l Hl].
    exists pn, before, after, o1, c1, t1, l, more.
    repeat split; try assumption.
  - exfalso. destruct (find_matches H1 fm piece paths) as [ok copies].
    destruct (match_v1_loop H1 fm after (if ok then v1_mark paths c1 else c1) (t1 ++ copies))
      as [[os c] t].
    injection E2 as <- <- <-. cbn [nth_error] in Hout. discriminate.
Qed.

(* Every recorded copypath call of _match_v1 has a candidate of the right name and size and a
   destination named by a pathnode of some piece. *)
Theorem match_v1_copies_are_candidates : forall nodes outs copied trace l full,
  match_v1 H1 fm nodes = (outs, copied, trace) ->
  In (l, full) trace ->
  exists piece paths pn c, In (piece, paths) nodes /\ In pn paths /\ full = pn_full pn /\
                           l = fst c /\ is_candidate fm pn c.
Proof.
  unfold match_v1. intros nodes outs copied trace l full.
  assert (G : forall nodes copied0 trace0 outs copied trace,
    match_v1_loop H1 fm nodes copied0 trace0 = (outs, copied, trace) ->
    In (l, full) trace -> In (l, full) trace0 \/
    exists piece paths pn c, In (piece, paths) nodes /\ In pn paths /\ full = pn_full pn /\
                             l = fst c /\ is_candidate fm pn c).
  { clear. induction nodes as [|[piece paths] nodes IH]; intros copied0 trace0 outs copied trace Hrun Hin.
    - cbn [match_v1_loop] in Hrun. injection Hrun as <- <- <-. left. exact Hin.
    - cbn [match_v1_loop] in Hrun. destruct (v1_skip paths copied0).
      + destruct (match_v1_loop H1 fm nodes copied0 trace0) as [[os c] t] eqn:Erec.
        injection Hrun as <- <- <-.
        destruct (IH _ _ _ _ _ Erec Hin) as [Hl|(p & ps & pn & c0 & Hn & Hr)]; [left; exact Hl|].
        right. exists p, ps, pn, c0. split; [right; exact Hn|exact Hr].
      + destruct (find_matches H1 fm piece paths) as [ok copies] eqn:Efm.
        destruct (match_v1_loop H1 fm nodes (if ok then v1_mark paths copied0 else copied0) (trace0 ++ copies))
          as [[os c] t] eqn:Erec.
        injection Hrun as <- <- <-.
        destruct (IH _ _ _ _ _ Erec Hin) as [Hl|(p & ps & pn & c0 & Hn & Hr)].
        * apply in_app_or in Hl. destruct Hl as [Hl|Hl]; [left; exact Hl|]. right.
          destruct ok.
          -- destruct (find_matches_sound H1 fm piece paths copies Efm) as (_ & _ & _ & _ & Hcand & _).
             destruct (Hcand l full Hl) as (pn & c0 & Hp & Hf & Hlc & Hc).
             exists piece, paths, pn, c0. split; [left; reflexivity|]. repeat split; assumption.
          -- rewrite (find_matches_failure_no_copies H1 fm piece paths copies Efm) in Hl. destruct Hl.
        * right. exists p, ps, pn, c0. split; [right; exact Hn|exact Hr]. }
  intros Hrun Hin. destruct (G _ _ _ _ _ _ Hrun Hin) as [[]|Hr]. exact Hr.
Qed.

End MatchV1Proofs.

(* ------------------------------------------------------------------------------------------ *)
(* Examples (H1 := identity, so "collisions" are literal equalities)                           *)
(* ------------------------------------------------------------------------------------------ *)

Definition ex_H1 (b : bytes) : bytes := b.

Import String.StringSyntax.
Local Open Scope string_scope.

Definition b_abc : bytes := ["a"; "b"; "c"]%char.
Definition b_XYZ : bytes := ["X"; "Y"; "Z"]%char.
Definition b_Ybc : bytes := ["Y"; "b"; "c"]%char.
Definition b_de : bytes := ["d"; "e"]%char.
Definition b_zz : bytes := ["z"; "z"]%char.
Definition b_long : bytes := ["a"; "b"; "c"; "d"]%char.

(* piece 1 of lens [3; 2], pl = 2: the last byte of a.bin and the first byte of b.bin *)
Definition ex_paths : list pathnode :=
  [ mkPathNode "a.bin" "t/a.bin" 3 2 None; mkPathNode "b.bin" "t/b.bin" 2 0 (Some 1) ].

(* a.bin: a wrong-size file, a same-size decoy that fails, then the intact copy *)
Definition ex_fm : filemap :=
  [ ("a.bin", [("x/a.bin", b_long); ("y/a.bin", b_XYZ); ("z/a.bin", b_abc)]);
    ("b.bin", [("y/b.bin", b_zz); ("z/b.bin", b_de)]) ].

Definition ex_piece : bytes := ["c"; "d"]%char.

Example find_matches_example :
  find_matches ex_H1 ex_fm ex_piece ex_paths = (true, [("z/b.bin", "t/b.bin"); ("z/a.bin", "t/a.bin")]).
Proof. vm_compute. reflexivity. Qed.

(* hypotheses of completeness are satisfiable on it *)
Example find_matches_complete_example :
  Forall2 (intact_available ex_fm) ex_paths [b_abc; b_de] /\
  ex_H1 (parts_bytes ex_paths [b_abc; b_de]) = ex_piece.
Proof.
  split; [|reflexivity].
  constructor; [|constructor; [|constructor]].
  - exists ("z/a.bin", b_abc). split; [|reflexivity].
    eexists. split; [reflexivity|]. split; [|reflexivity]. right. right. left. reflexivity.
  - exists ("z/b.bin", b_de). split; [|reflexivity].
    eexists. split; [reflexivity|]. split; [|reflexivity]. right. left. reflexivity.
Qed.

(* D27 (known finding), the reason for `candidates_clean`: a same-size candidate that agrees
   with the true file on the piece's range but differs elsewhere is accepted and copied. *)
Definition ex_fm_d27 : filemap :=
  [ ("a.bin", [("y/a.bin", b_Ybc); ("z/a.bin", b_abc)]); ("b.bin", [("z/b.bin", b_de)]) ].

Example find_matches_d27_example :
  find_matches ex_H1 ex_fm_d27 ex_piece ex_paths = (true, [("z/b.bin", "t/b.bin"); ("y/a.bin", "t/a.bin")]).
Proof. vm_compute. reflexivity. Qed.

Example find_matches_failure_example :
  find_matches ex_H1 ex_fm ["c"; "q"]%char ex_paths = (false, []).
Proof. vm_compute. reflexivity. Qed.

(* `candidates_clean` is satisfiable: only intact candidates in the filemap *)
Definition ex_fm_clean : filemap :=
  [ ("a.bin", [("z/a.bin", b_abc)]); ("b.bin", [("z/b.bin", b_de)]) ].

Example candidates_clean_example :
  candidates_clean ex_H1 ex_fm_clean ex_piece ex_paths [b_abc; b_de] /\
  find_matches ex_H1 ex_fm_clean ex_piece ex_paths = (true, [("z/b.bin", "t/b.bin"); ("z/a.bin", "t/a.bin")]).
Proof.
  split; [|vm_compute; reflexivity].
  intros k pn t c Hp Ht (cands & Hlk & Hin & _). left.
  destruct k as [|[|k]].
  - injection Hp as <-. injection Ht as <-. vm_compute in Hlk. injection Hlk as <-.
    destruct Hin as [<-|[]]. reflexivity.
  - injection Hp as <-. injection Ht as <-. vm_compute in Hlk. injection Hlk as <-.
    destruct Hin as [<-|[]]. reflexivity.
  - destruct k; discriminate.
Qed.

(* Observation: _map_pieces emits a range (0, -1) for a zero-length file that lies inside a
   piece, so the search needs a zero-length candidate of that name.  Without it the piece fails
   although every byte of it is available (lens [2; 0; 1], pl = 2, piece 1). *)
Example find_matches_missing_empty_file_blocks :
  find_matches ex_H1 [("c.bin", [("z/c.bin", ["c"]%char)])] ["c"]%char
    [ mkPathNode "empty.bin" "t/empty.bin" 0 0 None; mkPathNode "c.bin" "t/c.bin" 1 0 None ]
  = (false, []) /\
  find_matches ex_H1 [("c.bin", [("z/c.bin", ["c"]%char)]); ("empty.bin", [("z/empty.bin", [])])] ["c"]%char
    [ mkPathNode "empty.bin" "t/empty.bin" 0 0 None; mkPathNode "c.bin" "t/c.bin" 1 0 None ]
  = (true, [("z/c.bin", "t/c.bin"); ("z/empty.bin", "t/empty.bin")]).
Proof. vm_compute. split; reflexivity. Qed.

(* _match_v1 on lens [3; 2], pl = 2 (pieces "ab" | "c"+"d" | "e"): piece 0 is searched and
   copies a.bin; piece 1 is searched (two pathnodes) and copies b.bin and a.bin again; piece 2
   (single pathnode, b.bin already in `copied`) is skipped. *)
Definition ex_nodes : list (bytes * list pathnode) :=
  [ (["a"; "b"]%char, [mkPathNode "a.bin" "t/a.bin" 3 0 (Some 2)]);
    (ex_piece, ex_paths);
    (["e"]%char, [mkPathNode "b.bin" "t/b.bin" 2 1 None]) ].

Example match_v1_example :
  match_v1 ex_H1 ex_fm ex_nodes =
  ([Searched true; Searched true; Skipped],
   ["t/a.bin"; "t/b.bin"],
   [("z/a.bin", "t/a.bin"); ("z/b.bin", "t/b.bin"); ("z/a.bin", "t/a.bin")]).
Proof. vm_compute. reflexivity. Qed.

Print Assumptions find_matches_sound.
Print Assumptions find_matches_failure_no_copies.
Print Assumptions find_matches_complete.
Print Assumptions find_matches_intact_choice_partial.
Print Assumptions match_v1_skipped_has_copy.
Print Assumptions match_v1_copies_are_candidates.
