(* C13 / C14 / C19 -- rebuild with the METAFILE as the only description of the torrent:
     1. Model/RebuildRun.v [rebuild_of_metafile] = Metadata(path) (RebuildMeta.metadata_init) + the
        dispatch of Metadata.rebuild + _map_pieces/_match_v1 or _match_v2 + the copypath calls on the
        filesystem; the hypotheses of the whole-run theorems of Proofs/RebuildRunProofs.v are
        DERIVED from `metadata_init meta = Some x`
     2. the run-level [candidates_clean_run] from the per-piece [candidates_clean] of RebuildMatch.v
     3. composition with the creator models (Model/Creators.v): rebuilding from a metafile the
        creators wrote, with intact copies indexed, restores the tree *)
From Coq Require Import List String Ascii Bool Arith Lia ZArith.
From TF Require Import Lib.Base Lib.Chunks Model.CopyPath Model.Rebuild Model.RebuildRun
                       Proofs.CopyPathProofs Proofs.RebuildMatch Proofs.MapPieces Proofs.RebuildRunProofs.
From TF Require Model.PathSafe Model.Bencode Model.RebuildMeta Proofs.PathSafeProofs Proofs.RebuildMetaProofs.
Import ListNotations.
Open Scope nat_scope.
Open Scope list_scope.

(* ================================================================================================ *)
(** * 1. From the metafile to the hypotheses of the whole-run theorems                              *)
(* ================================================================================================ *)

Lemma metadata_init_extract meta x : RM.metadata_init meta = Some x -> RM.extract meta = Some x.
Proof.
  unfold RM.metadata_init. destruct (RM.extract meta) as [y|]; [|discriminate].
  destruct (RM.x_is_v2 y); [|destruct (RM.x_pieces y)]; congruence.
Qed.

(* every entry of an accepted metafile is valid and lies below the torrent's name *)
Lemma metafile_entries meta x : RM.metadata_init meta = Some x ->
  Forall entry_valid (RM.x_files x) /\
  forall e, In e (RM.x_files x) -> exists rest, RM.e_full e = RM.x_name x :: rest.
Proof.
  intros H. apply metadata_init_extract in H. split; [now apply (extract_entries_valid meta)|].
  apply RMP.extract_validates_everything in H as (_ & F). rewrite Forall_forall in F.
  intros e Ie. now destruct (F e Ie) as (_ & R & _).
Qed.

Lemma pl_of_pos v pl : pl_of v = Some pl -> 0 < pl.
Proof.
  destruct v as [z| | |]; try discriminate. cbn [pl_of]. destruct (Z.ltb_spec 0 z); [|discriminate].
  intros [= <-]. lia.
Qed.

(** ** The v1 file list and piece nodes *)
Definition vfile_of (e : RM.entry) : v1_file :=
  mk_v1_file (RM.text (RM.e_filename e)) (RM.full_text e) (Z.to_nat (RM.e_length e)).

Lemma v1_files_of_entries_spec : forall es files, v1_files_of_entries es = Some files ->
  files = map vfile_of es /\ Forall (fun e => (0 <= RM.e_length e)%Z) es.
Proof.
  induction es as [|e es IH]; intros files H; cbn [v1_files_of_entries] in H.
  - injection H as <-. split; [reflexivity | constructor].
  - unfold len_of in H. destruct (Z.leb_spec 0 (RM.e_length e)) as [L|]; [|discriminate].
    destruct (v1_files_of_entries es) as [r|]; [|discriminate]. injection H as <-.
    destruct (IH r eq_refl) as [-> F]. split; [reflexivity | now constructor].
Qed.

Notation dfile := (mk_v1_file EmptyString EmptyString 0).

(* the ranges _map_pieces emits name listed files, whatever the number of pieces *)
Lemma map_pieces_ranges_valid pl lens n rs r : 0 < pl ->
  In rs (map_pieces pl lens n) -> In r rs -> r_file r < length lens.
Proof.
  intros Hpl Irs Ir.
  assert (E : lens = map (@length ascii) (map zeros lens)).
  { rewrite map_map. rewrite <- (map_id lens) at 1. apply map_ext. intros a. now rewrite zeros_length. }
  pose proof (mp_loop_valid (map zeros lens) pl Hpl n (0, 0, 0) (inv_init (map zeros lens))) as V.
  rewrite <- E in V. rewrite Forall_forall in V. specialize (V rs Irs). rewrite Forall_forall in V.
  specialize (V r Ir). now rewrite map_length in V.
Qed.

Lemma v1_nodes_paths pl files digests piece paths :
  In (piece, paths) (v1_nodes pl files digests) ->
  exists rs, In rs (map_pieces pl (map vf_length files) (length digests)) /\ paths = map (range_node files) rs.
Proof.
  unfold v1_nodes. intros I. apply in_combine_r in I. apply in_map_iff in I as (rs & <- & I). now exists rs.
Qed.

(* every path node of every piece node belongs to a listed file *)
Lemma v1_nodes_pn pl files digests piece paths pn : 0 < pl ->
  In (piece, paths) (v1_nodes pl files digests) -> In pn paths ->
  exists j, j < length files /\
    pn_filename pn = vf_filename (nth j files dfile) /\ pn_full pn = vf_full (nth j files dfile) /\
    pn_length pn = vf_length (nth j files dfile).
Proof.
  intros Hpl I Ip. destruct (v1_nodes_paths pl files digests piece paths I) as (rs & Irs & ->).
  apply in_map_iff in Ip as (r & <- & Ir). exists (r_file r). split; [|repeat split].
  pose proof (map_pieces_ranges_valid pl _ _ rs r Hpl Irs Ir) as V. now rewrite map_length in V.
Qed.

Lemma nth_vfile es j : j < length es ->
  nth j (map vfile_of es) dfile = vfile_of (nth j es (RM.mk_entry [] [] [] 0 None)) /\
  In (nth j es (RM.mk_entry [] [] [] 0 None)) es.
Proof.
  intros Hj. split; [|now apply nth_In].
  rewrite (nth_indep _ dfile (vfile_of (RM.mk_entry [] [] [] 0 None))) by (now rewrite map_length).
  apply map_nth.
Qed.

(* ... hence to an entry of the metafile *)
Lemma v1_nodes_pn_entry pl es digests piece paths pn : 0 < pl ->
  In (piece, paths) (v1_nodes pl (map vfile_of es) digests) -> In pn paths ->
  exists e, In e es /\ pn_filename pn = RM.text (RM.e_filename e) /\ pn_full pn = RM.full_text e /\
            pn_length pn = Z.to_nat (RM.e_length e).
Proof.
  intros Hpl I Ip. destruct (v1_nodes_pn pl _ digests piece paths pn Hpl I Ip) as (j & Hj & E1 & E2 & E3).
  rewrite map_length in Hj. destruct (nth_vfile es j Hj) as [E Ie]. rewrite E in E1, E2, E3.
  eexists. split; [exact Ie|]. auto.
Qed.

Lemma v1_nodes_relative pl es digests : 0 < pl -> Forall entry_valid es ->
  nodes_relative (v1_nodes pl (map vfile_of es) digests).
Proof.
  intros Hpl V piece paths pn I Ip.
  destruct (v1_nodes_pn_entry pl es digests piece paths pn Hpl I Ip) as (e & Ie & _ & -> & _).
  rewrite Forall_forall in V. now apply entry_parts, V.
Qed.

(** ** What the run is, case by case *)
Inductive run_shape (H1 H256 : bytes -> bytes) (B dsize : nat) (dest : path) (fm : filemap)
          (meta : Bencode.value) (f : fs) (r : result) : Prop :=
| shape_v2 x pl : RM.metadata_init meta = Some x -> pl_of (RM.x_piece_length x) = Some pl ->
    RM.x_is_v2 x = true -> r = rebuild_v2_run dsize H256 B pl fm dest (RM.x_files x) f ->
    run_shape H1 H256 B dsize dest fm meta f r
| shape_v1 x pl s : RM.metadata_init meta = Some x -> pl_of (RM.x_piece_length x) = Some pl ->
    RM.x_is_v2 x = false -> RM.x_pieces x = Bencode.BStr s ->
    Forall (fun e => (0 <= RM.e_length e)%Z) (RM.x_files x) ->
    r = rebuild_v1_run dsize H1 fm dest (v1_nodes pl (map vfile_of (RM.x_files x)) (digests_of s)) f ->
    run_shape H1 H256 B dsize dest fm meta f r.

Lemma rebuild_of_metafile_shape H1 H256 B dsize dest fm meta f r :
  rebuild_of_metafile H1 H256 B dsize dest fm meta f = Some r -> run_shape H1 H256 B dsize dest fm meta f r.
Proof.
  unfold rebuild_of_metafile. destruct (RM.metadata_init meta) as [x|] eqn:M; [|discriminate].
  destruct (pl_of (RM.x_piece_length x)) as [pl|] eqn:P; [|discriminate].
  destruct (RM.x_is_v2 x) eqn:V.
  - intros [= <-]. now apply (shape_v2 _ _ _ _ _ _ _ _ _ x pl).
  - destruct (RM.x_pieces x) as [|s| |] eqn:Ps; try discriminate.
    destruct (v1_files_of_entries (RM.x_files x)) as [files|] eqn:F; [|discriminate].
    destruct (v1_files_of_entries_spec _ _ F) as [-> NN]. intros [= <-].
    now apply (shape_v1 _ _ _ _ _ _ _ _ _ x pl s).
Qed.

(* the piece length of a v2 / hybrid metafile is the block size times a power of two (HasherV2
   needs it; every creator and every BEP 52 metafile satisfies it) *)
Definition v2_piece_length_ok (B : nat) (meta : Bencode.value) : Prop :=
  forall x pl, RM.metadata_init meta = Some x -> RM.x_is_v2 x = true ->
               pl_of (RM.x_piece_length x) = Some pl -> exists k, pl = B * 2 ^ k.

Section OfMetafile.
Variable H1 H256 : bytes -> bytes.
Variable B : nat.
Hypothesis HB : 0 < B.
Variable dsize : nat.
Variable dest : path.
Variable fm : filemap.
Variable meta : Bencode.value.
Hypothesis PLOK : v2_piece_length_ok B meta.
Variable f : fs.
Hypothesis REFL : filemap_reflects f fm.
Hypothesis DISJ : dest_disjoint dest fm.
Variable r : result.
Hypothesis RUN : rebuild_of_metafile H1 H256 B dsize dest fm meta f = Some r.

(** C14: everything the command changes, with the metafile as the only description of the torrent.
    A changed path is the place dest/<validated components> of an entry the metafile lists, now
    holding the bytes of a search-directory file indexed under (and named like) the entry's file
    name and of exactly the recorded length -- with the recorded BEP 52 root (v2 / hybrid) or chosen
    in a choice that verifies a recorded piece (v1) -- where there was nothing or a shorter file
    before; or it is a directory that did not exist, on the way to such a place. *)
Theorem rebuild_of_metafile_writes_verified_copies : forall p, fs_of r p <> f p ->
  exists x, RM.metadata_init meta = Some x /\
  ((exists e l data, In e (RM.x_files x) /\ p = target dest e /\
      indexed fm (RM.text (RM.e_filename e)) (l, data) /\ Z.of_nat (length data) = RM.e_length e /\
      basename (parts_of l) = RM.text (RM.e_filename e) /\ lookup f (parts_of l) = Some (File data) /\
      fs_of r p = Some (File data) /\
      (f p = None \/ exists old, f p = Some (File old) /\ length old < length data) /\
      (if RM.x_is_v2 x then RMP.verified H256 B e (l, data)
       else exists pl s pn, pl_of (RM.x_piece_length x) = Some pl /\ RM.x_pieces x = Bencode.BStr s /\
              pn_full pn = RM.full_text e /\
              v1_justified H1 fm (v1_nodes pl (map vfile_of (RM.x_files x)) (digests_of s)) l pn data)) \/
   (p <> [] /\ f p = None /\ fs_of r p = Some Dir /\
    exists e, In e (RM.x_files x) /\ proper_prefix p (target dest e))).
Proof.
  intros p N. destruct (rebuild_of_metafile_shape _ _ _ _ _ _ _ _ _ RUN) as [x pl M P V E | x pl s M P V Ps NN E];
  exists x; (split; [exact M|]); destruct (metafile_entries meta x M) as [VALID _]; rewrite V.
  - destruct (PLOK x pl M V P) as [k Hpl]. subst r.
    destruct (rebuild_v2_writes_are_verified_copies H256 B HB k pl Hpl dsize fm dest _ VALID f REFL DISJ p N)
      as [(e & l & data & Ie & Ep & X & Vf & Bn & L & W & Old) | D]; [left | right; exact D].
    exists e, l, data. repeat split; auto; try apply Vf.
  - pose proof (pl_of_pos _ _ P) as Hpl. pose proof (v1_nodes_relative pl _ (digests_of s) Hpl VALID) as RELN. subst r.
    destruct (rebuild_v1_writes_are_verified_copies H1 dsize fm dest _ RELN f REFL DISJ p N)
      as [(l & pn & data & J & Ep & Bn & Len & L & W & Old) | (PN & FN & D & piece & paths & pn & I & Ip & PP)].
    + left. destruct (v1_justified_facts _ _ _ l pn data J) as ((piece & paths & I & Ip) & X & _).
      destruct (v1_nodes_pn_entry pl _ _ piece paths pn Hpl I Ip) as (e & Ie & Fn & Fu & Ln).
      rewrite Forall_forall in VALID, NN. destruct (entry_parts e (VALID e Ie)) as [_ Pe].
      exists e, l, data. rewrite Fn in *. rewrite Fu, Pe in Ep.
      split; [exact Ie|]. split; [exact Ep|]. split; [exact X|].
      split; [rewrite Len, Ln; apply Z2Nat.id; now apply NN|].
      split; [exact Bn|]. split; [exact L|]. split; [exact W|]. split; [exact Old|].
      exists pl, s, pn. auto.
    + right. destruct (v1_nodes_pn_entry pl _ _ piece paths pn Hpl I Ip) as (e & Ie & _ & Fu & _).
      rewrite Forall_forall in VALID. destruct (entry_parts e (VALID e Ie)) as [_ Pe]. rewrite Fu, Pe in PP.
      repeat split; auto. now exists e.
Qed.

Lemma proper_prefix_snoc (p d : path) a : proper_prefix p (d ++ [a]) -> prefix p d.
Proof.
  intros (rest & NE & E). destruct (exists_last NE) as (r' & z & ->).
  rewrite app_assoc in E. apply app_inj_tail in E as [E _]. now exists r'.
Qed.

(** C14 / C19: every changed path lies inside dest/<name of the torrent>, except that dest itself and
    missing ancestor directories of dest are created *)
Theorem rebuild_of_metafile_inside_destination : forall p, fs_of r p <> f p ->
  exists x, RM.metadata_init meta = Some x /\
  (prefix (dest ++ [RM.text (RM.x_name x)]) p \/
   (prefix p dest /\ p <> [] /\ f p = None /\ fs_of r p = Some Dir)).
Proof.
  intros p N. destruct (rebuild_of_metafile_writes_verified_copies p N) as (x & M & C). exists x. split; [exact M|].
  destruct (metafile_entries meta x M) as [_ NAME].
  assert (T : forall e, In e (RM.x_files x) -> exists rest, target dest e = (dest ++ [RM.text (RM.x_name x)]) ++ rest).
  { intros e Ie. destruct (NAME e Ie) as [rest E]. exists (map RM.text rest). unfold target. rewrite E. cbn [map].
    now rewrite <- app_assoc. }
  destruct C as [(e & l & data & Ie & -> & _) | (PN & FN & D & e & Ie & PP)].
  - left. destruct (T e Ie) as [rest ->]. apply prefix_app.
  - destruct (T e Ie) as [rest E]. rewrite E in PP.
    destruct (prefix_of_target _ _ p (proper_prefix_prefix _ _ PP)) as [P | P]; [now left | right].
    split; [now apply proper_prefix_snoc in P | auto].
Qed.

(* the same against lexical resolution (C19): for a destination given by plain components, the place
   of an entry IS the resolution of os.path.join(dest, name, *path), which stays inside dest *)
Theorem target_is_resolved : forall x e, RM.metadata_init meta = Some x -> In e (RM.x_files x) ->
  Forall (fun c => PathSafe.safe_comp c = true) dest ->
  PathSafe.resolve (dest ++ map RM.text (RM.e_full e)) = target dest e /\
  PathSafe.resolve (dest ++ [RM.full_text e]) = target dest e /\
  PathSafe.prefix (PathSafe.resolve dest) (target dest e).
Proof.
  intros x e M Ie SD. destruct (metafile_entries meta x M) as [VALID _]. rewrite Forall_forall in VALID.
  destruct (VALID e Ie) as [NE S]. pose proof (RMP.safe_texts _ S) as ST.
  assert (RD : PathSafe.resolve dest = dest).
  { unfold PathSafe.resolve. now rewrite (PathSafeProofs.fold_join_safe dest SD []). }
  unfold target. split; [|split].
  - now rewrite (PathSafeProofs.safe_components_stay_inside dest _ ST), RD.
  - rewrite <- RD at 2. apply RMP.joined_text_inside; [|exact ST].
    destruct (RM.e_full e); [contradiction | discriminate].
  - rewrite RD. now exists (map RM.text (RM.e_full e)).
Qed.

(* no candidate, no metafile, nothing that exists outside dest changes; the filemap still describes
   the filesystem; the same command again changes nothing *)
Theorem rebuild_of_metafile_outside_untouched :
  (forall name l data, indexed fm name (l, data) -> fs_of r (parts_of l) = f (parts_of l)) /\
  (forall p, f p <> None -> ~ prefix dest p -> fs_of r p = f p) /\
  filemap_reflects (fs_of r) fm /\
  rebuild_of_metafile H1 H256 B dsize dest fm meta (fs_of r) = Some r.
Proof.
  destruct (rebuild_of_metafile_shape _ _ _ _ _ _ _ _ _ RUN) as [x pl M P V E | x pl s M P V Ps NN E];
  destruct (metafile_entries meta x M) as [VALID _].
  - destruct (PLOK x pl M V P) as [k Hpl]. subst r. repeat split.
    + apply (rebuild_v2_candidates_untouched H256 B HB k pl Hpl dsize fm dest _ VALID f REFL DISJ).
    + apply (rebuild_v2_existing_outside_untouched H256 B HB k pl Hpl dsize fm dest _ VALID f REFL DISJ).
    + apply (rebuild_v2_reflects_after H256 B HB k pl Hpl dsize fm dest _ VALID f REFL DISJ name l data H).
    + apply (rebuild_v2_reflects_after H256 B HB k pl Hpl dsize fm dest _ VALID f REFL DISJ name l data H).
    + unfold rebuild_of_metafile. rewrite M, P, V. f_equal.
      apply (rebuild_v2_idempotent H256 B HB k pl Hpl dsize fm dest _ VALID f REFL DISJ).
  - pose proof (pl_of_pos _ _ P) as Hpl. pose proof (v1_nodes_relative pl _ (digests_of s) Hpl VALID) as RELN. subst r.
    repeat split.
    + apply (rebuild_v1_candidates_untouched H1 dsize fm dest _ RELN f REFL DISJ).
    + apply (rebuild_v1_existing_outside_untouched H1 dsize fm dest _ RELN f REFL DISJ).
    + apply (rebuild_v1_reflects_after H1 dsize fm dest _ RELN f REFL DISJ name l data H).
    + apply (rebuild_v1_reflects_after H1 dsize fm dest _ RELN f REFL DISJ name l data H).
    + unfold rebuild_of_metafile. rewrite M, P, V, Ps.
      assert (F : v1_files_of_entries (RM.x_files x) = Some (map vfile_of (RM.x_files x))).
      { clear -NN. induction NN as [|e es He _ IH]; [reflexivity|]. cbn [v1_files_of_entries map].
        unfold len_of. destruct (Z.leb_spec 0 (RM.e_length e)); [|lia]. now rewrite IH. }
      rewrite F. f_equal. apply (rebuild_v1_idempotent H1 dsize fm dest _ RELN f REFL DISJ).
Qed.

End OfMetafile.

(** ** Completeness with the metafile as the description *)

Lemma concat_length_full {A} n (ps : list (list A)) : Forall (fun p => length p = n) ps ->
  length (concat ps) = n * length ps.
Proof.
  induction 1 as [|p ps Hp _ IH]; [cbn; lia|]. cbn [concat length]. rewrite app_length, Hp, IH. lia.
Qed.

(* digests of 20 bytes, concatenated, are cut into exactly those digests *)
Lemma digests_of_cut (H1 : bytes -> bytes) s xs : (forall y, length (H1 y) = 20) ->
  chunks 20 s = map H1 xs -> digests_of s = map H1 xs.
Proof.
  intros HL E. unfold digests_of. rewrite E.
  assert (L : length s = 20 * length (map H1 xs)).
  { rewrite <- (concat_chunks 20 s) by lia. rewrite E. apply concat_length_full.
    apply Forall_forall. intros p Ip. apply in_map_iff in Ip as (y & <- & _). apply HL. }
  rewrite L, Nat.mul_comm, Nat.div_mul by lia. apply firstn_all.
Qed.

(* v2 / hybrid (C13_v2_complete with a metafile): full *)
Theorem rebuild_of_metafile_restores_v2 (H1 H256 : bytes -> bytes) B (HB : 0 < B) dsize dest fm meta x k pl f :
  RM.metadata_init meta = Some x -> RM.x_is_v2 x = true ->
  pl_of (RM.x_piece_length x) = Some pl -> pl = B * 2 ^ k ->
  filemap_reflects f fm -> dest_disjoint dest fm ->
  way_free dest (RM.x_files x) f -> entries_consistent (RM.x_files x) ->
  (forall e e', In e (RM.x_files x) -> In e' (RM.x_files x) -> RM.e_full e' = RM.e_full e -> e' = e) ->
  exists g, rebuild_of_metafile H1 H256 B dsize dest fm meta f = Some (Ok g) /\
  forall e, In e (RM.x_files x) ->
    (exists c, indexed fm (RM.text (RM.e_filename e)) c /\ RMP.verified H256 B e c) ->
    (f (target dest e) = None \/
     exists old, f (target dest e) = Some (File old) /\ (Z.of_nat (length old) < RM.e_length e)%Z) ->
    (exists l data, indexed fm (RM.text (RM.e_filename e)) (l, data) /\ RMP.verified H256 B e (l, data) /\
                    g (target dest e) = Some (File data)) /\
    (forall d, (forall c, indexed fm (RM.text (RM.e_filename e)) c -> RMP.verified H256 B e c -> snd c = d) ->
               g (target dest e) = Some (File d)).
Proof.
  intros M V P Hpl REFL DISJ WF EC UQ. destruct (metafile_entries meta x M) as [VALID _].
  destruct (rebuild_v2_restores H256 B HB k pl Hpl dsize fm dest _ VALID f REFL DISJ WF EC UQ) as (g & R & A).
  exists g. split; [|exact A]. unfold rebuild_of_metafile. now rewrite M, P, V, R.
Qed.

(* v1 (C13_v1_complete_partial with a metafile): the recorded `pieces` are the H1 digests of the
   BEP 3 pieces of `trues`, the recorded lengths are theirs.  `_partial`: candidates_clean_run. *)
Theorem rebuild_of_metafile_restores_v1_partial (H1 H256 : bytes -> bytes) B dsize dest fm meta x pl s trues f :
  RM.metadata_init meta = Some x -> RM.x_is_v2 x = false ->
  pl_of (RM.x_piece_length x) = Some pl -> RM.x_pieces x = Bencode.BStr s ->
  Forall (fun e => (0 <= RM.e_length e)%Z) (RM.x_files x) ->
  let files := map vfile_of (RM.x_files x) in
  (forall y, length (H1 y) = 20) -> chunks 20 s = map H1 (chunks pl (concat trues)) ->
  map (@length ascii) trues = map vf_length files ->
  filemap_reflects f fm -> dest_disjoint dest fm ->
  intact_copies fm files trues -> candidates_clean_run H1 fm pl files trues -> files_ok files ->
  v1_way_free dest files f ->
  exists g, rebuild_of_metafile H1 H256 B dsize dest fm meta f = Some (Ok g) /\
  forall j, j < length files -> 0 < vf_length (nth j files dfile) ->
    (f (dest ++ parts_of (vf_full (nth j files dfile))) = None \/
     exists old, f (dest ++ parts_of (vf_full (nth j files dfile))) = Some (File old) /\
                 length old < vf_length (nth j files dfile)) ->
    g (dest ++ parts_of (vf_full (nth j files dfile))) = Some (File (nth j trues [])).
Proof.
  intros M V P Ps NN files HL Cut LEN REFL DISJ IC CL FO WF. pose proof (pl_of_pos _ _ P) as Hpl.
  destruct (rebuild_v1_restores_partial H1 dsize fm dest pl Hpl files trues LEN f REFL DISJ IC CL FO WF) as (g & R & A).
  exists g. split; [|exact A]. unfold rebuild_of_metafile. rewrite M, P, V, Ps.
  assert (F : v1_files_of_entries (RM.x_files x) = Some files).
  { unfold files. clear -NN. induction NN as [|e es He _ IH]; [reflexivity|]. cbn [v1_files_of_entries map].
    unfold len_of. destruct (Z.leb_spec 0 (RM.e_length e)); [|lia]. now rewrite IH. }
  rewrite F, (digests_of_cut H1 s _ HL Cut). unfold nodes, digests in R. now rewrite R.
Qed.

(* the places of a v1 file list are sane when the entries are (what files_ok asks, from the entries) *)
Lemma files_ok_of_entries es : Forall entry_valid es -> entries_consistent es ->
  (forall e e', In e es -> In e' es -> RM.e_full e' = RM.e_full e -> e' = e) -> NoDup es ->
  files_ok (map vfile_of es).
Proof.
  intros V EC UQ ND. rewrite Forall_forall in V.
  assert (N : forall j, j < length (map vfile_of es) ->
            exists e, In e es /\ nth_error es j = Some e /\ nth j (map vfile_of es) dfile = vfile_of e).
  { intros j Hj. rewrite map_length in Hj. destruct (nth_vfile es j Hj) as [E Ie].
    eexists. split; [exact Ie|]. split; [|exact E]. now apply nth_error_nth'. }
  assert (INJ : forall j j' e, nth_error es j = Some e -> nth_error es j' = Some e -> j = j').
  { intros j j' e E E'. apply (proj1 (NoDup_nth_error es) ND); [|congruence].
    apply nth_error_Some. congruence. }
  assert (FT : forall e e', In e es -> In e' es -> RM.full_text e = RM.full_text e' -> e = e').
  { intros e e' Ie Ie' E. apply UQ; [exact Ie' | exact Ie|]. apply map_text_inj.
    rewrite <- (proj2 (entry_parts e (V e Ie))), <- (proj2 (entry_parts e' (V e' Ie'))). now rewrite E. }
  split; [|split; [|split]].
  - intros j Hj. destruct (N j Hj) as (e & Ie & _ & ->). cbn [vfile_of vf_full].
    destruct (entry_parts e (V e Ie)) as [NA P]. split; [exact NA|]. rewrite P.
    destruct (V e Ie) as [NE _]. destruct (RM.e_full e); [contradiction | discriminate].
  - intros j j' Hj Hj' E. destruct (N j Hj) as (e & Ie & Ne & Ee). destruct (N j' Hj') as (e' & Ie' & Ne' & Ee').
    rewrite Ee, Ee' in E. cbn [vfile_of vf_full] in E. assert (e = e') by (now apply FT). subst e'.
    now apply (INJ j j' e).
  - intros j j' Hj Hj' E. destruct (N j Hj) as (e & Ie & _ & Ee). destruct (N j' Hj') as (e' & Ie' & _ & Ee').
    rewrite Ee, Ee' in *. cbn [vfile_of vf_full] in *.
    rewrite (proj2 (entry_parts e (V e Ie))), (proj2 (entry_parts e' (V e' Ie'))) in E.
    apply map_text_inj in E. f_equal. apply UQ; [exact Ie' | exact Ie | now symmetry].
  - intros j j' Hj Hj' PP. destruct (N j Hj) as (e & Ie & _ & Ee). destruct (N j' Hj') as (e' & Ie' & _ & Ee').
    rewrite Ee, Ee' in PP. cbn [vfile_of vf_full] in PP.
    rewrite (proj2 (entry_parts e (V e Ie))), (proj2 (entry_parts e' (V e' Ie'))) in PP.
    now apply (EC e e' Ie Ie').
Qed.

(* ================================================================================================ *)
(** * 2. candidates_clean_run from the per-piece candidates_clean of Proofs/RebuildMatch.v          *)
(* ================================================================================================ *)

Lemma in_combine_nth_error {A C} : forall (a : list A) (b : list C) x y, In (x, y) (combine a b) ->
  exists k, nth_error a k = Some x /\ nth_error b k = Some y.
Proof.
  induction a as [|a0 a IH]; intros [|b0 b] x y I; cbn [combine In] in I; try contradiction.
  destruct I as [[= <- <-] | I]; [now exists 0|]. destruct (IH b x y I) as (k & E1 & E2). now exists (S k).
Qed.

Section CleanFromPieces.
Variable H1 : bytes -> bytes.
Variable fm : filemap.
Variable pl : nat.
Hypothesis Hpl : 0 < pl.
Variable files : list v1_file.
Variable trues : list bytes.
Hypothesis LEN : map (@length ascii) trues = map vf_length files.

(* [candidates_clean] of RebuildMatch.v for every recorded piece: the piece's digest, its path nodes,
   and the torrent's files its path nodes name *)
Definition pieces_clean : Prop :=
  forall i, i < ceil_div (length (concat trues)) pl ->
    let rs := nth i (map_pieces pl (map (@length ascii) trues) (ceil_div (length (concat trues)) pl)) [] in
    candidates_clean H1 fm (H1 (nth i (chunks pl (concat trues)) []))
                     (map (range_node files) rs) (map (fun r => nth (r_file r) trues []) rs).

(* They are related as expected: when no two listed files share a `full`, clean pieces give a clean
   run.  (Without distinct fulls the run-level statement, which identifies a file by its `full`,
   speaks about more path nodes than the per-piece one does for that file.) *)
Theorem candidates_clean_run_of_pieces : pieces_clean -> files_ok files ->
  candidates_clean_run H1 fm pl files trues.
Proof.
  intros PC (_ & FO2 & _) j c Hj X Len.
  destruct (list_eq_dec ascii_dec (snd c) (nth j trues [])) as [E | NE]; [now left | right].
  intros piece paths chosen pn I Hv Icb Ef Hh.
  destruct (node_inv H1 pl Hpl files trues LEN piece paths I) as (i & Hi & -> & ->).
  destruct (in_combine_nth_error _ _ _ _ Icb) as (k & Ek & Ec).
  destruct (valid_choice_combine fm _ chosen Hv pn c Icb) as [Cand _].
  rewrite nth_error_map in Ek.
  destruct (nth_error (nth i (map_pieces pl (map (@length ascii) trues) (ceil_div (length (concat trues)) pl)) []) k)
    as [r|] eqn:Er; [|discriminate]. cbn [option_map] in Ek. injection Ek as <-.
  pose proof (ranges_valid pl Hpl files trues LEN i r (nth_error_In _ _ Er)) as Vr.
  assert (r_file r = j) by (apply FO2; [exact Vr | exact Hj | exact Ef]).
  destruct (PC i Hi k (range_node files r) (nth (r_file r) trues []) c) as [Eq | Bad].
  - rewrite nth_error_map, Er. reflexivity.
  - rewrite nth_error_map, Er. reflexivity.
  - exact Cand.
  - apply NE. now rewrite Eq, H.
  - now apply (Bad chosen Hv Ec).
Qed.

End CleanFromPieces.

(* ================================================================================================ *)
(** * 3. Composition with the creators: rebuilding from a metafile the creator models wrote         *)
(* ================================================================================================ *)
From TF Require Import Lib.Lex Spec.Bep52 Model.Bencode Model.Creators Model.RecheckInit
                       Proofs.BencodeProofs Proofs.CreatorsProofs Proofs.CreatorsProofs2 Proofs.OwnMetafiles.
From Coq Require Import Permutation.
(* from here on File / Dir / node are the content trees of Model/Creators.v; the filesystem nodes are
   written CopyPath.File / CopyPath.Dir *)

(* every name in the tree passes Metadata._check_parts (valid UTF-8, not "", ".", "..", no "/", no NUL) *)
Definition names_safe : node -> Prop := node_all (Forall RMP.safe).

Lemma names_safe_sort_tree t : names_safe t -> names_safe (sort_tree t).
Proof.
  apply node_all_sort_tree. intros es F.
  eapply Forall_perm; [apply Permutation_sym, Permutation_map, sort_names_perm | exact F].
Qed.

Section OwnV2.
Variable H1 H256 : bytes -> bytes.
Variable B : nat.
Hypothesis HB : 0 < B.
Variable k pl : nat.
Hypothesis Hpl : pl = B * 2 ^ k.

Notation leaf_of := (CreatorsProofs.leaf_of H256 B pl).

(* the pieces root a leaf carries, as Metadata reads it *)
Definition root_val (d : bytes) : option value :=
  if length d =? 0 then None else Some (BStr (bep52_root H256 B d)).

(* the entry of Metadata.files for the file (full components, bytes) *)
Definition entry_of (f : list bytes * bytes) : RM.entry :=
  RM.mk_entry (removelast (fst f)) (fst f) (last (fst f) []) (Z.of_nat (length (snd f))) (root_val (snd f)).

Lemma leaf_fields_value d : RM.leaf_fields (leaf_value H256 B d) = Some (Z.of_nat (length d), root_val d).
Proof. unfold root_val. destruct d; reflexivity. Qed.

Lemma parse_entries (es : list (bytes * node)) :
  Forall (fun e => forall partials,
            RM.parse_val partials (fst e) (BDict (tree_ord leaf_of (snd e))) =
            Some (map entry_of (files_of (partials ++ [fst e]) (snd e)))) es ->
  forall ps, RM.parse_tree ps (map (on_snd (fun c => BDict (tree_ord leaf_of c))) es) =
             Some (map entry_of (flat_map (fun e => files_of (ps ++ [fst e]) (snd e)) es)).
Proof.
  induction 1 as [|e es He _ IH]; intros ps; [reflexivity|].
  cbn [map RM.parse_tree flat_map on_snd]. rewrite He, IH, map_app. reflexivity.
Qed.

(* Metadata._parse_tree over the file tree the creators write lists exactly the files of the tree, in
   the order of the tree dictionary, each with its length and (unless empty) its BEP 52 root *)
Lemma parse_val_tree u : wf_node u -> names_safe u -> forall partials key, RMP.safe key ->
  RM.parse_val partials key (BDict (tree_ord leaf_of u)) =
  Some (map entry_of (files_of (partials ++ [key]) u)).
Proof.
  induction u as [d|es IH] using node_ind'; intros Hwf Hs partials key Sk; rewrite RMP.parse_val_dict;
  unfold RMP.safe in Sk; rewrite Sk; cbn [negb].
  - cbn [tree_ord]. rewrite (leaf_of_spec H256 B HB k pl Hpl). cbn [lookup Lex.bytes_eqb RM.RMKeys.rk_empty k_empty].
    rewrite leaf_fields_value. cbn [files_of map]. unfold entry_of. cbn [fst snd].
    now rewrite removelast_last, last_last.
  - apply wf_Dir in Hwf. destruct Hwf as [[_ Hok] Hc]. apply node_all_Dir in Hs as [Sn Sc]. cbn [tree_ord].
    assert (E : lookup RM.RMKeys.rk_empty (map (on_snd (fun c => BDict (tree_ord leaf_of c))) es) = None).
    { apply lookup_None. rewrite map_fst_on_snd. intros Hin. rewrite Forall_forall in Hok.
      destruct (Hok _ Hin) as [C _]. apply C. reflexivity. }
    rewrite E. cbn [files_of]. apply parse_entries.
    rewrite Forall_forall in *. intros e He ps. apply IH; [exact He | now apply Hc | now apply Sc|].
    apply Sn. now apply in_map.
Qed.

(* a directory payload that is NOT "one file named like the torrent": BEP 52 file trees cannot tell
   that from the single-file form, and Metadata.extract reads such a tree as a single file *)
Definition not_single (name : bytes) (es : list (bytes * node)) : Prop :=
  forall d, es <> [(name, File d)].

Lemma single_leaf_dir name es : wf_node (Dir es) -> not_single name es ->
  RM.single_leaf name (tree_spec H256 B pl (Dir es)) = None.
Proof.
  intros Hwf NS. unfold tree_spec. cbn [sort_tree tree_ord].
  destruct es as [|e0 [|e1 es]].
  - reflexivity.
  - cbn. destruct e0 as [n0 [d|sub]]; cbn.
    + destruct (Lex.bytes_eqb_spec n0 name) as [->|NE]; [now destruct (NS d) | reflexivity].
    + destruct (Lex.bytes_eqb n0 name); [|reflexivity].
      apply lookup_None. rewrite map_fst_on_snd. intros Hin.
      apply wf_Dir in Hwf as [_ Hc]. inversion Hc as [|x l Hsub _]; subst. cbn [snd] in Hsub.
      apply wf_sort_tree in Hsub. cbn [sort_tree] in Hsub. apply wf_Dir in Hsub as [[_ Hok] _].
      rewrite Forall_forall in Hok. destruct (Hok _ Hin) as [C _]. now apply C.
  - pose proof (Permutation_length (sort_names_perm (map (on_snd sort_tree) (e0 :: e1 :: es)))) as L.
    destruct (sort_names (map (on_snd sort_tree) (e0 :: e1 :: es))) as [|a [|b r]]; cbn in L; try lia.
    cbn [map]. destruct (on_snd _ a) as [ka va]. destruct va; reflexivity.
Qed.

(** ** Metadata(path) on a v2 / hybrid metafile of the creators (directory payload) *)
Theorem own_v2_metadata o name es m :
  wf_node (Dir es) -> names_safe (Dir es) -> RMP.safe name -> not_single name es ->
  v2_capable_output H1 H256 B pl o name (Dir es) m ->
  exists x, RM.metadata_init m = Some x /\ RM.x_is_v2 x = true /\ RM.x_name x = name /\
            pl_of (RM.x_piece_length x) = Some pl /\
            RM.x_files x = map entry_of (files_of [name] (sort_tree (Dir es))).
Proof.
  intros Hwf Hs Sn NS Hm.
  destruct (v2_capable_shape H1 H256 B HB k pl Hpl o name _ m Hwf Hm) as ((meta & -> & Ei) & _ & En & Ep & Ev & Et & _).
  unfold info_get in En, Ep, Ev, Et. set (info := info_of (BDict meta)) in *.
  assert (Hwfs : wf_node (sort_tree (Dir es))) by (now apply wf_sort_tree).
  assert (Hss : names_safe (sort_tree (Dir es))) by (now apply names_safe_sort_tree).
  assert (PT : RM.parse_tree [name] (tree_spec H256 B pl (Dir es)) =
               Some (map entry_of (files_of [name] (sort_tree (Dir es))))).
  { unfold tree_spec. cbn [sort_tree] in *. cbn [tree_ord files_of]. apply parse_entries.
    apply wf_Dir in Hwfs as [_ Hc]. apply node_all_Dir in Hss as [Sns Sc].
    rewrite Forall_forall in *. intros e He ps. apply parse_val_tree; [now apply Hc | now apply Sc|].
    apply Sns. now apply in_map. }
  eexists. split; [|split; [|split; [|split]]].
  - unfold RM.metadata_init, RM.extract. change RM.RMKeys.rk_info with CheckPaths.CPKeys.ck_info. rewrite Ei. fold info.
    change RM.RMKeys.rk_piece_length with k_piece_length. change RM.RMKeys.rk_name with k_name. rewrite Ep, En.
    unfold RMP.safe in Sn. rewrite Sn. cbn [negb].
    change RM.RMKeys.rk_meta_version with k_meta_version. rewrite Ev.
    unfold RM.info_files. cbn [RM.is_two Z.eqb Pos.eqb].
    change RM.RMKeys.rk_file_tree with k_file_tree. rewrite Et. cbn [file_tree_value].
    unfold RM.v2_files. rewrite (single_leaf_dir name es Hwf NS), PT.
    unfold RM.x_is_v2. cbn [RM.x_meta_version RM.is_two Z.eqb Pos.eqb]. reflexivity.
  - reflexivity.
  - reflexivity.
  - cbn [RM.x_piece_length pl_of].
    pose proof (HasherV2Correct.pl_pos B HB k pl Hpl) as PP.
    destruct (Z.ltb_spec 0 (Z.of_nat pl)); [now rewrite Nat2Z.id | lia].
  - reflexivity.
Qed.

End OwnV2.

(** ** Content trees: the file paths of a well-formed tree are pairwise different and none lies under another *)
Lemma node_at_app : forall p t q,
  node_at t (p ++ q) = match node_at t p with Some u => node_at u q | None => None end.
Proof.
  induction p as [|c p IH]; intros t q; [reflexivity|]. cbn [app node_at].
  destruct t as [d|es]; [reflexivity|]. destruct (find_entry c es); [apply IH | reflexivity].
Qed.

Lemma files_functional u p d d' : wf_node u ->
  In (p, d) (files_of [] u) -> In (p, d') (files_of [] u) -> d = d'.
Proof.
  intros Hwf I I'. pose proof (node_at_file u Hwf p d I) as E. pose proof (node_at_file u Hwf p d' I') as E'. congruence.
Qed.

Lemma files_prefix_free u p d r d' : wf_node u ->
  In (p, d) (files_of [] u) -> In (p ++ r, d') (files_of [] u) -> r = [].
Proof.
  intros Hwf I I'. pose proof (node_at_file u Hwf p d I) as E. pose proof (node_at_file u Hwf _ d' I') as E'.
  rewrite node_at_app, E in E'. destruct r; [reflexivity | discriminate E'].
Qed.

(* the destination is fresh: nothing below it, and on the way to it only directories *)
Definition dest_fresh (f : fs) (dest : path) : Prop :=
  (forall q, proper_prefix dest q -> f q = None) /\
  (forall q, q <> [] -> prefix q dest -> f q = None \/ f q = Some CopyPath.Dir).

Lemma dest_fresh_way_free f dest es : dest_fresh f dest -> way_free dest es f.
Proof.
  intros [F1 F2] e q _ QN PP.
  destruct (prefix_of_target dest _ q (proper_prefix_prefix _ _ PP)) as [[l ->] | P].
  - destruct l as [|a l]; [rewrite app_nil_r in *; apply F2; [exact QN | apply prefix_refl]|].
    left. apply F1. exists (a :: l). split; [discriminate | reflexivity].
  - apply F2; [exact QN | now apply proper_prefix_prefix].
Qed.

Lemma last_cons_default {A} (a : A) l d : last (a :: l) d = last l a.
Proof. revert a. induction l as [|b l IH]; intros a; [reflexivity|]. cbn [last] in *. destruct l; [reflexivity | apply IH]. Qed.

Section OwnRebuildV2.
Variable H1 H256 : bytes -> bytes.
Variable B : nat.
Hypothesis HB : 0 < B.
Variable k pl : nat.
Hypothesis Hpl : pl = B * 2 ^ k.

(* the search directories hold an intact copy of every file of the tree that has bytes, indexed under
   the file's name (the torrent's name for a single file) *)
Definition own_intact (fm : filemap) (name : bytes) (t : node) : Prop :=
  forall p d, In (p, d) (files_of [] t) -> d <> [] -> exists l, indexed fm (RM.text (last p name)) (l, d).

(* whatever else is indexed under a file's name has another size, or is the file *)
Definition own_clean (fm : filemap) (name : bytes) (t : node) : Prop :=
  forall p d c, In (p, d) (files_of [] t) -> indexed fm (RM.text (last p name)) c ->
                length (snd c) = length d -> snd c = d.

Lemma in_own_entries name u e : In e (map (entry_of H256 B) (files_of [name] u)) ->
  exists p d, In (p, d) (files_of [] u) /\ e = entry_of H256 B (name :: p, d).
Proof.
  rewrite files_of_rel, map_map. intros I. apply in_map_iff in I as ([p d] & <- & I). now exists p, d.
Qed.

(** C13, composition (v2 and hybrid creators, directory payload): from the metafile the creators
    wrote for the tree, with an intact copy of every non-empty file indexed and a fresh destination,
    rebuild returns and every non-empty file of the tree is at dest/name/<path> with its bytes.
    Zero-length files are NOT placed by the v2 route (C13_v2_empty_file_not_placed) and are excluded. *)
Theorem own_metafiles_rebuild_v2 o name es m dsize dest fm f :
  wf_node (Dir es) -> names_safe (Dir es) -> RMP.safe name -> not_single name es ->
  v2_capable_output H1 H256 B pl o name (Dir es) m ->
  filemap_reflects f fm -> dest_disjoint dest fm -> dest_fresh f dest ->
  own_intact fm name (Dir es) -> own_clean fm name (Dir es) ->
  exists g, rebuild_of_metafile H1 H256 B dsize dest fm m f = Some (Ok g) /\
  forall p d, In (p, d) (files_of [] (Dir es)) -> d <> [] ->
              g (dest ++ map RM.text (name :: p)) = Some (CopyPath.File d).
Proof.
  intros Hwf Hs Sn NS Hm REFL DISJ FR IC CL.
  destruct (own_v2_metadata H1 H256 B HB k pl Hpl o name es m Hwf Hs Sn NS Hm) as (x & M & V & _ & P & XF).
  set (u := sort_tree (Dir es)) in *.
  assert (Hwfu : wf_node u) by (now apply wf_sort_tree).
  assert (TO : forall p d, In (p, d) (files_of [] u) <-> In (p, d) (files_of [] (Dir es))).
  { intros p d. split; apply Permutation_in; [|apply Permutation_sym]; apply files_of_sort_tree. }
  assert (EC : entries_consistent (RM.x_files x)).
  { rewrite XF. intros e e' Ie Ie' (r & RN & E).
    apply in_own_entries in Ie as (p & d & I & ->). apply in_own_entries in Ie' as (p' & d' & I' & ->).
    cbn [entry_of RM.e_full fst] in E. apply map_eq_app in E as (a & b & Eab & Ea & Eb).
    apply map_text_inj in Ea. subst a. destruct b as [|b0 b]; [subst r; contradiction|].
    injection Eab as Eab. rewrite Eab in I'.
    pose proof (files_prefix_free u p d (b0 :: b) d' Hwfu I I') as X. discriminate X. }
  assert (UQ : forall e e', In e (RM.x_files x) -> In e' (RM.x_files x) -> RM.e_full e' = RM.e_full e -> e' = e).
  { rewrite XF. intros e e' Ie Ie' E.
    apply in_own_entries in Ie as (p & d & I & ->). apply in_own_entries in Ie' as (p' & d' & I' & ->).
    cbn [entry_of RM.e_full fst] in E. injection E as ->. now rewrite (files_functional u p d d' Hwfu I I'). }
  destruct (rebuild_of_metafile_restores_v2 H1 H256 B HB dsize dest fm m x k pl f M V P Hpl REFL DISJ
              (dest_fresh_way_free f dest _ FR) EC UQ) as (g & R & A).
  exists g. split; [exact R|]. intros p d I Dn.
  set (e := entry_of H256 B (name :: p, d)).
  assert (Ie : In e (RM.x_files x)).
  { rewrite XF, files_of_rel, map_map. apply in_map_iff. exists (p, d). split; [reflexivity | now apply TO]. }
  assert (FN : RM.text (RM.e_filename e) = RM.text (last p name)) by (unfold e; cbn [entry_of RM.e_filename fst]; now rewrite last_cons_default).
  assert (TG : target dest e = dest ++ map RM.text (name :: p)) by reflexivity.
  rewrite <- TG.
  destruct (A e Ie) as [_ A2].
  - destruct (IC p d I Dn) as [l X]. exists (l, d). rewrite FN. split; [exact X|].
    apply RMP.intact_copy_verifies; [exact Dn | reflexivity|].
    unfold e. cbn [entry_of RM.e_root snd]. unfold root_val. destruct d; [contradiction | reflexivity].
  - left. apply (proj1 FR). rewrite TG. exists (map RM.text (name :: p)). split; [discriminate | reflexivity].
  - apply A2. intros c X (Len & _). rewrite FN in X. apply (CL p d c I X).
    unfold e in Len. cbn [entry_of RM.e_length snd] in Len. now apply Nat2Z.inj.
Qed.

End OwnRebuildV2.

(** ** The v1 creator (no --align, directory payload) *)

Lemma NoDup_app_intro {A} (a b : list A) : NoDup a -> NoDup b -> (forall x, In x a -> ~ In x b) -> NoDup (a ++ b).
Proof.
  induction 1 as [|x a Hx _ IH]; intros Nb D; [exact Nb|]. cbn [app]. constructor.
  - intros I. apply in_app_or in I as [I | I]; [contradiction | apply (D x); [now left | exact I]].
  - apply IH; [exact Nb|]. intros y Iy. apply D. now right.
Qed.

Lemma files_paths_NoDup t : wf_node t -> NoDup (map fst (files_of [] t)).
Proof.
  induction t as [d|es IH] using node_ind'; intros Hwf; [repeat constructor; intros []|].
  apply wf_Dir in Hwf as [[Hn _] Hc]. cbn [files_of].
  induction es as [|e es IHes]; [constructor|].
  inversion IH as [|x l He Hes]; subst. inversion Hc as [|x l Hce Hces]; subst.
  cbn [map] in Hn. inversion Hn as [|x l Hx Hl]; subst.
  cbn [flat_map app]. rewrite map_app. apply NoDup_app_intro.
  - rewrite files_of_rel, map_map. cbn [fst app].
    rewrite <- (map_map fst (fun p => fst e :: p)). apply FinFun.Injective_map_NoDup; [|now apply He].
    intros a b E. now injection E.
  - now apply IHes.
  - intros p Ip Ip'. rewrite files_of_rel, map_map in Ip. apply in_map_iff in Ip as (f0 & <- & _). cbn [fst app] in Ip'.
    apply in_map_iff in Ip' as ([p' d'] & E & I'). cbn [fst] in E. apply in_flat_map in I' as (e' & Ie' & I').
    rewrite files_of_rel in I'. apply in_map_iff in I' as (f1 & E1 & _). cbn [app] in E1. injection E1 as E1 _.
    rewrite <- E1 in E. cbn [app] in E. injection E as E0 _. apply Hx. rewrite <- E0. now apply in_map.
Qed.

Lemma files_names_safe t : names_safe t -> forall p d, In (p, d) (files_of [] t) -> Forall RMP.safe p.
Proof.
  induction t as [d0|es IH] using node_ind'; intros Hs p d I.
  - destruct I as [[= <- <-] | []]. constructor.
  - apply node_all_Dir in Hs as [Sn Sc]. apply files_of_Dir_in in I as (e & p' & Ie & -> & I).
    rewrite Forall_forall in IH, Sc, Sn. constructor; [apply Sn; now apply in_map | now apply (IH e Ie (Sc e Ie) p' d)].
Qed.

Section OwnRebuildV1.
Variable H1 H256 : bytes -> bytes.
Variable B : nat.
Hypothesis H1_len : forall x, length (H1 x) = 20.

(* the entry of Metadata.files for the file (relative components, bytes) of a v1 file list *)
Definition entry1_of (name : bytes) (f : list bytes * bytes) : RM.entry :=
  RM.mk_entry (removelast (name :: fst f)) (name :: fst f) (last (fst f) []) (Z.of_nat (length (snd f))) None.

(** Metadata(path) on a v1 metafile of the creators: the files in the creator's enumeration order, the
    recorded digests those of the BEP 3 pieces of their concatenation *)
Theorem own_v1_metadata o rootstr name pl es :
  0 < pl -> wf_node (Dir es) -> has_file (Dir es) -> names_safe (Dir es) -> RMP.safe name ->
  let m := create_v1 H1 false o rootstr name pl (Dir es) in
  let fl := snd (filelist_total rootstr (Dir es)) in
  exists x s, RM.metadata_init m = Some x /\ RM.x_is_v2 x = false /\ pl_of (RM.x_piece_length x) = Some pl /\
    RM.x_pieces x = BStr s /\ chunks 20 s = map H1 (chunks pl (concat (map snd fl))) /\
    RM.x_files x = map (entry1_of name) fl /\ Permutation fl (files_of [] (Dir es)).
Proof.
  intros Hpl Hwf Hf Hs Sn m fl.
  destruct (create_v1_reads_info H1 false o rootstr name pl (Dir es)) as (meta & Em & Ei). fold m in Em, Ei.
  destruct (create_v1_name_piece_length H1 false o rootstr name pl (Dir es)) as [En Ep]. cbv zeta in En, Ep. fold m in En, Ep.
  pose proof (create_v1_no_meta_version H1 false o rootstr name pl (Dir es)) as Ev. fold m in Ev.
  destruct (create_v1_dir_files H1 o rootstr name pl es) as (Hp & Ef & El & _). cbv zeta in Hp, Ef, El. fold m in Ef, El. fold fl in Hp, Ef.
  destruct (own_v1_recorded_digests H1 H1_len o rootstr name pl es Hpl Hf) as (s & Es & Cut). cbv zeta in Es, Cut. fold m in Es. fold fl in Cut.
  unfold info_get in En, Ep, Ev, Ef, El. set (info := info_of m) in *.
  assert (VE : RM.v1_entries name (map (fun f => file_entry (fst f) (length (snd f))) fl) = Some (map (entry1_of name) fl)).
  { pose proof (RMP.v1_entries_accepts name (fun _ => []) (map (fun f => (fst f, Z.of_nat (length (snd f)))) fl)) as A.
    rewrite !map_map in A. cbn [fst snd] in A. apply A. apply Forall_map, Forall_forall. intros [p d] I. cbn [fst].
    pose proof (filelist_dir_paths_nonempty rootstr es) as NE. rewrite Forall_forall in NE. split; [apply (NE _ I)|].
    apply (files_names_safe (Dir es) Hs p d). now apply (Permutation_in _ Hp). }
  exists (RM.mk_x name (BInt (Z.of_nat pl)) (BInt 1) (BStr s) false (map (entry1_of name) fl)), s.
  split; [|split; [reflexivity | split; [|split; [reflexivity | split; [exact Cut | split; [reflexivity | exact Hp]]]]]].
  - unfold RM.metadata_init, RM.extract. rewrite Em. change RM.RMKeys.rk_info with CheckPaths.CPKeys.ck_info. rewrite Ei. fold info.
    change RM.RMKeys.rk_piece_length with k_piece_length. change RM.RMKeys.rk_name with k_name. rewrite Ep, En.
    unfold RMP.safe in Sn. rewrite Sn. cbn [negb].
    change RM.RMKeys.rk_meta_version with k_meta_version. rewrite Ev.
    change RM.RMKeys.rk_pieces with CheckPaths.CPKeys.ck_pieces. rewrite Es.
    unfold RM.info_files. cbn [RM.is_two Z.eqb]. unfold RM.v1_files.
    change RM.RMKeys.rk_length with k_length. rewrite El.
    change RM.RMKeys.rk_files with k_files. rewrite Ef. cbn [RM.files_items]. rewrite VE. reflexivity.
  - cbn [RM.x_piece_length pl_of]. destruct (Z.ltb_spec 0 (Z.of_nat pl)); [now rewrite Nat2Z.id | lia].
Qed.

(* an intact copy of EVERY file of the tree (the empty ones too: the v1 search needs a candidate for
   an empty file that lies inside a piece) *)
Definition own_intact_all (fm : filemap) (name : bytes) (t : node) : Prop :=
  forall p d, In (p, d) (files_of [] t) -> exists l, indexed fm (RM.text (last p name)) (l, d).

(** C13, composition (v1 creator, no --align, directory payload).  `_partial`: [own_clean] (every
    candidate of a file's name and size IS the file) stands in for candidates_clean_run, which it
    implies; --align and single-file payloads are not covered. *)
Theorem own_metafiles_rebuild_v1_partial o rootstr name pl es dsize dest fm f :
  0 < pl -> wf_node (Dir es) -> has_file (Dir es) -> names_safe (Dir es) -> RMP.safe name ->
  filemap_reflects f fm -> dest_disjoint dest fm -> dest_fresh f dest ->
  own_intact_all fm name (Dir es) -> own_clean fm name (Dir es) ->
  exists g, rebuild_of_metafile H1 H256 B dsize dest fm (create_v1 H1 false o rootstr name pl (Dir es)) f = Some (Ok g) /\
  forall p d, In (p, d) (files_of [] (Dir es)) -> d <> [] ->
              g (dest ++ map RM.text (name :: p)) = Some (CopyPath.File d).
Proof.
  intros Hpl Hwf Hf Hs Sn REFL DISJ FR IC CL.
  destruct (own_v1_metadata o rootstr name pl es Hpl Hwf Hf Hs Sn) as (x & s & M & V & P & Ps & Cut & XF & Hp).
  cbv zeta in *. set (m := create_v1 H1 false o rootstr name pl (Dir es)) in *.
  set (fl := snd (filelist_total rootstr (Dir es))) in *.
  set (files := map vfile_of (RM.x_files x)). set (trues := map snd fl).
  destruct (metafile_entries m x M) as [VALID _].
  assert (INF : forall f0, In f0 fl -> In (fst f0, snd f0) (files_of [] (Dir es))).
  { intros [p d] I. now apply (Permutation_in _ Hp). }
  assert (NEp : forall f0, In f0 fl -> fst f0 <> []).
  { pose proof (filelist_dir_paths_nonempty rootstr es) as NE. rewrite Forall_forall in NE. exact NE. }
  assert (NTH : forall j, j < length fl -> In (nth j fl ([], [])) fl /\
            nth j files dfile = vfile_of (entry1_of name (nth j fl ([], []))) /\ nth j trues [] = snd (nth j fl ([], []))).
  { intros j Hj. split; [now apply nth_In|]. split.
    - unfold files. rewrite XF, map_map.
      rewrite (nth_indep _ dfile (vfile_of (entry1_of name ([], [])))) by (now rewrite map_length).
      apply (map_nth (fun f0 => vfile_of (entry1_of name f0))).
    - unfold trues. apply (map_nth snd fl ([], []) j). }
  assert (LF : length files = length fl) by (unfold files; now rewrite XF, !map_length).
  assert (NN : Forall (fun e => (0 <= RM.e_length e)%Z) (RM.x_files x)).
  { rewrite XF. apply Forall_map, Forall_forall. intros f0 _. cbn. lia. }
  assert (LEN : map (@length ascii) trues = map vf_length files).
  { unfold trues, files. rewrite XF, !map_map. apply map_ext. intros f0. cbn. now rewrite Nat2Z.id. }
  assert (LASTN : forall p : list bytes, p <> [] -> @last bytes p ([] : bytes) = @last bytes p name).
  { intros p NE. destruct p as [|a p]; [contradiction|]. now rewrite !last_cons_default. }
  assert (ICr : intact_copies fm files trues).
  { intros j Hj. rewrite LF in Hj. destruct (NTH j Hj) as (I & -> & ->). cbn [vfile_of entry1_of vf_filename RM.e_filename].
    destruct (IC _ _ (INF _ I)) as [l X]. exists l. rewrite <- (LASTN _ (NEp _ I)) in X. exact X. }
  assert (CLr : candidates_clean_run H1 fm pl files trues).
  { intros j c Hj X Len. left. rewrite LF in Hj. destruct (NTH j Hj) as (I & E1 & E2). rewrite E1 in X, Len. rewrite E2.
    cbn [vfile_of entry1_of vf_filename vf_length RM.e_filename RM.e_length] in X, Len. rewrite Nat2Z.id in Len.
    apply (CL (fst (nth j fl ([], []))) _ c (INF _ I)); [|exact Len]. rewrite <- (LASTN _ (NEp _ I)). exact X. }
  assert (INE : forall e, In e (RM.x_files x) -> exists p d, In (p, d) (files_of [] (Dir es)) /\ e = entry1_of name (p, d)).
  { rewrite XF. intros e I. apply in_map_iff in I as ([p d] & <- & I). exists p, d. split; [now apply (INF (p, d)) | reflexivity]. }
  assert (EC : entries_consistent (RM.x_files x)).
  { intros e e' Ie Ie' (r & RN & E). apply INE in Ie as (p & d & I & ->). apply INE in Ie' as (p' & d' & I' & ->).
    cbn [entry1_of RM.e_full fst] in E. apply map_eq_app in E as (a & b & Eab & Ea & Eb).
    apply map_text_inj in Ea. subst a. destruct b as [|b0 b]; [subst r; contradiction|].
    injection Eab as Eab. rewrite Eab in I'. pose proof (files_prefix_free _ p d (b0 :: b) d' Hwf I I') as X. discriminate X. }
  assert (UQ : forall e e', In e (RM.x_files x) -> In e' (RM.x_files x) -> RM.e_full e' = RM.e_full e -> e' = e).
  { intros e e' Ie Ie' E. apply INE in Ie as (p & d & I & ->). apply INE in Ie' as (p' & d' & I' & ->).
    cbn [entry1_of RM.e_full fst] in E. injection E as ->. now rewrite (files_functional _ p d d' Hwf I I'). }
  assert (ND : NoDup (RM.x_files x)).
  { rewrite XF. apply (NoDup_map_inv (fun e => tl (RM.e_full e))). rewrite map_map. cbn [entry1_of RM.e_full tl].
    apply (Permutation_NoDup (Permutation_sym (Permutation_map fst Hp))). now apply files_paths_NoDup. }
  pose proof (files_ok_of_entries _ VALID EC UQ ND) as FO. fold files in FO.
  assert (WF : v1_way_free dest files f).
  { intros j q Hj QN PP. destruct FR as [F1 F2].
    destruct (prefix_of_target dest _ q (proper_prefix_prefix _ _ PP)) as [[l ->] | Pq].
    - destruct l as [|a l]; [rewrite app_nil_r in *; apply F2; [exact QN | apply prefix_refl]|].
      left. apply F1. exists (a :: l). split; [discriminate | reflexivity].
    - apply F2; [exact QN | now apply proper_prefix_prefix]. }
  destruct (rebuild_of_metafile_restores_v1_partial H1 H256 B dsize dest fm m x pl s trues f M V P Ps NN H1_len Cut LEN
              REFL DISJ ICr CLr FO WF) as (g & R & A).
  exists g. split; [exact R|]. intros p d I Dn.
  apply (Permutation_in _ (Permutation_sym Hp)) in I. destruct (In_nth _ _ ([], []) I) as (j & Hj & Ej).
  destruct (NTH j Hj) as (_ & E1' & E2').
  assert (E1 : nth j files dfile = vfile_of (entry1_of name (p, d))) by (etransitivity; [exact E1' | f_equal; f_equal; exact Ej]).
  assert (E2 : nth j trues [] = d) by (etransitivity; [exact E2' | exact (f_equal snd Ej)]).
  assert (Ie : In (entry1_of name (p, d)) (RM.x_files x)) by (rewrite XF; now apply in_map).
  rewrite Forall_forall in VALID. destruct (entry_parts _ (VALID _ Ie)) as [_ PE].
  specialize (A j). fold files in A. rewrite E1 in A. cbn [vfile_of vf_full vf_length RM.e_length entry1_of snd] in A.
  fold (entry1_of name (p, d)) in A. rewrite PE in A. cbn [entry1_of RM.e_full fst] in A. rewrite <- E2. apply A.
  - now rewrite LF.
  - rewrite Nat2Z.id. destruct d; [contradiction | cbn; lia].
  - left. apply (proj1 FR). exists (map RM.text (name :: p)). split; [discriminate | reflexivity].
Qed.

End OwnRebuildV1.

(* ================================================================================================ *)
(** * 4. Examples: the creators' example tree (toy hashes of the right lengths, B = 2, pl = 4)       *)
(* ================================================================================================ *)
Module RebuildEndToEndExamples.
Import CreatorsExamples CreatorsProofsExamples CreatorsProofs2Examples RebuildRunExamples.
Import String.
Local Open Scope string_scope.

(* search directory S: the four files of r/ scattered, a shorter b beside the intact one *)
Definition ex_fm : filemap :=
  [ ("b", [("S/x/b", bs "01234"); ("S/b", bs "0123456789")]); ("a.txt", [("S/a.txt", bs "xyz")]);
    ("z", [("S/q/z", bs "hello")]); ("e", [("S/e", [])]) ].
Definition ex_fs : fs :=
  fs_of_list [ (["S"], CopyPath.Dir); (["S"; "x"], CopyPath.Dir); (["S"; "x"; "b"], CopyPath.File (bs "01234"));
               (["S"; "b"], CopyPath.File (bs "0123456789")); (["S"; "a.txt"], CopyPath.File (bs "xyz"));
               (["S"; "q"], CopyPath.Dir); (["S"; "q"; "z"], CopyPath.File (bs "hello")); (["S"; "e"], CopyPath.File []);
               (["r.torrent"], CopyPath.File (bs "d...e")) ].
Definition ex_probe (f : fs) : list (option CopyPath.node) :=
  map f [ ["out"]; ["out"; "r"]; ["out"; "r"; "b"]; ["out"; "r"; "a.txt"]; ["out"; "r"; "a"]; ["out"; "r"; "a"; "z"];
          ["out"; "r"; "a"; "e"]; ["S"; "b"]; ["r.torrent"] ].
Definition ex_result (r : option result) : option (bool * list (option CopyPath.node)) :=
  match r with
  | Some (Ok g) => Some (true, ex_probe g)
  | Some (Raised g) => Some (false, ex_probe g)
  | None => None
  end.

(* the v2 creator's metafile: the three files with bytes arrive, the empty one is not placed *)
Example ex_rebuild_own_v2 :
  ex_result (rebuild_of_metafile X1 X256 2 4 ["out"] ex_fm (create_v2_class X256 2 ex_opts (bs "r") 4 ex_tree) ex_fs) =
  Some (true, [Some CopyPath.Dir; Some CopyPath.Dir; Some (CopyPath.File (bs "0123456789")); Some (CopyPath.File (bs "xyz"));
               Some CopyPath.Dir; Some (CopyPath.File (bs "hello")); None;
               Some (CopyPath.File (bs "0123456789")); Some (CopyPath.File (bs "d...e"))]).
Proof. vm_compute. reflexivity. Qed.

(* the hybrid creator's metafile is read by the v2 route: same result *)
Example ex_rebuild_own_hybrid :
  ex_result (rebuild_of_metafile X1 X256 2 4 ["out"] ex_fm (create_hybrid_class X1 X256 2 ex_opts (bs "r") 4 ex_tree) ex_fs) =
  ex_result (rebuild_of_metafile X1 X256 2 4 ["out"] ex_fm (create_v2_class X256 2 ex_opts (bs "r") 4 ex_tree) ex_fs).
Proof. vm_compute. reflexivity. Qed.

(* the v1 creator's metafile: all four files, the empty one included (it lies inside piece 0) *)
Example ex_rebuild_own_v1 :
  ex_result (rebuild_of_metafile X1 X256 2 4 ["out"] ex_fm (create_v1 X1 false ex_opts (bs "r") (bs "r") 4 ex_tree) ex_fs) =
  Some (true, [Some CopyPath.Dir; Some CopyPath.Dir; Some (CopyPath.File (bs "0123456789")); Some (CopyPath.File (bs "xyz"));
               Some CopyPath.Dir; Some (CopyPath.File (bs "hello")); Some (CopyPath.File []);
               Some (CopyPath.File (bs "0123456789")); Some (CopyPath.File (bs "d...e"))]).
Proof. vm_compute. reflexivity. Qed.

(* a directory holding ONE file named like the torrent is read as a single-file torrent: the file goes
   to out/r, not out/r/r (BEP 52 file trees cannot tell the two apart; the reason for [not_single]) *)
Example ex_single_named_like_torrent :
  let m := create_v2_class X256 2 ex_opts (bs "r") 4 (Dir [(bs "r", File (bs "hello"))]) in
  option_map (fun r => map (fs_of r) [ ["out"; "r"]; ["out"; "r"; "r"] ])
             (rebuild_of_metafile X1 X256 2 4 ["out"] [("r", [("S/r", bs "hello")])] m
                (fs_of_list [ (["S"], CopyPath.Dir); (["S"; "r"], CopyPath.File (bs "hello")) ])) =
  Some [Some (CopyPath.File (bs "hello")); None].
Proof. vm_compute. reflexivity. Qed.

(* the hypotheses of own_metafiles_rebuild_v2 hold of the example *)
Example ex_own_v2_hypotheses :
  names_safe ex_tree /\ RMP.safe (bs "r") /\ (forall es, ex_tree = Dir es -> not_single (bs "r") es) /\
  filemap_reflects ex_fs ex_fm /\ dest_disjoint ["out"] ex_fm /\ dest_fresh ex_fs ["out"] /\
  own_intact ex_fm (bs "r") ex_tree /\ own_clean ex_fm (bs "r") ex_tree.
Proof.
  split; [|split; [|split; [|split; [|split; [|split; [|split]]]]]].
  - unfold names_safe, ex_tree. cbn. repeat split; repeat constructor.
  - reflexivity.
  - intros es [= <-] d. discriminate.
  - intros name l data X.
    repeat (apply indexed_cons in X as [(-> & I) | X];
            [cbn [In] in I; repeat (destruct I as [[= <- <-] | I]; [vm_compute; split; reflexivity|]); destruct I|]).
    now apply indexed_nil in X.
  - intros name l data X (r & E).
    repeat (apply indexed_cons in X as [(-> & I) | X];
            [cbn [In] in I; repeat (destruct I as [[= <- <-] | I]; [vm_compute in E; discriminate E|]); destruct I|]).
    now apply indexed_nil in X.
  - split.
    + intros q (r & RN & ->). destruct r as [|a r]; [contradiction|]. reflexivity.
    + intros q QN (r & E). destruct q as [|a [|b q]]; [contradiction | | discriminate E].
      injection E as <- _. left. reflexivity.
  - intros p d I Dn. vm_compute in I.
    destruct I as [[= <- <-] | [[= <- <-] | [[= <- <-] | [[= <- <-] | []]]]]; try contradiction.
    + exists "S/b". eexists. split; [reflexivity|]. right. now left.
    + exists "S/a.txt". eexists. split; [reflexivity|]. now left.
    + exists "S/q/z". eexists. split; [reflexivity|]. now left.
  - intros p d c I X Len. vm_compute in I.
    destruct I as [[= <- <-] | [[= <- <-] | [[= <- <-] | [[= <- <-] | []]]]];
    (match type of X with indexed _ ?n _ => let n' := eval vm_compute in n in change n with n' in X end); unfold ex_fm in X;
    repeat (apply indexed_cons in X as [(E & I) | X];
            [try discriminate E; cbn [In] in I;
             repeat (destruct I as [<- | I]; [try discriminate Len; try reflexivity|]); try destruct I|]);
    try (now apply indexed_nil in X).
Qed.

(* ... so the theorem applies *)
Example ex_own_v2_theorem :
  exists g, rebuild_of_metafile X1 X256 2 4 ["out"] ex_fm (create_v2_class X256 2 ex_opts (bs "r") 4 ex_tree) ex_fs = Some (Ok g) /\
            g ["out"; "r"; "a"; "z"] = Some (CopyPath.File (bs "hello")).
Proof.
  destruct ex_own_v2_hypotheses as (NS & SN & NSg & R & D & FR & IC & CL).
  destruct (own_metafiles_rebuild_v2 X1 X256 2 HB2 1 4 eq_refl ex_opts (bs "r") _ _ 4 ["out"] ex_fm ex_fs
              ex_tree_wf NS SN (NSg _ eq_refl) (or_introl (out_v2_class X1 X256 2 4 ex_opts (bs "r") ex_tree))
              R D FR IC CL) as (g & Rg & A).
  exists g. split; [exact Rg|]. apply (A [bs "a"; bs "z"] (bs "hello")); [|discriminate].
  vm_compute. right. right. now left.
Qed.
End RebuildEndToEndExamples.

Print Assumptions rebuild_of_metafile_writes_verified_copies.
Print Assumptions rebuild_of_metafile_inside_destination.
Print Assumptions target_is_resolved.
Print Assumptions rebuild_of_metafile_outside_untouched.
Print Assumptions rebuild_of_metafile_restores_v2.
Print Assumptions rebuild_of_metafile_restores_v1_partial.
Print Assumptions files_ok_of_entries.
Print Assumptions candidates_clean_run_of_pieces.
Print Assumptions own_v2_metadata.
Print Assumptions own_metafiles_rebuild_v2.
Print Assumptions own_v1_metadata.
Print Assumptions own_metafiles_rebuild_v1_partial.
Print Assumptions RebuildEndToEndExamples.ex_own_v2_hypotheses.
Print Assumptions RebuildEndToEndExamples.ex_own_v2_theorem.
