(* Correctness of the v1 piece hasher model (Model/Hasher.v):
   - non-align mode hashes exactly the BEP 3 pieces  chunks pl (concat files);
   - align mode hashes exactly the pieces of the per-file zero-padded stream;
   - the file-entry list written by TorrentFile.assemble describes that same stream. *)
From Coq Require String.
From TF Require Import Lib.Base Lib.Chunks Model.Hasher.

(* ------------------------------------------------------------------------- *)
(* Specification-level vocabulary                                            *)
(* ------------------------------------------------------------------------- *)

(* everything the iterator has not read yet *)
Definition remaining (st : state) : bytes := fst st ++ concat (snd st).

(* a file followed by zeros up to the next multiple of pl (nothing if already there) *)
Definition pad_to (pl : nat) (f : bytes) : bytes := f ++ zeros ((pl - length f mod pl) mod pl).

Definition remaining_al (pl : nat) (st : state) : bytes :=
  pad_to pl (fst st) ++ concat (map (pad_to pl) (snd st)).

(* the byte stream described by an entry list: the next file for a non-pad entry,
   zeros for a pad entry *)
Fixpoint stream_of_entries (es : list entry) (files : list bytes) : bytes :=
  match es with
  | [] => []
  | (true, n) :: es' => zeros n ++ stream_of_entries es' files
  | (false, _) :: es' =>
      match files with
      | [] => []
      | f :: fs => f ++ stream_of_entries es' fs
      end
  end.

Definition entries_total (es : list entry) : nat := list_sum (map snd es).

(* ------------------------------------------------------------------------- *)
(* The model's inlined `match rest` is next_file                              *)
(* ------------------------------------------------------------------------- *)

Lemma handle_partial_loop_eq pl rest cur arr :
  handle_partial_loop pl rest cur arr =
  if length arr <? pl then
    match next_file (cur, rest) with
    | None => (arr, (cur, rest))
    | Some (f, rest') =>
        let target := pl - length arr in
        if length (firstn target f) =? target
        then (arr ++ firstn target f, (skipn target f, rest'))
        else handle_partial_loop pl rest' (skipn target f) (arr ++ firstn target f)
    end
  else (arr, (cur, rest)).
Proof. destruct rest; reflexivity. Qed.

Lemma next_loop_eq align pl rest cur :
  next_loop align pl rest cur =
  if length (firstn pl cur) =? 0 then
    match next_file (skipn pl cur, rest) with
    | None => None
    | Some (f, rest') => next_loop align pl rest' f
    end
  else if length (firstn pl cur) <? pl
       then Some (handle_partial align pl (firstn pl cur) (skipn pl cur, rest))
       else Some (firstn pl cur, (skipn pl cur, rest)).
Proof. destruct rest; reflexivity. Qed.

Lemma next_loop_nil align pl rest :
  0 < pl ->
  next_loop align pl rest [] =
  match rest with [] => None | f :: rest' => next_loop align pl rest' f end.
Proof.
  intros Hpl. destruct rest; cbn [next_loop]; rewrite firstn_nil; reflexivity.
Qed.

Lemma next_loop_short align pl rest cur :
  0 < length cur -> length cur < pl ->
  next_loop align pl rest cur = Some (handle_partial align pl cur ([], rest)).
Proof.
  intros H0 Hlt. rewrite next_loop_eq.
  rewrite firstn_all2 by lia. rewrite skipn_all2 by lia.
  destruct (Nat.eqb_spec (length cur) 0) as [E|_]; [lia|].
  destruct (Nat.ltb_spec (length cur) pl) as [_|Hge]; [reflexivity|lia].
Qed.

Lemma next_loop_full align pl rest cur :
  0 < pl -> pl <= length cur ->
  next_loop align pl rest cur = Some (firstn pl cur, (skipn pl cur, rest)).
Proof.
  intros Hpl Hge. rewrite next_loop_eq.
  assert (L : length (firstn pl cur) = pl) by (rewrite firstn_length; lia).
  rewrite L.
  destruct (Nat.eqb_spec pl 0) as [E|_]; [lia|].
  destruct (Nat.ltb_spec pl pl) as [Hlt|_]; [lia|reflexivity].
Qed.

(* ------------------------------------------------------------------------- *)
(* 1. non-align mode: BEP 3                                                   *)
(* ------------------------------------------------------------------------- *)

(* _handle_partial entered with a short arr and an exhausted current file *)
Lemma handle_partial_loop_spec pl :
  0 < pl -> forall rest arr, length arr < pl ->
  forall arr' st', handle_partial_loop pl rest [] arr = (arr', st') ->
    arr' ++ remaining st' = arr ++ concat rest /\
    (length arr' = pl \/ (length arr' < pl /\ remaining st' = [])) /\
    length arr <= length arr'.
Proof.
  intros Hpl. induction rest as [|f rest IH]; intros arr Harr arr' st' E;
    cbn [handle_partial_loop] in E;
    (destruct (Nat.ltb_spec (length arr) pl) as [_|Hge]; [|lia]).
  - injection E as <- <-. unfold remaining. cbn [fst snd concat app].
    repeat split; [right; split; [assumption|reflexivity] | lia].
  - cbv zeta in E.
    destruct (Nat.eqb_spec (length (firstn (pl - length arr) f)) (pl - length arr)) as [Eq|Ne].
    + injection E as <- <-. unfold remaining. cbn [fst snd concat].
      repeat split.
      * rewrite <- app_assoc. f_equal. rewrite app_assoc, firstn_skipn. reflexivity.
      * left. rewrite app_length, Eq. lia.
      * rewrite app_length. lia.
    + rewrite firstn_length in Ne.
      assert (Hf : length f < pl - length arr) by lia.
      rewrite firstn_all2 in E by lia. rewrite skipn_all2 in E by lia.
      destruct (IH (arr ++ f)) with (arr' := arr') (st' := st') as (A & B & C);
        [rewrite app_length; lia | exact E |].
      repeat split.
      * rewrite A. cbn [concat]. rewrite app_assoc. reflexivity.
      * exact B.
      * rewrite app_length in C. lia.
Qed.

Lemma next_loop_noalign pl :
  0 < pl -> forall rest cur,
  match next_loop false pl rest cur with
  | None => cur ++ concat rest = []
  | Some (b, st') =>
      b ++ remaining st' = cur ++ concat rest /\ b <> [] /\
      (length b = pl \/ (length b < pl /\ remaining st' = []))
  end.
Proof.
  intros Hpl. induction rest as [|f rest IH]; intros cur.
  - (* last file *)
    destruct cur as [|c cur0] eqn:Ecur.
    + rewrite next_loop_nil by assumption. reflexivity.
    + rewrite <- Ecur. assert (Hpos : 0 < length cur) by (subst cur; cbn [length]; lia).
      destruct (le_lt_dec pl (length cur)) as [Hge|Hlt].
      * rewrite next_loop_full by assumption. unfold remaining. cbn [fst snd].
        rewrite app_assoc, firstn_skipn.
        assert (L : length (firstn pl cur) = pl) by (rewrite firstn_length; lia).
        repeat split; [|left; exact L].
        intros Hnil. rewrite Hnil in L. cbn [length] in L. lia.
      * rewrite next_loop_short by assumption. unfold handle_partial.
        cbn [fst snd].
        destruct (handle_partial_loop pl [] [] cur) as [arr' st'] eqn:E.
        destruct (handle_partial_loop_spec pl Hpl [] cur Hlt arr' st' E) as (A & B & C).
        repeat split; [exact A| |exact B].
        intros Hnil. rewrite Hnil in C. cbn [length] in C. lia.
  - destruct cur as [|c cur0] eqn:Ecur.
    + rewrite next_loop_nil by assumption. specialize (IH f).
      destruct (next_loop false pl rest f) as [[b st']|]; exact IH.
    + rewrite <- Ecur. assert (Hpos : 0 < length cur) by (subst cur; cbn [length]; lia).
      destruct (le_lt_dec pl (length cur)) as [Hge|Hlt].
      * rewrite next_loop_full by assumption. unfold remaining. cbn [fst snd].
        rewrite app_assoc, firstn_skipn.
        assert (L : length (firstn pl cur) = pl) by (rewrite firstn_length; lia).
        repeat split; [|left; exact L].
        intros Hnil. rewrite Hnil in L. cbn [length] in L. lia.
      * rewrite next_loop_short by assumption. unfold handle_partial.
        cbn [fst snd].
        destruct (handle_partial_loop pl (f :: rest) [] cur) as [arr' st'] eqn:E.
        destruct (handle_partial_loop_spec pl Hpl (f :: rest) cur Hlt arr' st' E) as (A & B & C).
        repeat split; [exact A| |exact B].
        intros Hnil. rewrite Hnil in C. cbn [length] in C. lia.
Qed.

(* any fuel above the number of unread bytes suffices *)
Lemma hasher_iter_noalign pl :
  0 < pl -> forall fuel st, length (remaining st) < fuel ->
  hasher_iter fuel false pl st = chunks pl (remaining st).
Proof.
  intros Hpl. induction fuel as [|fuel IH]; intros [cur rest] Hf; [lia|].
  cbn [hasher_iter]. unfold next. cbn [fst snd].
  pose proof (next_loop_noalign pl Hpl rest cur) as N.
  unfold remaining in Hf |- *. cbn [fst snd] in Hf |- *.
  destruct (next_loop false pl rest cur) as [[b st']|].
  - destruct N as (E & Hb & [Hl | [Hl Hr]]); rewrite <- E in Hf |- *; rewrite app_length in Hf.
    + rewrite chunks_app_exact by assumption. f_equal. apply IH. lia.
    + rewrite Hr in Hf |- *. rewrite app_nil_r. cbn [length] in Hf.
      assert (Hb' : 0 < length b) by (destruct b; [congruence|cbn [length]; lia]).
      rewrite chunks_short by (assumption || lia). f_equal.
      rewrite IH by (rewrite Hr; cbn [length]; lia).
      rewrite Hr. apply chunks_nil.
  - rewrite N. symmetry. apply chunks_nil.
Qed.

Lemma remaining_init files : remaining (init_state files) = concat files.
Proof. destruct files; reflexivity. Qed.

Lemma hasher_inputs_noalign_gen pl files :
  0 < pl -> hasher_inputs false pl files = chunks pl (concat files).
Proof.
  intros Hpl. unfold hasher_inputs.
  rewrite hasher_iter_noalign by (assumption || (rewrite remaining_init; lia)).
  rewrite remaining_init. reflexivity.
Qed.

(* MAIN 1 (files <> [] is the Python precondition; the proof does not need it) *)
Theorem hasher_inputs_noalign pl files :
  0 < pl -> files <> [] -> hasher_inputs false pl files = chunks pl (concat files).
Proof. intros Hpl _. apply hasher_inputs_noalign_gen; assumption. Qed.

(* ------------------------------------------------------------------------- *)
(* 2. align mode                                                              *)
(* ------------------------------------------------------------------------- *)

Lemma pad_to_nil pl : 0 < pl -> pad_to pl [] = [].
Proof.
  intros Hpl. unfold pad_to. cbn [length app].
  rewrite Nat.mod_0_l by lia. rewrite Nat.sub_0_r, Nat.mod_same by lia. reflexivity.
Qed.

Lemma pad_to_short pl f :
  0 < length f -> length f < pl -> pad_to pl f = f ++ zeros (pl - length f).
Proof.
  intros H0 Hlt. unfold pad_to. rewrite (Nat.mod_small (length f)) by lia.
  rewrite Nat.mod_small by lia. reflexivity.
Qed.

Lemma sub_mod_same n pl : 0 < pl -> pl <= n -> (n - pl) mod pl = n mod pl.
Proof.
  intros Hpl Hle. rewrite <- (Nat.mod_add (n - pl) 1 pl) by lia. f_equal. lia.
Qed.

Lemma pad_to_long pl f :
  0 < pl -> pl <= length f -> pad_to pl f = firstn pl f ++ pad_to pl (skipn pl f).
Proof.
  intros Hpl Hle. unfold pad_to. rewrite skipn_length, sub_mod_same by assumption.
  rewrite app_assoc, firstn_skipn. reflexivity.
Qed.

Lemma next_loop_align pl :
  0 < pl -> forall rest cur,
  match next_loop true pl rest cur with
  | None => remaining_al pl (cur, rest) = []
  | Some (b, st') =>
      length b = pl /\ b ++ remaining_al pl st' = remaining_al pl (cur, rest) /\
      length (remaining st') < length (remaining (cur, rest))
  end.
Proof.
  intros Hpl.
  assert (NE : forall rest cur, 0 < length cur ->
    match next_loop true pl rest cur with
    | None => remaining_al pl (cur, rest) = []
    | Some (b, st') =>
        length b = pl /\ b ++ remaining_al pl st' = remaining_al pl (cur, rest) /\
        length (remaining st') < length (remaining (cur, rest))
    end).
  { intros rest cur Hpos. destruct (le_lt_dec pl (length cur)) as [Hge|Hlt].
    - rewrite next_loop_full by assumption. unfold remaining_al, remaining. cbn [fst snd].
      repeat split.
      + rewrite firstn_length. lia.
      + rewrite (pad_to_long pl cur) by assumption. rewrite app_assoc. reflexivity.
      + rewrite !app_length, skipn_length. lia.
    - rewrite next_loop_short by assumption. unfold handle_partial.
      unfold remaining_al, remaining. cbn [fst snd].
      repeat split.
      + rewrite app_length, zeros_length. lia.
      + rewrite pad_to_nil by assumption. rewrite (pad_to_short pl cur) by assumption.
        reflexivity.
      + rewrite !app_length. cbn [length]. lia. }
  induction rest as [|f rest IH]; intros cur.
  - destruct cur as [|c cur0] eqn:Ecur.
    + rewrite next_loop_nil by assumption. unfold remaining_al. cbn [fst snd map concat].
      rewrite pad_to_nil by assumption. reflexivity.
    + rewrite <- Ecur. apply NE. subst cur. cbn [length]. lia.
  - destruct cur as [|c cur0] eqn:Ecur.
    + rewrite next_loop_nil by assumption. specialize (IH f).
      unfold remaining_al, remaining in IH |- *. cbn [fst snd map concat] in IH |- *.
      rewrite pad_to_nil by assumption. cbn [app].
      destruct (next_loop true pl rest f) as [[b st']|]; exact IH.
    + rewrite <- Ecur. apply NE. subst cur. cbn [length]. lia.
Qed.

Lemma hasher_iter_align pl :
  0 < pl -> forall fuel st, length (remaining st) < fuel ->
  hasher_iter fuel true pl st = chunks pl (remaining_al pl st).
Proof.
  intros Hpl. induction fuel as [|fuel IH]; intros [cur rest] Hf; [lia|].
  cbn [hasher_iter]. unfold next. cbn [fst snd].
  pose proof (next_loop_align pl Hpl rest cur) as N.
  destruct (next_loop true pl rest cur) as [[b st']|].
  - destruct N as (Hl & E & M). rewrite <- E.
    rewrite chunks_app_exact by assumption. f_equal. apply IH. lia.
  - rewrite N. symmetry. apply chunks_nil.
Qed.

Lemma hasher_iter_align_full pl :
  0 < pl -> forall fuel st, Forall (fun p => length p = pl) (hasher_iter fuel true pl st).
Proof.
  intros Hpl. induction fuel as [|fuel IH]; intros [cur rest]; [constructor|].
  cbn [hasher_iter]. unfold next. cbn [fst snd].
  pose proof (next_loop_align pl Hpl rest cur) as N.
  destruct (next_loop true pl rest cur) as [[b st']|]; [|constructor].
  destruct N as (Hl & _). constructor; [exact Hl|apply IH].
Qed.

Lemma remaining_al_init pl files :
  0 < pl -> remaining_al pl (init_state files) = concat (map (pad_to pl) files).
Proof.
  intros Hpl. destruct files; [|reflexivity].
  unfold remaining_al. cbn [init_state hd tl fst snd map concat].
  rewrite pad_to_nil by assumption. reflexivity.
Qed.

Lemma hasher_inputs_align_gen pl files :
  0 < pl -> hasher_inputs true pl files = chunks pl (concat (map (pad_to pl) files)).
Proof.
  intros Hpl. unfold hasher_inputs.
  rewrite hasher_iter_align by (assumption || (rewrite remaining_init; lia)).
  rewrite remaining_al_init by assumption. reflexivity.
Qed.

(* MAIN 2 *)
Theorem hasher_inputs_align pl files :
  0 < pl -> files <> [] ->
  hasher_inputs true pl files = chunks pl (concat (map (pad_to pl) files)).
Proof. intros Hpl _. apply hasher_inputs_align_gen; assumption. Qed.

Theorem hasher_inputs_align_full pl files :
  0 < pl -> Forall (fun p => length p = pl) (hasher_inputs true pl files).
Proof. intros Hpl. apply hasher_iter_align_full; assumption. Qed.

Corollary chunks_padded_full pl files :
  0 < pl -> Forall (fun p => length p = pl) (chunks pl (concat (map (pad_to pl) files))).
Proof.
  intros Hpl. rewrite <- hasher_inputs_align_gen by assumption.
  apply hasher_inputs_align_full; assumption.
Qed.

(* the digests *)
Section Pieces.
Variable H1 : bytes -> bytes.

Theorem hasher_pieces_noalign pl files :
  0 < pl -> files <> [] ->
  hasher_pieces H1 false pl files = map H1 (chunks pl (concat files)).
Proof.
  intros Hpl Hne. unfold hasher_pieces. rewrite hasher_inputs_noalign by assumption. reflexivity.
Qed.

Theorem hasher_pieces_align pl files :
  0 < pl -> files <> [] ->
  hasher_pieces H1 true pl files = map H1 (chunks pl (concat (map (pad_to pl) files))).
Proof.
  intros Hpl Hne. unfold hasher_pieces. rewrite hasher_inputs_align by assumption. reflexivity.
Qed.

(* a single file is always hashed as plain BEP 3 pieces, whatever --align says *)
Corollary v1_assemble_single_file align pl f :
  0 < pl ->
  v1_assemble H1 true align pl [f] = (None, concat (map H1 (chunks pl f))).
Proof.
  intros Hpl. unfold v1_assemble. rewrite hasher_pieces_noalign by (assumption || discriminate).
  cbn [concat]. rewrite app_nil_r. reflexivity.
Qed.
End Pieces.

(* ------------------------------------------------------------------------- *)
(* 3. the entry list of TorrentFile.assemble                                  *)
(* ------------------------------------------------------------------------- *)

Lemma pad_to_neg_mod pl f : pad_to pl f = f ++ zeros (neg_mod (length f) pl).
Proof. reflexivity. Qed.

Lemma neg_mod_lt n pl : 0 < pl -> neg_mod n pl < pl.
Proof. intros Hpl. unfold neg_mod. apply Nat.mod_upper_bound. lia. Qed.

Lemma neg_mod_cases n pl :
  0 < pl ->
  (n mod pl = 0 /\ neg_mod n pl = 0) \/ (0 < n mod pl /\ neg_mod n pl = pl - n mod pl).
Proof.
  intros Hpl. unfold neg_mod.
  pose proof (Nat.mod_upper_bound n pl ltac:(lia)) as Hm.
  destruct (Nat.eq_dec (n mod pl) 0) as [E|NE].
  - left. rewrite E, Nat.sub_0_r, Nat.mod_same by lia. split; reflexivity.
  - right. rewrite (Nat.mod_small (pl - n mod pl)) by lia. split; [lia|reflexivity].
Qed.

Lemma mod0_add a b pl : 0 < pl -> a mod pl = 0 -> b mod pl = 0 -> (a + b) mod pl = 0.
Proof.
  intros Hpl Ha Hb. rewrite Nat.add_mod by lia. rewrite Ha, Hb.
  cbn [Nat.add]. apply Nat.mod_0_l. lia.
Qed.

Lemma neg_mod_sum n pl : 0 < pl -> (n + neg_mod n pl) mod pl = 0.
Proof.
  intros Hpl. destruct (neg_mod_cases n pl Hpl) as [[Hm Hn]|[Hm Hn]]; rewrite Hn.
  - rewrite Nat.add_0_r. exact Hm.
  - pose proof (Nat.mod_upper_bound n pl ltac:(lia)) as Hub.
    rewrite Nat.add_mod by lia. rewrite (Nat.mod_small (pl - n mod pl)) by lia.
    replace (n mod pl + (pl - n mod pl)) with pl by lia. apply Nat.mod_same. lia.
Qed.

Lemma entries_total_app a b : entries_total (a ++ b) = entries_total a + entries_total b.
Proof. unfold entries_total. rewrite map_app, list_sum_app. reflexivity. Qed.

Lemma entries_total_cons e es : entries_total (e :: es) = snd e + entries_total es.
Proof. reflexivity. Qed.

Lemma v1_entries_align_cons pl n lens :
  v1_entries true pl (n :: lens) = v1_file_entries_aligned pl n ++ v1_entries true pl lens.
Proof. reflexivity. Qed.

Lemma v1_file_entries_aligned_cases pl n :
  0 < pl ->
  (n mod pl = 0 /\ v1_file_entries_aligned pl n = [(false, n)]) \/
  (0 < neg_mod n pl < pl /\ neg_mod n pl = pl - n mod pl /\
   v1_file_entries_aligned pl n = [(false, n); (true, neg_mod n pl)]).
Proof.
  intros Hpl. unfold v1_file_entries_aligned. cbv zeta.
  pose proof (neg_mod_lt n pl Hpl) as Hlt.
  pose proof (Nat.mod_upper_bound n pl ltac:(lia)) as Hub.
  destruct (neg_mod_cases n pl Hpl) as [[Hm Hn]|[Hm Hn]].
  - left. rewrite Hn. split; [assumption|reflexivity].
  - right. destruct (Nat.eqb_spec (neg_mod n pl) 0) as [E|NE]; [lia|].
    repeat split; try lia.
Qed.

(* 3(a) *)
Theorem stream_of_entries_align pl files :
  stream_of_entries (v1_entries true pl (map (@length ascii) files)) files
  = concat (map (pad_to pl) files).
Proof.
  induction files as [|f files IH]; [reflexivity|].
  cbn [map concat]. rewrite v1_entries_align_cons. unfold v1_file_entries_aligned. cbv zeta.
  rewrite pad_to_neg_mod.
  destruct (Nat.eqb_spec (neg_mod (length f) pl) 0) as [E|NE].
  - rewrite E. cbn [app stream_of_entries zeros repeat]. rewrite IH, app_nil_r. reflexivity.
  - cbn [app stream_of_entries]. rewrite IH, app_assoc. reflexivity.
Qed.

Theorem stream_of_entries_noalign pl files :
  stream_of_entries (v1_entries false pl (map (@length ascii) files)) files = concat files.
Proof.
  induction files as [|f files IH]; [reflexivity|].
  unfold v1_entries in *. cbn [map stream_of_entries concat]. rewrite IH. reflexivity.
Qed.

Lemma split_cons {A} (a e : A) l pre post :
  a :: l = pre ++ e :: post ->
  (pre = [] /\ a = e /\ l = post) \/ (exists pre', pre = a :: pre' /\ l = pre' ++ e :: post).
Proof.
  intros E. destruct pre as [|x pre'].
  - left. cbn [app] in E. injection E as -> ->. repeat split.
  - right. cbn [app] in E. injection E as -> ->. exists pre'. split; reflexivity.
Qed.

(* 3(b) and 3(c) together: in align mode every non-pad entry starts on a piece boundary,
   and every pad entry is 0 < len < pl, directly follows a non-pad entry whose length it
   completes to the next boundary, and ends on a piece boundary *)
Lemma v1_entries_align_splits pl :
  0 < pl -> forall lens pre e post,
  v1_entries true pl lens = pre ++ e :: post ->
  if fst e
  then 0 < snd e < pl /\ (entries_total pre + snd e) mod pl = 0 /\
       exists pre' n, pre = pre' ++ [(false, n)] /\ snd e = pl - n mod pl
  else entries_total pre mod pl = 0.
Proof.
  intros Hpl. induction lens as [|n lens IH]; intros pre e post E.
  - destruct pre; discriminate E.
  - rewrite v1_entries_align_cons in E.
    assert (IH' : forall pre1, v1_entries true pl lens = pre1 ++ e :: post ->
              forall hd, entries_total hd mod pl = 0 ->
              if fst e
              then 0 < snd e < pl /\ (entries_total (hd ++ pre1) + snd e) mod pl = 0 /\
                   exists pre' n0, hd ++ pre1 = pre' ++ [(false, n0)] /\ snd e = pl - n0 mod pl
              else entries_total (hd ++ pre1) mod pl = 0).
    { intros pre1 E1 hd Hhd. specialize (IH pre1 e post E1).
      rewrite entries_total_app. destruct (fst e).
      - destruct IH as (R & S & pre' & n0 & P & Q). split; [exact R|]. split.
        + rewrite <- Nat.add_assoc. apply mod0_add; assumption.
        + exists (hd ++ pre'), n0. rewrite P, app_assoc. split; [reflexivity|exact Q].
      - apply mod0_add; assumption. }
    destruct (v1_file_entries_aligned_cases pl n Hpl) as [[Hm F]|(Hr & Hrem & F)];
      rewrite F in E; cbn [app] in E.
    + (* file ends on a boundary: no pad entry *)
      apply split_cons in E. destruct E as [(-> & <- & _)|(pre1 & -> & E1)].
      * cbn [fst]. apply Nat.mod_0_l. lia.
      * apply (IH' pre1 E1 [(false, n)]).
        unfold entries_total. cbn [map snd list_sum fold_right]. rewrite Nat.add_0_r. exact Hm.
    + apply split_cons in E. destruct E as [(-> & <- & _)|(pre1 & -> & E1)].
      * cbn [fst]. apply Nat.mod_0_l. lia.
      * apply split_cons in E1. destruct E1 as [(-> & <- & _)|(pre2 & -> & E2)].
        -- cbn [fst snd]. split; [exact Hr|]. split.
           ++ unfold entries_total. cbn [map snd list_sum fold_right]. rewrite Nat.add_0_r.
              apply neg_mod_sum; assumption.
           ++ exists [], n. split; [reflexivity|exact Hrem].
        -- apply (IH' pre2 E2 [(false, n); (true, neg_mod n pl)]).
           unfold entries_total. cbn [map snd list_sum fold_right]. rewrite Nat.add_0_r.
           apply neg_mod_sum; assumption.
Qed.

(* 3(b) *)
Theorem v1_entries_align_file_offsets pl lens pre e post :
  0 < pl -> v1_entries true pl lens = pre ++ e :: post -> fst e = false ->
  entries_total pre mod pl = 0.
Proof.
  intros Hpl E Hf. pose proof (v1_entries_align_splits pl Hpl lens pre e post E) as S.
  rewrite Hf in S. exact S.
Qed.

(* 3(c) *)
Theorem v1_entries_align_pad pl lens pre k post :
  0 < pl -> v1_entries true pl lens = pre ++ (true, k) :: post ->
  0 < k < pl /\
  (exists pre' n, pre = pre' ++ [(false, n)] /\ k = pl - n mod pl /\
                  entries_total pre' mod pl = 0) /\
  (entries_total pre + k) mod pl = 0.
Proof.
  intros Hpl E. pose proof (v1_entries_align_splits pl Hpl lens pre (true, k) post E) as S.
  cbn [fst snd] in S. destruct S as (R & S & pre' & n & P & Q).
  split; [exact R|]. split; [|exact S].
  exists pre', n. split; [exact P|]. split; [exact Q|].
  subst pre. rewrite <- app_assoc in E. cbn [app] in E.
  apply (v1_entries_align_file_offsets pl lens pre' (false, n) ((true, k) :: post) Hpl E).
  reflexivity.
Qed.

(* non-align mode has no pad entries at all *)
Theorem v1_entries_noalign_no_pad pl lens :
  Forall (fun e => fst e = false) (v1_entries false pl lens).
Proof.
  unfold v1_entries. induction lens as [|n lens IH]; cbn [map]; constructor; [reflexivity|exact IH].
Qed.

(* the entry lengths add up to the length of the hashed stream *)
Lemma entries_total_align pl files :
  entries_total (v1_entries true pl (map (@length ascii) files))
  = length (concat (map (pad_to pl) files)).
Proof.
  induction files as [|f files IH]; [reflexivity|].
  cbn [map concat]. rewrite v1_entries_align_cons, entries_total_app, IH, app_length.
  f_equal. rewrite pad_to_neg_mod, app_length, zeros_length.
  unfold v1_file_entries_aligned. cbv zeta.
  destruct (Nat.eqb_spec (neg_mod (length f) pl) 0) as [E|NE].
  - rewrite E. unfold entries_total. cbn [map snd list_sum fold_right]. lia.
  - unfold entries_total. cbn [map snd list_sum fold_right]. lia.
Qed.

Lemma entries_total_noalign pl files :
  entries_total (v1_entries false pl (map (@length ascii) files)) = length (concat files).
Proof.
  induction files as [|f files IH]; [reflexivity|].
  unfold v1_entries in *. cbn [map concat]. rewrite entries_total_cons, IH, app_length.
  reflexivity.
Qed.

Lemma length_concat_full {A} n (ps : list (list A)) :
  Forall (fun p => length p = n) ps -> length (concat ps) = length ps * n.
Proof.
  intros F. induction F as [|p ps Hp _ IH]; [reflexivity|].
  cbn [concat length]. rewrite app_length, IH, Hp. lia.
Qed.

(* 3(d) *)
Theorem hasher_inputs_count pl files align :
  0 < pl -> files <> [] ->
  length (hasher_inputs align pl files)
  = ceil_div (entries_total (v1_entries align pl (map (@length ascii) files))) pl.
Proof.
  intros Hpl _. destruct align.
  - rewrite hasher_inputs_align_gen, entries_total_align by assumption.
    apply length_chunks; assumption.
  - rewrite hasher_inputs_noalign_gen, entries_total_noalign by assumption.
    apply length_chunks; assumption.
Qed.

Theorem hasher_inputs_align_count pl files :
  0 < pl -> files <> [] ->
  length (hasher_inputs true pl files) * pl
  = entries_total (v1_entries true pl (map (@length ascii) files)).
Proof.
  intros Hpl _. rewrite entries_total_align.
  pose proof (length_concat_full pl (hasher_inputs true pl files)
                (hasher_inputs_align_full pl files Hpl)) as L.
  etransitivity; [symmetry; exact L|].
  rewrite hasher_inputs_align_gen by assumption.
  rewrite concat_chunks by assumption. reflexivity.
Qed.

(* ------------------------------------------------------------------------- *)
(* 4. Examples                                                                *)
(* ------------------------------------------------------------------------- *)

Module HasherExamples.
Import String.

Definition b (s : String.string) : bytes := String.list_ascii_of_string s.

(* file sizes 0,1,3,4,7 and 0 again, piece length 3 *)
Definition ex_files : list bytes :=
  [b ""; b "a"; b "bcd"; b "efgh"; b ""; b "ijklmno"; b ""].

Example ex_noalign :
  hasher_inputs false 3 ex_files = [b "abc"; b "def"; b "ghi"; b "jkl"; b "mno"].
Proof. vm_compute. reflexivity. Qed.

Example ex_noalign_spec : chunks 3 (List.concat ex_files) = hasher_inputs false 3 ex_files.
Proof. vm_compute. reflexivity. Qed.

(* piece length 4: pieces straddle up to 3 files, an empty file inside a piece, short tail *)
Example ex_noalign_4 :
  hasher_inputs false 4 ex_files = [b "abcd"; b "efgh"; b "ijkl"; b "mno"].
Proof. vm_compute. reflexivity. Qed.

(* one piece made of many files, several of them empty; state after the partial piece *)
Example ex_partial_many :
  next false 8 (b "a", [b ""; b "b"; b ""; b "cd"; b "efghijk"; b "l"])
  = Some (b "abcdefgh", (b "ijk", [b "l"])).
Proof. vm_compute. reflexivity. Qed.

Example ex_partial_runs_out :
  next false 8 (b "a", [b ""; b "b"; b ""]) = Some (b "ab", ([], [])).
Proof. vm_compute. reflexivity. Qed.

Example ex_align :
  hasher_inputs true 3 ex_files =
  [b "a" ++ zeros 2; b "bcd"; b "efg"; b "h" ++ zeros 2; b "ijk"; b "lmn"; b "o" ++ zeros 2].
Proof. vm_compute. reflexivity. Qed.

Example ex_align_spec :
  chunks 3 (List.concat (map (pad_to 3) ex_files)) = hasher_inputs true 3 ex_files.
Proof. vm_compute. reflexivity. Qed.

Example ex_entries_align :
  v1_entries true 3 (map (@List.length ascii) ex_files) =
  [(false, 0); (false, 1); (true, 2); (false, 3); (false, 4); (true, 2); (false, 0);
   (false, 7); (true, 2); (false, 0)].
Proof. vm_compute. reflexivity. Qed.

Example ex_entries_noalign :
  v1_entries false 3 (map (@List.length ascii) ex_files) =
  [(false, 0); (false, 1); (false, 3); (false, 4); (false, 0); (false, 7); (false, 0)].
Proof. vm_compute. reflexivity. Qed.

Example ex_stream_align :
  stream_of_entries (v1_entries true 3 (map (@List.length ascii) ex_files)) ex_files
  = List.concat (hasher_inputs true 3 ex_files).
Proof. vm_compute. reflexivity. Qed.

Example ex_count_align :
  List.length (hasher_inputs true 3 ex_files) * 3
  = entries_total (v1_entries true 3 (map (@List.length ascii) ex_files)).
Proof. vm_compute. reflexivity. Qed.

Example ex_count_noalign :
  List.length (hasher_inputs false 4 ex_files)
  = ceil_div (entries_total (v1_entries false 4 (map (@List.length ascii) ex_files))) 4.
Proof. vm_compute. reflexivity. Qed.

(* the hypotheses of the main theorems are satisfiable on this input *)
Example ex_main_hyps : 0 < 3 /\ ex_files <> [].
Proof. split; [lia|discriminate]. Qed.
End HasherExamples.

Print Assumptions hasher_inputs_noalign.
Print Assumptions hasher_pieces_noalign.
Print Assumptions hasher_inputs_align.
Print Assumptions hasher_inputs_align_full.
Print Assumptions hasher_pieces_align.
Print Assumptions v1_assemble_single_file.
Print Assumptions stream_of_entries_align.
Print Assumptions stream_of_entries_noalign.
Print Assumptions v1_entries_align_file_offsets.
Print Assumptions v1_entries_align_pad.
Print Assumptions hasher_inputs_count.
Print Assumptions hasher_inputs_align_count.
