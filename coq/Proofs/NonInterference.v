(* C09: non-interference.  If no cell that may flow into a result is ever written, then in ANY
   history every operation returns what it would return in a fresh process (initial cells) on the
   same arguments and filesystem state.  Induction over the history. *)
From Coq Require Import List Arith Bool String Lia. Import ListNotations.
From TF Require Import Model.State.

Section NonInterference.
Variable V : Type.            (* values held by cells *)
Variable X : Type.            (* arguments of an operation, including the filesystem state it runs on *)
Variable R : Type.            (* observable result (return value / exception / filesystem effect) *)
Definition cells := nat -> V.
(* semantics of operation number i: result and new cell contents *)
Variable sem : nat -> X -> cells -> R * cells.
Variable ops : list opsum.

Definition sum_of (i : nat) : opsum := List.nth i ops {| op_name := EmptyString; op_writes := []; op_flows := [] |}.

(* the generated summary over-approximates the code: *)
Definition respects : Prop :=
  forall i, i < List.length ops ->
    (* the result depends on no cell outside op_flows *)
    (forall x st st', (forall c, In c (op_flows (sum_of i)) -> st c = st' c) -> fst (sem i x st) = fst (sem i x st')) /\
    (* cells outside op_writes keep their value *)
    (forall x st c, ~ In c (op_writes (sum_of i)) -> snd (sem i x st) c = st c).

(* run a history in ONE process: list of results *)
Fixpoint run_history (h : list (nat * X)) (st : cells) : list R :=
  match h with
  | [] => []
  | (i, x) :: r => let '(res, st') := sem i x st in res :: run_history r st'
  end.

(* each operation in a FRESH process (initial cells st0) *)
Definition run_fresh (h : list (nat * X)) (st0 : cells) : list R := map (fun '(i, x) => fst (sem i x st0)) h.

Definition flow_cell (c : nat) : Prop := exists o, In o ops /\ In c (op_flows o).

Lemma memn_In n l : memn n l = true <-> In n l.
Proof.
  unfold memn. rewrite existsb_exists. split.
  - intros [x [Hx E]]. apply Nat.eqb_eq in E. subst. exact Hx.
  - intro H. exists n. split; [exact H|apply Nat.eqb_refl].
Qed.

Lemma check_flows_spec : check_flows ops = true ->
  forall c, flow_cell c -> forall o', In o' ops -> ~ In c (op_writes o').
Proof.
  intros H c [o [Ho Hc]] o' Ho' Hw.
  unfold check_flows in H. rewrite forallb_forall in H. specialize (H o Ho).
  rewrite forallb_forall in H. specialize (H c Hc).
  apply negb_true_iff in H. 
  assert (E : existsb (fun o'0 => memn c (op_writes o'0)) ops = true).
  { apply existsb_exists. exists o'. split; [exact Ho'|apply memn_In; exact Hw]. }
  rewrite E in H. discriminate.
Qed.

Lemma sum_of_In i : i < List.length ops -> In (sum_of i) ops.
Proof. intro H. unfold sum_of. apply nth_In. exact H. Qed.

Theorem noninterference :
  check_flows ops = true -> respects ->
  forall h st0, Forall (fun p => fst p < List.length ops) h ->
  run_history h st0 = run_fresh h st0.
Proof.
  intros Hc Hr h st0 Hh.
  assert (G : forall st, (forall c, flow_cell c -> st c = st0 c) -> run_history h st = run_fresh h st0).
  { induction Hh as [|[i x] h Hi _ IH]; intros st Hst; [reflexivity|].
    cbn [fst] in Hi. cbn [run_history run_fresh map].
    destruct (sem i x st) as [res st'] eqn:E.
    destruct (Hr i Hi) as [Hres Hfr].
    f_equal.
    - change res with (fst (res, st')). rewrite <- E. apply Hres.
      intros c Hcin. apply Hst. exists (sum_of i). split; [apply sum_of_In; exact Hi|exact Hcin].
    - apply IH. intros c Hfc.
      assert (Hnw : ~ In c (op_writes (sum_of i))).
      { apply (check_flows_spec Hc c Hfc). apply sum_of_In. exact Hi. }
      specialize (Hfr x st c Hnw). rewrite E in Hfr. cbn [snd] in Hfr. rewrite Hfr. apply Hst. exact Hfc. }
  apply G. reflexivity.
Qed.

End NonInterference.

(* non-vacuity: the checker rejects a summary with a memo cache (the pinned tree's utils.filelist_total),
   and in that situation the conclusion really fails *)
Example memo_summary_rejected :
  check_flows [{| op_name := "create"; op_writes := [0]; op_flows := [0] |}] = false.
Proof. reflexivity. Qed.

Example memo_history_differs :
  let sem := fun (_ : nat) (x : nat) (st : nat -> option nat) =>
               match st 0 with Some v => (v, st) | None => (x, fun c => if c =? 0 then Some x else st c) end in
  run_history (option nat) nat nat sem [(0, 1); (0, 2)] (fun _ => None)
  <> run_fresh (option nat) nat nat sem [(0, 1); (0, 2)] (fun _ => None).
Proof. cbn. discriminate. Qed.
