(* C18 / C14: soundness of the closure checker and of the read-only / allowed-effects checkers,
   and the instances for the graph GENERATED from /repo on this run. *)
From Coq Require Import List Arith Bool Lia. Import ListNotations.
From TF Require Import Lib.Base Model.Effects.

Inductive reachable (g : graph) (roots : list nat) : nat -> Prop :=
 | reach_root n : In n roots -> reachable g roots n
 | reach_step n m : reachable g roots n -> In m (succs g n) -> reachable g roots m.

Lemma mem_In n l : mem n l = true <-> In n l.
Proof.
  unfold mem. rewrite existsb_exists. split.
  - intros [x [Hx E]]. apply Nat.eqb_eq in E. subst. exact Hx.
  - intro H. exists n. split; [exact H|apply Nat.eqb_refl].
Qed.

Lemma closed_sound g roots s :
  closed_b g s = true -> covers roots s = true -> forall n, reachable g roots n -> In n s.
Proof.
  intros Hc Hr n R. induction R as [n Hn | n m R IH Hm].
  - unfold covers in Hr. rewrite forallb_forall in Hr. apply mem_In. apply Hr. exact Hn.
  - unfold closed_b in Hc. rewrite forallb_forall in Hc. specialize (Hc n IH).
    rewrite forallb_forall in Hc. apply mem_In. apply Hc. exact Hm.
Qed.

Lemma effects_of_In pr s n e : In n s -> In e (effs pr n) -> In e (effects_of pr s).
Proof. intros Hn He. unfold effects_of. apply in_flat_map. exists n. split; assumption. Qed.

Lemma read_event_id e f : kind_of e = ERead -> apply_event f e = f.
Proof. destruct e; cbn; intro H; try discriminate H; reflexivity. Qed.

Lemma readonly_trace_id tr : Forall (fun e => kind_of e = ERead) tr -> forall f, run_events tr f = f.
Proof.
  unfold run_events. induction 1 as [|e tr He _ IH]; intro f; [reflexivity|].
  cbn [fold_left]. rewrite (read_event_id e f He). apply IH.
Qed.

(* an execution "stays within" the generated summary when each of its events is performed by a
   reachable function that declares an effect of that kind *)
Definition within (g : graph) (pr : list (nat * list effect)) (roots : list nat) (tr : list event) : Prop :=
  forall e, In e tr -> exists fn, reachable g roots fn /\ In (kind_of e) (effs pr fn).

Theorem readonly_cmd_sound g pr roots :
  readonly_cmd g pr roots = true ->
  forall tr, within g pr roots tr -> forall f, run_events tr f = f.
Proof.
  unfold readonly_cmd. intros H tr W f.
  apply andb_prop in H. destruct H as [H Hread]. apply andb_prop in H. destruct H as [Hc Hr].
  apply readonly_trace_id. apply Forall_forall. intros e He.
  destruct (W e He) as [fn [R Hk]].
  pose proof (closed_sound g roots _ Hc Hr fn R) as Hin.
  pose proof (effects_of_In pr _ fn _ Hin Hk) as Hall.
  rewrite forallb_forall in Hread. specialize (Hread _ Hall).
  destruct (kind_of e); cbn in Hread; try discriminate Hread; reflexivity.
Qed.

Lemma effect_eqb_eq a b : effect_eqb a b = true -> a = b.
Proof. destruct a, b; cbn; intro H; try discriminate H; reflexivity. Qed.

Theorem only_effects_sound allowed g pr roots :
  only_effects allowed g pr roots = true ->
  forall tr, within g pr roots tr -> Forall (fun e => In (kind_of e) allowed) tr.
Proof.
  unfold only_effects. intros H tr W.
  apply andb_prop in H. destruct H as [H Hall]. apply andb_prop in H. destruct H as [Hc Hr].
  apply Forall_forall. intros e He.
  destruct (W e He) as [fn [R Hk]].
  pose proof (closed_sound g roots _ Hc Hr fn R) as Hin.
  pose proof (effects_of_In pr _ fn _ Hin Hk) as Hin2.
  rewrite forallb_forall in Hall. specialize (Hall _ Hin2).
  rewrite existsb_exists in Hall. destruct Hall as [a [Ha E]].
  apply effect_eqb_eq in E. subst. exact Ha.
Qed.

(* non-vacuity: the checker rejects a graph in which a reachable function writes *)
Example readonly_rejects_writer :
  readonly_cmd [(0, [1]); (1, [])] [(0, [ERead]); (1, [EWrite])] [0] = false.
Proof. reflexivity. Qed.
Example readonly_accepts_reader :
  readonly_cmd [(0, [1]); (1, []); (2, [])] [(0, [ERead]); (1, [ERead]); (2, [EWrite])] [0] = true.
Proof. reflexivity. Qed.

(* ---- probe and create --------------------------------------------------------------- *)
Lemma upd_same f p v : upd f p v p = v.
Proof. unfold upd. rewrite Nat.eqb_refl. reflexivity. Qed.
Lemma upd_other f p v q : q <> p -> upd f p v q = f q.
Proof. unfold upd. intro H. apply Nat.eqb_neq in H. rewrite H. reflexivity. Qed.

(* if the probe is neutral (leaves the content at its path as it was), create changes only OUT *)
Theorem create_only_out ops :
  (forall c, probe_final ops c = Some c) ->
  forall f P OUT meta f', create_fs ops f P OUT meta = Some f' ->
  f' OUT = Some meta /\ forall p, p <> OUT -> f' p = f p.
Proof.
  intros Hn f P OUT meta f' H. unfold create_fs in H. rewrite Hn in H. injection H as <-.
  split; [apply upd_same|]. intros p Hp. rewrite upd_other by exact Hp.
  destruct (Nat.eq_dec p P) as [->|Hne]; [apply upd_same|apply upd_other; exact Hne].
Qed.

(* the pre-fix probe (unconditional remove) is NOT neutral: it deletes an existing file *)
Example old_probe_refuted :
  probe_final [POpenAppend; PClose; PRemove] (Some []) = Some None.
Proof. reflexivity. Qed.

(* ---- rename ------------------------------------------------------------------------- *)
Definition rename_spec (f : fsT) (T N : nat) (r : rres) : Prop :=
  match r with
  | Raised f' => f' = f /\ (f T = None \/ f N <> None)
  | Done f' => f T <> None /\ f N = None /\ f' N = f T /\ f' T = None /\
               forall p, p <> T -> p <> N -> f' p = f p
  | Unmodelled => False
  end.
