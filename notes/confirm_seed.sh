#!/bin/bash
# confirm_seed.sh <worktree> <patchfile> <demofile> <seed-id> <property>
# confirms in the scratch worktree: suite passes with the change, demo fails with it, demo passes without it;
# then stores patch + demo + meta.json under /verif/seeded/<seed-id>/
wt=$1; patch=$2; demo=$3; id=$4; prop=$5
cd "$wt" || exit 2
git checkout -q -- torrentfile
export PYTHONHASHSEED=0 PYTHONPATH=$wt HOME=$(mktemp -d)
/venv/bin/python "$demo" >/tmp/confirm_$id.base.log 2>&1; base=$?
git apply "$patch" || { echo "$id: patch does not apply"; exit 2; }
/venv/bin/python "$demo" >/tmp/confirm_$id.mut.log 2>&1; mut=$?
tests=$(/venv/bin/python -m pytest -q -p no:cacheprovider --timeout=900 -x 2>&1 | tail -1)
git checkout -q -- torrentfile
rm -rf tests/TESTDIR
echo "$id: demo on unchanged tree exit=$base ; demo on changed tree exit=$mut ; tests: $tests"
if [ $base -eq 0 ] && [ $mut -ne 0 ] && echo "$tests" | grep -q "1719 passed"; then
  mkdir -p /verif/seeded/$id
  cp "$patch" /verif/seeded/$id/patch.diff; cp "$demo" /verif/seeded/$id/demo.py
  printf '{"seed": "%s", "property": "%s", "confirmed": {"demo_unchanged_exit": %d, "demo_changed_exit": %d, "tests_with_change": "%s"}, "ran": "notes/confirm_seed.sh %s %s %s"}\n' "$id" "$prop" $base $mut "$tests" "$wt" "$(basename $patch)" "$(basename $demo)" > /verif/seeded/$id/meta.json
  echo "$id: CONFIRMED"
else
  echo "$id: NOT confirmed"
fi
