#!/usr/bin/env python3
"""
Runs every seeded regression under /verif/seeded against the quick check of the property it breaks (in a scratch worktree of
/repo, through VERIF_REPO; /repo itself is never touched), records the outcome in seeded/<id>/meta.json ("detection") and
rewrites the table between the SEED-MATRIX markers of DESIGN.md.

  notes/seed_matrix.py [-j N] [seed ids ...]        (default: all seeds, four at a time)
"""
import os
import re
import sys
import json
import subprocess
from concurrent.futures import ThreadPoolExecutor

VERIF = os.path.dirname(os.path.dirname(os.path.abspath(__file__)))


def run_one(sid):
    meta_p = os.path.join(VERIF, "seeded", sid, "meta.json")
    meta = json.load(open(meta_p))
    # "checked_by": the property whose check reports the seed with an input when that is not the property it was written
    # against (the change breaks that one too, or first): C07n -> C06 (only the key ORDER is wrong), C07s -> C17 (a FAILED edit)
    prop = meta.get("checked_by", meta["property"])
    if str(meta.get("status", "")).startswith("obsolete"):
        return sid, prop, "obsolete", ""
    wt = f"/tmp/sdm_{sid}"
    subprocess.run(["git", "-C", "/repo", "worktree", "remove", "--force", wt], capture_output=True)
    subprocess.run(["git", "-C", "/repo", "worktree", "add", "--detach", wt, "HEAD"], capture_output=True, check=True)
    try:
        a = subprocess.run(["git", "-C", wt, "apply", os.path.join(VERIF, "seeded", sid, "patch.diff")], capture_output=True, text=True)
        if a.returncode != 0:
            return sid, prop, "patch does not apply", ""
        # a private copy of coq/ (19 MB with the compiled files, mtimes kept): the run regenerates coq/Gen from the changed tree
        subprocess.run(["rm", "-rf", f"/tmp/sdm_coq_{sid}"])
        subprocess.run(["cp", "-a", os.path.join(VERIF, "coq"), f"/tmp/sdm_coq_{sid}"], check=True)
        env = dict(os.environ, VERIF_REPO=wt, VERIF_SEED=os.environ.get("VERIF_SEED", "7"),
                   VERIF_EVIDENCE_DIR=f"/tmp/sdm_ev_{sid}", VERIF_COQ_DIR=f"/tmp/sdm_coq_{sid}",
                   VERIF_REPLAY_DIR=f"/tmp/sdm_rp_{sid}")
        p = subprocess.run([os.path.join(VERIF, "check"), prop, "--tier", "quick"], cwd=VERIF, env=env, capture_output=True, text=True,
                           timeout=3600)
        viol = [l for l in p.stdout.splitlines() if l.startswith("VIOLATION")]
        summary = next((l for l in p.stdout.splitlines() if l.startswith(f"[{prop}] tier=")), "")
        with_input = [l for l in viol if "no-failing-input-found" not in l]
        if p.returncode == 0 and not viol:
            outcome = "MISSED"
        elif with_input:
            outcome = "input"
        else:
            outcome = "proof/tie"
        return sid, prop, outcome, summary
    finally:
        subprocess.run(["git", "-C", "/repo", "worktree", "remove", "--force", wt], capture_output=True)
        subprocess.run(["rm", "-rf", f"/tmp/sdm_ev_{sid}", f"/tmp/sdm_coq_{sid}", f"/tmp/sdm_rp_{sid}"])


def main():
    args = sys.argv[1:]
    jobs = 4      # every run works on its own copy of coq/ (VERIF_COQ_DIR), so runs against different trees do not interfere
    if args and args[0] == "-j":
        jobs = int(args[1])
        args = args[2:]
    seeds = args or sorted(os.listdir(os.path.join(VERIF, "seeded")))
    with ThreadPoolExecutor(max_workers=jobs) as ex:
        results = list(ex.map(run_one, seeds))
    rows = []
    for sid, prop, outcome, summary in results:
        mp = os.path.join(VERIF, "seeded", sid, "meta.json")
        meta = json.load(open(mp))
        m = re.search(r"theorems=(\S+) evaluations=(\d+) disagreements=(\d+) failures=(\d+) broken=(\d+)", summary)
        meta["detection"] = {"check": prop, "tier": "quick", "outcome": outcome,
                             "theorems": m.group(1) if m else None,
                             "disagreements": int(m.group(3)) if m else None, "failures": int(m.group(4)) if m else None,
                             "broken": int(m.group(5)) if m else None,
                             "ran": f"VERIF_REPO=<scratch worktree with seeded/{sid}/patch.diff applied> ./check {prop} --tier quick"}
        json.dump(meta, open(mp, "w"), indent=1)
        how = []
        if m:
            if m.group(1).startswith("0/"):
                how.append("translator refused / proof or instance no longer compiles")
            if int(m.group(3)):
                how.append(f"{m.group(3)} model-vs-code disagreements")
            if int(m.group(4)):
                how.append(f"{m.group(4)} failing inputs")
        if outcome == "obsolete":
            how = ["no longer breaks the property on the repaired tree (demonstration passes with the change applied): " + meta["status"][:120]]
        shown = prop if prop == meta["property"] else f"{meta['property']} (checked by {prop})"
        rows.append(f"| {sid} | {shown} | {meta.get('change', '')} | {meta.get('needs_to_manifest', '')} | **{outcome}** | {'; '.join(how)} |")
        print(sid, prop, outcome, summary)
    if not args:
        table = ["| seed | property | change | needs, to manifest | caught (quick tier) | how |", "|---|---|---|---|---|---|"] + rows
        dp = os.path.join(VERIF, "DESIGN.md")
        s = open(dp).read()
        a = s.index("<!-- SEED-MATRIX-BEGIN -->") + len("<!-- SEED-MATRIX-BEGIN -->")
        b = s.index("<!-- SEED-MATRIX-END -->")
        s = s[:a] + "\n" + "\n".join(table) + "\n" + s[b:]
        open(dp, "w").write(s)
    else:
        # some seeds only: replace their rows in the existing table
        dp = os.path.join(VERIF, "DESIGN.md")
        lines = open(dp).read().split("\n")
        for row in rows:
            key = row.split("|")[1].strip()
            for i, l in enumerate(lines):
                if l.startswith(f"| {key} |"):
                    lines[i] = row
        open(dp, "w").write("\n".join(lines))
    missed = [r[0] for r in results if r[2] == "MISSED"]
    print("missed:", missed)


if __name__ == "__main__":
    main()
