#!/bin/bash
# run_seed.sh <seed-id> [property ...]   -- applies seeded/<id>/patch.diff in a scratch worktree of /repo and runs the quick
# check of the seed's property (and any further properties given) against it with VERIF_REPO; prints one result line per check.
id=$1; shift
cd /verif
prop=$(/venv/bin/python -c "import json;print(json.load(open('seeded/$id/meta.json'))['property'])")
props="$prop $@"
wt=/tmp/sd_$id
git -C /repo worktree remove --force $wt >/dev/null 2>&1
git -C /repo worktree add --detach $wt HEAD >/dev/null 2>&1 || { echo "$id: cannot create worktree"; exit 2; }
git -C $wt apply /verif/seeded/$id/patch.diff || { echo "$id: patch does not apply"; git -C /repo worktree remove --force $wt; exit 2; }
mkdir -p /root/runlogs/seeds
rm -rf /tmp/sd_coq_$id; cp -a /verif/coq /tmp/sd_coq_$id     # private copy of coq/: runs against different trees can proceed in parallel
for p in $props; do
  VERIF_REPO=$wt VERIF_COQ_DIR=/tmp/sd_coq_$id VERIF_REPLAY_DIR=/root/runlogs/seeds/replays_$id VERIF_SEED=${VERIF_SEED:-7} ./check $p --tier ${TIER:-quick} > /root/runlogs/seeds/$id.$p.log 2>&1; rc=$?
  nv=$(grep -c '^VIOLATION' /root/runlogs/seeds/$id.$p.log)
  nf=$(grep '^VIOLATION' /root/runlogs/seeds/$id.$p.log | grep -vc 'no-failing-input-found')
  echo "seed=$id check=$p rc=$rc violations=$nv with_replay_input=$nf :: $(grep '^\[' /root/runlogs/seeds/$id.$p.log | head -1)"
done
git -C /repo worktree remove --force $wt
rm -rf /tmp/sd_coq_$id
