#!/usr/bin/env python3
"""helper used while writing Props files: prints `Theorem alias : <type of lemma>. Proof. exact lemma. Qed.` blocks
usage: mkprops.py "<Require lines>" alias=lemma ...   (run from /verif/coq)"""
import re, subprocess, sys, tempfile, os
req = sys.argv[1]
pairs = [a.split("=") for a in sys.argv[2:]]
src = req + "\nSet Printing Width 100.\n" + "\n".join(f'Check {l}.' for _, l in pairs)
with tempfile.NamedTemporaryFile("w", suffix=".v", dir=".", delete=False) as fd:
    fd.write(src); name = fd.name
p = subprocess.run(["coqc", "-Q", ".", "TF", name], capture_output=True, text=True)
for ext in ("", "o", "ok", "os"): 
    try: os.remove(name + ext if ext else name)
    except OSError: pass
base = name[:-2]
for f in (base + ".glob", "." + os.path.basename(base) + ".aux"):
    try: os.remove(f)
    except OSError: pass
if p.returncode: print(p.stderr); sys.exit(1)
blocks = re.split(r"(?m)^(?=\S+\n?\s+: )", p.stdout)
out = p.stdout
for alias, lemma in pairs:
    m = re.search(r"(?ms)^" + re.escape(lemma) + r"\s*\n?\s*: (.*?)(?=^\S|\Z)", out)
    ty = m.group(1).strip()
    print(f"Theorem {alias} :\n  {ty}.\nProof. exact {lemma}. Qed.\nPrint Assumptions {alias}.\n")
