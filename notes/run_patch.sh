#!/bin/bash
# run_patch.sh <patch-file> <label> <property ...>  -- applies an arbitrary patch in a scratch worktree of /repo and runs the quick
# checks of the given properties against it (VERIF_REPO, private copy of coq/); one result line per check.  Used for the
# behaviour-preserving refactorings of notes/benign/ (a check that reports a failing input there raised a false alarm).
patch=$1; label=$2; shift 2
cd /verif
wt=/tmp/sp_$label
git -C /repo worktree remove --force $wt >/dev/null 2>&1
git -C /repo worktree add --detach $wt HEAD >/dev/null 2>&1 || { echo "$label: cannot create worktree"; exit 2; }
git -C $wt apply $patch || { echo "$label: patch does not apply"; git -C /repo worktree remove --force $wt; exit 2; }
mkdir -p /root/runlogs/patches
rm -rf /tmp/sp_coq_$label; cp -a /verif/coq /tmp/sp_coq_$label
for p in "$@"; do
  VERIF_REPO=$wt VERIF_COQ_DIR=/tmp/sp_coq_$label VERIF_REPLAY_DIR=/root/runlogs/patches/replays_$label VERIF_EVIDENCE_DIR=/tmp/sp_ev_$label VERIF_SEED=${VERIF_SEED:-7} ./check $p --tier ${TIER:-quick} > /root/runlogs/patches/$label.$p.log 2>&1; rc=$?
  nv=$(grep -c '^VIOLATION' /root/runlogs/patches/$label.$p.log)
  nf=$(grep '^VIOLATION' /root/runlogs/patches/$label.$p.log | grep -vc 'no-failing-input-found')
  echo "patch=$label check=$p rc=$rc violations=$nv with_replay_input=$nf :: $(grep '^\[' /root/runlogs/patches/$label.$p.log | head -1)"
done
git -C /repo worktree remove --force $wt
rm -rf /tmp/sp_coq_$label /tmp/sp_ev_$label
