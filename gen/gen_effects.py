"""
Regenerates coq/Gen/GenEditOps.v (the ordered filesystem operations of
edit.edit_torrent with symbolic paths, for C17) and coq/Gen/GenEffects.v (call
graph + direct effects + command entry points, for C18/C14) from /repo.
Fail closed: whatever cannot be classified becomes `Unknown` / `POther`, which
the certified checkers reject.
"""
import ast
import os
import sys

sys.path.insert(0, os.path.dirname(os.path.abspath(__file__)))
from callgraph import Graph  # noqa: E402

PURE_BUILTINS = {"isinstance", "any", "all", "dict", "sorted", "list", "len", "str", "bytes", "tuple", "set", "int",
                 "bool", "enumerate", "zip", "range", "min", "max", "sum", "repr", "bytearray", "iter", "next",
                 "hasattr", "type", "map", "filter", "reversed", "print", "float", "abs"}
PURE_METHODS = {"get", "items", "keys", "values", "split", "encode", "decode", "lower", "upper", "strip", "join",
                "append", "extend", "startswith", "endswith", "format", "copy", "setdefault", "pop", "update",
                "debug", "info", "warning", "error", "critical", "log", "index", "count", "replace_", "insert"}


class EditOps:
    def __init__(self, repo):
        self.repo = repo
        self.graph = Graph(repo)
        src = os.path.join(repo, "torrentfile", "edit.py")
        tree = ast.parse(open(src, encoding="utf-8").read())
        self.fn = next(n for n in tree.body if isinstance(n, ast.FunctionDef) and n.name == "edit_torrent")
        self.pm = self.fn.args.args[0].arg
        self.paths = {self.pm: "PM"}
        self.main, self.cleanup = [], []
        self.notes = []
        self.seen_try = False

    # -------------------------------------------------------------- paths
    def spath(self, e):
        if isinstance(e, ast.Name) and e.id in self.paths:
            return self.paths[e.id]
        return "POther"

    def note_assign(self, target, value):
        """track `T = metafile + "<non-empty literal>"`: a sibling path provably different from PM"""
        if not isinstance(target, ast.Name):
            return
        name = target.id
        if (isinstance(value, ast.BinOp) and isinstance(value.op, ast.Add)
                and isinstance(value.left, ast.Name) and self.paths.get(value.left.id) == "PM"
                and isinstance(value.right, ast.Constant) and isinstance(value.right.value, str)
                and value.right.value != "" and "/" not in value.right.value and os.sep not in value.right.value):
            self.paths[name] = "PT"
        elif name in self.paths:
            self.paths[name] = "POther"      # rebinding a tracked path: no longer known

    # -------------------------------------------------------------- calls
    def call_ops(self, call, handle=None):
        """ops of one Call node (arguments are handled by the caller's walk)"""
        fn = call.func
        if isinstance(fn, ast.Name):
            if fn.id == "open":
                return ["Unknown"]           # open outside a with-statement
            if fn.id in PURE_BUILTINS:
                return []
            return self.pkg_call(fn.id)
        if isinstance(fn, ast.Attribute):
            chain = []
            node = fn
            while isinstance(node, ast.Attribute):
                chain.append(node.attr)
                node = node.value
            chain.reverse()
            root = node.id if isinstance(node, ast.Name) else None
            if root == "pyben" and len(chain) == 1:
                if chain[0] == "load" and len(call.args) == 1:
                    return [f"Load {self.spath(call.args[0])}"]
                if chain[0] == "loads":
                    return []
                if chain[0] == "dumps":
                    return ["Encode"]
                if chain[0] == "dump" and len(call.args) == 2:
                    p = self.spath(call.args[1])
                    return ["Encode", f"OpenTrunc {p}", f"WriteAll {p}", f"Close {p}"]
                return ["Unknown"]
            if root == "os":
                if chain == ["path", "exists"] and len(call.args) == 1:
                    return [f"ExistsTest {self.spath(call.args[0])}"]
                if chain[0] == "path":
                    return [] if chain[1] in ("join", "dirname", "basename", "split", "splitext", "abspath", "normpath") else ["Unknown"]
                if chain in (["remove"], ["unlink"]) and len(call.args) == 1:
                    return [f"Remove {self.spath(call.args[0])}"]
                if chain == ["replace"] and len(call.args) == 2 and not call.keywords:
                    return [f"Replace {self.spath(call.args[0])} {self.spath(call.args[1])}"]
                if chain == ["rename"] and len(call.args) == 2 and not call.keywords:
                    return [f"Rename {self.spath(call.args[0])} {self.spath(call.args[1])}"]
                return ["Unknown"]
            if root in ("shutil", "tempfile", "pathlib", "subprocess", "io"):
                return ["Unknown"]
            if root == "logger" or root == "logging":
                return []
            if handle and root == handle[0] and chain == ["write"] and len(call.args) == 1:
                return [f"WriteAll {handle[1]}"]
            if handle and root == handle[0]:
                return ["Unknown"]           # flush/truncate/seek/close on the handle: not modelled
            if chain[-1] in PURE_METHODS and root not in self.paths:
                return []
            return ["Unknown"]
        return ["Unknown"]

    def pkg_call(self, name):
        g = self.graph
        q = f"edit.{name}"
        quals = [q] if q in g.fns else g.by_name.get(name, [])
        if not quals:
            return ["Unknown"]
        reach = g.reach(quals)
        for r in reach:
            if g.fns[r].unknown or any(k != "Read" or "open" in d or "pyben" in d or "listdir" in d for k, d in g.fns[r].effects):
                return ["Unknown"]
        return []

    def expr_ops(self, node, handle=None):
        """ops of all calls inside an expression/statement, in source order"""
        ops = []
        calls = [n for n in ast.walk(node) if isinstance(n, ast.Call)]
        calls.sort(key=lambda c: (c.end_lineno, c.end_col_offset))     # inner calls finish first
        for c in calls:
            ops += self.call_ops(c, handle)
        return ops

    # ---------------------------------------------------------- statements
    def block(self, stmts, out, handle=None, top=False):
        for s in stmts:
            if isinstance(s, ast.Expr) and isinstance(s.value, ast.Constant):
                continue
            if isinstance(s, (ast.Assign, ast.AnnAssign, ast.AugAssign)):
                value = s.value
                out += self.expr_ops(value, handle) if value is not None else []
                if isinstance(s, ast.Assign):
                    for t in s.targets:
                        self.note_assign(t, value)
                        if not isinstance(t, ast.Name):
                            out += self.expr_ops(t, handle)
                continue
            if isinstance(s, (ast.Expr, ast.Return, ast.Delete, ast.Pass, ast.Raise, ast.Assert)):
                out += self.expr_ops(s, handle)
                if isinstance(s, ast.Return):
                    return
                continue
            if isinstance(s, ast.With):
                if len(s.items) != 1:
                    out.append("Unknown")
                    continue
                item = s.items[0]
                c = item.context_expr
                if (isinstance(c, ast.Call) and isinstance(c.func, ast.Name) and c.func.id == "open"
                        and len(c.args) == 2 and not c.keywords and isinstance(c.args[1], ast.Constant)
                        and isinstance(item.optional_vars, ast.Name)):
                    p = self.spath(c.args[0])
                    mode = c.args[1].value
                    h = (item.optional_vars.id, p)
                    if mode in ("wb", "w"):
                        out.append(f"OpenTrunc {p}")
                        self.block(s.body, out, h)
                        out.append(f"Close {p}")
                    elif mode in ("ab", "a"):
                        out.append(f"OpenAppend {p}")
                        self.block(s.body, out, h)
                        out.append(f"Close {p}")
                    elif mode in ("rb", "r"):
                        out.append(f"Load {p}")
                        inner = []
                        self.block(s.body, inner, None)
                        out += inner
                    else:
                        out.append("Unknown")
                else:
                    out.append("Unknown")    # open with buffering/other arguments, or another context manager
                continue
            if isinstance(s, ast.If):
                # if os.path.exists(P): os.remove(P)
                t = s.test
                if (not s.orelse and len(s.body) == 1 and isinstance(s.body[0], ast.Expr)
                        and isinstance(t, ast.Call) and self.call_ops(t) and self.call_ops(t)[0].startswith("ExistsTest")
                        and isinstance(s.body[0].value, ast.Call)
                        and self.call_ops(s.body[0].value)[:1] == [f"Remove {self.call_ops(t)[0].split()[1]}"]):
                    p = self.call_ops(t)[0].split()[1]
                    out += [f"ExistsTest {p}", f"RemoveIfExists {p}"]
                    continue
                out += self.expr_ops(t, handle)
                inner = []
                self.block(s.body, inner, handle)
                self.block(s.orelse, inner, handle)
                if inner:
                    out.append("Unknown")    # filesystem operations under a condition: not modelled
                continue
            if isinstance(s, (ast.For, ast.While)):
                inner = []
                if isinstance(s, ast.For):
                    inner += self.expr_ops(s.iter, handle)
                else:
                    inner += self.expr_ops(s.test, handle)
                self.block(s.body, inner, handle)
                self.block(s.orelse, inner, handle)
                if inner:
                    out.append("Unknown")
                continue
            if isinstance(s, ast.Try):
                if top and not self.seen_try and not s.handlers and not s.orelse and s.finalbody and out is self.main:
                    self.seen_try = True
                    self.block(s.body, self.main, handle)
                    self.block(s.finalbody, self.cleanup, handle)
                else:
                    out.append("Unknown")    # except handlers / nested try: not modelled
                continue
            out.append("Unknown")

    def run(self):
        self.block(self.fn.body, self.main, None, top=True)
        return self.main, self.cleanup


def coq_ops(ops):
    return "[" + "; ".join(ops) + "]"


def gen_edit_ops(repo):
    e = EditOps(repo)
    main, cleanup = e.run()
    return ("(* GENERATED by gen/gen_effects.py from torrentfile/edit.py (edit_torrent) -- do not edit. *)\n"
            "From Coq Require Import List. Import ListNotations.\n"
            "From TF Require Import Spec.FsOps.\n\n"
            f"Definition edit_fs_ops : edit_ops :=\n  {{| main_ops := {coq_ops(main)};\n     cleanup_ops := {coq_ops(cleanup)} |}}.\n")


def write_if_changed(path, text):
    old = open(path, encoding="utf-8").read() if os.path.exists(path) else None
    if old != text:
        with open(path, "w", encoding="utf-8") as fd:
            fd.write(text)


def main(repo, outdir):
    diags = {}
    for name, fn in (("GenEditOps.v", gen_edit_ops),):
        try:
            text = fn(repo)
        except Exception as e:  # noqa
            diags[name] = f"{type(e).__name__}: {e}"
            text = (f"(* GENERATED: translator refused: {str(e).replace('*)', '* )')} *)\n"
                    "Definition translator_refused : unit := tt.\n")
        write_if_changed(os.path.join(outdir, name), text)
    return diags


if __name__ == "__main__":
    d = main(sys.argv[1] if len(sys.argv) > 1 else "/repo", sys.argv[2] if len(sys.argv) > 2 else "/verif/coq/Gen")
    for k, v in d.items():
        print("REFUSED", k, v)


# ----------------------------------------------------------------------------------------------
# GenEffects.v: call graph, direct effects, command roots (C18, C14)
COMMAND_NAMES = {"recheck": "recheck", "info": "info", "magnet": "magnet", "create": "create", "rename": "rename",
                 "rebuild": "rebuild", "edit": "edit"}      # theorem name -> sub-command name on the command line
KINDS = ["Read", "Write", "Remove", "Rename", "Mkdir", "Copy", "Chmod"]


def derive_commands(repo):
    """sub-command name -> the package function the CLI dispatches to, read from cli.py:
         X = subparsers.add_parser("name", ...)   ...   X.set_defaults(func=commands.F)
    Raises when a sub-command of COMMAND_NAMES cannot be tied to exactly one function (fail closed)."""
    import cli_expand
    tree = cli_expand.expand(ast.parse(open(os.path.join(repo, "torrentfile", "cli.py"), encoding="utf-8").read()))
    var_to_name, found = {}, {}
    for n in ast.walk(tree):
        if isinstance(n, ast.Assign) and len(n.targets) == 1 and isinstance(n.targets[0], ast.Name) and isinstance(n.value, ast.Call) \
                and isinstance(n.value.func, ast.Attribute) and n.value.func.attr == "add_parser" and n.value.args \
                and isinstance(n.value.args[0], ast.Constant):
            var_to_name[n.targets[0].id] = n.value.args[0].value
    for n in ast.walk(tree):
        if isinstance(n, ast.Call) and isinstance(n.func, ast.Attribute) and n.func.attr == "set_defaults" \
                and isinstance(n.func.value, ast.Name) and n.func.value.id in var_to_name:
            for k in n.keywords:
                if k.arg == "func":
                    v = k.value
                    if isinstance(v, ast.Attribute) and isinstance(v.value, ast.Name) and v.value.id == "commands":
                        found.setdefault(var_to_name[n.func.value.id], set()).add(f"commands.{v.attr}")
                    else:
                        found.setdefault(var_to_name[n.func.value.id], set()).add("?")
    out = {}
    for thm, sub in COMMAND_NAMES.items():
        fs = found.get(sub, set())
        if len(fs) != 1 or "?" in fs:
            raise ValueError(f"cannot tie sub-command `{sub}` to one function of commands.py (found {sorted(fs)})")
        out[thm] = next(iter(fs))
    return out


def command_roots(g, repo, name):
    """roots of a command: the function its sub-parser dispatches to, the dispatcher cli.execute (runs before every command:
    -q/-v handling, Config.activate_logger) and the import-time code of every module of the package"""
    cmds = derive_commands(repo)
    q = cmds[name]
    if q not in g.fns:
        raise ValueError(f"command function {q} not found")
    pre = [r for r in ("cli.execute", "cli.main") if r in g.fns]
    mods = sorted(r for r in g.fns if r.endswith(".<module>"))
    return [q] + pre + mods


def gen_effects(repo):
    g = Graph(repo)
    quals = sorted(g.fns)
    idx = {q: i for i, q in enumerate(quals)}
    cmds = derive_commands(repo)
    # the dispatch edge of cli.execute must lead to nothing but functions the sub-parsers name
    stray = sorted(g.dispatch - set(g.fns))
    if "cli.execute" in g.fns and not g.dispatch:
        g.fns["cli.execute"].unknown.append("the dispatch call args.func(args) was not found in cli.execute")
    for s in stray:
        g.fns["cli.execute"].unknown.append(f"dispatch target {s} is not a package function")
    lines = ["(* GENERATED by gen/gen_effects.py from torrentfile/*.py -- do not edit.",
             "   Over-approximate call graph (gen/callgraph.py), direct filesystem effects per function and the",
             "   command entry points.  Function numbers index fn_names.  Roots of a command: the function its",
             "   sub-parser stores under func= (read from cli.py), cli.execute, cli.main and every <module> (import-time code). *)",
             "From Coq Require Import List String. Import ListNotations.",
             "From TF Require Import Model.Effects.", "Open Scope string_scope.", ""]
    lines.append("Definition fn_names : list (nat * string) := [")
    lines.append(";\n".join(f'  ({i}, "{q}")' for q, i in idx.items()))
    lines.append("].\n")
    lines.append("Definition call_graph : graph := [")
    lines.append(";\n".join(f"  ({idx[q]}, [{'; '.join(str(idx[c]) for c in sorted(g.fns[q].calls) if c in idx)}])" for q in quals))
    lines.append("].\n")
    lines.append("Definition direct_effects : list (nat * list effect) := [")
    rows = []
    for q in quals:
        effs = sorted({k for k, _ in g.fns[q].effects}, key=KINDS.index)
        if g.fns[q].unknown:
            effs.append("Unknown")
        if effs:
            why = "; ".join(sorted({d for _, d in g.fns[q].effects if _ != "Read"} | set(g.fns[q].unknown)))
            rows.append((f"  (* {q}: {why.replace('*)', '* )').replace('(*', '( *')} *)\n" if why else "") +
                        f"  ({idx[q]}, [{'; '.join('E' + e for e in effs)}])")
    lines.append(";\n".join(rows))
    lines.append("].\n")
    for name in COMMAND_NAMES:
        roots = [idx[r] for r in command_roots(g, repo, name)]
        lines.append(f"Definition cmd_{name} : list nat := [{'; '.join(map(str, roots))}].   (* {cmds[name]} *)")
    return "\n".join(lines) + "\n", g, idx


def metafile_write_shape(repo, g):
    """torrent.MetaFile.write must be: effect-free preparation, then exactly ONE `pyben.dump(<meta>, self.outfile)` (a truncating
    write of the whole encoding to the output path), not in a loop, nothing else that touches the filesystem -- this is what
    Model/Effects.create_fs assumes of `create` after the probe.  Returns a list of reasons why it is not ([] = as modelled)."""
    q = "torrent.MetaFile.write"
    if q not in g.fns:
        return [f"{q} not found"]
    f = g.fns[q]
    why = []
    if f.unknown:
        why += f.unknown
    non_read = [(k, d) for k, d in f.effects if k != "Read"]
    if non_read != [("Write", "pyben.dump")]:
        why.append("its non-read effects are " + ", ".join(f"{k}:{d}" for k, d in non_read) + " instead of one pyben.dump")
    dumps = [n for n in ast.walk(f.node) if isinstance(n, ast.Call) and isinstance(n.func, ast.Attribute) and n.func.attr == "dump"
             and isinstance(n.func.value, ast.Name) and n.func.value.id == "pyben"]
    for n in dumps:
        tgt = n.args[1] if len(n.args) == 2 and not n.keywords else None
        if not (isinstance(tgt, ast.Attribute) and tgt.attr == "outfile" and isinstance(tgt.value, ast.Name) and tgt.value.id == "self"):
            why.append("pyben.dump does not write to self.outfile")
    for n in ast.walk(f.node):
        if isinstance(n, (ast.For, ast.While, ast.AsyncFor)) and any(d in ast.walk(n) for d in dumps):
            why.append("pyben.dump inside a loop")
        if isinstance(n, ast.Try) and (n.finalbody or n.orelse):
            inner = [c for part in (n.finalbody, n.orelse) for st in part for c in ast.walk(st) if isinstance(c, ast.Call)]
            if inner:
                why.append("calls in a finally/else clause around the write")
    # callees: nothing but reads, nothing unknown
    for r in sorted(g.reach(f.calls)):
        fr = g.fns[r]
        if fr.unknown or any(k != "Read" for k, _ in fr.effects):
            why.append(f"callee {r} has effects " + ", ".join(sorted({k for k, _ in fr.effects if k != 'Read'} | ({'Unknown'} if fr.unknown else set()))))
    return why


def gen_create_ops(repo):
    """ordered operations of utils.check_path_writable and commands.rename in the small vocabulary of Model/Effects.v"""
    src = os.path.join(repo, "torrentfile", "utils.py")
    tree = ast.parse(open(src, encoding="utf-8").read())
    fn = next(n for n in tree.body if isinstance(n, ast.FunctionDef) and n.name == "check_path_writable")
    pname = fn.args.args[0].arg
    ops = []
    binds = {}

    def is_path(e):
        return isinstance(e, ast.Name) and e.id == pname

    def is_exists(e):
        return (isinstance(e, ast.Call) and isinstance(e.func, ast.Attribute) and e.func.attr == "exists"
                and len(e.args) == 1 and is_path(e.args[0]))

    def is_remove(s):
        return (isinstance(s, ast.Expr) and isinstance(s.value, ast.Call) and isinstance(s.value.func, ast.Attribute)
                and s.value.func.attr in ("remove", "unlink") and isinstance(s.value.func.value, ast.Name)
                and s.value.func.value.id == "os" and len(s.value.args) == 1 and is_path(s.value.args[0]))

    def pure(node):
        for c in ast.walk(node):
            if isinstance(c, ast.Call):
                f = c.func
                ok = (isinstance(f, ast.Attribute) and f.attr in ("endswith", "join", "dirname", "startswith")) or \
                     (isinstance(f, ast.Name) and f.id in ("str", "PermissionError", "len"))
                if not ok:
                    return False
        return True

    def walk(stmts):
        for s in stmts:
            if isinstance(s, ast.Expr) and isinstance(s.value, ast.Constant):
                continue
            if isinstance(s, ast.Try):
                if s.finalbody or s.orelse:
                    ops.append("PUnknown")
                    continue
                walk(s.body)
                for h in s.handlers:
                    # handlers may only re-raise
                    if not all(isinstance(x, (ast.Assign, ast.Raise)) and pure(x) for x in h.body):
                        ops.append("PUnknown")
                continue
            if isinstance(s, ast.Assign) and len(s.targets) == 1 and isinstance(s.targets[0], ast.Name):
                if is_exists(s.value):
                    binds[s.targets[0].id] = "existed"
                    ops.append("PExistsBind")
                    continue
                if pure(s.value):
                    continue          # rebinding of the probe path by pure string functions
                ops.append("PUnknown")
                continue
            if isinstance(s, ast.If):
                t = s.test
                # if not existed: os.remove(path)
                if (isinstance(t, ast.UnaryOp) and isinstance(t.op, ast.Not) and isinstance(t.operand, ast.Name)
                        and binds.get(t.operand.id) == "existed" and not s.orelse and len(s.body) == 1 and is_remove(s.body[0])):
                    ops.append("PRemoveIfNew")
                    continue
                if pure(t) and all(isinstance(x, ast.Assign) and pure(x) for x in s.body + s.orelse):
                    continue
                ops.append("PUnknown")
                continue
            if isinstance(s, ast.With):
                c = s.items[0].context_expr if len(s.items) == 1 else None
                if (c is not None and isinstance(c, ast.Call) and isinstance(c.func, ast.Name) and c.func.id == "open"
                        and len(c.args) == 2 and not c.keywords and is_path(c.args[0])
                        and isinstance(c.args[1], ast.Constant) and c.args[1].value in ("ab", "a")
                        and all(isinstance(x, ast.Pass) for x in s.body)):
                    ops.extend(["POpenAppend", "PClose"])
                    continue
                ops.append("PUnknown")
                continue
            if is_remove(s):
                ops.append("PRemove")
                continue
            if isinstance(s, (ast.Return, ast.Raise, ast.Pass)) and pure(s):
                continue
            ops.append("PUnknown")
    walk(fn.body)

    # commands.rename
    src = os.path.join(repo, "torrentfile", "commands.py")
    tree = ast.parse(open(src, encoding="utf-8").read())
    fn = next(n for n in tree.body if isinstance(n, ast.FunctionDef) and n.name == "rename")
    rops = []
    names = {}       # local -> "T" | "N"

    def sym(e):
        if isinstance(e, ast.Name):
            return names.get(e.id)
        return None
    for s in fn.body:
        if isinstance(s, ast.Expr) and isinstance(s.value, ast.Constant):
            continue
        if isinstance(s, ast.Assign) and len(s.targets) == 1 and isinstance(s.targets[0], ast.Name):
            v = s.value
            t = s.targets[0].id
            if isinstance(v, ast.Attribute) and v.attr == "target":
                names[t] = "T"
                continue
            if isinstance(v, ast.Call) and isinstance(v.func, ast.Attribute) and v.func.attr == "load" and len(v.args) == 1 and sym(v.args[0]) == "T":
                rops.append("RLoadT")
                continue
            if isinstance(v, ast.Call) and isinstance(v.func, ast.Attribute) and v.func.attr == "join":
                names[t] = "N"          # the new path: dirname(target) joined with the metafile's own name
                continue
            # any other binding: an expression whose only calls are `<x>.load(<target>)` (reads the metafile: RLoadT) and
            # os.path.dirname / basename (pure), e.g. `name = pyben.load(target)["info"]["name"]`
            calls = [c for c in ast.walk(v) if isinstance(c, ast.Call)]
            loads = [c for c in calls if isinstance(c.func, ast.Attribute) and c.func.attr == "load" and len(c.args) == 1
                     and not c.keywords and sym(c.args[0]) == "T"]
            pure_calls = [c for c in calls if isinstance(c.func, ast.Attribute) and c.func.attr in ("dirname", "basename")]
            if isinstance(v, (ast.Subscript, ast.Call, ast.BinOp)) and len(loads) + len(pure_calls) == len(calls) and len(loads) <= 1:
                rops.extend("RLoadT" for _ in loads)
                continue
            rops.append("RUnknown")
            continue
        if isinstance(s, ast.If) and len(s.body) == 1 and isinstance(s.body[0], ast.Raise) and not s.orelse:
            t = s.test
            calls = [c for c in ast.walk(t) if isinstance(c, ast.Call)]
            if len(calls) == 1 and isinstance(calls[0].func, ast.Attribute) and calls[0].func.attr == "exists" and len(calls[0].args) == 1:
                which = sym(calls[0].args[0])
                neg = any(isinstance(n, ast.Not) for n in ast.walk(t))
                if which == "T" and neg:
                    rops.append("RRaiseUnlessExistsT")
                    continue
                if which == "N" and not neg:
                    rops.append("RRaiseIfExistsN")
                    continue
            rops.append("RUnknown")
            continue
        if isinstance(s, ast.Expr) and isinstance(s.value, ast.Call) and isinstance(s.value.func, ast.Attribute) \
                and s.value.func.attr == "rename" and len(s.value.args) == 2 \
                and sym(s.value.args[0]) == "T" and sym(s.value.args[1]) == "N":
            rops.append("RRenameTN")
            continue
        if isinstance(s, ast.Return):
            continue
        rops.append("RUnknown")
    return ops, rops


def gen_effects_file(repo):
    text, g, _ = gen_effects(repo)
    pops, rops = gen_create_ops(repo)
    why = metafile_write_shape(repo, g)
    if why:
        # Model/Effects.create_fs = probe, then ONE truncating write of OUT.  When MetaFile.write is anything else the model of
        # `create` is unknown: PUnknown makes create_fs undefined and the instance gen_probe_neutral / gen_create_only_out fail.
        pops = pops + ["PUnknown"]
        text += "\n(* torrent.MetaFile.write is NOT the single truncating write `pyben.dump(self.meta, self.outfile)` that create_fs\n" \
                "   models -- " + "; ".join(why).replace("*)", "* )") + " -- hence PUnknown: *)"
    text += "\nDefinition probe_ops : list probe_op := [" + "; ".join(pops) + "].\n"
    text += "Definition rename_ops : list rename_op := [" + "; ".join(rops) + "].\n"
    return text


_old_main = main


def main(repo, outdir):  # noqa: F811
    diags = _old_main(repo, outdir)
    try:
        text = gen_effects_file(repo)
    except Exception as e:  # noqa
        diags["GenEffects.v"] = f"{type(e).__name__}: {e}"
        text = (f"(* GENERATED: translator refused: {str(e).replace('*)', '* )')} *)\n"
                "Definition translator_refused : unit := tt.\n")
    write_if_changed(os.path.join(outdir, "GenEffects.v"), text)
    return diags
