"""
Regenerates coq/Gen/GenCli.v and coq/Gen/GenConfig.v (property C20) from the CURRENT
sources of /repo/torrentfile/{cli,commands,torrent}.py.

GenCli.v     one `argspec` record per `add_argument` call of the `create` and of the `edit`
             sub-parser (flags, dest, action, nargs, effective default, const, choices,
             positional); the dict commands.edit hands to edit_torrent as (key, attr, or_none).
GenConfig.v  - `cfg_route`: the if/elif chain of commands.parse_config_file over
               `key.lower()`, translated structurally (membership tests, equality tests,
               the rebinding of `val`, the `kwargs[...] = ...` stores);
             - whether ConfigParser is built with interpolation=None, the section name;
             - the parameter list of torrent.MetaFile.__init__ with literal defaults;
             - its `if x: path = x` aliases, the `if not path:` recovery chain and the
               `if x: self.meta[...] = x | 1` landings, as data;
             - the class dispatch of commands.create on `args.<attr> == "<literal>"`;
             - TorrentAssembler's `self.hybrid = str(self.meta_version) == "<literal>"`.

Fail closed: every shape that is not recognised raises Refuse; the generated file then only
contains `translator_refused`, so that everything depending on it stops compiling, and the
diagnostic is returned to the harness.
"""
import ast
import cli_expand
import os
import sys

sys.path.insert(0, os.path.dirname(os.path.abspath(__file__)))
from pyfun2coq import Refuse  # noqa: E402


# ------------------------------------------------------------------ Gallina literals
def qs(s):
    if not isinstance(s, str):
        raise Refuse(f"string expected, got {s!r}")
    if any(ord(c) < 32 and c not in "\n\t" for c in s):
        raise Refuse(f"control character in string literal {s!r}")
    return '"' + s.replace('"', '""') + '"'


def qlist(items):
    return "[" + "; ".join(items) + "]"


def qbool(b):
    return "true" if b else "false"


def const(node):
    """python literal of a Constant / list-of-constants node"""
    if isinstance(node, ast.Constant):
        return node.value
    if isinstance(node, (ast.List, ast.Tuple)):
        return [const(e) for e in node.elts]
    raise Refuse(f"line {getattr(node, 'lineno', '?')}: not a literal: {ast.dump(node)[:80]}")


def value_lit(v):
    """python literal -> Gallina `value`"""
    if v is None:
        return "VNone"
    if isinstance(v, bool):
        return f"(VBool {qbool(v)})"
    if isinstance(v, int):
        if not 0 <= v <= 4096:
            raise Refuse(f"integer default {v} out of the modelled range")
        return f"(VInt {v})"
    if isinstance(v, str):
        return f"(VStr {qs(v)})"
    if isinstance(v, list) and all(isinstance(x, str) for x in v):
        return f"(VList {qlist([qs(x) for x in v])})"
    raise Refuse(f"default/const {v!r} is not None, a bool, a small int, a string or a list of strings")


def parse(repo, mod):
    path = os.path.join(repo, "torrentfile", mod + ".py")
    return ast.parse(open(path, encoding="utf-8").read())


def find_def(body, name, kind=ast.FunctionDef):
    hits = [n for n in body if isinstance(n, kind) and n.name == name]
    if len(hits) != 1:
        raise Refuse(f"{name}: expected exactly one definition, found {len(hits)}")
    return hits[0]


def strip_doc(body):
    if body and isinstance(body[0], ast.Expr) and isinstance(body[0].value, ast.Constant) \
            and isinstance(body[0].value.value, str):
        return body[1:]
    return body


def is_logging(stmt):
    """logger.debug(...) etc: no effect on the values"""
    return (isinstance(stmt, ast.Expr) and isinstance(stmt.value, ast.Call)
            and isinstance(stmt.value.func, ast.Attribute)
            and isinstance(stmt.value.func.value, ast.Name) and stmt.value.func.value.id == "logger")


# ------------------------------------------------------------------ cli.py: the create sub-parser
PARSER_KW_OK = {"help", "prefix_chars", "aliases", "formatter_class", "description", "epilog", "usage"}
ARG_KW_OK = {"action", "dest", "metavar", "help", "nargs", "default", "const", "choices", "required"}
NARGS = {None: "NNone", "+": "NPlus", "?": "NOpt", "*": "NStar"}


def parser_args(repo, name):
    tree = cli_expand.expand(parse(repo, "cli"))       # declaration helpers read as the declarations they perform
    fn = find_def(tree.body, "execute")
    var = None
    aliases = []
    for st in fn.body:
        if isinstance(st, ast.Assign) and isinstance(st.value, ast.Call) \
                and isinstance(st.value.func, ast.Attribute) and st.value.func.attr == "add_parser" \
                and st.value.args and isinstance(st.value.args[0], ast.Constant) and st.value.args[0].value == name:
            if var is not None or len(st.targets) != 1 or not isinstance(st.targets[0], ast.Name):
                raise Refuse(f"{name} sub-parser: more than one add_parser({name!r}) or odd target")
            if len(st.value.args) != 1:
                raise Refuse(f"add_parser({name!r}, ...): extra positional arguments")
            for kw in st.value.keywords:
                if kw.arg not in PARSER_KW_OK:
                    raise Refuse(f"add_parser({name!r}): keyword {kw.arg} is not modelled")
                if kw.arg == "prefix_chars" and const(kw.value) != "-":
                    raise Refuse(f"add_parser({name!r}): prefix_chars is not '-'")
                if kw.arg == "aliases":
                    aliases = const(kw.value)
            var = st.targets[0].id
    if var is None:
        raise Refuse(f"no `<name> = <subparsers>.add_parser({name!r}, ...)` at the top level of cli.execute")

    specs, func = [], None
    accounted = set()
    for st in fn.body:
        if isinstance(st, ast.Expr) and isinstance(st.value, ast.Call) and isinstance(st.value.func, ast.Attribute) \
                and isinstance(st.value.func.value, ast.Name) and st.value.func.value.id == var:
            call = st.value
            accounted.add(id(call.func.value))
            meth = call.func.attr
            if meth == "add_argument":
                specs.append(one_argument(call))
            elif meth == "set_defaults":
                if call.args or [k.arg for k in call.keywords] != ["func"]:
                    raise Refuse(f"line {st.lineno}: set_defaults with anything but func= changes defaults")
                func = ast.unparse(call.keywords[0].value)
            else:
                raise Refuse(f"line {st.lineno}: {var}.{meth}(...) is not modelled")
    # every other mention of the parser variable (loops, helper calls, groups ...) is a refusal
    for node in ast.walk(fn):
        if isinstance(node, ast.Name) and node.id == var and id(node) not in accounted:
            if isinstance(node.ctx, ast.Store) and sum(
                    1 for n in ast.walk(fn) if isinstance(n, ast.Name) and n.id == var and isinstance(n.ctx, ast.Store)) == 1:
                continue
            raise Refuse(f"line {node.lineno}: `{var}` is used other than by top-level add_argument/set_defaults")
    flags = [f for s in specs for f in s["flags"]]
    if len(flags) != len(set(flags)):
        raise Refuse(f"{name} sub-parser: an option string is defined twice")
    if not specs:
        raise Refuse(f"{name} sub-parser: no add_argument calls")
    return specs, func, aliases


def create_parser_args(repo):
    return parser_args(repo, "create")


def one_argument(call):
    ln = call.lineno
    flags = [const(a) for a in call.args]
    if not flags or not all(isinstance(f, str) and f for f in flags):
        raise Refuse(f"line {ln}: add_argument without literal names")
    kws = {}
    for kw in call.keywords:
        if kw.arg is None or kw.arg not in ARG_KW_OK:
            raise Refuse(f"line {ln}: add_argument keyword {kw.arg} is not modelled")
        kws[kw.arg] = const(kw.value) if kw.arg not in ("help", "metavar") else None
    optional = [f.startswith("-") for f in flags]
    if any(optional) and not all(optional):
        raise Refuse(f"line {ln}: mixed positional and optional names")
    positional = not optional[0]
    if positional and len(flags) != 1:
        raise Refuse(f"line {ln}: positional with several names")
    if kws.get("required"):
        raise Refuse(f"line {ln}: required=True is not modelled")
    action = kws.get("action", "store")
    if action not in ("store", "store_true"):
        raise Refuse(f"line {ln}: action {action!r} is not modelled")
    if "dest" in kws:
        dest = kws["dest"]
        if positional:
            raise Refuse(f"line {ln}: dest= on a positional")
    elif positional:
        dest = flags[0]
    else:  # argparse._get_optional_kwargs
        longs = [f for f in flags if f.startswith("--")]
        dest = (longs[0] if longs else flags[0]).lstrip("-").replace("-", "_")
    if not isinstance(dest, str) or not dest:
        raise Refuse(f"line {ln}: dest is not a string")
    nargs = kws.get("nargs")
    if isinstance(nargs, bool) or nargs not in NARGS:
        raise Refuse(f"line {ln}: nargs {nargs!r} is not modelled")
    if action == "store_true":
        if any(k in kws for k in ("nargs", "const", "choices")):
            raise Refuse(f"line {ln}: store_true with nargs/const/choices")
        default = kws.get("default", False)
    else:
        default = kws.get("default")
    choices = kws.get("choices")
    if choices is not None and not (isinstance(choices, list) and all(isinstance(c, str) for c in choices)):
        raise Refuse(f"line {ln}: choices is not a list of strings")
    return {"flags": flags, "dest": dest, "action": action, "nargs": NARGS[nargs],
            "default": value_lit(default),
            "const": f"(Some {value_lit(kws['const'])})" if "const" in kws else "None",
            "choices": "None" if choices is None else f"(Some {qlist([qs(c) for c in choices])})",
            "positional": positional, "line": ln}


def render_table(name, specs):
    recs = []
    for s in specs:
        recs.append("  {| a_flags := %s; a_dest := %s;\n     a_action := %s; a_nargs := %s; a_default := %s;\n"
                    "     a_const := %s; a_choices := %s; a_positional := %s |}"
                    % (qlist([qs(f) for f in s["flags"]]), qs(s["dest"]),
                       "ActStore" if s["action"] == "store" else "ActStoreTrue", s["nargs"], s["default"],
                       s["const"], s["choices"], qbool(s["positional"])))
    return f"Definition {name} : list argspec :=\n[\n" + ";\n".join(recs) + "\n]."


def edit_mapping(repo):
    """commands.edit:  metafile = args.<attr>;  editargs = {"key": args.<attr> [or None], ...};
    return edit_torrent(metafile, editargs)   ->   (metafile attr, [(key, attr, or_none)])"""
    tree = parse(repo, "commands")
    fn = find_def(tree.body, "edit")
    if len(fn.args.args) != 1 or fn.args.vararg or fn.args.kwarg or fn.args.kwonlyargs:
        raise Refuse("commands.edit: expected one parameter")
    argsv = fn.args.args[0].arg
    body = [s for s in strip_doc(fn.body) if not is_logging(s)]
    if len(body) != 3:
        raise Refuse("commands.edit: expected `metafile = args.<attr>`, `editargs = {...}`, `return edit_torrent(...)`")
    a, d, r = body

    def attr_of(e):
        if isinstance(e, ast.Attribute) and isinstance(e.value, ast.Name) and e.value.id == argsv:
            return e.attr
        return None
    if not (isinstance(a, ast.Assign) and len(a.targets) == 1 and isinstance(a.targets[0], ast.Name) and attr_of(a.value)):
        raise Refuse(f"line {a.lineno}: expected `<name> = {argsv}.<attr>`")
    mvar, mattr = a.targets[0].id, attr_of(a.value)
    if not (isinstance(d, ast.Assign) and len(d.targets) == 1 and isinstance(d.targets[0], ast.Name)
            and isinstance(d.value, ast.Dict)):
        raise Refuse(f"line {d.lineno}: expected `<name> = {{...}}` (a dict literal)")
    dvar = d.targets[0].id
    entries = []
    for k, v in zip(d.value.keys, d.value.values):
        if not (isinstance(k, ast.Constant) and isinstance(k.value, str)):
            raise Refuse(f"line {d.lineno}: dict key is not a string literal (or is a ** expansion)")
        if attr_of(v):
            entries.append((k.value, attr_of(v), False))
        elif isinstance(v, ast.BoolOp) and isinstance(v.op, ast.Or) and len(v.values) == 2 and attr_of(v.values[0]) \
                and isinstance(v.values[1], ast.Constant) and v.values[1].value is None:
            entries.append((k.value, attr_of(v.values[0]), True))
        else:
            raise Refuse(f"line {v.lineno}: value `{ast.unparse(v)}` of key {k.value!r} is neither "
                         f"`{argsv}.<attr>` nor `{argsv}.<attr> or None`")
    if len({k for k, _, _ in entries}) != len(entries):
        raise Refuse(f"line {d.lineno}: a key occurs twice in the dict literal")
    if not (isinstance(r, ast.Return) and isinstance(r.value, ast.Call) and isinstance(r.value.func, ast.Name)
            and r.value.func.id == "edit_torrent" and not r.value.keywords and len(r.value.args) == 2
            and isinstance(r.value.args[0], ast.Name) and r.value.args[0].id == mvar
            and isinstance(r.value.args[1], ast.Name) and r.value.args[1].id == dvar):
        raise Refuse(f"line {r.lineno}: expected `return edit_torrent({mvar}, {dvar})`")
    return mattr, entries


def gen_cli(repo):
    specs, func, aliases = parser_args(repo, "create")
    especs, efunc, ealiases = parser_args(repo, "edit")
    mattr, emap = edit_mapping(repo)
    out = ["(* GENERATED by gen/gen_cli.py from torrentfile/cli.py (execute: the `create` and `edit`",
           "   sub-parsers, one record per add_argument call, in source order) and torrentfile/commands.py",
           "   (edit: the dict handed to edit_torrent) -- do not edit. *)",
           "From Coq Require Import String List.", "From TF Require Import Model.ArgParse.",
           "Import ListNotations.", "Open Scope string_scope.", "",
           render_table("create_args", specs), "",
           f"Definition create_func : string := {qs(func or '')}.",
           f"Definition create_aliases : list string := {qlist([qs(a) for a in aliases])}.", "",
           render_table("edit_args", especs), "",
           f"Definition edit_func : string := {qs(efunc or '')}.",
           f"Definition edit_aliases : list string := {qlist([qs(a) for a in ealiases])}.", "",
           "(* commands.edit: edit_torrent(args.<edit_metafile_attr>, {key: args.<attr> [or None]}) as",
           "   (key, attr, or_none) in the order of the dict literal *)",
           f"Definition edit_metafile_attr : string := {qs(mattr)}.",
           "Definition edit_map : list (string * string * bool) :=",
           "  " + qlist([f"({qs(k)}, {qs(a)}, {qbool(o)})" for k, a, o in emap]) + "."]
    return "\n".join(out) + "\n"


# ------------------------------------------------------------------ commands.parse_config_file
class CfgChain:
    """config = ConfigParser(interpolation=None); config.read(path); [constant tables]; for key, val in config[<section>].items(): ...

    The loop body is PARTIALLY EVALUATED over the key: for every string literal of the function taken as the (lower-cased) key,
    and for one sentinel standing for every other key, the body is executed with the key concrete and `val` symbolic.  Only
    expressions of a small grammar may look at the key -- `key.lower()` (raw `key` is refused), names bound to such values,
    ==, !=, in, not in against literals or constant tables, and/or/not, `<constant dict>.get(k, d)`, `<constant dict>[k]`,
    conditional expressions -- so a key that equals no literal of the function provably behaves like the sentinel.  `val` may be
    rebound once to `[i for i in val.split("\\n") if i]` (TLines) or `val.lower() == "true"` (TBoolTrue), and every path must
    store exactly once, `kwargs[<key expression>] = val`.  The shape of the dispatch (if/elif chain, membership tables, rename
    dictionaries, early `continue`) is free; anything outside the grammar makes the translator refuse."""

    OTHER = "\x00any-other-key\x00"

    def __init__(self, fn):
        self.fn = fn
        args = [a.arg for a in fn.args.args]
        if len(args) != 2 or fn.args.vararg or fn.args.kwarg or fn.args.kwonlyargs:
            raise Refuse("parse_config_file: expected exactly (path, kwargs)")
        self.pathv, self.kwv = args
        self.cfgv = self.keyv = self.valv = None
        self.interp_none = False
        self.section = None
        self.consts = {}

    # ---- constants: str, or tuple / list / set / dict of str
    def const_table(self, e):
        if isinstance(e, ast.Constant) and isinstance(e.value, str):
            return e.value
        if isinstance(e, (ast.Tuple, ast.List, ast.Set)) and all(isinstance(x, ast.Constant) and isinstance(x.value, str) for x in e.elts):
            return tuple(x.value for x in e.elts)
        if isinstance(e, ast.Dict) and all(isinstance(k, ast.Constant) and isinstance(k.value, str) for k in e.keys) \
                and all(isinstance(v, ast.Constant) and isinstance(v.value, str) for v in e.values):
            return {k.value: v.value for k, v in zip(e.keys, e.values)}
        return None

    def run(self):
        body = [st for st in strip_doc(self.fn.body) if not is_logging(st)]
        if len(body) < 3:
            raise Refuse("parse_config_file: expected `config = ConfigParser(...)`, `config.read(path)`, one for-loop")
        a, r = body[0], body[1]
        # config = configparser.ConfigParser(interpolation=None)
        if not (isinstance(a, ast.Assign) and len(a.targets) == 1 and isinstance(a.targets[0], ast.Name)
                and isinstance(a.value, ast.Call) and ast.unparse(a.value.func) in ("configparser.ConfigParser", "ConfigParser")
                and not a.value.args):
            raise Refuse(f"line {a.lineno}: expected `<name> = configparser.ConfigParser(...)`")
        self.cfgv = a.targets[0].id
        for kw in a.value.keywords:
            if kw.arg == "interpolation" and isinstance(kw.value, ast.Constant) and kw.value.value is None:
                self.interp_none = True
            else:
                raise Refuse(f"line {a.lineno}: ConfigParser keyword {kw.arg}={ast.unparse(kw.value)} is not modelled")
        # config.read(path)
        if not (isinstance(r, ast.Expr) and isinstance(r.value, ast.Call)
                and ast.unparse(r.value.func) == f"{self.cfgv}.read"
                and len(r.value.args) == 1 and not r.value.keywords
                and isinstance(r.value.args[0], ast.Name) and r.value.args[0].id == self.pathv):
            raise Refuse(f"line {r.lineno}: expected `{self.cfgv}.read({self.pathv})`")
        # constant tables, then the loop (nothing after it)
        for st in body[2:-1]:
            c = self.const_table(st.value) if isinstance(st, ast.Assign) and len(st.targets) == 1 \
                and isinstance(st.targets[0], ast.Name) else None
            if c is None or st.targets[0].id in (self.cfgv, self.pathv, self.kwv):
                raise Refuse(f"line {st.lineno}: between `{self.cfgv}.read(...)` and the loop only `<name> = <constant table of strings>`")
            self.consts[st.targets[0].id] = c
        loop = body[-1]
        # for key, val in config["config"].items():
        if not (isinstance(loop, ast.For) and not loop.orelse and isinstance(loop.target, ast.Tuple)
                and len(loop.target.elts) == 2 and all(isinstance(e, ast.Name) for e in loop.target.elts)):
            raise Refuse(f"line {loop.lineno}: expected `for key, val in ...` as the last statement")
        self.keyv, self.valv = (e.id for e in loop.target.elts)
        it = loop.iter
        if not (isinstance(it, ast.Call) and not it.args and not it.keywords and isinstance(it.func, ast.Attribute)
                and it.func.attr == "items" and isinstance(it.func.value, ast.Subscript)
                and isinstance(it.func.value.value, ast.Name) and it.func.value.value.id == self.cfgv
                and isinstance(it.func.value.slice, ast.Constant) and isinstance(it.func.value.slice.value, str)):
            raise Refuse(f"line {loop.lineno}: expected iteration over `{self.cfgv}[<literal>].items()`")
        self.section = it.func.value.slice.value
        if self.keyv in self.consts or self.valv in self.consts:
            raise Refuse("parse_config_file: loop variable shadows a constant table")
        # every string literal of the function is a key worth distinguishing
        lits = set()
        for n in ast.walk(self.fn):
            if isinstance(n, ast.Constant) and isinstance(n.value, str):
                lits.add(n.value)
        lits = sorted(k for k in lits if k == k.lower() and k and "\x00" not in k and all(32 <= ord(ch) < 127 for ch in k))
        other = self.one_key(loop.body, self.OTHER)
        rows = [(k, self.one_key(loop.body, k)) for k in lits]

        def show(k, res):
            kw, tr = res
            return f"({'key' if kw == k else qs(kw)}, {tr})"
        if other[0] != self.OTHER and self.OTHER in other[0]:
            raise Refuse("parse_config_file: the keyword stored for an unlisted key is derived from the key, not the key itself")
        text, depth = "", 1
        for k, res in rows:
            same_as_default = (res[1] == other[1]) and ((res[0] == k and other[0] == self.OTHER) or (res[0] == other[0] != self.OTHER))
            if same_as_default:
                continue
            text += f"if (key =? {qs(k)}) then {show(k, res)}\n" + "  " * depth + "else "
        return text + show(self.OTHER, other)

    # ---- expressions that may look at the key
    def keyexpr(self, e, env):
        """value of a key-only expression of the whitelisted grammar; Refuse otherwise"""
        if isinstance(e, ast.Constant) and isinstance(e.value, (str, bool)):
            return e.value
        if isinstance(e, ast.Name):
            if e.id in env:
                return env[e.id]
            if e.id in self.consts:
                return self.consts[e.id]
            raise Refuse(f"line {e.lineno}: `{e.id}` is not a key-derived name or a constant table (raw `{self.keyv}` must be lower-cased)")
        if isinstance(e, ast.Call) and not e.args and not e.keywords and isinstance(e.func, ast.Attribute) and e.func.attr == "lower":
            if isinstance(e.func.value, ast.Name) and e.func.value.id == self.keyv:
                return env["\x00key"]
            v = self.keyexpr(e.func.value, env)
            if isinstance(v, str):
                return v.lower()        # (the sentinel and the literal keys tried are their own lower case)
        if isinstance(e, (ast.Tuple, ast.List, ast.Set)):
            c = self.const_table(e)
            if c is not None:
                return c
        if isinstance(e, ast.Dict):
            c = self.const_table(e)
            if c is not None:
                return c
        if isinstance(e, ast.BoolOp):
            vals = [self.keyexpr(v, env) for v in e.values]
            if all(isinstance(v, bool) for v in vals):
                return all(vals) if isinstance(e.op, ast.And) else any(vals)
        if isinstance(e, ast.UnaryOp) and isinstance(e.op, ast.Not):
            v = self.keyexpr(e.operand, env)
            if isinstance(v, bool):
                return not v
        if isinstance(e, ast.Compare) and len(e.ops) == 1:
            l, r = self.keyexpr(e.left, env), self.keyexpr(e.comparators[0], env)
            op = e.ops[0]
            if isinstance(op, (ast.Eq, ast.NotEq)) and isinstance(l, str) and isinstance(r, str):
                return (l == r) == isinstance(op, ast.Eq)
            if isinstance(op, (ast.In, ast.NotIn)) and isinstance(l, str) and isinstance(r, (tuple, dict)):
                return (l in r) == isinstance(op, ast.In)
        if isinstance(e, ast.IfExp):
            t = self.keyexpr(e.test, env)
            if isinstance(t, bool):
                return self.keyexpr(e.body if t else e.orelse, env)
        if isinstance(e, ast.Call) and isinstance(e.func, ast.Attribute) and e.func.attr == "get" and not e.keywords \
                and len(e.args) == 2:
            d = self.keyexpr(e.func.value, env)
            if isinstance(d, dict):
                k, dflt = self.keyexpr(e.args[0], env), self.keyexpr(e.args[1], env)
                if isinstance(k, str) and isinstance(dflt, str):
                    return d.get(k, dflt)
        if isinstance(e, ast.Subscript):
            d, k = self.keyexpr(e.value, env), self.keyexpr(e.slice, env)
            if isinstance(d, dict) and isinstance(k, str):
                if k not in d:
                    raise Refuse(f"line {e.lineno}: `{ast.unparse(e)}` raises KeyError for the key {k!r}")
                return d[k]
        raise Refuse(f"line {getattr(e, 'lineno', '?')}: `{ast.unparse(e)}` is outside the grammar of key expressions")

    def mentions_val(self, e):
        return any(isinstance(n, ast.Name) and n.id == self.valv for n in ast.walk(e))

    def is_split_lines(self, e):
        """[i for i in val.split("\\n") if i]"""
        if not (isinstance(e, ast.ListComp) and len(e.generators) == 1):
            return False
        g = e.generators[0]
        return (isinstance(e.elt, ast.Name) and isinstance(g.target, ast.Name) and e.elt.id == g.target.id
                and not g.is_async and len(g.ifs) == 1 and isinstance(g.ifs[0], ast.Name) and g.ifs[0].id == g.target.id
                and isinstance(g.iter, ast.Call) and isinstance(g.iter.func, ast.Attribute) and g.iter.func.attr == "split"
                and isinstance(g.iter.func.value, ast.Name) and g.iter.func.value.id == self.valv
                and len(g.iter.args) == 1 and not g.iter.keywords
                and isinstance(g.iter.args[0], ast.Constant) and g.iter.args[0].value == "\n")

    def is_lower_true(self, e):
        """val.lower() == "true" """
        return (isinstance(e, ast.Compare) and len(e.ops) == 1 and isinstance(e.ops[0], ast.Eq)
                and isinstance(e.left, ast.Call) and not e.left.args and not e.left.keywords
                and isinstance(e.left.func, ast.Attribute) and e.left.func.attr == "lower"
                and isinstance(e.left.func.value, ast.Name) and e.left.func.value.id == self.valv
                and isinstance(e.comparators[0], ast.Constant) and e.comparators[0].value == "true")

    def valexpr(self, e, tr):
        """transform held by a value expression, given what `val` holds now"""
        if isinstance(e, ast.Name) and e.id == self.valv:
            return tr
        if tr == "TVerbatim" and self.is_split_lines(e):
            return "TLines"
        if tr == "TVerbatim" and self.is_lower_true(e):
            return "TBoolTrue"
        raise Refuse(f"line {e.lineno}: value `{ast.unparse(e)}` not understood (val currently holds {tr})")

    def one_key(self, stmts, k):
        """run one iteration of the loop with key.lower() == k; returns (keyword stored to, transform)"""
        state = {"env": {"\x00key": k}, "tr": "TVerbatim", "stores": []}
        self.exec_block(stmts, state)
        if len(state["stores"]) != 1:
            what = "every other key" if k == self.OTHER else repr(k)
            raise Refuse(f"parse_config_file: the path for key {what} stores {len(state['stores'])} times (exactly one store is modelled)")
        return state["stores"][0]

    def exec_block(self, stmts, state):
        """returns False when the iteration ended (`continue`)"""
        stmts = [s for s in stmts if not is_logging(s)]
        i = 0
        while i < len(stmts):
            st = stmts[i]
            i += 1
            if isinstance(st, ast.Continue):
                return False
            if isinstance(st, ast.Pass):
                continue
            if isinstance(st, ast.If):
                t = self.keyexpr(st.test, state["env"])
                if not isinstance(t, bool):
                    raise Refuse(f"line {st.lineno}: test `{ast.unparse(st.test)}` is not a boolean over the key")
                if not self.exec_block(st.body if t else st.orelse, state):
                    return False
                continue
            # kwargs.setdefault("k", <literal>) directly followed by kwargs["k"] = ...: no effect
            if isinstance(st, ast.Expr) and isinstance(st.value, ast.Call) \
                    and ast.unparse(st.value.func) == f"{self.kwv}.setdefault" and len(st.value.args) == 2 \
                    and not st.value.keywords and isinstance(st.value.args[0], ast.Constant) and i < len(stmts) \
                    and isinstance(stmts[i], ast.Assign) and len(stmts[i].targets) == 1 \
                    and ast.unparse(stmts[i].targets[0]) == f"{self.kwv}[{st.value.args[0].value!r}]":
                const(st.value.args[1])
                continue
            if isinstance(st, ast.Assign) and len(st.targets) == 1:
                tg = st.targets[0]
                if isinstance(tg, ast.Name) and tg.id == self.valv:
                    state["tr"] = self.valexpr(st.value, state["tr"])
                    continue
                if isinstance(tg, ast.Name) and tg.id not in (self.keyv, self.kwv, self.cfgv, self.pathv) \
                        and not self.mentions_val(st.value):
                    v = self.keyexpr(st.value, state["env"])
                    state["env"] = dict(state["env"], **{tg.id: v})
                    continue
                if isinstance(tg, ast.Subscript) and isinstance(tg.value, ast.Name) and tg.value.id == self.kwv:
                    kw = self.keyexpr(tg.slice, state["env"])
                    if not isinstance(kw, str):
                        raise Refuse(f"line {st.lineno}: keyword `{ast.unparse(tg.slice)}` is not a string")
                    state["stores"].append((kw, self.valexpr(st.value, state["tr"])))
                    continue
            raise Refuse(f"line {st.lineno}: statement `{ast.unparse(st)[:60]}` not understood")
        return True


# ------------------------------------------------------------------ torrent.MetaFile.__init__
def metafile_init(repo):
    tree = parse(repo, "torrent")
    cls = find_def(tree.body, "MetaFile", ast.ClassDef)
    fn = find_def(cls.body, "__init__")
    a = fn.args
    if a.posonlyargs or a.kwonlyargs or a.vararg or not a.args or a.args[0].arg != "self":
        raise Refuse("MetaFile.__init__: signature shape not modelled")
    names = [x.arg for x in a.args[1:]]
    if len(a.defaults) != len(names):
        raise Refuse("MetaFile.__init__: a parameter without default")
    params = [(n, value_lit(const(d))) for n, d in zip(names, a.defaults)]
    body = strip_doc(fn.body)

    def name_is(e, n=None):
        return isinstance(e, ast.Name) and (n is None or e.id == n)

    # --- `if x: path = x`  and  `if not path: <chain>`
    aliases, chain, seen_chain = [], None, False
    landings = []
    for st in body:
        if not isinstance(st, ast.If):
            continue
        t = st.test
        if isinstance(t, ast.UnaryOp) and isinstance(t.op, ast.Not) and name_is(t.operand, "path"):
            if seen_chain or st.orelse:
                raise Refuse(f"line {st.lineno}: second `if not path` or an else branch")
            seen_chain = True
            chain = recovery_chain(st.body, names)
            continue
        assigns_path = any(isinstance(n, ast.Name) and n.id == "path" and isinstance(n.ctx, ast.Store) for n in ast.walk(st))
        if assigns_path:
            if seen_chain:
                raise Refuse(f"line {st.lineno}: `path` assigned after the recovery chain")
            if not (name_is(t) and t.id in names and not st.orelse and len(st.body) == 1
                    and isinstance(st.body[0], ast.Assign) and len(st.body[0].targets) == 1
                    and name_is(st.body[0].targets[0], "path") and name_is(st.body[0].value, t.id)):
                raise Refuse(f"line {st.lineno}: assignment to `path` not of the form `if x: path = x`")
            aliases.append(t.id)
            continue
        land = landing_of(st, names)
        if land is not None:
            landings.append(land)
    # any other store to `path` or to a chain variable outside the recognised statements -> refuse
    for st in body:
        if isinstance(st, ast.If):
            continue
        for n in ast.walk(st):
            if isinstance(n, ast.Name) and isinstance(n.ctx, ast.Store) and n.id in names:
                raise Refuse(f"line {n.lineno}: parameter `{n.id}` is rebound outside the recognised statements")
    if chain is None:
        raise Refuse("MetaFile.__init__: no `if not path:` recovery chain")
    # every write into self.meta outside the dict literal must have been classified
    classified = {id(x) for x in landings_nodes}
    for n in ast.walk(fn):
        if isinstance(n, ast.Subscript) and isinstance(n.ctx, ast.Store) and "self.meta" in ast.unparse(n):
            if id(n) not in classified and ast.unparse(n) not in HAND_MODELLED_META:
                raise Refuse(f"line {n.lineno}: write `{ast.unparse(n)}` is neither a landing nor hand-modelled")
    return params, a.kwarg is not None, aliases, chain, [l for l in landings]


HAND_MODELLED_META = {"self.meta['announce']", "self.meta['announce-list']",
                      "self.meta['info']['piece length']", "self.meta['info']['name']"}
landings_nodes = []


def landing_of(st, names):
    """`if x: self.meta["k"] = x` / `self.meta["info"]["k"] = x | 1` (+ logging) -> landing"""
    t = st.test
    if not (isinstance(t, ast.Name) and t.id in names) or st.orelse:
        return None
    body = [s for s in st.body if not is_logging(s)]
    if len(body) != 1 or not isinstance(body[0], ast.Assign) or len(body[0].targets) != 1:
        return None
    tgt, val = body[0].targets[0], body[0].value
    if not isinstance(tgt, ast.Subscript) or not isinstance(tgt.slice, ast.Constant) or not isinstance(tgt.slice.value, str):
        return None
    base = ast.unparse(tgt.value)
    if base == "self.meta":
        info = False
    elif base == "self.meta['info']":
        info = True
    else:
        return None
    if isinstance(val, ast.Name) and val.id == t.id:
        one = False
    elif isinstance(val, ast.Constant) and val.value == 1 and not isinstance(val.value, bool):
        one = True
    else:
        raise Refuse(f"line {st.lineno}: landing stores `{ast.unparse(val)}`, neither the parameter nor 1")
    landings_nodes.append(tgt)
    return (t.id, info, tgt.slice.value, one)


def recovery_chain(stmts, names):
    """if A and len(A) > 1 and os.path.exists(A[-1]): path = A[-1]; A = A[:-1]  elif ... else: raise"""
    if len(stmts) != 1 or not isinstance(stmts[0], ast.If):
        raise Refuse("recovery chain: `if not path:` must contain exactly one if/elif chain")
    out = []
    st = stmts[0]
    while True:
        conj = st.test.values if isinstance(st.test, ast.BoolOp) and isinstance(st.test.op, ast.And) else None
        if not conj or not isinstance(conj[0], ast.Name) or conj[0].id not in names:
            raise Refuse(f"line {st.lineno}: recovery test is not `<param> and ...`")
        v = conj[0].id
        need2 = False
        rest = conj[1:]
        if len(rest) == 2:
            if ast.unparse(rest[0]) != f"len({v}) > 1":
                raise Refuse(f"line {st.lineno}: recovery test `{ast.unparse(rest[0])}` not understood")
            need2 = True
            rest = rest[1:]
        if len(rest) != 1 or ast.unparse(rest[0]) != f"os.path.exists({v}[-1])":
            raise Refuse(f"line {st.lineno}: recovery test is not `os.path.exists({v}[-1])`")
        body = [s for s in st.body if not is_logging(s)]
        if [ast.unparse(s) for s in body] != [f"path = {v}[-1]", f"{v} = {v}[:-1]"]:
            raise Refuse(f"line {st.lineno}: recovery body is not `path = {v}[-1]; {v} = {v}[:-1]`")
        out.append((v, need2))
        if len(st.orelse) == 1 and isinstance(st.orelse[0], ast.If):
            st = st.orelse[0]
            continue
        if len(st.orelse) == 1 and isinstance(st.orelse[0], ast.Raise):
            return out
        raise Refuse(f"line {st.lineno}: recovery chain does not end in `else: raise ...`")


# ------------------------------------------------------------------ commands.create, TorrentAssembler
def create_dispatch(repo):
    tree = parse(repo, "commands")
    fn = find_def(tree.body, "create")
    if len(fn.args.args) != 1:
        raise Refuse("commands.create: expected one parameter")
    argsv = fn.args.args[0].arg
    body = strip_doc(fn.body)
    if not body or ast.unparse(body[0]) != f"kwargs = vars({argsv})":
        raise Refuse("commands.create: does not start with `kwargs = vars(args)`")
    # if args.config: path = find_config_file(args); parse_config_file(path, kwargs)
    cfg = [s for s in body if isinstance(s, ast.If) and ast.unparse(s.test) == f"{argsv}.config"]
    if len(cfg) != 1 or cfg[0].orelse or [ast.unparse(s) for s in cfg[0].body] != [
            f"path = find_config_file({argsv})", "parse_config_file(path, kwargs)"]:
        raise Refuse("commands.create: the `if args.config:` block is not the modelled one")
    # kwargs must not be rebound or edited elsewhere in create
    for n in ast.walk(fn):
        if isinstance(n, ast.Name) and n.id == "kwargs" and isinstance(n.ctx, ast.Store) and n is not body[0].targets[0]:
            raise Refuse(f"line {n.lineno}: kwargs rebound in commands.create")
        if isinstance(n, ast.Subscript) and isinstance(n.ctx, (ast.Store, ast.Del)) and isinstance(n.value, ast.Name) \
                and n.value.id == "kwargs":
            raise Refuse(f"line {n.lineno}: kwargs edited in commands.create")
    found = None
    for st in body:
        if not (isinstance(st, ast.If) and isinstance(st.test, ast.Compare)):
            continue
        t = st.test
        if not (len(t.ops) == 1 and isinstance(t.ops[0], ast.Eq) and isinstance(t.left, ast.Attribute)
                and isinstance(t.left.value, ast.Name) and t.left.value.id == argsv
                and isinstance(t.comparators[0], ast.Constant) and isinstance(t.comparators[0].value, str)):
            continue

        def ctor(stmts):
            if len(stmts) == 1 and isinstance(stmts[0], ast.Assign) and isinstance(stmts[0].value, ast.Call):
                c = stmts[0].value
                if isinstance(c.func, ast.Name) and not c.args and len(c.keywords) == 1 and c.keywords[0].arg is None \
                        and isinstance(c.keywords[0].value, ast.Name) and c.keywords[0].value.id == "kwargs":
                    return c.func.id
            return None
        c1, c2 = ctor(st.body), ctor(st.orelse)
        if c1 and c2:
            if found:
                raise Refuse("commands.create: two class dispatches")
            found = (t.left.attr, t.comparators[0].value, c1, c2)
    if not found:
        raise Refuse("commands.create: no `if args.<attr> == <literal>: X(**kwargs) else: Y(**kwargs)`")
    return found


def assembler_hybrid(repo):
    tree = parse(repo, "torrent")
    cls = find_def(tree.body, "TorrentAssembler", ast.ClassDef)
    fn = find_def(cls.body, "__init__")
    hits = [s for s in ast.walk(fn) if isinstance(s, ast.Assign) and len(s.targets) == 1
            and ast.unparse(s.targets[0]) == "self.hybrid"]
    if len(hits) != 1:
        raise Refuse("TorrentAssembler.__init__: expected one assignment to self.hybrid")
    v = hits[0].value
    if isinstance(v, ast.Compare) and len(v.ops) == 1 and isinstance(v.ops[0], ast.Eq) \
            and isinstance(v.comparators[0], ast.Constant) and isinstance(v.comparators[0].value, str):
        lhs = ast.unparse(v.left)
        if lhs == "str(self.meta_version)":
            return v.comparators[0].value, True
        if lhs == "self.meta_version":
            return v.comparators[0].value, False
    raise Refuse(f"line {hits[0].lineno}: self.hybrid = {ast.unparse(v)} not understood")


def gen_config(repo):
    tree = parse(repo, "commands")
    chain = CfgChain(find_def(tree.body, "parse_config_file"))
    route = chain.run()
    del landings_nodes[:]
    params, varkw, aliases, recovery, landings = metafile_init(repo)
    attr, lit, c1, c2 = create_dispatch(repo)
    hlit, hstr = assembler_hybrid(repo)
    out = ["(* GENERATED by gen/gen_cli.py from torrentfile/commands.py (parse_config_file, create) and",
           "   torrentfile/torrent.py (MetaFile.__init__, TorrentAssembler.__init__) -- do not edit. *)",
           "From Coq Require Import String List Bool.", "From TF Require Import Model.ArgParse Model.Routes.",
           "Import ListNotations.", "Open Scope string_scope.", "",
           "(* parse_config_file: `key` stands for key.lower(); result = (keyword stored to, transform of val) *)",
           "Definition cfg_route (key : string) : string * cfg_transform :=",
           "  " + route + ".", "",
           f"Definition cfg_section : string := {qs(chain.section)}.",
           f"Definition cfg_interpolation_none : bool := {qbool(chain.interp_none)}.", "",
           "(* MetaFile.__init__ *)",
           "Definition init_params_sig : list (string * value) :=",
           "  " + qlist([f"({qs(n)}, {d})" for n, d in params]) + ".",
           f"Definition init_varkw : bool := {qbool(varkw)}.",
           f"Definition init_alias : list string := {qlist([qs(a) for a in aliases])}.",
           "Definition init_recovery : list (string * bool) :=",
           "  " + qlist([f"({qs(n)}, {qbool(b)})" for n, b in recovery]) + ".",
           "Definition init_landings : list landing :=",
           "  " + qlist([f"mk_landing {qs(p)} {qbool(i)} {qs(k)} {qbool(o)}" for p, i, k, o in landings]) + ".", "",
           "(* commands.create / TorrentAssembler.__init__ *)",
           f"Definition create_dispatch : string * string * string * string := ({qs(attr)}, {qs(lit)}, {qs(c1)}, {qs(c2)}).",
           f"Definition assembler_hybrid : string * bool := ({qs(hlit)}, {qbool(hstr)}).", "",
           "Definition gen_tables (cli : list argspec) : tables :=",
           "  mk_tables cli cfg_route cfg_interpolation_none init_params_sig init_varkw init_alias",
           "            init_recovery init_landings create_dispatch assembler_hybrid."]
    return "\n".join(out) + "\n"


def write_if_changed(path, text):
    old = open(path, encoding="utf-8").read() if os.path.exists(path) else None
    if old != text:
        with open(path, "w", encoding="utf-8") as fd:
            fd.write(text)
        return True
    return False


def main(repo, outdir):
    diags = {}
    for name, fn in (("GenCli.v", gen_cli), ("GenConfig.v", gen_config)):
        try:
            text = fn(repo)
        except (Refuse, SyntaxError, OSError) as e:
            diags[name] = f"{type(e).__name__}: {e}"
            text = (f"(* GENERATED: translator refused: {str(e).replace('*)', '* )').replace('(*', '( *').replace(chr(34), chr(39))} *)\n"
                    "Definition translator_refused : unit := tt.\n")
        write_if_changed(os.path.join(outdir, name), text)
    return diags


if __name__ == "__main__":
    d = main(sys.argv[1] if len(sys.argv) > 1 else "/repo",
             sys.argv[2] if len(sys.argv) > 2 else "/verif/coq/Gen")
    for k, v in d.items():
        print("REFUSED", k, v)
