"""
Regenerates coq/Gen/GenDeterminism.v: a fail-closed static reading of the two ways in which the RESULT of a create could come to
depend on something other than its input (C08, C09, C20):

  1. the iteration order of a SET (it follows the string hash seed, PYTHONHASHSEED).  Every name that is ever bound to a set
     (set(), a set display or comprehension, frozenset(), a set operation, a parameter that receives one) is collected, package
     wide and by name; every use of such a name and every set-valued expression must be ORDER-INSENSITIVE: a membership test, len,
     bool / truthiness, sorted() without key, min / max / sum / any / all, equality or subset comparison, a set method
     (add update discard remove clear copy union intersection difference symmetric_difference issubset issuperset isdisjoint),
     a set operator (| & - ^ and their augmented forms), being bound to a name, passed to a package function (whose parameter then
     becomes a set name) or returned.  Iterating it (for, comprehension, list(), tuple(), join, unpacking with *, iter, next,
     enumerate, zip, map, filter, pop) is a leak and makes the translator refuse.
  2. the order in which the operating system enumerates a directory.  In the modules on the creation path (torrent.py, hasher.py,
     utils.py) every os.listdir / os.scandir / os.walk / Path.iterdir / glob call must be the direct argument of sorted(...)
     without a key, or the iterable of a loop in a function all of whose returned lists are wrapped in sorted(...) without a key.
     (recheck.py only asks `name in os.listdir(root)`; rebuild.py indexes candidates in enumeration order, which is outside the
     creation properties and the subject of the known finding D27.)
"""
import ast
import os
import sys

sys.path.insert(0, os.path.dirname(os.path.abspath(__file__)))
from pyfun2coq import Refuse  # noqa

PKG = "torrentfile"
SET_METHODS = {"add", "update", "discard", "remove", "clear", "copy", "union", "intersection", "difference",
               "symmetric_difference", "issubset", "issuperset", "isdisjoint", "intersection_update", "difference_update",
               "symmetric_difference_update"}
SET_RETURNING = {"copy", "union", "intersection", "difference", "symmetric_difference"}
ORDER_FREE_CALLS = {"len", "bool", "sorted", "min", "max", "sum", "any", "all", "set", "frozenset", "isinstance", "id", "type", "repr", "str"}
SET_OPS = (ast.BitOr, ast.BitAnd, ast.Sub, ast.BitXor)
LISTING_ATTRS = {"listdir", "scandir", "walk", "iterdir", "glob", "iglob", "rglob"}
CREATION_MODULES = ("torrent", "hasher", "utils")


def qs(s):
    return '"' + s.replace('"', '""') + '"'


def parents(tree):
    par = {}
    for n in ast.walk(tree):
        for c in ast.iter_child_nodes(n):
            par[id(c)] = n
    return par


def name_of(node):
    if isinstance(node, ast.Name):
        return node.id
    if isinstance(node, ast.Attribute):
        return node.attr
    return None


def is_set_expr(e, names):
    if isinstance(e, (ast.Set, ast.SetComp)):
        return True
    if isinstance(e, ast.Call) and isinstance(e.func, ast.Name) and e.func.id in ("set", "frozenset"):
        return True
    if isinstance(e, ast.Call) and isinstance(e.func, ast.Attribute) and e.func.attr in SET_RETURNING and is_set_expr(e.func.value, names):
        return True
    if isinstance(e, ast.BinOp) and isinstance(e.op, SET_OPS) and (is_set_expr(e.left, names) or is_set_expr(e.right, names)):
        return True
    n = name_of(e)
    return n is not None and n in names and isinstance(getattr(e, "ctx", ast.Load()), ast.Load)


def collect(repo):
    mods = {}
    d = os.path.join(repo, PKG)
    for f in sorted(os.listdir(d)):
        if f.endswith(".py"):
            mods[f[:-3]] = ast.parse(open(os.path.join(d, f), encoding="utf-8").read())
    return mods


def functions(mods):
    out = {}
    for m, tree in mods.items():
        for n in ast.walk(tree):
            if isinstance(n, (ast.FunctionDef, ast.AsyncFunctionDef)):
                out.setdefault(n.name, []).append(n)
    return out


def set_names(mods, fns):
    names = set()
    changed = True
    while changed:
        changed = False
        for tree in mods.values():
            for n in ast.walk(tree):
                tgt = []
                if isinstance(n, ast.Assign) and is_set_expr(n.value, names):
                    tgt = n.targets
                elif isinstance(n, ast.AnnAssign) and n.value is not None and is_set_expr(n.value, names):
                    tgt = [n.target]
                elif isinstance(n, ast.AugAssign) and is_set_expr(n.value, names) and isinstance(n.op, SET_OPS):
                    tgt = [n.target]
                for t in tgt:
                    k = name_of(t)
                    if k is None:
                        raise Refuse(f"line {n.lineno}: a set is bound to `{ast.unparse(t)}` (not a name or attribute)")
                    if k not in names:
                        names.add(k)
                        changed = True
                # a set passed to a package function: the parameter becomes a set name
                if isinstance(n, ast.Call):
                    callee = name_of(n.func)
                    for i, a in enumerate(n.args):
                        if is_set_expr(a, names) and callee in fns and callee not in ORDER_FREE_CALLS \
                                and not (isinstance(n.func, ast.Attribute) and n.func.attr in SET_METHODS):
                            for f in fns[callee]:
                                ps = [p.arg for p in f.args.args]
                                if ps and ps[0] in ("self", "cls") and isinstance(n.func, ast.Attribute):
                                    ps = ps[1:]
                                if i < len(ps) and ps[i] not in names:
                                    names.add(ps[i])
                                    changed = True
                    for kw in n.keywords:
                        if kw.arg and is_set_expr(kw.value, names) and callee in fns and kw.arg not in names:
                            names.add(kw.arg)
                            changed = True
    return names


def check_sets(mods, fns, names):
    uses = 0
    for m, tree in mods.items():
        par = parents(tree)
        for n in ast.walk(tree):
            if not is_set_expr(n, names):
                continue
            if isinstance(n, (ast.Name, ast.Attribute)) and not isinstance(n.ctx, ast.Load):
                continue
            p = par.get(id(n))
            where = f"{m}.py line {getattr(n, 'lineno', '?')}: `{ast.unparse(p)[:70] if p is not None else ast.unparse(n)}`"
            uses += 1
            ok = False
            if isinstance(p, ast.Compare):
                # membership (set on the right) or equality / subset comparison between sets
                idx = [i for i, c in enumerate(p.comparators) if c is n]
                if idx and isinstance(p.ops[idx[0]], (ast.In, ast.NotIn)):
                    ok = True
                elif all(isinstance(o, (ast.Eq, ast.NotEq, ast.Lt, ast.LtE, ast.Gt, ast.GtE, ast.Is, ast.IsNot)) for o in p.ops):
                    ok = True
            elif isinstance(p, ast.Call):
                if p.func is n:
                    ok = False
                elif isinstance(p.func, ast.Name) and p.func.id in ORDER_FREE_CALLS:
                    ok = not (p.func.id == "sorted" and any(k.arg == "key" for k in p.keywords))
                elif isinstance(p.func, ast.Attribute) and p.func.attr in SET_METHODS and is_set_expr(p.func.value, names):
                    ok = True          # argument of a set method of another set
                elif name_of(p.func) in fns:
                    ok = True          # passed on: the parameter is a set name and is checked where it is used
            elif isinstance(p, ast.Attribute) and p.value is n:
                gp = par.get(id(p))
                ok = p.attr in SET_METHODS and isinstance(gp, ast.Call) and gp.func is p
            elif isinstance(p, ast.BinOp) and isinstance(p.op, SET_OPS):
                ok = True              # the result is a set expression again and is checked as such
            elif isinstance(p, (ast.Assign, ast.AnnAssign, ast.AugAssign, ast.Return, ast.keyword)):
                ok = True
            elif isinstance(p, (ast.If, ast.While, ast.IfExp)) and getattr(p, "test", None) is n:
                ok = True
            elif isinstance(p, ast.BoolOp) or (isinstance(p, ast.UnaryOp) and isinstance(p.op, ast.Not)):
                ok = True
            elif isinstance(p, ast.Expr):
                ok = True
            if not ok:
                raise Refuse(f"{where}: the iteration order of a set may reach an output (set names: {sorted(names)})")
    return uses


def is_listing(call):
    return isinstance(call, ast.Call) and isinstance(call.func, ast.Attribute) and call.func.attr in LISTING_ATTRS


def plain_sorted(call):
    return isinstance(call, ast.Call) and isinstance(call.func, ast.Name) and call.func.id == "sorted" \
        and len(call.args) == 1 and not call.keywords


def check_listings(mods):
    count = 0
    for m in CREATION_MODULES:
        tree = mods.get(m)
        if tree is None:
            raise Refuse(f"module {m}.py not found")
        par = parents(tree)
        for n in ast.walk(tree):
            if not is_listing(n):
                continue
            count += 1
            p = par.get(id(n))
            if plain_sorted(p) and p.args[0] is n:
                continue
            # iterable of a for loop in a function whose returned lists are all sorted
            fn = p
            while fn is not None and not isinstance(fn, (ast.FunctionDef, ast.AsyncFunctionDef)):
                fn = par.get(id(fn))
            if isinstance(p, ast.For) and p.iter is n and fn is not None:
                lists = {t.id for a in ast.walk(fn) if isinstance(a, ast.Assign) and isinstance(a.value, ast.List) and not a.value.elts
                         for t in a.targets if isinstance(t, ast.Name)}
                good = True
                for r in ast.walk(fn):
                    if isinstance(r, ast.Return) and r.value is not None:
                        elts = r.value.elts if isinstance(r.value, ast.Tuple) else [r.value]
                        for e in elts:
                            if isinstance(e, ast.Name) and e.id in lists:
                                good = False
                            if isinstance(e, ast.Call) and not plain_sorted(e) and any(
                                    isinstance(x, ast.Name) and x.id in lists for x in ast.walk(e)):
                                good = False
                if good and lists:
                    continue
            raise Refuse(f"{m}.py line {n.lineno}: `{ast.unparse(p)[:70]}`: a directory listing on the creation path is not sorted")
    return count


def gen_determinism(repo):
    mods = collect(repo)
    fns = functions(mods)
    names = set_names(mods, fns)
    uses = check_sets(mods, fns, names)
    listings = check_listings(mods)
    out = ["(* GENERATED by gen/gen_determinism.py from the whole package -- do not edit. *)",
           "From Coq Require Import String List.", "Import ListNotations.", "Open Scope string_scope.", "",
           "(* names that are bound to sets somewhere in the package, and how many uses of sets were read *)",
           "Definition gen_set_names : list string := [" + "; ".join(qs(n) for n in sorted(names)) + "].",
           f"Definition gen_set_uses_checked : nat := {uses}.",
           "(* uses through which the iteration order of a set (i.e. the hash seed) could reach an output *)",
           "Definition gen_set_order_leaks : list string := [].", "",
           f"Definition gen_listings_checked : nat := {listings}.",
           "(* directory listings on the creation path (torrent.py hasher.py utils.py) whose order could reach an output *)",
           "Definition gen_unsorted_listings : list string := []."]
    return "\n".join(out) + "\n"


def write_if_changed(path, text):
    old = open(path, encoding="utf-8").read() if os.path.exists(path) else None
    if old != text:
        with open(path, "w", encoding="utf-8") as fd:
            fd.write(text)


def main(repo, outdir):
    diags = {}
    try:
        text = gen_determinism(repo)
    except (Refuse, SyntaxError, OSError) as e:
        diags["GenDeterminism.v"] = f"{type(e).__name__}: {e}"
        text = (f"(* GENERATED: translator refused: {str(e).replace('*)', '* )')} *)\n"
                "Definition translator_refused : unit := tt.\n")
    write_if_changed(os.path.join(outdir, "GenDeterminism.v"), text)
    return diags


if __name__ == "__main__":
    for k, v in main(sys.argv[1] if len(sys.argv) > 1 else "/repo", sys.argv[2] if len(sys.argv) > 2 else "/verif/coq/Gen").items():
        print("REFUSED", k, v)
