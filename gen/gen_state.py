"""
Regenerates coq/Gen/GenState.v (C09): every process-lifetime state cell of the
package torrentfile and, per operation, the cells it may write and the cells
whose value may flow into its result.  Over-approximate and fail closed:
unknown decorators count as caches, unknown read shapes count as flows.

Cells:
  cache      a function wrapped by a decorator other than staticmethod/classmethod/property
  global     a module-level name (plain or annotated assignment, also inside a module-level if/try/with/for) bound
             to a mutable object: a list/dict/set literal or comprehension, or a call of anything that is not in the
             explicit allow-list IMMUTABLE_CALLS (logging.getLogger, re.compile, namedtuple/NamedTuple, TypeVar/NewType/
             ParamSpec, the functional Enum API, frozenset/tuple/int/str/bytes/float/bool/complex/range, pure path
             algebra); or a name declared `global`.
             A global bound to a CONSTRUCTOR CALL is an opaque object (configparser.ConfigParser(), a cache class, a
             Random ...): every method call on it inside a function -- `config.read(p)`, also through another module
             (`commands.config.read(p)`, `from .commands import config`) -- is a WRITE and a READ of the cell, except the
             methods listed per constructor in READONLY_METHODS; attribute and item stores on it are writes; every
             other load of the name is a read.
  classattr  a class-level attribute bound to a mutable object in the class body (`kwargs = {...}`, `seen: list = []`,
             `cache = dict()`): the ONE object every instance shares unless the instance rebinds the name.  Writes are
             the in-place mutations through any receiver -- `self.x[k] = v`, `self.x.update(..)`, `.append`, `.setdefault`,
             `del self.x[k]`, `self.x += ..`, `self.x[k] += ..` --, reads every `self.x` / `cls.x` load.  NOT a cell only
             when every class declaring it rebinds it first thing in `__init__` (an unconditional top-level
             `self.x = ...` before any other mention of the name), no subclass has an `__init__` that fails to do so,
             and the name is never reached through a class reference (rule `rebound_per_instance`).
             Also: an attribute assigned (plain, augmented or
             annotated assignment, or setattr with a literal name) through a reference to the class:
             `cls.X = ...` / `ClassName.X = ...` / `<expr>.__class__.X = ...` / `type(<expr>).X = ...`.
             Cells are keyed by attribute NAME (class-insensitive: over-approximate), so afterwards every
             `<anything>.X` load -- in particular `self.X`, which falls through to the class when the instance
             has no such attribute -- is a read of the cell, every `<anything>.X.append(...)`/`[k] = v`/`+=`
             a write.  setattr on a class with a computed name is the cell `dynamic:setattr-on-class`.
  global     also: attribute or item assignment on a module-level object (`STATE.x = v`), and assignment to
             another package module's global through its import (`utils.X = v`)
  global / classattr  ONE-SHOT objects: a module-level or class-body name bound to a GENERATOR EXPRESSION, to the result of
             iter / map / filter / zip / reversed / enumerate / an itertools function / a generator function of the package, or to
             an OPEN FILE (open, os.fdopen, tempfile, io.StringIO/BytesIO ...), also inside a tuple / list / dict literal or a
             conditional expression.  Consuming is not syntactically different from reading (a `for` loop, a membership test,
             any(), next(), list(), passing it on), so EVERY function that mentions the name both READS and WRITES the cell
             (through the bare name, `mod.NAME`, `from .mod import NAME`, `self.NAME` / `cls.NAME`); never benign.
  defaultarg a mutable default argument
  fnattr     an attribute set on a function object
  environ    os.environ[...] written by the package
  stream     sys.stdout / sys.stderr rebound by the package (declared benign: output is not a result)
  logging    ONE cell `logging:level` for the configuration of the process-wide logging tree (levels of the root and of
             every named logger, `disabled` flags, `logging.disable`, handler levels / handler and filter lists).  WRITTEN by
             a call of setLevel / logging.disable / basicConfig / dictConfig / fileConfig / addHandler / removeHandler /
             addFilter / removeFilter / setLoggerClass through ANY receiver, and by a store to `.level` / `.disabled` /
             `.propagate` / `.handlers` / `.filters` (on the unchanged tree: cli.Config.activate_logger, i.e. `-v`, which every
             command reaches through cli.execute -- nothing ever resets it).  READ by isEnabledFor / getEffectiveLevel /
             hasHandlers calls and by loads of `.level` / `.disabled` / `.propagate` / `.handlers` / `.filters` /
             `.manager.disable`.  What the logging calls PRINT is not a result, so a read is benign in exactly one shape: it
             stands in the test of an `if` whose test performs no other call and whose body and else-branch consist ONLY of
             discarded logging calls -- expression statements `<logger>.debug|info|warning|error|critical|exception|log(..)`
             on a module-level `logging.getLogger` name, the logging module, or a local bound to getLogger(..), with
             arguments that call nothing but a few builtins.  Anything else under the guard (an assignment, a counter
             update, a return, a call of a package function such as log_msg or a hook) makes the read FLOW, as does a read
             anywhere outside an `if` test (returned, stored, compared in a while/ternary/assert ...).
A read of a cell is BENIGN when the value is only called with its result discarded
(`self.cb(h)`), possibly under a condition that mentions nothing but that cell
(`if self._hook and ...: self._hook(msg)`).  A tainted function whose return value is
discarded at every call site and that has no effects of its own does not pass the taint on.
"""
import ast
import os
import sys

sys.path.insert(0, os.path.dirname(os.path.abspath(__file__)))
from callgraph import Graph, PKG  # noqa: E402

OPS = {
    "create": ["commands.create", "torrent.TorrentFile.__init__", "torrent.TorrentFileV2.__init__",
               "torrent.TorrentFileHybrid.__init__", "torrent.TorrentAssembler.__init__", "torrent.MetaFile.write"],
    "edit": ["commands.edit", "edit.edit_torrent"],
    "recheck": ["commands.recheck", "recheck.Checker.__init__", "recheck.Checker.results"],
    "rebuild": ["commands.rebuild", "rebuild.Assembler.__init__", "rebuild.Assembler.assemble_torrents"],
    "magnet": ["commands.get_magnet", "commands.magnet"],
    "info": ["commands.info"],
    "rename": ["commands.rename"],
    # the interactive mode: torrentfile.interactive.select_action (= commands.interactive) and the three dialogs it starts
    "interactive-create": ["interactive.select_action", "interactive.create_torrent", "interactive.InteractiveCreator.__init__",
                           "interactive.InteractiveCreator.get_props"],
    "interactive-edit": ["interactive.select_action", "interactive.edit_action", "interactive.InteractiveEditor.__init__",
                         "interactive.InteractiveEditor.show_current", "interactive.InteractiveEditor.edit_props"],
    "interactive-recheck": ["interactive.select_action", "interactive.recheck_torrent"],
}
# roots that must exist: a renamed entry point must not silently drop out of the analysis
REQUIRED_ROOTS = ["commands.create", "commands.edit", "commands.recheck", "commands.rebuild", "commands.info", "commands.rename",
                  "interactive.select_action", "interactive.create_torrent", "interactive.edit_action",
                  "interactive.recheck_torrent"]
BENIGN_DECORATORS = {"staticmethod", "classmethod", "property", "abstractmethod", "wraps"}
MUTATORS = {"append", "extend", "add", "update", "setdefault", "pop", "popitem", "clear", "insert", "remove",
            "discard", "sort", "reverse", "__setitem__", "__delitem__"}
# constructors/factories (by the last component of the called name) whose result is immutable, or whose only state is
# declared benign (loggers: what is printed is not a result).  Everything else bound at module or class level is a cell.
IMMUTABLE_CALLS = {
    "getLogger",                                             # logging.getLogger
    "compile",                                               # re.compile
    "namedtuple", "NamedTuple",                              # collections.namedtuple / typing.NamedTuple
    "TypeVar", "NewType", "ParamSpec",                       # typing
    "Enum", "IntEnum", "Flag", "IntFlag", "StrEnum",         # functional Enum API
    "frozenset", "tuple", "int", "str", "bytes", "float", "bool", "complex", "range",
    "Path", "PurePath", "PosixPath", "PurePosixPath",        # immutable path objects
    "join", "dirname", "basename", "abspath", "normpath", "realpath", "expanduser", "format", "encode", "decode",  # strings
}
# opaque module-level objects: methods that only read the object (every other method call is a write as well)
READONLY_METHODS = {
    "ArgumentParser": {"parse_args", "parse_known_args", "parse_intermixed_args", "format_help", "format_usage", "print_help",
                       "print_usage", "error", "exit"},
}


# the configuration of the logging tree: one cell
LOG_CELL = "logging:level"
LOG_WRITE_CALLS = {"setLevel", "disable", "basicConfig", "dictConfig", "fileConfig", "addHandler", "removeHandler", "addFilter",
                   "removeFilter", "setLoggerClass", "setLogRecordFactory", "captureWarnings"}
LOG_READ_CALLS = {"isEnabledFor", "getEffectiveLevel", "hasHandlers"}
LOG_STATE_ATTRS = {"level", "disabled", "propagate", "handlers", "filters"}
LOG_METHODS = {"debug", "info", "warning", "warn", "error", "critical", "exception", "log", "fatal"}
# builtins a discarded logging call may apply to its arguments without the guarded statement counting as "something else"
LOG_ARG_BUILTINS = {"str", "repr", "len", "int", "float", "bool", "format", "round", "type", "sorted", "list", "tuple", "hex",
                    "abs", "min", "max", "sum"}
LOG_ARG_METHODS = {"format", "join", "hex", "decode", "encode", "strip", "upper", "lower", "title"}


# calls (by the last component of the called name) whose result is consumed by being read: iterators and open files
ONE_SHOT_CALLS = {
    "iter", "map", "filter", "zip", "reversed", "enumerate", "aiter",
    "count", "cycle", "repeat", "accumulate", "chain", "from_iterable", "compress", "dropwhile", "filterfalse", "groupby", "islice",
    "pairwise", "starmap", "takewhile", "tee", "zip_longest", "product", "permutations", "combinations",
    "combinations_with_replacement", "batched",
    "scandir", "walk", "fwalk", "iglob", "finditer", "iterdir", "glob", "rglob", "iter_modules", "walk_packages",
    "open", "fdopen", "popen", "Popen", "TemporaryFile", "NamedTemporaryFile", "SpooledTemporaryFile", "BytesIO", "StringIO",
    "TextIOWrapper", "BufferedReader", "BufferedWriter", "BufferedRandom", "FileIO", "urlopen", "makefile",
    "reader", "DictReader", "writer", "DictWriter",
}
GENERATOR_FUNCTIONS = set()      # short names of the package's generator functions (filled by StateAnalysis.scan)


def is_one_shot(v):
    """an expression whose value is used up by reading it (an iterator, a generator, an open file), possibly inside a literal"""
    if isinstance(v, ast.GeneratorExp):
        return True
    if isinstance(v, ast.Call):
        name = call_name(v)
        return name in ONE_SHOT_CALLS or name in GENERATOR_FUNCTIONS
    if isinstance(v, (ast.Tuple, ast.List, ast.Set)):
        return any(is_one_shot(x) for x in v.elts)
    if isinstance(v, ast.Dict):
        return any(is_one_shot(x) for x in v.values if x is not None)
    if isinstance(v, ast.IfExp):
        return is_one_shot(v.body) or is_one_shot(v.orelse)
    if isinstance(v, ast.BoolOp):
        return any(is_one_shot(x) for x in v.values)
    if isinstance(v, ast.NamedExpr):
        return is_one_shot(v.value)
    if isinstance(v, ast.Starred):
        return is_one_shot(v.value)
    return False


def is_mutable_value(v):
    if isinstance(v, (ast.List, ast.Dict, ast.Set, ast.ListComp, ast.DictComp, ast.SetComp)):
        return True
    if is_one_shot(v):
        return True
    if isinstance(v, ast.Call):
        f = v.func
        name = f.id if isinstance(f, ast.Name) else (f.attr if isinstance(f, ast.Attribute) else None)
        return name not in IMMUTABLE_CALLS
    return False


def call_name(v):
    f = v.func
    return f.id if isinstance(f, ast.Name) else (f.attr if isinstance(f, ast.Attribute) else None)


def bindings(stmt):
    """(targets, value) of a plain or annotated assignment statement, else None"""
    if isinstance(stmt, ast.Assign):
        return stmt.targets, stmt.value
    if isinstance(stmt, ast.AnnAssign) and stmt.value is not None:
        return [stmt.target], stmt.value
    return None


def scope_statements(body):
    """statements executed in the scope of `body` itself: descends into if/try/with/for/while, not into def/class"""
    for st in body:
        if isinstance(st, (ast.FunctionDef, ast.AsyncFunctionDef, ast.ClassDef)):
            continue
        yield st
        for field in ("body", "orelse", "finalbody"):
            yield from scope_statements(getattr(st, field, []) or [])
        for h in getattr(st, "handlers", []) or []:
            yield from scope_statements(h.body)


def rebinds_first_thing(cnode, name):
    """True: the class's own __init__ rebinds self.<name> by an unconditional top-level statement before any other mention of
    the name; False: it has an __init__ that does not; None: the class has no __init__ of its own"""
    for b in cnode.body:
        if isinstance(b, (ast.FunctionDef, ast.AsyncFunctionDef)) and b.name == "__init__":
            if not b.args.args:
                return False
            me = b.args.args[0].arg
            for st in b.body:
                bd = bindings(st)
                if bd is not None:
                    tg, val = bd
                    hit = any(isinstance(t, ast.Attribute) and t.attr == name and isinstance(t.value, ast.Name) and t.value.id == me
                              for t in tg)
                    if hit:
                        return not any(isinstance(x, ast.Attribute) and x.attr == name for x in ast.walk(val))
                if any(isinstance(x, ast.Attribute) and x.attr == name for x in ast.walk(st)):
                    return False
                if isinstance(st, (ast.Return, ast.Raise)):
                    return False
            return False
    return None


def is_class_ref(g, base):
    """expression that denotes a class object: cls, a package class name, <expr>.__class__, type(<expr>)"""
    if isinstance(base, ast.Name):
        return base.id == "cls" or bool(g.class_by_short(base.id))
    if isinstance(base, ast.Attribute):
        return base.attr == "__class__" or bool(g.class_by_short(base.attr))     # Outer.Inner
    if isinstance(base, ast.Call) and isinstance(base.func, ast.Name) and base.func.id == "type" and len(base.args) == 1:
        return True
    return False


class StateAnalysis:
    def __init__(self, repo):
        self.g = Graph(repo)
        self.cells = {}          # cell name -> kind
        self.writes = {}         # fn qual -> set(cell)
        self.flows = {}          # fn qual -> set(cell)  (direct reads that may flow)
        self.benign_reads = {}   # fn qual -> set(cell)
        self.mutates = set()     # fn quals that store to attributes / items or call a mutator method
        self.scan()

    def cell(self, name, kind):
        self.cells.setdefault(name, kind)
        return name

    def w(self, q, c):
        self.writes.setdefault(q, set()).add(c)

    def fl(self, q, c):
        self.flows.setdefault(q, set()).add(c)

    def rebound_per_instance(self, name, owners):
        """a class-body mutable attribute that NO instance ever shares: every declaring class (and every subclass with an
        __init__ of its own) rebinds self.<name> first thing in __init__, and the name is never reached through a class"""
        g = self.g
        todo, seen = list(owners), set()
        while todo:
            cq = todo.pop()
            if cq in seen:
                continue
            seen.add(cq)
            r = rebinds_first_thing(g.classes[cq][1], name)
            if r is False or (r is None and cq in owners):
                return False
            todo += g.subclasses(cq)
        def literal(x):
            return x.value if isinstance(x, ast.Constant) and isinstance(x.value, str) else None
        for f in g.fns.values():
            literal_vars = set()         # vars(cls)["other"]: a literal key other than this name reaches another attribute
            for n in ast.walk(f.node):
                if isinstance(n, ast.Subscript) and isinstance(n.value, ast.Call) and isinstance(n.value.func, ast.Name) \
                        and n.value.func.id == "vars" and literal(n.slice) not in (None, name):
                    literal_vars.add(id(n.value))
                if isinstance(n, ast.Compare) and len(n.comparators) == 1 and isinstance(n.ops[0], (ast.In, ast.NotIn)) \
                        and isinstance(n.comparators[0], ast.Call) and literal(n.left) not in (None, name):
                    literal_vars.add(id(n.comparators[0]))          # "other" in vars(cls)
            for n in ast.walk(f.node):
                if isinstance(n, ast.Attribute) and n.attr == name and is_class_ref(g, n.value):
                    return False
                if isinstance(n, ast.Call) and isinstance(n.func, ast.Name) and n.args and is_class_ref(g, n.args[0]):
                    if n.func.id in ("getattr", "setattr", "delattr") and (len(n.args) < 2 or literal(n.args[1]) in (None, name)):
                        return False
                    if n.func.id == "vars" and id(n) not in literal_vars:
                        return False
        return True

    def object_global(self, f, root, chain, local_names):
        """(cell, constructor, method) when root.chain(...) is a method call on a module-level object bound to a constructor call"""
        if root is None or root in local_names or not chain:
            return None
        mod = f.module
        og = self.object_globals
        if root in og.get(mod, {}):
            return self.module_globals[mod][root], og[mod][root], chain[0]
        imp = self.g.mod_imports[mod].get(root)
        if imp and imp[0] == "pkgmod" and len(chain) >= 2 and chain[0] in og.get(imp[1], {}):
            return self.module_globals[imp[1]][chain[0]], og[imp[1]][chain[0]], chain[1]
        if imp and imp[0] == "pkgobj" and imp[2] in og.get(imp[1], {}):
            return self.module_globals[imp[1]][imp[2]], og[imp[1]][imp[2]], chain[0]
        return None

    def scan(self):
        g = self.g
        pdir = os.path.join(g.repo, PKG)
        module_globals = {}      # module -> {name: cell}
        class_attrs = {}         # attr name -> cell  (class-level shared attributes)
        object_globals = {}      # module -> {name: constructor}  module-level names bound to a constructor call
        oneshot_globals = {}     # module -> {name}  module-level names bound to an iterator / generator / open file
        oneshot_attrs = set()    # class-body names bound to one
        GENERATOR_FUNCTIONS.clear()
        for f in g.fns.values():
            if f.name != "<module>" and any(isinstance(x, (ast.Yield, ast.YieldFrom)) for x in ast.walk(f.node)):
                GENERATOR_FUNCTIONS.add(f.name)
        # pass 1: declarations
        for fn in sorted(os.listdir(pdir)):
            if not fn.endswith(".py"):
                continue
            mod = fn[:-3]
            tree = ast.parse(open(os.path.join(pdir, fn), encoding="utf-8").read())
            module_globals[mod] = {}
            object_globals[mod] = {}
            oneshot_globals[mod] = set()
            for node in scope_statements(tree.body):
                bd = bindings(node)
                if bd is None or not is_mutable_value(bd[1]):
                    continue
                for t in bd[0]:
                    names = [t] if isinstance(t, ast.Name) else \
                        ([x for x in ast.walk(t) if isinstance(x, ast.Name)] if isinstance(t, (ast.Tuple, ast.List)) and is_one_shot(bd[1]) else [])
                    for t in names:
                        if t.id.startswith("__") and t.id.endswith("__"):
                            continue
                        module_globals[mod][t.id] = self.cell(f"global:{mod}.{t.id}", "global")
                        if isinstance(bd[1], ast.Call):
                            object_globals[mod][t.id] = call_name(bd[1]) or "?"
                        if is_one_shot(bd[1]):
                            oneshot_globals[mod].add(t.id)
                # `with open(p) as FD:` at module level binds an open file
            for node in scope_statements(tree.body):
                if isinstance(node, (ast.With, ast.AsyncWith)):
                    for it in node.items:
                        if isinstance(it.optional_vars, ast.Name) and is_one_shot(it.context_expr):
                            nm = it.optional_vars.id
                            module_globals[mod][nm] = self.cell(f"global:{mod}.{nm}", "global")
                            oneshot_globals[mod].add(nm)
            for node in ast.walk(tree):
                if isinstance(node, ast.Global):
                    for n in node.names:
                        module_globals[mod][n] = self.cell(f"global:{mod}.{n}", "global")
        # class-body attributes bound to a mutable object: shared by every instance unless rebound per instance
        declared = {}            # attr name -> [class qual]
        for cq, (_, cnode, _) in g.classes.items():
            for b in scope_statements(cnode.body):
                bd = bindings(b)
                if bd is None or not is_mutable_value(bd[1]):
                    continue
                for t in bd[0]:
                    if isinstance(t, ast.Name):
                        declared.setdefault(t.id, []).append(cq)
                        if is_one_shot(bd[1]):
                            oneshot_attrs.add(t.id)
        for name, owners in declared.items():
            if not self.rebound_per_instance(name, owners):
                class_attrs[name] = self.cell(f"classattr:{name}", "classattr")
        oneshot_attrs &= set(class_attrs)
        for q, f in g.fns.items():
            node = f.node
            for d in getattr(node, "decorator_list", []):
                name = d.id if isinstance(d, ast.Name) else (d.attr if isinstance(d, ast.Attribute) else
                                                             (d.func.id if isinstance(d, ast.Call) and isinstance(d.func, ast.Name) else
                                                              (d.func.attr if isinstance(d, ast.Call) and isinstance(d.func, ast.Attribute) else "?")))
                if name not in BENIGN_DECORATORS:
                    c = self.cell(f"cache:{q}@{name}", "cache")
                    self.w(q, c)
                    self.fl(q, c)
            args = getattr(node, "args", None)
            if args is not None:
                for dflt in list(args.defaults) + [k for k in args.kw_defaults if k is not None]:
                    if is_mutable_value(dflt):
                        c = self.cell(f"defaultarg:{q}", "defaultarg")
                        self.w(q, c)
                        self.fl(q, c)
            # assignments through cls.X / Class.X / self.__class__.X, function attributes, os.environ, sys.stdout
            for n in ast.walk(node):
                targets = []
                if isinstance(n, ast.Assign):
                    targets = n.targets
                elif isinstance(n, (ast.AugAssign, ast.AnnAssign)):
                    targets = [n.target]
                if isinstance(n, ast.Call) and isinstance(n.func, ast.Name) and n.func.id in ("setattr", "delattr") and n.args \
                        and is_class_ref(g, n.args[0]):
                    nm = n.args[1] if len(n.args) > 1 else None
                    if isinstance(nm, ast.Constant) and isinstance(nm.value, str):
                        class_attrs[nm.value] = self.cell(f"classattr:{nm.value}", "classattr")
                        self.w(q, class_attrs[nm.value])
                    else:
                        c = self.cell("dynamic:setattr-on-class", "classattr")
                        self.w(q, c)
                        self.fl(q, c)
                for t in targets:
                    if isinstance(t, ast.Subscript) and isinstance(t.value, ast.Attribute) and is_class_ref(g, t.value.value):
                        t = t.value                  # cls.X[k] = v
                    if isinstance(t, ast.Attribute):
                        base = t.value
                        imp = g.mod_imports[f.module].get(base.id) if isinstance(base, ast.Name) else None
                        if isinstance(base, ast.Name) and base.id == "sys" and t.attr in ("stdout", "stderr"):
                            self.w(q, self.cell(f"stream:sys.{t.attr}", "stream"))
                        elif is_class_ref(g, base):
                            class_attrs[t.attr] = self.cell(f"classattr:{t.attr}", "classattr")
                            self.w(q, class_attrs[t.attr])
                        elif isinstance(base, ast.Name) and (f"{f.module}.{base.id}" in g.fns):
                            self.w(q, self.cell(f"fnattr:{f.module}.{base.id}.{t.attr}", "fnattr"))
                        elif imp and imp[0] == "pkgmod" and imp[1] in module_globals:
                            # utils.X = v from another module: a write of that module's global
                            module_globals[imp[1]][t.attr] = self.cell(f"global:{imp[1]}.{t.attr}", "global")
                            self.w(q, module_globals[imp[1]][t.attr])
                    if isinstance(t, ast.Subscript) and isinstance(t.value, ast.Attribute) and t.value.attr == "environ":
                        key = t.slice.value if isinstance(t.slice, ast.Constant) else "*"
                        self.w(q, self.cell(f"environ:{key}", "environ"))
        self.module_globals, self.class_attrs, self.object_globals = module_globals, class_attrs, object_globals
        self.oneshot_globals, self.oneshot_attrs = oneshot_globals, oneshot_attrs
        # module-level names bound to logging.getLogger(..): the receivers of logging calls
        self.logger_names = {}
        for fn in sorted(os.listdir(pdir)):
            if fn.endswith(".py"):
                tree = ast.parse(open(os.path.join(pdir, fn), encoding="utf-8").read())
                names, other = set(), set()
                for node in scope_statements(tree.body):
                    bd = bindings(node)
                    if bd is None:
                        continue
                    for t in bd[0]:
                        if isinstance(t, ast.Name):
                            (names if isinstance(bd[1], ast.Call) and call_name(bd[1]) == "getLogger" else other).add(t.id)
                self.logger_names[fn[:-3]] = names - other
        # pass 2: reads and mutations
        for q, f in g.fns.items():
            self.scan_function(q, f)
            self.scan_logging(q, f)

    # ------------------------------------------------------------------ the logging tree (cell logging:level)
    def is_logging_module(self, f, e, shadowed):
        return isinstance(e, ast.Name) and e.id not in shadowed and self.g.mod_imports[f.module].get(e.id) == ("module", "logging")

    def is_logger_ref(self, f, e, local_loggers, shadowed):
        if isinstance(e, ast.Name):
            if e.id in local_loggers:
                return True
            if e.id in shadowed:
                return False
            if e.id in self.logger_names.get(f.module, ()) or self.is_logging_module(f, e, shadowed):
                return True
            imp = self.g.mod_imports[f.module].get(e.id)
            return bool(imp and imp[0] == "pkgobj" and imp[2] in self.logger_names.get(imp[1], ()))
        if isinstance(e, ast.Call):
            return call_name(e) == "getLogger"
        if isinstance(e, ast.Attribute) and e.attr == "root":
            return self.is_logging_module(f, e.value, shadowed)
        return False

    @staticmethod
    def log_args_ok(call):
        for a in list(call.args) + [k.value for k in call.keywords]:
            for x in ast.walk(a):
                if isinstance(x, (ast.NamedExpr, ast.Yield, ast.YieldFrom, ast.Await, ast.Lambda)):
                    return False
                if isinstance(x, ast.Call):
                    fn = x.func
                    if isinstance(fn, ast.Name) and fn.id in LOG_ARG_BUILTINS:
                        continue
                    if isinstance(fn, ast.Attribute) and fn.attr in LOG_ARG_METHODS:
                        continue
                    return False
        return True

    def scan_logging(self, q, f):
        node = f.node
        stores = {}
        for n in ast.walk(node):
            if isinstance(n, ast.Name) and isinstance(n.ctx, (ast.Store, ast.Del)):
                stores.setdefault(n.id, 0)
                stores[n.id] += 1
        args = getattr(node, "args", None)
        params = set()
        if args is not None:
            params = {a.arg for a in list(args.posonlyargs) + list(args.args) + list(args.kwonlyargs) + [args.vararg, args.kwarg]
                      if a is not None}
        declared_global = {nm for n in ast.walk(node) if isinstance(n, (ast.Global, ast.Nonlocal)) for nm in n.names}
        shadowed = (set(stores) | params) - declared_global if f.name != "<module>" else set()
        # locals bound ONLY by `x = <..>.getLogger(..)`
        from_getlogger = {}
        for n in ast.walk(node):
            if isinstance(n, ast.Assign) and isinstance(n.value, ast.Call) and call_name(n.value) == "getLogger":
                for t in n.targets:
                    if isinstance(t, ast.Name):
                        from_getlogger[t.id] = from_getlogger.get(t.id, 0) + 1
        local_loggers = {k for k, c in from_getlogger.items() if stores.get(k) == c and k not in params}

        def is_read(n):
            if isinstance(n, ast.Call) and isinstance(n.func, ast.Attribute) and n.func.attr in LOG_READ_CALLS:
                return True
            if isinstance(n, ast.Attribute) and isinstance(n.ctx, ast.Load):
                if n.attr in LOG_STATE_ATTRS:
                    return True
                if n.attr == "disable" and isinstance(n.value, ast.Attribute) and n.value.attr == "manager":
                    return True
            if isinstance(n, ast.Call) and isinstance(n.func, ast.Name) and n.func.id in ("getattr", "hasattr") and len(n.args) >= 2:
                nm = n.args[1]
                if isinstance(nm, ast.Constant) and nm.value in LOG_STATE_ATTRS | LOG_READ_CALLS:
                    return True
            return False

        def logging_stmt(st):
            if isinstance(st, ast.Pass):
                return True
            return isinstance(st, ast.Expr) and isinstance(st.value, ast.Call) and isinstance(st.value.func, ast.Attribute) \
                and st.value.func.attr in LOG_METHODS and self.is_logger_ref(f, st.value.func.value, local_loggers, shadowed) \
                and self.log_args_ok(st.value)

        def test_ok(t):
            for x in ast.walk(t):
                if isinstance(x, (ast.NamedExpr, ast.Yield, ast.YieldFrom, ast.Await, ast.Lambda)):
                    return False
                if isinstance(x, ast.Call) and not (isinstance(x.func, ast.Attribute) and x.func.attr in LOG_READ_CALLS):
                    return False
            return True

        benign = set()
        for n in ast.walk(node):
            if isinstance(n, ast.If) and test_ok(n.test) and all(logging_stmt(s) for s in list(n.body) + list(n.orelse)):
                for x in ast.walk(n.test):
                    if is_read(x):
                        benign.add(id(x))
        called = {id(n.func) for n in ast.walk(node) if isinstance(n, ast.Call)}
        for n in ast.walk(node):
            # writes
            if isinstance(n, ast.Call):
                nm = n.func.attr if isinstance(n.func, ast.Attribute) else (n.func.id if isinstance(n.func, ast.Name) else None)
                if nm in LOG_WRITE_CALLS:
                    self.w(q, self.cell(LOG_CELL, "logging"))
                if isinstance(n.func, ast.Attribute) and n.func.attr in MUTATORS and isinstance(n.func.value, ast.Attribute) \
                        and n.func.value.attr in LOG_STATE_ATTRS:
                    self.w(q, self.cell(LOG_CELL, "logging"))
                if isinstance(n.func, ast.Name) and n.func.id in ("setattr", "delattr") and len(n.args) >= 2 \
                        and isinstance(n.args[1], ast.Constant) and n.args[1].value in LOG_STATE_ATTRS:
                    self.w(q, self.cell(LOG_CELL, "logging"))
            if isinstance(n, ast.Attribute) and isinstance(n.ctx, (ast.Store, ast.Del)) and n.attr in LOG_STATE_ATTRS:
                self.w(q, self.cell(LOG_CELL, "logging"))
            # reads
            if is_read(n):
                if isinstance(n, ast.Attribute) and id(n) in called and n.attr not in LOG_STATE_ATTRS:
                    continue
                c = self.cell(LOG_CELL, "logging")
                if id(n) in benign:
                    self.benign_reads.setdefault(q, set()).add(c)
                else:
                    self.fl(q, c)

    def scan_function(self, q, f):
        node = f.node
        mg = self.module_globals.get(f.module, {})
        oneshot = self.oneshot_globals.get(f.module, set())
        local_names = {a.arg for a in getattr(node.args, "args", [])} if hasattr(node, "args") else set()
        for n in ast.walk(node):
            if isinstance(n, ast.Assign):
                for t in n.targets:
                    if isinstance(t, ast.Name):
                        local_names.add(t.id)
        declared_global = {nm for n in ast.walk(node) if isinstance(n, ast.Global) for nm in n.names}
        # a function that changes an object it did not create locally (self.counter += 1, self.seen.add(x), d[k] = v) has an
        # effect of its own even when its return value is discarded: it is not `pure`
        for n in ast.walk(node):
            if (isinstance(n, (ast.Attribute, ast.Subscript)) and isinstance(n.ctx, (ast.Store, ast.Del))) or \
                    (isinstance(n, ast.Call) and isinstance(n.func, ast.Attribute) and n.func.attr in MUTATORS):
                self.mutates.add(q)
                break
        benign_nodes = set()
        # benign shapes for class attribute cells: Expr(Call(func=self.X)) and guards that only mention X
        for n in ast.walk(node):
            if isinstance(n, ast.Expr) and isinstance(n.value, ast.Call) and isinstance(n.value.func, ast.Attribute) \
                    and n.value.func.attr in self.class_attrs:
                benign_nodes.add(id(n.value.func))
            if isinstance(n, ast.If):
                body_ok = all(isinstance(b, ast.Expr) and isinstance(b.value, ast.Call) and isinstance(b.value.func, ast.Attribute)
                              and b.value.func.attr in self.class_attrs for b in n.body) and not n.orelse
                if body_ok:
                    for t in ast.walk(n.test):
                        if isinstance(t, ast.Attribute) and t.attr in self.class_attrs:
                            benign_nodes.add(id(t))
        for n in ast.walk(node):
            # module globals
            if isinstance(n, ast.Name) and n.id in mg and (n.id not in local_names or n.id in declared_global):
                if isinstance(n.ctx, ast.Store):
                    if n.id in declared_global or q.endswith("<module>"):
                        self.w(q, mg[n.id])
                else:
                    self.fl(q, mg[n.id])
                    if n.id in oneshot:
                        self.w(q, mg[n.id])      # reading an iterator / generator / open file uses it up
            if isinstance(n, ast.Call) and isinstance(n.func, ast.Attribute):
                root, chain = self.g.root_of(n.func)
                hit = self.object_global(f, root, chain, local_names - declared_global)
                if hit:
                    c, ctor, meth = hit
                    self.fl(q, c)
                    if meth not in READONLY_METHODS.get(ctor, ()):
                        self.w(q, c)           # config.read(p), cache.store(k, v), rng.random(): the object changes
            if isinstance(n, ast.Call) and isinstance(n.func, ast.Attribute) and n.func.attr in MUTATORS:
                base = n.func.value
                if isinstance(base, ast.Name) and base.id in mg and base.id not in local_names:
                    self.w(q, mg[base.id])
                if isinstance(base, ast.Attribute) and base.attr in self.class_attrs:
                    self.w(q, self.class_attrs[base.attr])
            if isinstance(n, (ast.Assign, ast.AugAssign, ast.Delete)):
                tg = n.targets if isinstance(n, (ast.Assign, ast.Delete)) else [n.target]
                for t in tg:
                    if isinstance(n, ast.AugAssign) and isinstance(t, ast.Attribute) and t.attr in self.class_attrs:
                        # self.X += v: reads the class-level object; a mutable one is changed in place
                        self.w(q, self.class_attrs[t.attr])
                        self.fl(q, self.class_attrs[t.attr])
                    if isinstance(t, (ast.Attribute, ast.Subscript)):
                        b = t.value
                        while isinstance(b, (ast.Attribute, ast.Subscript)):
                            b = b.value
                        if isinstance(b, ast.Name) and b.id in mg and b.id not in local_names:
                            self.w(q, mg[b.id])          # GLOBAL_OBJECT.attr = v / GLOBAL_OBJECT.a[k] = v
                    if isinstance(t, ast.Subscript):
                        b = t.value
                        if isinstance(b, ast.Name) and b.id in mg and b.id not in local_names:
                            self.w(q, mg[b.id])
                        if isinstance(b, ast.Attribute) and b.attr in self.class_attrs:
                            self.w(q, self.class_attrs[b.attr])
            # another module's global read as `mod.X`, or imported by name
            if isinstance(n, ast.Attribute) and isinstance(n.value, ast.Name) and isinstance(n.ctx, ast.Load):
                imp = self.g.mod_imports[f.module].get(n.value.id)
                if imp and imp[0] == "pkgmod" and n.attr in self.module_globals.get(imp[1], {}) and n.value.id not in local_names:
                    self.fl(q, self.module_globals[imp[1]][n.attr])
                    if n.attr in self.oneshot_globals.get(imp[1], ()):
                        self.w(q, self.module_globals[imp[1]][n.attr])
            if isinstance(n, ast.Name) and isinstance(n.ctx, ast.Load) and n.id not in local_names:
                imp = self.g.mod_imports[f.module].get(n.id)
                if imp and imp[0] == "pkgobj" and imp[2] in self.module_globals.get(imp[1], {}):
                    self.fl(q, self.module_globals[imp[1]][imp[2]])
                    if imp[2] in self.oneshot_globals.get(imp[1], ()):
                        self.w(q, self.module_globals[imp[1]][imp[2]])
            # class attribute reads
            if isinstance(n, ast.Attribute) and n.attr in self.class_attrs and isinstance(n.ctx, ast.Load):
                if n.attr in self.oneshot_attrs:
                    self.fl(q, self.class_attrs[n.attr])
                    self.w(q, self.class_attrs[n.attr])
                elif id(n) in benign_nodes:
                    self.benign_reads.setdefault(q, set()).add(self.class_attrs[n.attr])
                else:
                    self.fl(q, self.class_attrs[n.attr])
            # environ reads
            if isinstance(n, ast.Subscript) and isinstance(n.value, ast.Attribute) and n.value.attr == "environ" \
                    and isinstance(n.ctx, ast.Load):
                key = n.slice.value if isinstance(n.slice, ast.Constant) else "*"
                self.fl(q, self.cell(f"environ:{key}", "environ"))
            if isinstance(n, ast.Call) and isinstance(n.func, ast.Attribute) and n.func.attr in ("getenv",) :
                self.fl(q, self.cell("environ:*", "environ"))
            if isinstance(n, ast.Call) and isinstance(n.func, ast.Attribute) and n.func.attr == "get" \
                    and isinstance(n.func.value, ast.Attribute) and n.func.value.attr == "environ":
                self.fl(q, self.cell("environ:*", "environ"))
        # function attributes read
        for n in ast.walk(node):
            if isinstance(n, ast.Attribute) and isinstance(n.value, ast.Name) and isinstance(n.ctx, ast.Load):
                c = f"fnattr:{f.module}.{n.value.id}.{n.attr}"
                if c in self.cells:
                    self.fl(q, c)

    # ------------------------------------------------------------------ op summaries
    def pure(self, q, memo):
        """no cell writes, no stores to attributes/items, no mutator calls, no non-read effects, nothing unknown in the reach of q"""
        if q in memo:
            return memo[q]
        memo[q] = True
        ok = True
        for r in self.g.reach([q]):
            f = self.g.fns[r]
            if self.writes.get(r) or r in self.mutates or f.unknown or any(k != "Read" for k, _ in f.effects):
                ok = False
                break
        memo[q] = ok
        return ok

    def flow_reach(self, roots):
        """reachability that does not follow call sites whose result is discarded and whose targets are pure"""
        memo = {}
        seen, todo = set(), [r for r in roots if r in self.g.fns]
        while todo:
            q = todo.pop()
            if q in seen:
                continue
            seen.add(q)
            for targets, discarded in self.g.fns[q].sites:
                for t in targets:
                    if t not in self.g.fns:
                        continue
                    if discarded and self.pure(t, memo):
                        continue
                    todo.append(t)
        return seen

    def summaries(self):
        out = {}
        missing = [r for r in REQUIRED_ROOTS if r not in self.g.fns]
        if missing:
            raise ValueError(f"entry points not found in the package (renamed or removed?): {missing}")
        for op, roots in OPS.items():
            roots = [r for r in roots if r in self.g.fns] + ["cli.execute"]
            full = self.g.reach(roots)
            fr = self.flow_reach(roots)
            writes = set()
            for q in full:
                writes |= self.writes.get(q, set())
            flows = set()
            for q in fr:
                flows |= self.flows.get(q, set())
            # streams are declared benign: what is printed is not part of an operation's result
            flows = {c for c in flows if self.cells[c] != "stream"}
            out[op] = (sorted(writes), sorted(flows))
        return out


def gen_state(repo):
    a = StateAnalysis(repo)
    cells = sorted(a.cells)
    idx = {c: i for i, c in enumerate(cells)}
    sums = a.summaries()
    lines = ["(* GENERATED by gen/gen_state.py from torrentfile/*.py -- do not edit.",
             "   Process-lifetime state cells, and per operation: cells it may write / cells that may flow into its result. *)",
             "From Coq Require Import List String. Import ListNotations.",
             "From TF Require Import Model.State.", "Open Scope string_scope.", "",
             "Definition cell_names : list (nat * string) := ["]
    lines.append(";\n".join(f'  ({i}, "{c}")' for c, i in idx.items()))
    lines.append("].\n")
    lines.append("Definition op_summaries : list opsum := [")
    rows = []
    for op in sorted(sums):
        w, fl = sums[op]
        rows.append(f'  {{| op_name := "{op}"; op_writes := [{"; ".join(str(idx[c]) for c in w)}]; '
                    f'op_flows := [{"; ".join(str(idx[c]) for c in fl)}] |}}')
    lines.append(";\n".join(rows))
    lines.append("].\n")
    return "\n".join(lines), a, sums


def write_if_changed(path, text):
    old = open(path, encoding="utf-8").read() if os.path.exists(path) else None
    if old != text:
        with open(path, "w", encoding="utf-8") as fd:
            fd.write(text)


def main(repo, outdir):
    diags = {}
    try:
        text, _, _ = gen_state(repo)
    except Exception as e:  # noqa
        diags["GenState.v"] = f"{type(e).__name__}: {e}"
        text = (f"(* GENERATED: translator refused: {str(e).replace('*)', '* )')} *)\n"
                "Definition translator_refused : unit := tt.\n")
    write_if_changed(os.path.join(outdir, "GenState.v"), text)
    return diags


if __name__ == "__main__":
    t, a, s = gen_state(sys.argv[1] if len(sys.argv) > 1 else "/repo")
    print(t)
