"""
Fail-closed translator from a small closed subset of Python (integer
functions) to Gallina, built on the `ast` module.

Subset: int literals, names, + - * // % ** << >> & |, unary -, comparison
chains, and/or/not, if/elif/else, return, raise, assignment, augmented
assignment, one-level `while`, `for v in range(<literals>)` (unrolled), `isinstance(x, str)` guards and
`try/except ValueError` around the two string oracles `x.isnumeric()` and
`int(x)`.  `a / b > c` (true division compared with an integer) is translated
to `a > c * b`; see DESIGN.md C12 for why that is exact.  Anything else makes
`Refuse` propagate: the tie is then broken and the check says so.

A Python value of the translated functions is either an integer or (for the
first parameter of functions that test isinstance(..., str)) a string; the
string world is represented by two oracles passed as Section variables:
  str_isnumeric : string -> bool      str_int : string -> option Z
(None = int() raises ValueError).
"""
import ast


class Refuse(Exception):
    pass


INT, BOOL, STR = "int", "bool", "str"


class FunTranslator:
    def __init__(self, fn: ast.FunctionDef, fuel_name="fuel"):
        self.fn = fn
        self.fuel = fuel_name
        self.loops = []          # auxiliary Fixpoints emitted before the function
        self.nloops = 0
        self.uses_str = False
        self.exc_names = set()

    # ------------------------------------------------------------ expressions
    def expr(self, e, env):
        """returns (gallina_text, type)"""
        if isinstance(e, ast.Constant):
            if isinstance(e.value, bool):
                return ("true" if e.value else "false"), BOOL
            if isinstance(e.value, int):
                return f"({e.value})%Z", INT
            raise Refuse(f"constant {e.value!r}")
        if isinstance(e, ast.Name):
            if e.id not in env:
                raise Refuse(f"unknown name {e.id}")
            return env[e.id]
        if isinstance(e, ast.UnaryOp):
            if isinstance(e.op, ast.Not):
                return f"(negb {self.boolean(e.operand, env)})", BOOL
            if isinstance(e.op, ast.USub):
                return f"(Z.opp {self.integer(e.operand, env)})", INT
            raise Refuse("unary op")
        if isinstance(e, ast.BinOp):
            a = self.integer(e.left, env)
            b = self.integer(e.right, env)
            ops = {ast.Add: "Z.add", ast.Sub: "Z.sub", ast.Mult: "Z.mul",
                   ast.FloorDiv: "Z.div", ast.Mod: "Z.modulo",
                   ast.Pow: "Z.pow", ast.LShift: "Z.shiftl",
                   ast.RShift: "Z.shiftr", ast.BitAnd: "Z.land",
                   ast.BitOr: "Z.lor"}
            for k, v in ops.items():
                if isinstance(e.op, k):
                    return f"({v} {a} {b})", INT
            raise Refuse(f"binary operator {type(e.op).__name__}")
        if isinstance(e, ast.BoolOp):
            parts = [self.boolean(v, env) for v in e.values]
            op = "andb" if isinstance(e.op, ast.And) else "orb"
            out = parts[-1]
            for p in reversed(parts[:-1]):
                out = f"({op} {p} {out})"
            return out, BOOL
        if isinstance(e, ast.Compare):
            terms = [e.left] + list(e.comparators)
            outs = []
            for l, op, r in zip(terms, e.ops, terms[1:]):
                outs.append(self.compare(l, op, r, env))
            out = outs[-1]
            for p in reversed(outs[:-1]):
                out = f"(andb {p} {out})"
            return out, BOOL
        if isinstance(e, ast.Call):
            # isinstance(x, str)
            if (isinstance(e.func, ast.Name) and e.func.id == "isinstance"
                    and len(e.args) == 2 and isinstance(e.args[1], ast.Name)
                    and e.args[1].id == "str" and isinstance(e.args[0], ast.Name)):
                name = e.args[0].id
                if name not in env:
                    raise Refuse(f"unknown name {name}")
                return ("true" if env[name][1] == STR else "false"), BOOL
            if (isinstance(e.func, ast.Attribute) and e.func.attr == "isnumeric"
                    and not e.args and isinstance(e.func.value, ast.Name)):
                txt, ty = self.expr(e.func.value, env)
                if ty != STR:
                    raise Refuse("isnumeric on non-string")
                self.uses_str = True
                return f"(str_isnumeric {txt})", BOOL
            raise Refuse(f"call {ast.dump(e.func)}")
        raise Refuse(f"expression {type(e).__name__}")

    def compare(self, l, op, r, env):
        # true division compared with an integer constant:  a / b > c  ==>  a > c*b
        if isinstance(l, ast.BinOp) and isinstance(l.op, ast.Div):
            if not isinstance(op, ast.Gt):
                raise Refuse("true division in a comparison other than '>'")
            a = self.integer(l.left, env)
            b = self.integer(l.right, env)
            c = self.integer(r, env)
            return f"(Z.gtb {a} (Z.mul {c} {b}))"
        a = self.integer(l, env)
        b = self.integer(r, env)
        ops = {ast.Lt: "Z.ltb", ast.LtE: "Z.leb", ast.Gt: "Z.gtb",
               ast.GtE: "Z.geb", ast.Eq: "Z.eqb"}
        for k, v in ops.items():
            if isinstance(op, k):
                return f"({v} {a} {b})"
        if isinstance(op, ast.NotEq):
            return f"(negb (Z.eqb {a} {b}))"
        raise Refuse(f"comparison {type(op).__name__}")

    def integer(self, e, env):
        txt, ty = self.expr(e, env)
        if ty == INT:
            return txt
        raise Refuse(f"expected an integer expression, got {ty}: {ast.dump(e)[:80]}")

    def boolean(self, e, env):
        txt, ty = self.expr(e, env)
        if ty == BOOL:
            return txt
        if ty == INT:
            return f"(negb (Z.eqb {txt} 0%Z))"
        raise Refuse("string in boolean context")

    # ------------------------------------------------------------- statements
    def assigned(self, stmts):
        out = []
        for s in stmts:
            if isinstance(s, ast.Assign):
                for t in s.targets:
                    if not isinstance(t, ast.Name):
                        raise Refuse("assignment target")
                    out.append(t.id)
            elif isinstance(s, ast.AugAssign):
                if not isinstance(s.target, ast.Name):
                    raise Refuse("assignment target")
                out.append(s.target.id)
            elif isinstance(s, (ast.If,)):
                out += self.assigned(s.body) + self.assigned(s.orelse)
            elif isinstance(s, ast.Expr) and isinstance(s.value, ast.Constant):
                pass
            else:
                raise Refuse(f"statement {type(s).__name__} inside a loop body")
        seen = []
        for n in out:
            if n not in seen:
                seen.append(n)
        return seen

    def raise_(self, exc_name, handlers, env, depth):
        """handlers: stack of (exception class name, handler stmts, rest stmts, outer handlers)"""
        for i in range(len(handlers) - 1, -1, -1):
            cls, hbody, rest = handlers[i]
            if cls == exc_name or cls == "Exception":
                return self.block(hbody + rest, env, handlers[:i], depth)
        self.exc_names.add(exc_name)
        return f"Raise E_{exc_name}"

    def block(self, stmts, env, handlers, depth=0):
        if depth > 200:
            raise Refuse("nesting too deep")
        if not stmts:
            return "Ret_None"
        s, rest = stmts[0], stmts[1:]
        ind = "  " * (depth + 1)
        if isinstance(s, ast.Expr) and isinstance(s.value, ast.Constant):
            return self.block(rest, env, handlers, depth)      # docstring
        if isinstance(s, ast.Return):
            if s.value is None:
                return "Ret_None"
            txt, ty = self.expr(s.value, env)
            if ty != INT:
                raise Refuse("non-integer return")
            return f"Ret {txt}"
        if isinstance(s, ast.Raise):
            exc = s.exc
            if isinstance(exc, ast.Call):
                exc = exc.func
            if not isinstance(exc, ast.Name):
                raise Refuse("raise of a non-name")
            return self.raise_(exc.id, handlers, env, depth)
        if isinstance(s, ast.Assign):
            if len(s.targets) != 1 or not isinstance(s.targets[0], ast.Name):
                raise Refuse("assignment form")
            name = s.targets[0].id
            # int(x) on a string: oracle, may raise ValueError
            v = s.value
            if (isinstance(v, ast.Call) and isinstance(v.func, ast.Name) and v.func.id == "int"
                    and len(v.args) == 1 and isinstance(v.args[0], ast.Name)
                    and env.get(v.args[0].id, (None, None))[1] == STR):
                self.uses_str = True
                src = env[v.args[0].id][0]
                fresh = self.fresh(name, env)
                env2 = dict(env)
                env2[name] = (fresh, INT)
                ok = self.block(rest, env2, handlers, depth + 1)
                bad = self.raise_("ValueError", handlers, env, depth + 1)
                return (f"match str_int {src} with\n{ind}| Some {fresh} => {ok}\n"
                        f"{ind}| None => {bad}\n{ind}end")
            txt, ty = self.expr(v, env)
            if ty == STR:
                raise Refuse("string assignment")
            fresh = self.fresh(name, env)
            env2 = dict(env)
            env2[name] = (fresh, ty)
            return f"let {fresh} := {txt} in\n{ind}{self.block(rest, env2, handlers, depth)}"
        if isinstance(s, ast.AugAssign):
            new = ast.Assign(targets=[s.target],
                             value=ast.BinOp(left=ast.Name(id=s.target.id, ctx=ast.Load()),
                                             op=s.op, right=s.value))
            return self.block([new] + rest, env, handlers, depth)
        if isinstance(s, ast.If):
            # isinstance guards are decided statically
            c = self.boolean(s.test, env)
            if c == "true":
                return self.block(s.body + rest, env, handlers, depth)
            if c == "false":
                return self.block(s.orelse + rest, env, handlers, depth)
            a = self.block(s.body + rest, env, handlers, depth + 1)
            b = self.block(s.orelse + rest, env, handlers, depth + 1)
            return f"if {c}\n{ind}then {a}\n{ind}else {b}"
        if isinstance(s, ast.Try):
            if s.orelse or s.finalbody or len(s.handlers) != 1:
                raise Refuse("try form")
            h = s.handlers[0]
            if not isinstance(h.type, ast.Name):
                raise Refuse("except form")
            hs = handlers + [(h.type.id, h.body, rest)]
            return self.block(s.body + [_PopHandler()] + rest, env, hs, depth)
        if isinstance(s, _PopHandler):
            return self.block(rest, env, handlers[:-1], depth)
        if isinstance(s, ast.For):
            # `for v in range(<int literals>)`: unrolled (at most 64 iterations); `break` / `continue` are outside the subset,
            # an early `return` ends the path as everywhere else
            it = s.iter
            if s.orelse or not isinstance(s.target, ast.Name) or not (
                    isinstance(it, ast.Call) and isinstance(it.func, ast.Name) and it.func.id == "range" and not it.keywords
                    and 1 <= len(it.args) <= 3 and "range" not in env
                    and all(isinstance(a, ast.Constant) and isinstance(a.value, int) and not isinstance(a.value, bool)
                            for a in it.args)):
                raise Refuse("for loop other than `for <name> in range(<integer literals>)`")
            values = list(range(*[a.value for a in it.args]))
            if len(values) > 64:
                raise Refuse("for loop with more than 64 iterations")
            unrolled = []
            for k in values:
                unrolled.append(ast.Assign(targets=[ast.Name(id=s.target.id, ctx=ast.Store())], value=ast.Constant(value=k)))
                unrolled.extend(s.body)
            out = self.block(unrolled + rest, env, handlers, depth)
            if len(out) > 200000:
                raise Refuse("unrolled for loop too large")
            return out
        if isinstance(s, ast.While):
            if s.orelse:
                raise Refuse("while/else")
            vars_ = [v for v in self.assigned(s.body)]
            for v in vars_:
                if v not in env or env[v][1] != INT:
                    raise Refuse(f"loop variable {v} not an integer defined before the loop")
            free = sorted(n for n, (t, ty) in env.items() if ty == INT and n not in vars_)
            self.nloops += 1
            lname = f"{self.fn.name}_loop{self.nloops}"
            lenv = {n: (f"v_{n}", INT) for n in vars_ + free}
            cond = self.boolean(s.test, lenv)
            body = self.loop_body(s.body, lenv, vars_)
            tup = self.tuple_([f"v_{v}" for v in vars_])
            params = " ".join(f"(v_{n} : Z)" for n in free + vars_)
            call_args = " ".join(f"v_{n}" for n in free)
            ty = " * ".join("Z" for _ in vars_)
            rec_call = f"{lname} {self.fuel}' {call_args}"
            self.loops.append(
                f"Fixpoint {lname} ({self.fuel} : nat) {params} {{struct {self.fuel}}} : option ({ty}) :=\n"
                f"  match {self.fuel} with\n  | O => None\n  | S {self.fuel}' =>\n"
                f"    if {cond}\n    then {body.replace('@REC@', rec_call)}\n"
                f"    else Some {tup}\n  end.\n")
            fresh = {v: self.fresh(v, env) for v in vars_}
            env2 = dict(env)
            for v in vars_:
                env2[v] = (fresh[v], INT)
            pat = self.tuple_([fresh[v] for v in vars_])
            args = " ".join(env[n][0] for n in free + vars_)
            restt = self.block(rest, env2, handlers, depth + 1)
            return (f"match {lname} {self.fuel} {args} with\n{ind}| None => OutOfFuel\n"
                    f"{ind}| Some {pat if len(vars_) == 1 else chr(39) + pat} => {restt}\n{ind}end")
        raise Refuse(f"statement {type(s).__name__}")

    def loop_body(self, stmts, env, vars_):
        if not stmts:
            return "@REC@ " + " ".join(env[v][0] for v in vars_)
        s, rest = stmts[0], stmts[1:]
        if isinstance(s, ast.Expr) and isinstance(s.value, ast.Constant):
            return self.loop_body(rest, env, vars_)
        if isinstance(s, ast.AugAssign):
            s = ast.Assign(targets=[s.target],
                           value=ast.BinOp(left=ast.Name(id=s.target.id, ctx=ast.Load()),
                                           op=s.op, right=s.value))
        if isinstance(s, ast.Assign):
            name = s.targets[0].id
            txt = self.integer(s.value, env)
            fresh = self.fresh(name, env)
            env2 = dict(env)
            env2[name] = (fresh, INT)
            return f"let {fresh} := {txt} in {self.loop_body(rest, env2, vars_)}"
        if isinstance(s, ast.If):
            c = self.boolean(s.test, env)
            return (f"if {c} then {self.loop_body(s.body + rest, env, vars_)} "
                    f"else {self.loop_body(s.orelse + rest, env, vars_)}")
        raise Refuse(f"statement {type(s).__name__} inside a loop body")

    @staticmethod
    def tuple_(names):
        return names[0] if len(names) == 1 else "(" + ", ".join(names) + ")"

    def fresh(self, name, env):
        used = {t for t, _ in env.values()}
        i = 0
        while True:
            cand = f"{name}_{i}"
            if cand not in used:
                return cand
            i += 1

    # ------------------------------------------------------------- function
    def translate(self, param_types):
        """param_types: list of INT/STR, one translation per combination is the caller's job"""
        args = [a.arg for a in self.fn.args.args]
        if len(args) != len(param_types):
            raise Refuse("arity")
        if self.fn.args.vararg or self.fn.args.kwarg or self.fn.args.kwonlyargs:
            raise Refuse("signature")
        env = {a: (f"p_{a}", t) for a, t in zip(args, param_types)}
        body = self.block(list(self.fn.body), env, [], 0)
        return args, body


class _PopHandler(ast.stmt):
    _fields = ()


def find_function(tree, name):
    for node in tree.body:
        if isinstance(node, ast.FunctionDef) and node.name == name:
            return node
    raise Refuse(f"function {name} not found")
