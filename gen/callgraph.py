"""
Over-approximate call graph and direct filesystem effects of the package
torrentfile, computed from the ast of /repo/torrentfile/*.py (DESIGN.md M9).

Resolution rules (each one over-approximates):
  f(...)            module-level function / imported package function / class named f
                    (a class makes ALL its methods and those of its bases reachable)
  self.m(...)       method m of the enclosing class, its bases and its subclasses
  mod.attr...(...)  attribute chain rooted at an imported non-package module: external
                    (an effect only if it is one of the listed primitives)
  x.m(...)          any other receiver: every package function or method named m
  v(...)            v a local/unknown name: every package class (constructor call)
Anything dynamic (exec/eval/subprocess/os.system/importlib/__import__/getattr with a
non-literal) marks the function Unknown.
"""
import ast
import os

PKG = "torrentfile"

# primitive -> effect kind
WRITE_PRIMS = {
    ("os", "remove"): "Remove", ("os", "unlink"): "Remove", ("os", "rmdir"): "Remove",
    ("os", "removedirs"): "Remove", ("shutil", "rmtree"): "Remove",
    ("os", "rename"): "Rename", ("os", "renames"): "Rename", ("os", "replace"): "Rename",
    ("shutil", "move"): "Rename",
    ("os", "mkdir"): "Mkdir", ("os", "makedirs"): "Mkdir",
    ("shutil", "copy"): "Copy", ("shutil", "copy2"): "Copy", ("shutil", "copyfile"): "Copy",
    ("shutil", "copytree"): "Copy", ("shutil", "copyfileobj"): "Copy",
    ("os", "chmod"): "Chmod", ("os", "chown"): "Chmod", ("os", "utime"): "Chmod",
    ("os", "truncate"): "Write", ("os", "symlink"): "Write", ("os", "link"): "Write",
    ("os", "open"): "Write", ("os", "write"): "Write", ("os", "mkfifo"): "Write",
    ("pyben", "dump"): "Write",
    ("tempfile", "mkstemp"): "Write", ("tempfile", "mkdtemp"): "Mkdir",
    ("tempfile", "NamedTemporaryFile"): "Write", ("tempfile", "TemporaryFile"): "Write",
    ("tempfile", "TemporaryDirectory"): "Mkdir",
}
READ_PRIMS = {
    ("os", "listdir"), ("os", "scandir"), ("os", "walk"), ("os", "stat"), ("os", "getcwd"),
    ("pyben", "load"), ("pyben", "loads"), ("pyben", "dumps"), ("shutil", "get_terminal_size"),
}
PATH_WRITE_METHODS = {"write_text", "write_bytes", "unlink", "mkdir", "rmdir", "touch", "rename", "replace",
                      "chmod", "symlink_to", "hardlink_to", "link_to"}
DYNAMIC = {"exec", "eval", "compile", "__import__"}
DYNAMIC_MODS = {"subprocess", "importlib", "ctypes", "multiprocessing", "socket", "runpy"}
DYNAMIC_ATTRS = {("os", "system"), ("os", "popen"), ("os", "spawnl"), ("os", "execv"), ("os", "fork")}


class Fn:
    def __init__(self, qual, module, cls, node):
        self.qual = qual          # "module.Class.method" or "module.func"
        self.module = module
        self.cls = cls
        self.node = node
        self.name = node.name
        self.calls = set()        # quals
        self.sites = []           # (targets, discarded: the call is a bare expression statement)
        self.effects = []         # (kind, detail)
        self.unknown = []         # reasons


class Graph:
    def __init__(self, repo):
        self.repo = repo
        self.fns = {}             # qual -> Fn
        self.classes = {}         # "module.Class" -> (bases [names], node, module)
        self.mod_imports = {}     # module -> {local name: ("module", modname) | ("pkgobj", module, name)}
        self.by_name = {}         # short name -> [quals]
        self.load()
        self.resolve()

    # ---------------------------------------------------------------- loading
    def load(self):
        pdir = os.path.join(self.repo, PKG)
        for fn in sorted(os.listdir(pdir)):
            if not fn.endswith(".py"):
                continue
            mod = fn[:-3]
            tree = ast.parse(open(os.path.join(pdir, fn), encoding="utf-8").read())
            imports = {}
            for node in ast.walk(tree):
                if isinstance(node, ast.Import):
                    for a in node.names:
                        imports[(a.asname or a.name).split(".")[0]] = ("module", a.name)
                elif isinstance(node, ast.ImportFrom):
                    src = node.module or ""
                    for a in node.names:
                        local = a.asname or a.name
                        if src == PKG:
                            imports[local] = ("pkgmod", a.name)
                        elif src.startswith(PKG + "."):
                            imports[local] = ("pkgobj", src.split(".", 1)[1], a.name)
                        else:
                            imports[local] = ("extobj", src, a.name)
            self.mod_imports[mod] = imports

            def add_fn(qual, cls, node):
                f = Fn(qual, mod, cls, node)
                self.fns[qual] = f
                self.by_name.setdefault(node.name, []).append(qual)

            def visit_body(body, prefix, cls):
                for node in body:
                    if isinstance(node, (ast.FunctionDef, ast.AsyncFunctionDef)):
                        add_fn(f"{prefix}.{node.name}", cls, node)
                        # nested defs are part of their parent (their calls are attributed to it)
                    elif isinstance(node, ast.ClassDef):
                        cq = f"{prefix}.{node.name}"
                        bases = []
                        for b in node.bases:
                            if isinstance(b, ast.Name):
                                bases.append(b.id)
                            elif isinstance(b, ast.Attribute):
                                bases.append(b.attr)
                        self.classes[cq] = (bases, node, mod)
                        visit_body(node.body, cq, cq)
            visit_body(tree.body, mod, None)
            # module-level code is a pseudo function
            top = ast.FunctionDef(name="<module>", args=ast.arguments(posonlyargs=[], args=[], kwonlyargs=[], kw_defaults=[], defaults=[]),
                                  body=[n for n in tree.body if not isinstance(n, (ast.FunctionDef, ast.ClassDef))] or [ast.Pass()],
                                  decorator_list=[])
            add_fn(f"{mod}.<module>", None, top)

    def class_by_short(self, name):
        return [cq for cq in self.classes if cq.split(".")[-1] == name]

    def methods_of_class(self, cq, seen=None):
        """all methods of a class and of its (package) bases, transitively"""
        seen = seen or set()
        if cq in seen:
            return []
        seen.add(cq)
        out = [q for q in self.fns if q.startswith(cq + ".") and "." not in q[len(cq) + 1:]]
        # inner classes too
        out += [q for q in self.fns if q.startswith(cq + ".")]
        for b in self.classes[cq][0]:
            for bq in self.class_by_short(b):
                out += self.methods_of_class(bq, seen)
        return list(dict.fromkeys(out))

    def subclasses(self, cq):
        short = cq.split(".")[-1]
        return [c for c, (bases, _, _) in self.classes.items() if short in bases]

    # --------------------------------------------------------------- resolving
    def returned_names(self, q):
        """names a package function can return, when ALL its return statements return bare names; else None"""
        fn = self.fns[q]
        out = []
        for node in ast.walk(fn.node):
            if isinstance(node, ast.Return):
                if node.value is None:
                    continue
                if isinstance(node.value, ast.Name):
                    out.append((fn.module, fn.cls, node.value.id))
                else:
                    return None
        return out

    def local_callables(self, f, imports):
        """locals bound to the result of a package call that returns classes/functions by name"""
        out = {}
        for node in ast.walk(f.node):
            if isinstance(node, ast.Assign) and len(node.targets) == 1 and isinstance(node.targets[0], ast.Name) \
                    and isinstance(node.value, ast.Call):
                fn = node.value.func
                targets = []
                if isinstance(fn, ast.Attribute) and isinstance(fn.value, ast.Name) and fn.value.id in ("self", "cls") and f.cls:
                    targets = [q for q in self.methods_of_class(f.cls) if q.split(".")[-1] == fn.attr]
                elif isinstance(fn, ast.Name) and f"{f.module}.{fn.id}" in self.fns:
                    targets = [f"{f.module}.{fn.id}"]
                if not targets:
                    continue
                res, ok = set(), True
                for q in targets:
                    names = self.returned_names(q)
                    if names is None:
                        ok = False
                        break
                    for mod, cls, name in names:
                        if f"{mod}.{name}" in self.classes:
                            res.add(("class", f"{mod}.{name}"))
                        elif f"{mod}.{name}" in self.fns:
                            res.add(("fn", f"{mod}.{name}"))
                        else:
                            ok = False
                if ok and res:
                    out[node.targets[0].id] = res
        return out

    def find_cells_and_escapes(self):
        """callback cells (attributes assigned through cls.X = / Class.X =) and package callables passed as arguments"""
        self.cells, self.escaped = set(), set()
        for f in self.fns.values():
            for node in ast.walk(f.node):
                if isinstance(node, ast.Assign):
                    for t in node.targets:
                        if isinstance(t, ast.Attribute) and isinstance(t.value, ast.Name):
                            if t.value.id == "cls" or any(c.split(".")[-1] == t.value.id for c in self.classes):
                                self.cells.add(t.attr)
                if isinstance(node, ast.Call):
                    for a in list(node.args) + [k.value for k in node.keywords]:
                        if isinstance(a, ast.Attribute) and isinstance(a.value, ast.Name) and a.value.id in ("self", "cls") and f.cls:
                            for q in self.methods_of_class(f.cls):
                                if q.split(".")[-1] == a.attr:
                                    self.escaped.add(q)
                        elif isinstance(a, ast.Name):
                            q = f"{f.module}.{a.id}"
                            if q in self.fns:
                                self.escaped.add(q)
                            imp = self.mod_imports[f.module].get(a.id)
                            if imp and imp[0] == "pkgobj" and f"{imp[1]}.{imp[2]}" in self.fns:
                                self.escaped.add(f"{imp[1]}.{imp[2]}")

    def resolve(self):
        self.find_cells_and_escapes()
        for f in self.fns.values():
            imports = self.mod_imports[f.module]
            self._locals = self.local_callables(f, imports)
            discarded = {id(n.value) for n in ast.walk(f.node) if isinstance(n, ast.Expr) and isinstance(n.value, ast.Call)}
            for node in ast.walk(f.node):
                if isinstance(node, ast.Call):
                    saved, f.calls = f.calls, set()
                    self.resolve_call(f, node, imports)
                    targets, f.calls = f.calls, saved | f.calls
                    f.sites.append((targets, id(node) in discarded))
            # decorators may wrap the function in a package class/function
            for d in getattr(f.node, "decorator_list", []):
                name = d.id if isinstance(d, ast.Name) else (d.func.id if isinstance(d, ast.Call) and isinstance(d.func, ast.Name) else None)
                if name:
                    self.call_name(f, name, imports)

    def root_of(self, node):
        chain = []
        while isinstance(node, ast.Attribute):
            chain.append(node.attr)
            node = node.value
        if isinstance(node, ast.Name):
            return node.id, list(reversed(chain))
        if isinstance(node, ast.Call):
            r, c = self.root_of(node.func)
            return ("<call>" + (r or "")), list(reversed(chain))
        return None, list(reversed(chain))

    def open_mode(self, call):
        mode = None
        if len(call.args) >= 2:
            mode = call.args[1]
        for kw in call.keywords:
            if kw.arg == "mode":
                mode = kw.value
        if mode is None:
            return "r"
        if isinstance(mode, ast.Constant) and isinstance(mode.value, str):
            return mode.value
        return "?"

    def call_name(self, f, name, imports):
        """call of a bare name"""
        if name in DYNAMIC:
            f.unknown.append(f"dynamic call {name}")
            return
        if name == "open":
            return  # handled by caller (needs the mode)
        imp = imports.get(name)
        if imp and imp[0] == "pkgobj":
            self.call_pkg_object(f, imp[1], imp[2])
            return
        if imp and imp[0] == "extobj":
            self.external(f, (imp[1].split(".")[0], imp[2]))
            return
        # same module function or class
        q = f"{f.module}.{name}"
        if q in self.fns:
            f.calls.add(q)
            return
        if q in self.classes:
            self.call_class(f, q)
            return
        # class nested in enclosing class
        if f.cls and f"{f.cls}.{name}" in self.classes:
            self.call_class(f, f"{f.cls}.{name}")
            return
        import builtins
        if hasattr(builtins, name):
            if name in ("getattr", "setattr", "globals", "vars"):
                pass
            return
        if name == "cls" and f.cls:
            self.call_class(f, f.cls)
            return
        if name in getattr(self, "_locals", {}):
            for kind, q in self._locals[name]:
                if kind == "class":
                    self.call_class(f, q)
                else:
                    f.calls.add(q)
            return
        # unknown local callable: every package class may be constructed
        for cq in self.classes:
            self.call_class(f, cq)

    def call_pkg_object(self, f, module, name):
        q = f"{module}.{name}"
        if q in self.fns:
            f.calls.add(q)
        elif q in self.classes:
            self.call_class(f, q)
        else:
            # a module-level alias (e.g. interactive = select_action): resolve by name everywhere
            for q2 in self.by_name.get(name, []):
                f.calls.add(q2)
            for cq in self.class_by_short(name):
                self.call_class(f, cq)

    def call_class(self, f, cq):
        for m in self.methods_of_class(cq):
            f.calls.add(m)
        for sub in self.subclasses(cq):
            for m in self.methods_of_class(sub):
                f.calls.add(m)

    def external(self, f, key, call=None):
        mod, attr = key
        if mod in DYNAMIC_MODS or key in DYNAMIC_ATTRS:
            f.unknown.append(f"dynamic/external process: {mod}.{attr}")
        elif key in WRITE_PRIMS:
            f.effects.append((WRITE_PRIMS[key], f"{mod}.{attr}"))
        elif key in READ_PRIMS or mod in ("os", "shutil", "pathlib", "pyben", "configparser"):
            if mod == "os" and attr == "path":
                return
            f.effects.append(("Read", f"{mod}.{attr}"))

    def resolve_call(self, f, call, imports):
        fn = call.func
        if isinstance(fn, ast.Name):
            if fn.id == "open":
                mode = self.open_mode(call)
                if set(mode) & set("wax+?"):
                    f.effects.append(("Write", f"open mode {mode!r}"))
                else:
                    f.effects.append(("Read", f"open mode {mode!r}"))
                return
            self.call_name(f, fn.id, imports)
            return
        if isinstance(fn, ast.Attribute):
            root, chain = self.root_of(fn)
            meth = chain[-1]
            if root in ("self", "cls") and len(chain) == 1 and meth in self.cells:
                for q in self.escaped:      # a callback cell may hold any callable that escapes as an argument
                    f.calls.add(q)
            if root in ("self", "cls") and len(chain) == 1 and f.cls:
                targets = [q for q in self.methods_of_class(f.cls) if q.split(".")[-1] == meth]
                for sub in self.subclasses(f.cls):
                    targets += [q for q in self.methods_of_class(sub) if q.split(".")[-1] == meth]
                if targets:
                    for q in targets:
                        f.calls.add(q)
                    return
                # attribute holding a callable (callback): any package function of that name, else benign
                for q in self.by_name.get(meth, []):
                    f.calls.add(q)
                return
            if root == "<call>super" and f.cls:
                # super().m(...): method m of the (package) bases of the enclosing class; external otherwise
                for b in self.classes[f.cls][0]:
                    for bq in self.class_by_short(b):
                        for q in self.methods_of_class(bq):
                            if q.split(".")[-1] == meth:
                                f.calls.add(q)
                return
            imp = imports.get(root) if root else None
            if imp and imp[0] == "module":
                modname = imp[1].split(".")[0]
                if modname == "os" and len(chain) >= 2 and chain[0] == "path":
                    if chain[1] in ("exists", "isfile", "isdir", "getsize", "getmtime", "islink", "samefile"):
                        f.effects.append(("Read", "os.path." + chain[1]))
                    return
                if len(chain) == 1:
                    self.external(f, (modname, meth), call)
                    return
                # e.g. sys.stdout.write: external and not a filesystem primitive
                if modname in DYNAMIC_MODS:
                    f.unknown.append(f"dynamic/external process: {modname}")
                return
            if imp and imp[0] == "pkgmod":
                if len(chain) == 1:
                    self.call_pkg_object(f, imp[1], meth)
                    return
            if imp and imp[0] == "extobj":
                # e.g. Path.home(): method on an external class
                if imp[2] == "Path" and meth in PATH_WRITE_METHODS:
                    f.effects.append(("Write", f"Path.{meth}"))
                return
            if imp and imp[0] == "pkgobj" and len(chain) == 1:
                # Class.method(...) or function attribute
                cq = f"{imp[1]}.{imp[2]}"
                if cq in self.classes:
                    for q in self.methods_of_class(cq):
                        if q.split(".")[-1] == meth:
                            f.calls.add(q)
                    return
            # Class.method(...) with a class of this module
            if root and f"{f.module}.{root}" in self.classes and len(chain) == 1:
                for q in self.methods_of_class(f"{f.module}.{root}"):
                    if q.split(".")[-1] == meth:
                        f.calls.add(q)
                return
            # any other receiver: every package function/method with that name
            if meth in PATH_WRITE_METHODS and meth not in ("replace", "rename") :
                f.effects.append(("Write", f"<obj>.{meth} (pathlib-like)"))
            for q in self.by_name.get(meth, []):
                f.calls.add(q)
            return
        if isinstance(fn, ast.Call) or isinstance(fn, ast.Subscript) or isinstance(fn, ast.Lambda):
            for cq in self.classes:
                self.call_class(f, cq)
            return
        f.unknown.append("call of an unsupported expression form")

    # ------------------------------------------------------------------ queries
    def reach(self, roots):
        seen, todo = set(), list(roots)
        while todo:
            q = todo.pop()
            if q in seen or q not in self.fns:
                continue
            seen.add(q)
            todo.extend(self.fns[q].calls)
        return seen
